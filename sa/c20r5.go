package main

// C20 R-5: operands index the function's tables as unsigned values.
//
// Instruction operands are int8; a table index of 128…255 is stored as a negative operand and every
// reader converts it back with uint8(x) (or decodes two operands). An index expression on a slice field
// of runtime.Function whose static type is a signed 8- or 16-bit integer therefore faults ("index out of
// range [-128]") for a program that is within the limits — in package compiler this is a panic of Build,
// in package runtime a fatal error.

import (
	"go/ast"
	"go/types"
	"strings"
)

func init() {
	p := registry["C20"]
	if p == nil {
		return
	}
	run := p.run
	p.run = func(r *Run) { run(r); c20UnsignedIndex(r, "R-5") }
	p.explain += " R-5: no table of runtime.Function is indexed with an expression of a signed 8- or 16-bit type (operands above 127 are negative as int8)."
}

func c20UnsignedIndex(r *Run, R string) {
	fnT := r.P.Named("internal/runtime", "Function")
	if !r.Anchor(R, "runtime.Function", fnT != nil) {
		return
	}
	st, _ := fnT.Underlying().(*types.Struct)
	tables := map[*types.Var]bool{}
	for i := 0; st != nil && i < st.NumFields(); i++ {
		f := st.Field(i)
		if _, ok := f.Type().Underlying().(*types.Slice); ok {
			tables[f] = true
		}
		// nested struct of slices (Values)
		if s2, ok := f.Type().Underlying().(*types.Struct); ok {
			for j := 0; j < s2.NumFields(); j++ {
				if _, ok := s2.Field(j).Type().Underlying().(*types.Slice); ok {
					tables[s2.Field(j)] = true
				}
			}
		}
	}
	n := 0
	for _, rel := range []string{"internal/compiler", "internal/runtime", ""} {
		for _, fi := range r.P.Funcs(rel) {
			if r.P.isTestFile(fi.File) {
				continue
			}
			info := fi.Pkg.TypesInfo
			seen := map[string]int{}
			ast.Inspect(fi.Decl.Body, func(m ast.Node) bool {
				ix, ok := m.(*ast.IndexExpr)
				if !ok {
					return true
				}
				sel, ok := ast.Unparen(ix.X).(*ast.SelectorExpr)
				if !ok {
					return true
				}
				fv, ok := info.Uses[sel.Sel].(*types.Var)
				if !ok || !tables[fv] {
					return true
				}
				if tv := info.Types[ix.Index]; tv.Value != nil {
					return true // constant index
				}
				n++
				// peel the conversions: the operand itself and the first conversion applied to it
				inner := ast.Unparen(ix.Index)
				var firstConv types.Type
				for {
					c, ok := inner.(*ast.CallExpr)
					if !ok || len(c.Args) != 1 {
						break
					}
					tv, ok := info.Types[c.Fun]
					if !ok || !tv.IsType() {
						break
					}
					firstConv = tv.Type
					inner = ast.Unparen(c.Args[0])
				}
				key := fi.Name() + "#" + fv.Name() + "[" + strings.TrimSpace(typeStr(info.TypeOf(inner))) + "]"
				seen[key]++
				o := r.Ob(R, key, ix.Pos())
				b, _ := info.TypeOf(inner).Underlying().(*types.Basic)
				if b == nil || (b.Kind() != types.Int8 && b.Kind() != types.Int16) {
					o.OK("index operand %s has type %s", exprStr(inner), typeStr(info.TypeOf(inner)))
					return true
				}
				want := types.Uint8
				if b.Kind() == types.Int16 {
					want = types.Uint16
				}
				if fb, ok := firstConv.(*types.Basic); firstConv != nil && ok && fb.Kind() == want || firstConv != nil && isBasicKind(firstConv, want) {
					o.OK("the %s operand %s is converted with %s first", b.Name(), exprStr(inner), typeStr(firstConv))
					return true
				}
				// a dominating test that the operand is not negative
				g := r.P.CFGOf(fi)
				nonneg := g.GuardedBy(ix, func(l Lit) bool {
					be, ok := ast.Unparen(l.Expr).(*ast.BinaryExpr)
					if !ok || l.Tag != nil || exprStr(be.X) != exprStr(inner) {
						return false
					}
					v, isC := intValue(info, be.Y)
					if !isC || v != 0 {
						return false
					}
					return (be.Op.String() == ">=" && l.Truth) || (be.Op.String() == "<" && !l.Truth)
				})
				if nonneg {
					o.OK("the %s operand %s is tested to be non-negative before the access", b.Name(), exprStr(inner))
					return true
				}
				how := "without a conversion"
				if firstConv != nil {
					how = "through " + typeStr(firstConv) + "(…), which sign-extends"
				}
				o.Bad("%s is indexed with the %s operand %s %s: an index above %d is negative in that type and the access panics although the program is within the table's limit (convert with u%s first)", fv.Name(), b.Name(), exprStr(inner), how, map[types.BasicKind]int{types.Int8: 127, types.Int16: 32767}[b.Kind()], b.Name())
				return true
			})
		}
	}
	r.Require(R, 20)
}

func isBasicKind(t types.Type, k types.BasicKind) bool {
	b, ok := t.Underlying().(*types.Basic)
	return ok && b.Kind() == k
}
