package main

// C01 — interpreted programs behave like the same program compiled by gc (DESIGN.md §5 C01).
// Only the tables through which operator identity, width, signedness and fault class travel
// from the emitter to the VM are decided here:
//
//   R-1 every runtime.Operation has a reachable case in the interpreter's opcode switch
//   R-2 every opcode an emitter can negate (constant-operand form) is listed, negated, by the VM
//       in a clause that reads the sign of the opcode
//   R-3 per arithmetic / conversion handler and per operand kind: the clause taken for the kind
//       computes in a type of that kind's width and signedness and truncates where Go wraps
//   R-4 every runtime.Condition reaching the If emitter is handled by an OpIf* handler
//   R-5 every opcode whose handler contains a Go operation that can raise a run-time panic the
//       language specifies is classified by the panic classifier (or tests the operand itself)

import (
	"fmt"
	"go/ast"
	"go/constant"
	"go/token"
	"go/types"
	"sort"
	"strings"

	"golang.org/x/tools/go/ssa"
)

func init() {
	register("C01", &ruleSet{
		explain: "Structural necessary conditions of emitter/VM agreement, all read from the type-checked source: (R-1) each of the runtime.Operation constants except the zero no-op has a case in the opcode switch of the interpreter loop; (R-2) each opcode constant that can reach a negation `op = -op` in package compiler (SSA value flow) is listed negated in the opcode switch, in a clause that tests the sign of the opcode; (R-3) for each arithmetic handler whose kind operand comes from the instruction and for OpConvertInt/Uint/Float, and for each operand kind flattenIntegerKind can produce (plus the float kinds that can reach the handler), the statements selected for that kind (switch clauses and kind predicates evaluated from syntax) contain the handler's operator on an operand of the right class, convert only to types of the kind's width and signedness (or losslessly wider), truncate to the kind's width where the 64-bit result can differ, and use an operand of the kind's signedness for / % >>; (R-4) every Condition constant that can flow into the If emitter at a call site is handled by the OpIf* handler of the register class of the call site (constant kind) or named by at least one handler (kind not constant); (R-5) each opcode label whose handler contains an integer / or %, an index, slice or map-store on program data, an interface comparison, a signed shift count, or a call of reflect's Index/Slice3/SetMapIndex/MapIndex/Send/Close/MakeSlice/MakeChan is listed in the opcode switch of the panic classifier; a shift whose count is a signed value converted to unsigned must be preceded by a sign test in the handler.",
		notCov: []string{
			"register allocation, stack shifting, call frames, defer/recover state machine, closures, strings, package initialisation order",
			"whether the operands of a handler are the right registers (a swapped operand is not detected)",
			"R-4: for call sites whose kind argument is not a constant only the existence of a handler naming the condition is decided, not that the handler is the one of the register class at run time",
			"R-5: whether the classifier's clause recognises the specific message of the fault; faults raised inside helper methods of the VM (fieldByIndex, appendSlice, getIntoReflectValue)",
		},
		trusted: []string{
			"frozen table of reflect functions that panic on a condition the Go specification defines: Value.Index, Value.Slice3, Value.Slice, Value.SetMapIndex, Value.MapIndex, Value.Send, Value.Close, MakeSlice, MakeChan",
			"Go specification: integer overflow wraps at the operand width; / % >> depend on signedness; a negative shift count panics; integer division by zero panics",
			"registers hold integers sign- or zero-extended to 64 bits according to their static type",
		},
		run:     runC01,
		arch386: true,
	})
}

// c01Exceptions: one symbol, one reason (brief §5). Key: rule + " " + construct.
var c01Exceptions = map[string]string{
	"R-5 runtime.(*VM).run#-OpDiv:divide":       "the divisor of the negated form is a constant and the type checker rejects a constant zero divisor ('division by zero')",
	"R-5 runtime.(*VM).run#-OpDivInt:divide":    "the divisor of the negated form is a constant and the type checker rejects a constant zero divisor ('division by zero')",
	"R-5 runtime.(*VM).run#-OpRem:divide":       "the divisor of the negated form is a constant and the type checker rejects a constant zero divisor ('division by zero')",
	"R-5 runtime.(*VM).run#-OpRemInt:divide":    "the divisor of the negated form is a constant and the type checker rejects a constant zero divisor ('division by zero')",
	"R-5 runtime.(*VM).run#OpIfInt:map-key":     "the key is read from an integer register into a value of the map's key type: always hashable",
	"R-5 runtime.(*VM).run#-OpIfInt:map-key":    "the key is an integer constant: always hashable",
	"R-5 runtime.(*VM).run#OpIfFloat:map-key":   "the key is read from a float register: always hashable",
	"R-5 runtime.(*VM).run#-OpIfFloat:map-key":  "the key is a float constant: always hashable",
	"R-5 runtime.(*VM).run#OpIfString:map-key":  "the key is read from a string register: always hashable",
	"R-5 runtime.(*VM).run#-OpIfString:map-key": "the key is a string constant: always hashable",
}

type c01 struct {
	r        *Run
	rt       string // "internal/runtime"
	opT      *types.Named
	condT    *types.Named
	kindT    *types.Named
	ops      []*types.Const
	opName   map[int64]string
	kinds    map[string]int64 // reflect.Kind constant name -> value
	kindName map[int64]string
	run      *FuncInfo
	opSwitch *ast.SwitchStmt
	cover    *switchCover
	sizes    types.Sizes
}

func runC01(r *Run) {
	x := &c01{r: r, rt: "internal/runtime", opName: map[int64]string{}, kinds: map[string]int64{}, kindName: map[int64]string{}}
	r.Exhaust = true
	x.opT = r.P.Named(x.rt, "Operation")
	x.condT = r.P.Named(x.rt, "Condition")
	x.kindT = r.P.ExtNamed("reflect", "Kind")
	if !r.Anchor("R-1", "runtime.Operation", x.opT != nil) || !r.Anchor("R-4", "runtime.Condition", x.condT != nil) || !r.Anchor("R-3", "reflect.Kind", x.kindT != nil) {
		return
	}
	x.ops = EnumConsts(x.opT)
	for _, c := range x.ops {
		v, _ := constantInt64(c)
		x.opName[v] = c.Name()
	}
	for _, c := range EnumConsts(x.kindT) {
		v, _ := constantInt64(c)
		x.kinds[c.Name()] = v
		if _, dup := x.kindName[v]; !dup || c.Name() == "Pointer" {
			x.kindName[v] = c.Name()
		}
	}
	x.sizes = r.P.Pkg(x.rt).TypesSizes
	x.findLoop()
	if !r.Anchor("R-1", "interpreter loop (method of VM with a for that reads Body[pc] and switches on the opcode)", x.run != nil) {
		return
	}
	x.cover = coverOfSwitch(x.run.Pkg.TypesInfo, x.opSwitch)
	if r.P.Arch != "" {
		// the repetition under another GOARCH: only R-3 depends on the sizes of int/uint/uintptr
		x.ruleR3()
		return
	}
	x.ruleR1()
	x.ruleR2()
	x.ruleR3()
	x.ruleR4()
	x.ruleR5()
}

func (x *c01) key(detail string) string { return x.run.Name() + "#" + detail }

// label renders an opcode value as the source writes it.
func (x *c01) label(v int64) string {
	if v < 0 {
		if n, ok := x.opName[-v]; ok {
			return "-" + n
		}
	}
	if n, ok := x.opName[v]; ok {
		return n
	}
	return fmt.Sprint(v)
}

// findLoop resolves the interpreter loop by role.
func (x *c01) findLoop() {
	vmT := x.r.P.Named(x.rt, "VM")
	instrT := x.r.P.Named(x.rt, "Instruction")
	if vmT == nil || instrT == nil {
		return
	}
	var found []*FuncInfo
	var sws []*ast.SwitchStmt
	for _, fi := range x.r.P.Funcs(x.rt) {
		if x.r.P.isTestFile(fi.File) || fi.Obj == nil {
			continue
		}
		recv := fi.Obj.Type().(*types.Signature).Recv()
		if recv == nil {
			continue
		}
		t := recv.Type()
		if p, ok := t.(*types.Pointer); ok {
			t = p.Elem()
		}
		if !types.Identical(t, vmT) {
			continue
		}
		info := fi.Pkg.TypesInfo
		ast.Inspect(fi.Decl.Body, func(n ast.Node) bool {
			f, ok := n.(*ast.ForStmt)
			if !ok {
				return true
			}
			reads := false
			var sw *ast.SwitchStmt
			for _, st := range f.Body.List {
				ast.Inspect(st, func(m ast.Node) bool {
					if ix, ok := m.(*ast.IndexExpr); ok {
						if sl, ok := info.TypeOf(ix.X).(*types.Slice); ok && types.Identical(sl.Elem(), instrT) {
							reads = true
						}
					}
					return true
				})
				if s, ok := st.(*ast.SwitchStmt); ok && s.Tag != nil && reads {
					if tt := info.TypeOf(s.Tag); tt != nil && types.Identical(tt, x.opT) {
						sw = s
					}
				}
			}
			if sw != nil {
				found = append(found, fi)
				sws = append(sws, sw)
				return false
			}
			return true
		})
	}
	if len(found) == 1 {
		x.run, x.opSwitch = found[0], sws[0]
	}
}

// ---------------------------------------------------------------------------
// R-1 opcode exhaustiveness

func (x *c01) ruleR1() {
	const R = "R-1"
	for _, e := range x.cover.NonConst {
		x.r.Ob(R, x.key("case:"+exprStr(e)), e.Pos()).Unknown("non-constant case label in the opcode switch")
	}
	for _, c := range x.ops {
		v, _ := constantInt64(c)
		o := x.r.Ob(R, x.key(c.Name()), x.opSwitch.Pos())
		if cc := x.cover.Vals[v]; cc != nil {
			o.Pos = x.r.P.Pos(cc.Pos())
			o.OK("case %s present", c.Name())
			continue
		}
		if v == 0 {
			// the zero Operation is the no-op and the operand carrier of two-word instructions
			if x.cover.Default == nil {
				o.OK("%s (zero value, emitted as no-op) has no case and the switch has no default: executing it does nothing", c.Name())
			} else {
				o.Unknown("%s has no case but the opcode switch has a default clause: its effect on a no-op must be reviewed", c.Name())
			}
			continue
		}
		o.Bad("opcode %s has no case in the interpreter's opcode switch: an instruction with this opcode is silently skipped", c.Name())
	}
	x.r.Require(R, 90)
}

// ---------------------------------------------------------------------------
// R-2 negated opcodes

// c01ConstSet traces an SSA value of a named integer type back to the constants it can hold.
func c01ConstSet(fn *ssa.Function, v ssa.Value, seen map[ssa.Value]bool, out map[int64]bool) (ok bool) {
	if seen[v] {
		return true
	}
	seen[v] = true
	switch t := v.(type) {
	case *ssa.Const:
		if t.Value == nil {
			return false
		}
		n, exact := constant.Int64Val(constant.ToInt(t.Value))
		if !exact {
			return false
		}
		out[n] = true
		return true
	case *ssa.Phi:
		for _, e := range t.Edges {
			if !c01ConstSet(fn, e, seen, out) {
				return false
			}
		}
		return true
	case *ssa.ChangeType:
		return c01ConstSet(fn, t.X, seen, out)
	case *ssa.Convert:
		return c01ConstSet(fn, t.X, seen, out)
	case *ssa.BinOp:
		if t.Op != token.ADD && t.Op != token.SUB {
			return false
		}
		l, r := map[int64]bool{}, map[int64]bool{}
		if !c01ConstSet(fn, t.X, map[ssa.Value]bool{v: true}, l) || !c01ConstSet(fn, t.Y, map[ssa.Value]bool{v: true}, r) {
			return false
		}
		for a := range l {
			for b := range r {
				if t.Op == token.ADD {
					out[a+b] = true
				} else {
					out[a-b] = true
				}
			}
		}
		return true
	case *ssa.UnOp:
		switch t.Op {
		case token.SUB:
			// the negated value itself (a store of -op read back): contributes nothing new
			return true
		case token.MUL: // load
			return c01LoadSet(fn, t.X, seen, out)
		}
	}
	return false
}

// c01LoadSet collects the values stored to the address addr (a local or a field of a local).
func c01LoadSet(fn *ssa.Function, addr ssa.Value, seen map[ssa.Value]bool, out map[int64]bool) bool {
	switch a := addr.(type) {
	case *ssa.Alloc:
		return c01FieldSet(fn, a, -1, seen, out)
	case *ssa.FieldAddr:
		if al, ok := a.X.(*ssa.Alloc); ok {
			return c01FieldSet(fn, al, a.Field, seen, out)
		}
	}
	return false
}

// c01FieldSet collects the constants stored to field `field` of the local `al` (field < 0: the
// local itself), following whole-value copies from other locals (composite literals).
func c01FieldSet(fn *ssa.Function, al *ssa.Alloc, field int, seen map[ssa.Value]bool, out map[int64]bool) bool {
	n := 0
	for _, b := range fn.Blocks {
		for _, in := range b.Instrs {
			st, ok := in.(*ssa.Store)
			if !ok {
				continue
			}
			switch a := st.Addr.(type) {
			case *ssa.FieldAddr:
				if field >= 0 && a.X == ssa.Value(al) && a.Field == field {
					n++
					if !c01ConstSet(fn, st.Val, seen, out) {
						return false
					}
				}
			case *ssa.Alloc:
				if a != al {
					continue
				}
				n++
				if field < 0 {
					if !c01ConstSet(fn, st.Val, seen, out) {
						return false
					}
					continue
				}
				// whole-value store: must be a copy of another local
				ld, ok := st.Val.(*ssa.UnOp)
				if !ok || ld.Op != token.MUL {
					return false
				}
				src, ok := ld.X.(*ssa.Alloc)
				if !ok {
					return false
				}
				if seen[src] {
					continue
				}
				seen[src] = true
				if !c01FieldSet(fn, src, field, seen, out) {
					return false
				}
			}
		}
	}
	return n > 0
}

// c01ReadsInstruction reports whether v is the opcode field read out of an existing instruction
// value (a field of a struct that is not a local of the function under construction).
func c01ReadsInstruction(v ssa.Value, opT types.Type) bool {
	for i := 0; i < 8; i++ {
		switch t := v.(type) {
		case *ssa.Phi:
			// op = in.Op; if op < 0 { op = -op }: every edge must be the decoded field or its negation
			for _, e := range t.Edges {
				if u, ok := e.(*ssa.UnOp); ok && u.Op == token.SUB {
					continue
				}
				if !c01ReadsInstruction(e, opT) {
					return false
				}
			}
			return true
		case *ssa.Field:
			return true
		case *ssa.UnOp:
			if t.Op != token.MUL {
				return false
			}
			switch a := t.X.(type) {
			case *ssa.FieldAddr:
				al, local := a.X.(*ssa.Alloc)
				if !local {
					return true
				}
				// a local copy of an instruction: every store to it must copy an existing instruction
				fn := al.Parent()
				n := 0
				for _, b := range fn.Blocks {
					for _, in := range b.Instrs {
						st, ok := in.(*ssa.Store)
						if !ok {
							continue
						}
						if fa, ok := st.Addr.(*ssa.FieldAddr); ok && fa.X == ssa.Value(al) && fa.Field == a.Field {
							return false
						}
						if st.Addr == ssa.Value(al) {
							ld, ok := st.Val.(*ssa.UnOp)
							if !ok || ld.Op != token.MUL {
								return false
							}
							if _, ok := ld.X.(*ssa.IndexAddr); !ok {
								return false
							}
							n++
						}
					}
				}
				return n > 0
			case *ssa.IndexAddr:
				return true
			}
			return false
		case *ssa.ChangeType:
			v = t.X
		default:
			return false
		}
	}
	return false
}

func (x *c01) ruleR2() {
	const R = "R-2"
	info := x.run.Pkg.TypesInfo
	tagObj := types.Object(nil)
	if id, ok := ast.Unparen(x.opSwitch.Tag).(*ast.Ident); ok {
		tagObj = info.Uses[id]
	}
	signTested := map[*ast.CaseClause]bool{}
	readsSign := func(cc *ast.CaseClause) bool {
		if v, ok := signTested[cc]; ok {
			return v
		}
		found := false
		for _, st := range cc.Body {
			ast.Inspect(st, func(n ast.Node) bool {
				b, ok := n.(*ast.BinaryExpr)
				if !ok || found {
					return !found
				}
				switch b.Op {
				case token.LSS, token.GEQ, token.GTR, token.LEQ:
					for _, p := range [][2]ast.Expr{{b.X, b.Y}, {b.Y, b.X}} {
						id, ok := ast.Unparen(p[0]).(*ast.Ident)
						if !ok || tagObj == nil || info.Uses[id] != tagObj {
							continue
						}
						if v, ok := intValue(info, p[1]); ok && v == 0 {
							found = true
						}
					}
				}
				return !found
			})
		}
		signTested[cc] = found
		return found
	}
	sites := 0
	for _, fi := range x.r.P.Funcs("internal/compiler") {
		if x.r.P.isTestFile(fi.File) || fi.Obj == nil {
			continue
		}
		fn := x.r.P.SSAFunc(fi)
		if fn == nil {
			continue
		}
		for _, b := range fn.Blocks {
			for _, in := range b.Instrs {
				u, ok := in.(*ssa.UnOp)
				if !ok || u.Op != token.SUB || !types.Identical(u.Type(), x.opT) {
					continue
				}
				sites++
				set := map[int64]bool{}
				if c01ReadsInstruction(u.X, x.opT) {
					// normalises the opcode of an existing instruction (disassembler): not an emitter
					x.r.Stats["negations_of_decoded_opcodes"]++
					continue
				}
				if !c01ConstSet(fn, u.X, map[ssa.Value]bool{}, set) || len(set) == 0 {
					x.r.Ob(R, fi.Name()+"#negation", u.Pos()).Unknown("cannot enumerate the opcodes reaching the negation in %s", fi.Name())
					continue
				}
				// the zero Operation (an unassigned `var op`) negates to itself: covered by R-1
				delete(set, 0)
				var vals []int64
				for v := range set {
					vals = append(vals, v)
				}
				sort.Slice(vals, func(i, j int) bool { return vals[i] < vals[j] })
				for _, v := range vals {
					o := x.r.Ob(R, fi.Name()+"#"+x.label(-v), u.Pos())
					cc := x.cover.Vals[-v]
					switch {
					case cc == nil:
						o.Bad("%s can emit %s (constant operand form) but the interpreter's opcode switch has no case for it: the instruction is silently skipped", fi.Name(), x.label(-v))
					case !readsSign(cc):
						o.Bad("%s can emit %s and the interpreter lists it, but the clause never tests the sign of the opcode: the constant operand is read as a register", fi.Name(), x.label(-v))
					default:
						o.OK("interpreter lists %s in a clause that tests the opcode's sign", x.label(-v))
					}
				}
			}
		}
	}
	x.r.Stats["negation_sites"] = sites
	x.r.Require(R, 40)
}

// ---------------------------------------------------------------------------
// R-3 kind / width consistency

type c01Conv struct {
	to   *types.Basic
	from types.Type
	pos  token.Pos
}

type c01Arith struct {
	tok     token.Token // NEG is represented as token.NOT here (unary minus)
	operand types.Type
	pos     token.Pos
}

const c01Neg = token.TILDE // stands for unary minus in c01Arith.tok

func c01TokName(t token.Token) string {
	if t == c01Neg {
		return "unary -"
	}
	return t.String()
}

func c01BasicOf(t types.Type) *types.Basic {
	if t == nil {
		return nil
	}
	b, _ := t.Underlying().(*types.Basic)
	return b
}

func c01IsInt(b *types.Basic) bool   { return b != nil && b.Info()&types.IsInteger != 0 }
func c01IsFloat(b *types.Basic) bool { return b != nil && b.Info()&types.IsFloat != 0 }
func c01IsUns(b *types.Basic) bool   { return b != nil && b.Info()&types.IsUnsigned != 0 }

// c01Scan collects the arithmetic expressions and numeric conversions of a statement on the value
// path: index expressions' indices and shift counts are not part of the value and are skipped.
func (x *c01) scan(info *types.Info, n ast.Node, ariths *[]c01Arith, convs *[]c01Conv) {
	var visit func(n ast.Node)
	visit = func(n ast.Node) {
		ast.Inspect(n, func(m ast.Node) bool {
			switch e := m.(type) {
			case *ast.FuncLit:
				return false
			case *ast.IndexExpr:
				visit(e.X)
				return false
			case *ast.BinaryExpr:
				switch e.Op {
				case token.ADD, token.SUB, token.MUL, token.QUO, token.REM, token.SHL, token.SHR:
					if b := c01BasicOf(info.TypeOf(e)); c01IsInt(b) || c01IsFloat(b) {
						if tv := info.Types[e]; tv.Value == nil {
							*ariths = append(*ariths, c01Arith{e.Op, info.TypeOf(e.X), e.Pos()})
						}
					}
					if e.Op == token.SHL || e.Op == token.SHR {
						visit(e.X)
						return false
					}
				}
			case *ast.UnaryExpr:
				if e.Op == token.SUB {
					if b := c01BasicOf(info.TypeOf(e)); (c01IsInt(b) || c01IsFloat(b)) && info.Types[e].Value == nil {
						*ariths = append(*ariths, c01Arith{c01Neg, info.TypeOf(e.X), e.Pos()})
					}
				}
			case *ast.CallExpr:
				if len(e.Args) == 1 {
					if tv, ok := info.Types[e.Fun]; ok && tv.IsType() {
						if b, ok := tv.Type.(*types.Basic); ok && (c01IsInt(b) || c01IsFloat(b)) {
							*convs = append(*convs, c01Conv{b, info.TypeOf(e.Args[0]), e.Pos()})
						}
					}
				}
			}
			return true
		})
	}
	visit(n)
}

// goTypeOfKind maps a reflect kind constant to the basic Go type it names.
func (x *c01) goTypeOfKind(k int64) *types.Basic {
	n, ok := x.kindName[k]
	if !ok {
		return nil
	}
	o := types.Universe.Lookup(strings.ToLower(n))
	if o == nil {
		return nil
	}
	b, _ := o.Type().(*types.Basic)
	if b == nil || !(c01IsInt(b) || c01IsFloat(b)) {
		return nil
	}
	return b
}

func (x *c01) size(b *types.Basic) int64 { return x.sizes.Sizeof(b) }

// convOK: may a value of kind K be converted to type b on its way to the result?
func (x *c01) convOK(b, k *types.Basic) bool {
	switch {
	case c01IsInt(k) && c01IsInt(b):
		if x.size(b) == 8 {
			return !c01IsUns(b) || c01IsUns(k) // int64 is the register; uint64 only for unsigned kinds
		}
		return x.size(b) == x.size(k) && c01IsUns(b) == c01IsUns(k)
	case c01IsFloat(k) && c01IsFloat(b):
		return x.size(b) == 8 || x.size(k) == 4
	case c01IsFloat(k) && c01IsInt(b), c01IsInt(k) && c01IsFloat(b):
		return false
	}
	return false
}

// truncates: does a conversion to b wrap a 64-bit value to kind K's width and signedness?
func (x *c01) truncates(b, k *types.Basic) bool {
	if c01IsInt(k) {
		return c01IsInt(b) && x.size(b) == x.size(k) && c01IsUns(b) == c01IsUns(k)
	}
	return c01IsFloat(b) && x.size(b) == x.size(k)
}

// operandOK: may / % >> of kind K be computed on operands of type b?
func (x *c01) operandOK(b, k *types.Basic) bool {
	if !c01IsInt(b) || !c01IsInt(k) {
		return false
	}
	if c01IsUns(b) == c01IsUns(k) && (x.size(b) == x.size(k) || x.size(b) == 8) {
		return true
	}
	// a narrow unsigned value is zero-extended: signed 64-bit arithmetic gives the same result
	return !c01IsUns(b) && c01IsUns(k) && x.size(b) == 8 && x.size(k) < 8
}

func (x *c01) needsTrunc(tok token.Token, k *types.Basic) bool {
	if c01IsFloat(k) {
		if x.size(k) == 8 {
			return false
		}
		switch tok {
		case token.ADD, token.SUB, token.MUL, token.QUO:
			return true
		}
		return false
	}
	if x.size(k) == 8 {
		return false
	}
	switch tok {
	case token.ADD, token.SUB, token.MUL, token.SHL, c01Neg:
		return true
	case token.QUO:
		return !c01IsUns(k) // MinIntN / -1
	}
	return false
}

func (x *c01) findKindFunc() *FuncInfo {
	var cands []*FuncInfo
	for _, fi := range x.r.P.Funcs("internal/compiler") {
		if x.r.P.isTestFile(fi.File) || fi.Obj == nil || fi.Decl.Recv != nil {
			continue
		}
		sig := fi.Obj.Type().(*types.Signature)
		if sig.Params().Len() == 1 && sig.Results().Len() == 1 && types.Identical(sig.Params().At(0).Type(), x.kindT) && types.Identical(sig.Results().At(0).Type(), x.kindT) {
			cands = append(cands, fi)
		}
	}
	if len(cands) == 1 {
		return cands[0]
	}
	for _, c := range cands {
		if c.Decl.Name.Name == "flattenIntegerKind" {
			return c
		}
	}
	return nil
}

// floatFastPath returns the opcodes assigned in the default clause of a kind switch of package
// compiler whose explicit cases include reflect.Float64: the operation is defined on floats and
// the other float kind (Float32) reaches the generic handler.
func (x *c01) floatFastPath() map[int64]bool {
	out := map[int64]bool{}
	f64 := x.kinds["Float64"]
	for _, fi := range x.r.P.Funcs("internal/compiler") {
		if x.r.P.isTestFile(fi.File) {
			continue
		}
		info := fi.Pkg.TypesInfo
		for _, sw := range switchesOn(info, fi.Decl.Body, x.kindT) {
			cov := coverOfSwitch(info, sw)
			if cov.Default == nil || cov.Vals[f64] == nil {
				continue
			}
			ast.Inspect(cov.Default, func(n ast.Node) bool {
				if as, ok := n.(*ast.AssignStmt); ok && len(as.Rhs) == 1 {
					if c := constOf(info, as.Rhs[0]); c != nil && types.Identical(c.Type(), x.opT) {
						v, _ := constantInt64(c)
						out[v] = true
					}
				}
				return true
			})
		}
	}
	return out
}

type c01Handler struct {
	clause *ast.CaseClause
	first  int64 // smallest positive label
	labels []int64
}

func (x *c01) handlers() []*c01Handler {
	info := x.run.Pkg.TypesInfo
	var out []*c01Handler
	for _, st := range x.opSwitch.Body.List {
		cc := st.(*ast.CaseClause)
		if cc.List == nil {
			continue
		}
		h := &c01Handler{clause: cc}
		for _, e := range cc.List {
			if v, ok := intValue(info, e); ok {
				h.labels = append(h.labels, v)
				if v > 0 && (h.first == 0 || v < h.first) {
					h.first = v
				}
			}
		}
		if h.first == 0 && len(h.labels) > 0 {
			h.first = h.labels[0]
		}
		out = append(out, h)
	}
	return out
}

// kindSource classifies the non-constant reflect.Kind expressions of a handler:
// "operand" when all derive from a conversion of an instruction operand, "type" when all are
// Kind() calls on one local, "" when there are none, "mixed" otherwise.
func (x *c01) kindSource(h *c01Handler) string {
	info := x.run.Pkg.TypesInfo
	src := map[string]bool{}
	for _, st := range h.clause.Body {
		ast.Inspect(st, func(n ast.Node) bool {
			e, ok := n.(ast.Expr)
			if !ok {
				return true
			}
			tv, has := info.Types[e]
			if !has || tv.Value != nil || tv.IsType() || !types.Identical(tv.Type, x.kindT) {
				return true
			}
			switch c := ast.Unparen(e).(type) {
			case *ast.CallExpr:
				if ft, ok := info.Types[c.Fun]; ok && ft.IsType() && len(c.Args) == 1 {
					if id, ok := ast.Unparen(c.Args[0]).(*ast.Ident); ok && c01IsInt(c01BasicOf(info.TypeOf(id))) {
						src["operand:"+id.Name] = true
						return false
					}
				}
				if sel, ok := c.Fun.(*ast.SelectorExpr); ok && len(c.Args) == 0 {
					if id, ok := ast.Unparen(sel.X).(*ast.Ident); ok {
						src["type:"+id.Name] = true
						return false
					}
				}
				src["other:"+exprStr(e)] = true
			case *ast.Ident:
				// a local defined from one of the forms above: classified at its definition
			default:
				src["other:"+exprStr(e)] = true
			}
			return true
		})
	}
	if len(src) == 0 {
		return ""
	}
	if len(src) > 1 {
		return "mixed"
	}
	for k := range src {
		return k[:strings.IndexByte(k, ':')]
	}
	return ""
}

func (x *c01) ruleR3() {
	const R = "R-3"
	info := x.run.Pkg.TypesInfo
	flat := x.findKindFunc()
	if !x.r.Anchor(R, "compiler function reflect.Kind -> reflect.Kind flattening the integer kinds", flat != nil) {
		return
	}
	// image of the flattening over the integer kinds, and the numeric kinds
	image := map[int64]bool{}
	var intKinds, numKinds []int64
	for k := range x.kindName {
		if b := x.goTypeOfKind(k); b != nil {
			numKinds = append(numKinds, k)
			if c01IsInt(b) {
				intKinds = append(intKinds, k)
			}
		}
	}
	sort.Slice(numKinds, func(i, j int) bool { return numKinds[i] < numKinds[j] })
	sort.Slice(intKinds, func(i, j int) bool { return intKinds[i] < intKinds[j] })
	for _, k := range intKinds {
		vals, unk := c01EvalFunc(flat, k)
		if len(unk) > 0 || len(vals) == 0 {
			x.r.Ob(R, flat.Name()+"#"+x.kindName[k], flat.Decl.Pos()).Unknown("cannot evaluate %s(%s): %s", flat.Name(), x.kindName[k], strings.Join(unk, "; "))
			return
		}
		for v := range vals {
			if b := x.goTypeOfKind(v); b == nil || !c01IsInt(b) {
				x.r.Ob(R, flat.Name()+"#"+x.kindName[k], flat.Decl.Pos()).Bad("%s(%s) can yield %s, which is not an integer kind", flat.Name(), x.kindName[k], x.kindName[v])
				continue
			}
			image[v] = true
		}
	}
	var imageKinds []int64
	for k := range image {
		imageKinds = append(imageKinds, k)
	}
	sort.Slice(imageKinds, func(i, j int) bool { return imageKinds[i] < imageKinds[j] })
	x.r.Stats["flatten_image"] = len(imageKinds)
	fast := x.floatFastPath()
	f32, f64 := x.kinds["Float32"], x.kinds["Float64"]

	nArith, nConv := 0, 0
	for _, h := range x.handlers() {
		name := x.label(h.first)
		src := x.kindSource(h)
		isConv := false
		for _, l := range h.labels {
			switch x.opName[l] {
			case "OpConvertInt", "OpConvertUint", "OpConvertFloat":
				isConv = true
			}
		}
		switch {
		case isConv:
			nConv++
			if src != "type" {
				x.r.Ob(R, x.key(name), h.clause.Pos()).Unknown("conversion handler %s does not select on the Kind() of one type value (found %q)", name, src)
				continue
			}
			for _, k := range numKinds {
				x.checkConvert(R, h, name, k)
			}
		case src == "operand":
			nArith++
			// the handler's operator
			var ar []c01Arith
			var cv []c01Conv
			for _, st := range h.clause.Body {
				x.scan(info, st, &ar, &cv)
				// … and the helpers of the package the kind is handed to (a kind switch extracted
				// into a function is still this handler's arithmetic)
				ast.Inspect(st, func(n ast.Node) bool {
					if c, ok := n.(*ast.CallExpr); ok {
						if decl, hinfo := x.kindHelper(c); decl != nil {
							x.scan(hinfo, decl.Body, &ar, &cv)
						}
					}
					return true
				})
			}
			toks := map[token.Token]bool{}
			hasFloat := false
			for _, a := range ar {
				toks[a.tok] = true
				if c01IsFloat(c01BasicOf(a.operand)) {
					hasFloat = true
				}
			}
			if len(toks) != 1 {
				x.r.Ob(R, x.key(name), h.clause.Pos()).Unknown("handler %s selects on an operand kind but contains %d distinct arithmetic operators: cannot tell which operation it implements", name, len(toks))
				continue
			}
			var tok token.Token
			for t := range toks {
				tok = t
			}
			dom := append([]int64{}, imageKinds...)
			if hasFloat || fast[h.first] {
				dom = append(dom, f32)
			}
			if hasFloat {
				dom = append(dom, f64)
			}
			for _, k := range dom {
				x.checkArith(R, h, name, tok, k)
			}
		case src == "mixed":
			// a handler mixing kind sources cannot be walked with one selector
			for _, l := range h.labels {
				switch x.opName[l] {
				case "OpAdd", "OpSub", "OpSubInv", "OpMul", "OpDiv", "OpRem", "OpNeg", "OpShl", "OpShr":
					x.r.Ob(R, x.key(name), h.clause.Pos()).Unknown("handler %s uses several kind sources", name)
				}
			}
		}
	}
	x.r.Stats["arith_handlers"] = nArith
	x.r.Stats["convert_handlers"] = nConv
	if nArith < 9 {
		x.r.Ob(R, x.key("arith-handlers"), x.opSwitch.Pos()).Unknown("only %d handlers select on a kind operand of the instruction (9 confirmed by reading: Add Sub SubInv Mul Div Rem Neg Shl Shr)", nArith)
	}
	if nConv < 3 {
		x.r.Ob(R, x.key("convert-handlers"), x.opSwitch.Pos()).Unknown("only %d of OpConvertInt/OpConvertUint/OpConvertFloat found", nConv)
	}
	x.r.Require(R, 100)
}

// kindHelper resolves a call, made by a handler, of a function of package runtime that receives the kind
// (a parameter of type reflect.Kind): its body is walked in place of the call.
func (x *c01) kindHelper(c *ast.CallExpr) (*ast.FuncDecl, *types.Info) {
	info := x.run.Pkg.TypesInfo
	f := callee(info, c)
	if f == nil || f.Pkg() != x.run.Obj.Pkg() || f == x.run.Obj {
		return nil, nil
	}
	sig := f.Type().(*types.Signature)
	takesKind := false
	for i := 0; i < sig.Params().Len(); i++ {
		if types.Identical(sig.Params().At(i).Type(), x.kindT) {
			takesKind = true
		}
	}
	if !takesKind {
		return nil, nil
	}
	for _, fi := range x.r.P.Funcs(x.rt) {
		if fi.Obj == f && !x.r.P.isTestFile(fi.File) {
			return fi.Decl, fi.Pkg.TypesInfo
		}
	}
	return nil, nil
}

// infoOf returns the type information covering node n (all functions of package runtime share one).
func (x *c01) infoOf(n ast.Node) *types.Info { return x.run.Pkg.TypesInfo }

// walkKind walks handler h with the kind selector fixed to k.
func (x *c01) walkKind(h *c01Handler, k int64) (ar []c01Arith, arSel []bool, cvSel []c01Conv, selStmts int, unknown []string) {
	info := x.run.Pkg.TypesInfo
	s := &c01Sel{info: info, selType: x.kindT, val: k, helper: x.kindHelper}
	s.leaf = func(n ast.Node, sel, exp bool) {
		var a []c01Arith
		var c []c01Conv
		x.scan(x.infoOf(n), n, &a, &c)
		for _, e := range a {
			ar = append(ar, e)
			arSel = append(arSel, sel)
		}
		if sel {
			cvSel = append(cvSel, c...)
			if _, ok := n.(ast.Stmt); ok {
				selStmts++
			}
		}
	}
	s.stmts(h.clause.Body, false, false)
	return ar, arSel, cvSel, selStmts, s.unknown
}

func (x *c01) checkArith(R string, h *c01Handler, name string, tok token.Token, k int64) {
	kb := x.goTypeOfKind(k)
	o := x.r.Ob(R, x.key(name+":"+x.kindName[k]), h.clause.Pos())
	ar, _, cv, _, unk := x.walkKind(h, k)
	if len(unk) > 0 {
		o.Unknown("%s", strings.Join(unk, "; "))
		return
	}
	// the operator, on an operand of the kind's class
	var ops []c01Arith
	for _, a := range ar {
		ob := c01BasicOf(a.operand)
		if a.tok == tok && ((c01IsInt(kb) && c01IsInt(ob)) || (c01IsFloat(kb) && c01IsFloat(ob))) {
			ops = append(ops, a)
		}
	}
	if len(ops) == 0 {
		o.Bad("%s: no %s on %s operands is executed when the operand kind is %s (no clause for the kind): the result register is left with a wrong value", name, c01TokName(tok), map[bool]string{true: "integer", false: "float"}[c01IsInt(kb)], x.kindName[k])
		return
	}
	for _, c := range cv {
		if !x.convOK(c.to, kb) {
			o.Pos = x.r.P.Pos(c.pos)
			o.Bad("%s: the statements selected for kind %s convert to %s, which is not the width/signedness of %s", name, x.kindName[k], c.to.Name(), kb.Name())
			return
		}
	}
	if tok == token.QUO || tok == token.REM || tok == token.SHR {
		if c01IsInt(kb) {
			for _, a := range ops {
				if !x.operandOK(c01BasicOf(a.operand), kb) {
					o.Pos = x.r.P.Pos(a.pos)
					o.Bad("%s: for kind %s the operator %s is applied to operands of type %s: wrong signedness or width", name, x.kindName[k], c01TokName(tok), typeStr(a.operand))
					return
				}
			}
		}
	}
	if x.needsTrunc(tok, kb) {
		found := false
		for _, c := range cv {
			if x.truncates(c.to, kb) {
				found = true
			}
		}
		if !found {
			o.Bad("%s: for kind %s the result of %s is never converted to %s: it does not wrap at the kind's width", name, x.kindName[k], c01TokName(tok), kb.Name())
			return
		}
	}
	o.OK("%s/%s: %s executed on %s operands; %d conversions on the selected path, all compatible with %s", name, x.kindName[k], c01TokName(tok), typeStr(ops[0].operand), len(cv), kb.Name())
}

func (x *c01) checkConvert(R string, h *c01Handler, name string, k int64) {
	kb := x.goTypeOfKind(k)
	o := x.r.Ob(R, x.key(name+":"+x.kindName[k]), h.clause.Pos())
	_, _, cv, selStmts, unk := x.walkKind(h, k)
	if len(unk) > 0 {
		o.Unknown("%s", strings.Join(unk, "; "))
		return
	}
	if selStmts == 0 {
		o.Bad("%s: no statement is selected when the target kind is %s: the destination register is not written", name, x.kindName[k])
		return
	}
	srcFloat := false
	for _, c := range cv {
		if !x.convOK(c.to, kb) {
			o.Pos = x.r.P.Pos(c.pos)
			o.Bad("%s: the clause for target kind %s converts to %s, which is not the width/signedness of %s", name, x.kindName[k], c.to.Name(), kb.Name())
			return
		}
		if c01IsFloat(c01BasicOf(c.from)) {
			srcFloat = true
		}
	}
	need := x.size(kb) < 8 || (c01IsInt(kb) && c01IsUns(kb) && srcFloat)
	if need {
		found := false
		for _, c := range cv {
			if x.truncates(c.to, kb) {
				found = true
			}
		}
		if !found {
			o.Bad("%s: the clause for target kind %s never converts to a type of %s's width and signedness", name, x.kindName[k], kb.Name())
			return
		}
	}
	o.OK("%s/%s: %d conversions in the selected clause, all compatible with %s", name, x.kindName[k], len(cv), kb.Name())
}

// ---------------------------------------------------------------------------
// R-4 condition coverage

func (x *c01) ruleR4() {
	const R = "R-4"
	info := x.run.Pkg.TypesInfo
	conds := EnumConsts(x.condT)
	condName := map[int64]string{}
	for _, c := range conds {
		v, _ := constantInt64(c)
		condName[v] = c.Name()
	}
	// VM side: handlers containing a Condition-typed selector
	type ifHandler struct {
		h       *c01Handler
		result  types.Object
		any     map[int64]bool
		explict map[int64]bool
	}
	var hs []*ifHandler
	byOp := map[int64]*ifHandler{}
	for _, h := range x.handlers() {
		has := false
		for _, st := range h.clause.Body {
			ast.Inspect(st, func(n ast.Node) bool {
				if e, ok := n.(ast.Expr); ok {
					if tv, ok := info.Types[e]; ok && tv.Value == nil && !tv.IsType() && types.Identical(tv.Type, x.condT) {
						has = true
					}
				}
				return !has
			})
		}
		if !has {
			continue
		}
		ih := &ifHandler{h: h, any: map[int64]bool{}, explict: map[int64]bool{}}
		// result variable: the bool tested by the top-level if that advances the program counter
		for _, st := range h.clause.Body {
			is, ok := st.(*ast.IfStmt)
			if !ok {
				continue
			}
			id, ok := ast.Unparen(is.Cond).(*ast.Ident)
			if !ok {
				continue
			}
			inc := false
			ast.Inspect(is.Body, func(n ast.Node) bool {
				if _, ok := n.(*ast.IncDecStmt); ok {
					inc = true
				}
				return true
			})
			if inc {
				ih.result = info.Uses[id]
			}
		}
		if ih.result == nil {
			x.r.Ob(R, x.key(x.label(h.first)), h.clause.Pos()).Unknown("handler %s reads a Condition but has no `if <bool> { pc++ }` result test", x.label(h.first))
			continue
		}
		for _, c := range conds {
			v, _ := constantInt64(c)
			s := &c01Sel{info: info, selType: x.condT, val: v}
			s.leaf = func(n ast.Node, sel, exp bool) {
				as, ok := n.(*ast.AssignStmt)
				if !ok {
					return
				}
				for _, l := range as.Lhs {
					if id, ok := l.(*ast.Ident); ok && (info.Uses[id] == ih.result || info.Defs[id] == ih.result) {
						ih.any[v] = true
						if exp {
							ih.explict[v] = true
						}
					}
				}
			}
			s.stmts(h.clause.Body, false, false)
			if len(s.unknown) > 0 {
				x.r.Ob(R, x.key(x.label(h.first)+":"+c.Name()), h.clause.Pos()).Unknown("%s", strings.Join(s.unknown, "; "))
			}
		}
		hs = append(hs, ih)
		for _, l := range h.labels {
			byOp[l] = ih
		}
	}
	if !x.r.Anchor(R, "OpIf* handlers (clauses of the opcode switch reading a runtime.Condition)", len(hs) >= 4) {
		return
	}
	x.r.Stats["if_handlers"] = len(hs)

	// builder side: the If emitter
	var emitIf *FuncInfo
	n := 0
	for _, fi := range x.r.P.Funcs("internal/compiler") {
		if x.r.P.isTestFile(fi.File) || fi.Obj == nil {
			continue
		}
		sig := fi.Obj.Type().(*types.Signature)
		for i := 0; i < sig.Params().Len(); i++ {
			if types.Identical(sig.Params().At(i).Type(), x.condT) {
				emitIf = fi
				n++
			}
		}
	}
	if !x.r.Anchor(R, "the If emitter (the one function of package compiler with a runtime.Condition parameter)", n == 1) {
		return
	}
	sig := emitIf.Obj.Type().(*types.Signature)
	condIdx, kindIdx := -1, -1
	for i := 0; i < sig.Params().Len(); i++ {
		switch {
		case types.Identical(sig.Params().At(i).Type(), x.condT):
			condIdx = i
		case types.Identical(sig.Params().At(i).Type(), x.kindT):
			kindIdx = i
		}
	}
	if !x.r.Anchor(R, "kind parameter of the If emitter", kindIdx >= 0) {
		return
	}
	// kind -> opcode: the switch of the emitter assigning the handlers' opcodes, over a table function of the kind
	cinfo := emitIf.Pkg.TypesInfo
	var classSw *ast.SwitchStmt
	var classFn *FuncInfo
	ast.Inspect(emitIf.Decl.Body, func(nd ast.Node) bool {
		sw, ok := nd.(*ast.SwitchStmt)
		if !ok || sw.Tag == nil {
			return true
		}
		call, ok := ast.Unparen(sw.Tag).(*ast.CallExpr)
		if !ok || len(call.Args) != 1 {
			return true
		}
		id, ok := ast.Unparen(call.Args[0]).(*ast.Ident)
		if !ok || cinfo.Uses[id] != sig.Params().At(kindIdx) {
			return true
		}
		if f := callee(cinfo, call); f != nil {
			for _, fi := range x.r.P.Funcs("internal/compiler") {
				if fi.Obj == f {
					classSw, classFn = sw, fi
				}
			}
		}
		return true
	})
	opOfKind := func(k int64) (int64, string) {
		if classSw == nil {
			return 0, "the If emitter does not switch on a table function of its kind parameter"
		}
		vals, unk := c01EvalFunc(classFn, k)
		if len(unk) > 0 || len(vals) != 1 {
			return 0, "cannot evaluate " + classFn.Name()
		}
		var cls int64
		for v := range vals {
			cls = v
		}
		cov := coverOfSwitch(cinfo, classSw)
		cc := cov.Vals[cls]
		if cc == nil {
			cc = cov.Default
		}
		if cc == nil {
			return 0, "no clause of the If emitter for the register class"
		}
		var ops []int64
		ast.Inspect(cc, func(nd ast.Node) bool {
			if as, ok := nd.(*ast.AssignStmt); ok && len(as.Rhs) == 1 {
				if c := constOf(cinfo, as.Rhs[0]); c != nil && types.Identical(c.Type(), x.opT) {
					v, _ := constantInt64(c)
					ops = append(ops, v)
				}
			}
			return true
		})
		if len(ops) != 1 {
			return 0, "the clause of the If emitter does not assign exactly one opcode"
		}
		return ops[0], ""
	}

	emitSSA := x.r.P.SSAFunc(emitIf)
	if !x.r.Anchor(R, "SSA of the If emitter", emitSSA != nil) {
		return
	}
	off := 0
	if sig.Recv() != nil {
		off = 1
	}
	for _, fi := range x.r.P.Funcs("internal/compiler") {
		if x.r.P.isTestFile(fi.File) || fi.Obj == nil {
			continue
		}
		fn := x.r.P.SSAFunc(fi)
		if fn == nil {
			continue
		}
		fns := []*ssa.Function{fn}
		fns = append(fns, fn.AnonFuncs...)
		for _, f := range fns {
			for _, b := range f.Blocks {
				for _, in := range b.Instrs {
					call, ok := in.(ssa.CallInstruction)
					if !ok || call.Common().StaticCallee() != emitSSA {
						continue
					}
					args := call.Common().Args
					set := map[int64]bool{}
					if !c01ConstSet(f, args[condIdx+off], map[ssa.Value]bool{}, set) || len(set) == 0 {
						x.r.Ob(R, fi.Name()+"#emitIf:?", call.Pos()).Unknown("cannot enumerate the conditions passed to the If emitter in %s", fi.Name())
						continue
					}
					kset := map[int64]bool{}
					kconst := c01ConstSet(f, args[kindIdx+off], map[ssa.Value]bool{}, kset) && len(kset) == 1
					var vals []int64
					for v := range set {
						vals = append(vals, v)
					}
					sort.Slice(vals, func(i, j int) bool { return vals[i] < vals[j] })
					for _, v := range vals {
						cn, ok := condName[v]
						if !ok {
							x.r.Ob(R, fi.Name()+fmt.Sprintf("#emitIf:%d", v), call.Pos()).Bad("%s passes the value %d, which is no runtime.Condition constant", fi.Name(), v)
							continue
						}
						o := x.r.Ob(R, fi.Name()+"#emitIf:"+cn, call.Pos())
						if kconst {
							var k int64
							for kk := range kset {
								k = kk
							}
							op, why := opOfKind(k)
							if why != "" {
								o.Unknown("%s", why)
								continue
							}
							ih := byOp[op]
							if ih == nil {
								o.Bad("the If emitter maps kind %s to %s, which has no Condition handler in the interpreter", x.kindName[k], x.label(op))
								continue
							}
							if ih.any[v] {
								o.OK("kind %s -> %s, whose handler assigns the result for %s", x.kindName[k], x.label(op), cn)
							} else {
								o.Bad("%s emits %s with kind %s (%s) but that handler never assigns its result for %s: the branch is always not taken", fi.Name(), cn, x.kindName[k], x.label(op), cn)
							}
							continue
						}
						var exp, any []string
						for _, ih := range hs {
							if ih.explict[v] {
								exp = append(exp, x.label(ih.h.first))
							} else if ih.any[v] {
								any = append(any, x.label(ih.h.first))
							}
						}
						switch {
						case len(exp) > 0:
							o.OK("kind not constant at the call site; %s named by %s", cn, strings.Join(exp, ","))
						case len(any) > 0:
							o.Unknown("%s reaches only catch-all branches (%s): cannot decide which register class handles it", cn, strings.Join(any, ","))
						default:
							o.Bad("%s can emit %s but no OpIf* handler assigns its result for it: the branch is always not taken", fi.Name(), cn)
						}
					}
				}
			}
		}
	}
	x.r.Require(R, 35)
}

// ---------------------------------------------------------------------------
// R-5 fault classification

// reflect functions that panic on a condition the Go specification defines (frozen table).
var c01ReflectFaults = map[string]string{
	"Value.Index":       "index",
	"Value.Slice3":      "slice",
	"Value.Slice":       "slice",
	"Value.SetMapIndex": "map-store",
	"Value.MapIndex":    "map-key",
	"Value.Send":        "send",
	"Value.Close":       "close",
	"MakeSlice":         "make",
	"MakeChan":          "make",
	"Select":            "select-send", // a send case on a closed channel panics with "send on closed channel"
}

// c01SelectRecvOnly reports whether every reflect.SelectCase literal of the clause has the receive
// direction and there is at least one: the slice given to reflect.Select in that clause then holds
// receive cases (plus the cancellation case) only, and selecting over it cannot fault.
func c01SelectRecvOnly(info *types.Info, clause ast.Node) bool {
	n, allRecv := 0, true
	ast.Inspect(clause, func(m ast.Node) bool {
		cl, ok := m.(*ast.CompositeLit)
		if !ok {
			return true
		}
		if t := info.TypeOf(cl); t == nil || typeStr(t) != "reflect.SelectCase" {
			return true
		}
		n++
		dir := ""
		for _, el := range cl.Elts {
			if kv, ok := el.(*ast.KeyValueExpr); ok {
				if k, ok := kv.Key.(*ast.Ident); ok && k.Name == "Dir" {
					if c := constOf(info, kv.Value); c != nil {
						dir = c.Name()
					}
				}
			}
		}
		if dir != "SelectRecv" {
			allRecv = false
		}
		return true
	})
	return n > 0 && allRecv
}

func (x *c01) findClassifier() (*FuncInfo, *ast.SwitchStmt) {
	var fis []*FuncInfo
	var sws []*ast.SwitchStmt
	for _, fi := range x.r.P.Funcs(x.rt) {
		if x.r.P.isTestFile(fi.File) || fi.Obj == nil || fi == x.run || fi.Obj == x.run.Obj {
			continue
		}
		sig := fi.Obj.Type().(*types.Signature)
		hasAny := false
		for i := 0; i < sig.Params().Len(); i++ {
			if it, ok := sig.Params().At(i).Type().Underlying().(*types.Interface); ok && it.Empty() {
				hasAny = true
			}
		}
		if !hasAny || sig.Results().Len() != 1 {
			continue
		}
		for _, sw := range switchesOn(fi.Pkg.TypesInfo, fi.Decl.Body, x.opT) {
			fis = append(fis, fi)
			sws = append(sws, sw)
		}
	}
	if len(fis) == 1 {
		return fis[0], sws[0]
	}
	return nil, nil
}

func (x *c01) ruleR5() {
	const R = "R-5"
	info := x.run.Pkg.TypesInfo
	cls, csw := x.findClassifier()
	if !x.r.Anchor(R, "panic classifier (the function of package runtime taking the recovered value and switching on the opcode)", cls != nil) {
		return
	}
	listed := coverOfSwitch(cls.Pkg.TypesInfo, csw).Vals
	tagObj := types.Object(nil)
	if id, ok := ast.Unparen(x.opSwitch.Tag).(*ast.Ident); ok {
		tagObj = info.Uses[id]
	}
	recv := types.Object(nil)
	if x.run.Decl.Recv != nil && len(x.run.Decl.Recv.List) > 0 && len(x.run.Decl.Recv.List[0].Names) > 0 {
		recv = info.Defs[x.run.Decl.Recv.List[0].Names[0]]
	}
	rtPkg := x.run.Obj.Pkg()
	// rooted: field selections starting at the receiver (tables of the VM, not program data)
	var rooted func(e ast.Expr) bool
	rooted = func(e ast.Expr) bool {
		switch t := ast.Unparen(e).(type) {
		case *ast.Ident:
			return recv != nil && info.Uses[t] == recv
		case *ast.SelectorExpr:
			return rooted(t.X)
		case *ast.IndexExpr:
			return rooted(t.X)
		}
		return false
	}
	internalElem := func(t types.Type) bool {
		var el types.Type
		switch u := t.Underlying().(type) {
		case *types.Slice:
			el = u.Elem()
		case *types.Array:
			el = u.Elem()
		case *types.Pointer:
			if a, ok := u.Elem().Underlying().(*types.Array); ok {
				el = a.Elem()
			}
		}
		if el == nil {
			return false
		}
		if p, ok := el.(*types.Pointer); ok {
			el = p.Elem()
		}
		if nt, ok := el.(*types.Named); ok && nt.Obj().Pkg() != nil {
			return nt.Obj().Pkg() == rtPkg || nt.Obj().Pkg().Path() == "reflect"
		}
		return false
	}
	nsites := 0
	for _, h := range x.handlers() {
		name := x.label(h.first)
		par := x.r.P.Parents(x.run.File)
		// definitions of locals inside the handler
		defOf := func(id *ast.Ident) ast.Expr {
			obj := info.Uses[id]
			var out ast.Expr
			n := 0
			for _, st := range h.clause.Body {
				ast.Inspect(st, func(m ast.Node) bool {
					as, ok := m.(*ast.AssignStmt)
					if !ok || len(as.Lhs) != len(as.Rhs) {
						return true
					}
					for i, l := range as.Lhs {
						if li, ok := l.(*ast.Ident); ok && (info.Defs[li] == obj || info.Uses[li] == obj) && obj != nil {
							out = as.Rhs[i]
							n++
						}
					}
					return true
				})
			}
			if n == 1 {
				return out
			}
			return nil
		}
		classes := map[string]token.Pos{}
		add := func(c string, p token.Pos) {
			if _, ok := classes[c]; !ok {
				classes[c] = p
			}
		}
		// bounded: x.Index(i) with i the key of an enclosing `for i := range n`, n == x.Len()
		bounded := func(call *ast.CallExpr, recvExpr ast.Expr) bool {
			if len(call.Args) != 1 {
				return false
			}
			id, ok := ast.Unparen(call.Args[0]).(*ast.Ident)
			if !ok {
				return false
			}
			ro, ok := ast.Unparen(recvExpr).(*ast.Ident)
			if !ok {
				return false
			}
			for n := par[call]; n != nil; n = par[n] {
				rs, ok := n.(*ast.RangeStmt)
				if !ok {
					continue
				}
				k, ok := rs.Key.(*ast.Ident)
				if !ok || info.Defs[k] != info.Uses[id] {
					continue
				}
				lim := ast.Unparen(rs.X)
				if li, ok := lim.(*ast.Ident); ok {
					if d := defOf(li); d != nil {
						lim = ast.Unparen(d)
					}
				}
				if lc, ok := lim.(*ast.CallExpr); ok && len(lc.Args) == 0 {
					if sel, ok := lc.Fun.(*ast.SelectorExpr); ok {
						if f := callee(info, lc); f != nil && f.Name() == "Len" {
							if xo, ok := ast.Unparen(sel.X).(*ast.Ident); ok && info.Uses[xo] == info.Uses[ro] {
								return true
							}
						}
					}
				}
			}
			return false
		}
		hashableKey := func(arg ast.Expr) bool {
			e := ast.Unparen(arg)
			if id, ok := e.(*ast.Ident); ok {
				if d := defOf(id); d != nil {
					e = ast.Unparen(d)
				}
			}
			if c, ok := e.(*ast.CallExpr); ok && len(c.Args) == 1 {
				if f := callee(info, c); isPkgFunc(f, "reflect", "", "ValueOf") {
					if b := c01BasicOf(info.TypeOf(c.Args[0])); b != nil && b.Kind() != types.UntypedNil {
						return true
					}
				}
			}
			return false
		}
		signTest := false
		for _, st := range h.clause.Body {
			ast.Inspect(st, func(m ast.Node) bool {
				switch e := m.(type) {
				case *ast.FuncLit:
					return false
				case *ast.BinaryExpr:
					switch e.Op {
					case token.QUO, token.REM:
						if c01IsInt(c01BasicOf(info.TypeOf(e))) && info.Types[e.Y].Value == nil {
							add("divide", e.Pos())
						}
					case token.SHL, token.SHR:
						if info.Types[e.Y].Value != nil {
							break
						}
						cnt := ast.Unparen(e.Y)
						if id, ok := cnt.(*ast.Ident); ok {
							if d := defOf(id); d != nil {
								cnt = ast.Unparen(d)
							}
						}
						if c, ok := cnt.(*ast.CallExpr); ok && len(c.Args) == 1 {
							if tv, ok := info.Types[c.Fun]; ok && tv.IsType() && c01IsInt(c01BasicOf(tv.Type)) && c01IsUns(c01BasicOf(tv.Type)) {
								if ab := c01BasicOf(info.TypeOf(c.Args[0])); c01IsInt(ab) && !c01IsUns(ab) {
									add("shift-count-sign", e.Pos())
								}
								break
							}
						}
						if cb := c01BasicOf(info.TypeOf(cnt)); c01IsInt(cb) && !c01IsUns(cb) {
							add("shift", e.Pos())
						}
					case token.EQL, token.NEQ:
						ix, okx := info.TypeOf(e.X).Underlying().(*types.Interface)
						iy, oky := info.TypeOf(e.Y).Underlying().(*types.Interface)
						if okx && oky && ix.Empty() && iy.Empty() {
							add("interface-compare", e.Pos())
						}
					case token.LSS, token.GEQ:
						// a sign test: signed expression compared with the constant 0
						if v, ok := intValue(info, e.Y); ok && v == 0 {
							if b := c01BasicOf(info.TypeOf(e.X)); c01IsInt(b) && !c01IsUns(b) {
								if id, ok := ast.Unparen(e.X).(*ast.Ident); !ok || tagObj == nil || info.Uses[id] != tagObj {
									signTest = true
								}
							}
						}
					}
				case *ast.IndexExpr:
					t := info.TypeOf(e.X)
					if t == nil {
						return true
					}
					if _, isMap := t.Underlying().(*types.Map); isMap {
						if as, ok := par[e].(*ast.AssignStmt); ok && !rooted(e.X) {
							for _, l := range as.Lhs {
								if l == ast.Expr(e) {
									add("map-store", e.Pos())
								}
							}
						}
						return true
					}
					if tv, ok := info.Types[e.X]; ok && tv.IsType() {
						return true // generic instantiation
					}
					if _, isArr := t.Underlying().(*types.Array); isArr && info.Types[e.Index].Value != nil {
						return true // constant index into an array: checked at compile time
					}
					if rooted(e.X) || internalElem(t) {
						return true
					}
					switch t.Underlying().(type) {
					case *types.Slice, *types.Array, *types.Pointer, *types.Basic:
						add("index", e.Pos())
					}
				case *ast.SliceExpr:
					t := info.TypeOf(e.X)
					if t == nil || rooted(e.X) || internalElem(t) {
						return true
					}
					add("slice", e.Pos())
				case *ast.CallExpr:
					f := callee(info, e)
					if f == nil || f.Pkg() == nil || f.Pkg().Path() != "reflect" {
						return true
					}
					k := f.Name()
					var recvExpr ast.Expr
					if sig := f.Type().(*types.Signature); sig.Recv() != nil {
						k = "Value." + k
						if nt, ok := sig.Recv().Type().(*types.Named); !ok || nt.Obj().Name() != "Value" {
							return true
						}
						if sel, ok := e.Fun.(*ast.SelectorExpr); ok {
							recvExpr = sel.X
						}
					}
					c, ok := c01ReflectFaults[k]
					if !ok {
						return true
					}
					if c == "index" && recvExpr != nil && bounded(e, recvExpr) {
						return true
					}
					if c == "map-store" && len(e.Args) == 2 {
						// SetMapIndex(k, reflect.Value{}) deletes the key: no "assignment to entry in nil
						// map" (deleting from a nil map is a no-op), only the key can be unhashable
						if cl, ok := ast.Unparen(e.Args[1]).(*ast.CompositeLit); ok && len(cl.Elts) == 0 {
							c = "map-key"
							if hashableKey(e.Args[0]) {
								return true
							}
						}
					}
					if c == "map-key" && len(e.Args) == 1 && hashableKey(e.Args[0]) {
						return true
					}
					if c == "select-send" && c01SelectRecvOnly(info, h.clause) {
						return true
					}
					add(c, e.Pos())
				}
				return true
			})
		}
		var cs []string
		for c := range classes {
			cs = append(cs, c)
		}
		sort.Strings(cs)
		for _, c := range cs {
			nsites++
			if c == "shift-count-sign" {
				o := x.r.Ob(R, x.key(name+":"+c), classes[c])
				if signTest {
					o.OK("%s converts a signed shift count to unsigned after a sign test in the handler", name)
				} else {
					o.Bad("%s converts a signed shift count to an unsigned type without testing its sign: a negative count shifts by a huge amount (result 0 or -1) where Go panics with 'negative shift amount'", name)
				}
				continue
			}
			for _, l := range h.labels {
				key := x.key(x.label(l) + ":" + c)
				o := x.r.Ob(R, key, classes[c])
				if listed[l] != nil {
					// the clause must also recognise the message of this class of fault (added after
					// defects where the opcode was listed but one message was not: "hash of unhashable
					// type" under OpIf, the allocator's error under OpMakeChan)
					if frags, ok := c01ClassMessages[c]; ok && !c01ClauseMentions(x.r.P, cls, listed[l], frags) {
						if why, ok := c01Exceptions[R+" "+key+":message"]; ok {
							o.Trivial("exception: %s", why)
							continue
						}
						o.Bad("%s is listed in %s but its clause recognises no message of the %s class (one of %q): that fault is not classified and escapes as a fatal error, a host panic", x.label(l), cls.Name(), c, frags)
						continue
					}
					o.OK("%s contains a %s fault site and is listed in %s's opcode switch", x.label(l), c, cls.Name())
					continue
				}
				if why, ok := c01Exceptions[R+" "+key]; ok {
					o.Trivial("exception: %s", why)
					continue
				}
				o.Bad("the handler of %s contains a Go operation that can panic (%s) but %s has no case for %s: the fault escapes as a fatal error instead of the run-time panic the program can recover", x.label(l), c, cls.Name(), x.label(l))
			}
		}
	}
	x.r.Stats["fault_sites"] = nsites
	x.r.Require(R, 35)
}

func c01IsString(t types.Type) bool {
	b, ok := t.Underlying().(*types.Basic)
	return ok && b.Info()&types.IsString != 0
}

// c01ClassMessages: fragments of the panic messages of each fault class, as the Go runtime and package
// reflect word them; the classifier's clause for an opcode with a site of the class must mention one.
var c01ClassMessages = map[string][]string{
	"index":             {"index out of range"},
	"slice":             {"slice bounds out of range", "slice index out of bounds"},
	"map-store":         {"assignment to entry in nil map"},
	"map-key":           {"hash of unhashable type"},
	"send":              {"send on closed channel"},
	"select-send":       {"send on closed channel"},
	"close":             {"close of closed channel", "close of nil channel"},
	"make":              {"makeslice", "makechan", "MakeSlice", "MakeChan"},
	"divide":            {"integer divide by zero"},
	"interface-compare": {"comparing uncomparable"},
}

// c01ClauseMentions reports whether the clause (following fallthrough into the next clauses) contains a
// string constant holding one of the fragments.
func c01ClauseMentions(p *Prog, cls *FuncInfo, cc *ast.CaseClause, frags []string) bool {
	info := cls.Pkg.TypesInfo
	found := false
	seen := map[types.Object]bool{}
	var scan func(n ast.Node, depth int)
	scan = func(n ast.Node, depth int) {
		ast.Inspect(n, func(m ast.Node) bool {
			// any constant string expression: a literal or a named constant
			if e, ok := m.(ast.Expr); ok {
				if s, ok := stringValue(info, e); ok {
					for _, f := range frags {
						if strings.Contains(s, f) {
							found = true
						}
					}
				}
			}
			// the clause may hand the message to a function of the package that recognises it
			if call, ok := m.(*ast.CallExpr); ok && depth < 2 {
				if hf := callee(info, call); hf != nil && hf.Pkg() == cls.Obj.Pkg() && !seen[hf] {
					seen[hf] = true
					for _, h := range p.Funcs(strings.TrimPrefix(strings.TrimPrefix(cls.Pkg.PkgPath, modulePath), "/")) {
						if h.Obj == hf && !p.isTestFile(h.File) {
							scan(h.Decl.Body, depth+1)
						}
					}
				}
			}
			return true
		})
	}
	scan(cc, 0)
	return found
}
