package main

// C25 R-9 (added after seeded change C25-8): a builtin that decodes a document for the caller decodes into
// a value of its own and hands it over only when the decoder reported no error.
//
// UnmarshalJSON / UnmarshalYAML document: "does not change the value pointed to by v but instantiates a new
// value and then replaces the value pointed to by v, if no errors occur". encoding/json and yaml.v3 store
// everything they can decode and report a type mismatch at the end, so the promise holds only if
//   R-9a  the destination handed to the decoder is, whatever path was taken, a value the builtin made
//         itself (reflect.New / MakeSlice / MakeMap, new(T), &local) and never the caller's value or a
//         part of it (the parameter, reflect.ValueOf(parameter) and what Elem/Addr/Field/Index/Interface
//         make of it, also through helpers of the package);
//   R-9b  every reflect.Value.Set* that copies (a part of) that new value somewhere is reached from the
//         decoder call only across an edge on which the decoder's error is nil.
//
// Decoders are found by role: a function outside the module that returns only an error and takes the
// encoded input ([]byte, string or io.Reader) together with an `any`, plus the Decode methods of the
// json/yaml/xml/gob decoders. All definitions of a local are followed (flow-insensitive), parameters of
// unexported helpers are followed to their call sites in the package, results of helpers into their return
// statements.

import (
	"go/ast"
	"go/token"
	"go/types"
	"sort"
	"strings"

	"golang.org/x/tools/go/cfg"
)

func init() {
	p := registry["C25"]
	if p == nil {
		return
	}
	run := p.run
	p.run = func(r *Run) { run(r); c25DecodeIntoNew(r) }
	p.explain += " R-9: a builtin that calls a decoder (json.Unmarshal, yaml.Unmarshal, …) passes it a value it allocated itself on every path, never the caller's value, and copies the decoded value out with reflect.Value.Set only where the decoder's error is nil: the value pointed to by v is unchanged when an error is returned."
}

var c25DecodeMethods = map[string]bool{
	"encoding/json.Decoder.Decode":    true,
	"gopkg.in/yaml.v3.Decoder.Decode": true,
	"gopkg.in/yaml.v3.Node.Decode":    true,
	"encoding/xml.Decoder.Decode":     true,
	"encoding/gob.Decoder.Decode":     true,
	"encoding/json.Unmarshal":         true,
	"gopkg.in/yaml.v3.Unmarshal":      true,
	"encoding/xml.Unmarshal":          true,
}

// c25DecoderDest returns the index of the destination argument of a decoder call, or -1.
func c25DecoderDest(fn *types.Func) int {
	if fn == nil || fn.Pkg() == nil || strings.HasPrefix(fn.Pkg().Path(), modulePath) {
		return -1
	}
	sig := fn.Type().(*types.Signature)
	errT := types.Universe.Lookup("error").Type()
	if sig.Results().Len() != 1 || !types.Identical(sig.Results().At(0).Type(), errT) {
		return -1
	}
	dest, input := -1, false
	for i := 0; i < sig.Params().Len(); i++ {
		t := sig.Params().At(i).Type()
		if it, ok := t.Underlying().(*types.Interface); ok && it.Empty() {
			if dest >= 0 {
				return -1 // two `any` parameters: not the shape
			}
			dest = i
			continue
		}
		switch ts := typeStr(t); ts {
		case "[]byte", "[]uint8", "string", "io.Reader":
			input = true
		}
	}
	if dest < 0 {
		return -1
	}
	name := fn.Pkg().Path() + "." + fn.Name()
	if sig.Recv() != nil {
		t := sig.Recv().Type()
		if pt, ok := t.(*types.Pointer); ok {
			t = pt.Elem()
		}
		if nt, ok := t.(*types.Named); ok {
			name = fn.Pkg().Path() + "." + nt.Obj().Name() + "." + fn.Name()
		}
	}
	if input || c25DecodeMethods[name] {
		return dest
	}
	return -1
}

// c25Src is one possible origin of a value.
type c25Src struct {
	kind int      // 0 unknown, 1 made by the builtin, 2 the caller's value, 3 zero/nil
	node ast.Node // identity of a made value (the allocating expression)
	desc string
}

type c25Tracer struct {
	p     *Prog
	byObj map[*types.Func]*FuncInfo
	seen  map[string]bool
}

type c25Frame struct {
	fi   *FuncInfo
	args []ast.Expr // arguments bound to fi's parameters (nil for a root)
	up   *c25Frame
}

var c25ReflectMakers = map[string]bool{"New": true, "MakeSlice": true, "MakeMap": true, "MakeMapWithSize": true, "MakeChan": true, "Zero": true}
var c25ReflectThrough = map[string]bool{"ValueOf": true, "Indirect": true}

// methods of reflect.Value that give (a handle on) the value itself, a part of it or what it points to
var c25ValueParts = map[string]bool{"Interface": true, "Addr": true, "Elem": true, "Field": true, "FieldByName": true, "FieldByIndex": true, "Index": true, "MapIndex": true, "Slice": true, "Slice3": true, "Convert": true, "Pointer": true, "UnsafePointer": true, "UnsafeAddr": true}

func (t *c25Tracer) trace(e ast.Expr, fr *c25Frame, depth int) []c25Src {
	unknown := func(why string) []c25Src { return []c25Src{{kind: 0, desc: why}} }
	if depth > 12 {
		return unknown("too deep")
	}
	info := fr.fi.Pkg.TypesInfo
	e = ast.Unparen(e)
	if tv, ok := info.Types[e]; ok && tv.IsNil() {
		return []c25Src{{kind: 3, desc: "nil"}}
	}
	switch x := e.(type) {
	case *ast.CompositeLit:
		return []c25Src{{kind: 3, desc: "a literal " + exprStr(x.Type)}}
	case *ast.UnaryExpr:
		if x.Op == token.AND {
			in := ast.Unparen(x.X)
			if _, ok := in.(*ast.CompositeLit); ok {
				return []c25Src{{kind: 1, node: x, desc: "&" + exprStr(in)}}
			}
			root := in
			for {
				switch y := root.(type) {
				case *ast.SelectorExpr:
					root = ast.Unparen(y.X)
					continue
				case *ast.IndexExpr:
					root = ast.Unparen(y.X)
					continue
				case *ast.StarExpr:
					return t.trace(y.X, fr, depth+1)
				}
				break
			}
			if id, ok := root.(*ast.Ident); ok {
				if v, ok := info.Uses[id].(*types.Var); ok && v.Pkg() != nil && v.Parent() != v.Pkg().Scope() {
					if k := c25ParamIndex(fr.fi, v); k >= 0 {
						// the address of a parameter variable: a copy owned by the builtin, unless it is a
						// reference kind reached through it; keep it simple and sound: a local copy
						if root == in {
							return []c25Src{{kind: 1, node: v2node(fr.fi, v), desc: "&" + v.Name() + " (the builtin's own copy of the parameter)"}}
						}
						return t.trace(id, fr, depth+1)
					}
					if root == in {
						return []c25Src{{kind: 1, node: v2node(fr.fi, v), desc: "&" + v.Name() + " (a local variable)"}}
					}
					return t.trace(id, fr, depth+1)
				}
			}
		}
		return unknown(exprStr(e))
	case *ast.StarExpr:
		return t.trace(x.X, fr, depth+1)
	case *ast.TypeAssertExpr:
		return t.trace(x.X, fr, depth+1)
	case *ast.SelectorExpr:
		if _, isField := info.Selections[x]; isField {
			return t.trace(x.X, fr, depth+1)
		}
		return unknown(exprStr(e))
	case *ast.IndexExpr:
		return t.trace(x.X, fr, depth+1)
	case *ast.CallExpr:
		if tv, ok := info.Types[x.Fun]; ok && tv.IsType() && len(x.Args) == 1 {
			return t.trace(x.Args[0], fr, depth+1)
		}
		if isBuiltinCall(info, x, "new") || isBuiltinCall(info, x, "make") {
			return []c25Src{{kind: 1, node: x, desc: exprStr(x)}}
		}
		fn := callee(info, x)
		if fn == nil || fn.Pkg() == nil {
			return unknown("the result of " + exprStr(x.Fun))
		}
		sig := fn.Type().(*types.Signature)
		if fn.Pkg().Path() == "reflect" {
			if sig.Recv() == nil {
				if c25ReflectMakers[fn.Name()] {
					return []c25Src{{kind: 1, node: x, desc: exprStr(x)}}
				}
				if c25ReflectThrough[fn.Name()] && len(x.Args) == 1 {
					return t.trace(x.Args[0], fr, depth+1)
				}
				return unknown("the result of reflect." + fn.Name())
			}
			if sel, ok := ast.Unparen(x.Fun).(*ast.SelectorExpr); ok && typeStr(sig.Recv().Type()) == "reflect.Value" && c25ValueParts[fn.Name()] {
				return t.trace(sel.X, fr, depth+1)
			}
			return unknown("the result of reflect " + fn.Name())
		}
		if gi := t.byObj[fn]; gi != nil && sig.Results().Len() >= 1 {
			// result 0 of a helper of the package (callers needing result i come through traceResult)
			return t.traceResult(gi, x, 0, fr, depth+1)
		}
		return unknown("the result of " + exprStr(x.Fun))
	case *ast.Ident:
		v, ok := info.Uses[x].(*types.Var)
		if !ok {
			if v2, ok2 := info.Defs[x].(*types.Var); ok2 {
				v = v2
			} else {
				return unknown(x.Name)
			}
		}
		if v.Pkg() != nil && v.Parent() == v.Pkg().Scope() {
			return unknown("the package-level variable " + v.Name())
		}
		if k := c25ParamIndex(fr.fi, v); k >= 0 {
			var out []c25Src
			if c25Assigned(fr.fi, v) {
				out = append(out, t.defs(v, fr, depth+1)...)
			}
			if fr.args != nil {
				if k < len(fr.args) && fr.up != nil {
					return append(out, t.trace(fr.args[k], fr.up, depth+1)...)
				}
				return append(out, unknown("parameter "+v.Name())...)
			}
			if fr.fi.Obj.Exported() {
				return append(out, c25Src{kind: 2, desc: "the parameter " + v.Name() + " of " + fr.fi.Name()})
			}
			// an unexported helper: every call site in the package
			key := "callers:" + fr.fi.Name() + ":" + v.Name()
			if t.seen[key] {
				return out
			}
			t.seen[key] = true
			defer delete(t.seen, key)
			n := 0
			for _, ci := range t.byObj {
				for _, c := range calls(ci.Decl.Body, true) {
					if callee(ci.Pkg.TypesInfo, c) == fr.fi.Obj && k < len(c.Args) {
						n++
						out = append(out, t.trace(c.Args[k], &c25Frame{fi: ci}, depth+1)...)
					}
				}
			}
			if n == 0 {
				out = append(out, unknown("parameter "+v.Name()+" of "+fr.fi.Name()+", which has no static caller in the package")...)
			}
			return out
		}
		return t.defs(v, fr, depth)
	}
	return unknown(exprStr(e))
}

// v2node gives a stable identity node for a variable: its defining identifier.
func v2node(fi *FuncInfo, v *types.Var) ast.Node {
	var out ast.Node
	ast.Inspect(fi.Decl, func(m ast.Node) bool {
		if id, ok := m.(*ast.Ident); ok && fi.Pkg.TypesInfo.Defs[id] == v {
			out = id
		}
		return out == nil
	})
	return out
}

func c25ParamIndex(fi *FuncInfo, v *types.Var) int {
	sig := fi.Obj.Type().(*types.Signature)
	for i := 0; i < sig.Params().Len(); i++ {
		if sig.Params().At(i) == v {
			return i
		}
	}
	return -1
}

func c25Assigned(fi *FuncInfo, v *types.Var) bool {
	return c25Writes(fi.Pkg.TypesInfo, fi.Decl.Body, map[types.Object]bool{v: true}, false)
}

// defs: the union of the origins of every value assigned to local v anywhere in its function.
func (t *c25Tracer) defs(v *types.Var, fr *c25Frame, depth int) []c25Src {
	key := "defs:" + fr.fi.Name() + ":" + v.Name() + ":" + t.p.Pos(v.Pos())
	if t.seen[key] {
		return nil
	}
	t.seen[key] = true
	defer delete(t.seen, key)
	info := fr.fi.Pkg.TypesInfo
	var out []c25Src
	found := false
	ast.Inspect(fr.fi.Decl.Body, func(m ast.Node) bool {
		switch x := m.(type) {
		case *ast.AssignStmt:
			for i, l := range x.Lhs {
				if objOfIdent(info, l) != types.Object(v) {
					continue
				}
				found = true
				switch {
				case x.Tok != token.ASSIGN && x.Tok != token.DEFINE:
					out = append(out, c25Src{desc: "an op-assignment of " + v.Name()})
				case len(x.Lhs) == len(x.Rhs):
					out = append(out, t.trace(x.Rhs[i], fr, depth+1)...)
				case len(x.Rhs) == 1:
					if c, ok := ast.Unparen(x.Rhs[0]).(*ast.CallExpr); ok {
						if gi := t.byObj[callee(info, c)]; gi != nil {
							out = append(out, t.traceResult(gi, c, i, fr, depth+1)...)
							continue
						}
					}
					if ta, ok := ast.Unparen(x.Rhs[0]).(*ast.TypeAssertExpr); ok && i == 0 {
						out = append(out, t.trace(ta.X, fr, depth+1)...)
						continue
					}
					out = append(out, c25Src{desc: "result " + exprStr(x.Rhs[0])})
				}
			}
		case *ast.ValueSpec:
			for i, id := range x.Names {
				if info.Defs[id] != types.Object(v) {
					continue
				}
				found = true
				switch {
				case len(x.Values) == 0:
					out = append(out, c25Src{kind: 3, desc: "the zero value"})
				case len(x.Values) == len(x.Names):
					out = append(out, t.trace(x.Values[i], fr, depth+1)...)
				default:
					out = append(out, c25Src{desc: "result " + exprStr(x.Values[0])})
				}
			}
		case *ast.RangeStmt:
			if objOfIdent(info, x.Key) == types.Object(v) || objOfIdent(info, x.Value) == types.Object(v) {
				found = true
				out = append(out, t.trace(x.X, fr, depth+1)...)
			}
		case *ast.TypeSwitchStmt:
			// v := x.(type): the implicit objects of the clauses
			if as, ok := x.Assign.(*ast.AssignStmt); ok && len(as.Rhs) == 1 {
				for _, cl := range x.Body.List {
					if info.Implicits[cl] == types.Object(v) {
						found = true
						if ta, ok := ast.Unparen(as.Rhs[0]).(*ast.TypeAssertExpr); ok {
							out = append(out, t.trace(ta.X, fr, depth+1)...)
						}
					}
				}
			}
		}
		return true
	})
	if !found {
		// a named result never assigned, a receiver, …
		if sig := fr.fi.Obj.Type().(*types.Signature); sig.Recv() == v {
			return []c25Src{{kind: 2, desc: "the receiver of " + fr.fi.Name()}}
		}
		return []c25Src{{kind: 3, desc: "the zero value of " + v.Name()}}
	}
	return out
}

// traceResult: origins of result i of helper gi called by call (in frame fr).
func (t *c25Tracer) traceResult(gi *FuncInfo, call *ast.CallExpr, i int, fr *c25Frame, depth int) []c25Src {
	key := "res:" + gi.Name() + ":" + t.p.Pos(call.Pos())
	if t.seen[key] {
		return nil
	}
	t.seen[key] = true
	defer delete(t.seen, key)
	sub := &c25Frame{fi: gi, args: call.Args, up: fr}
	if call.Args == nil {
		sub.args = []ast.Expr{}
	}
	var out []c25Src
	sig := gi.Obj.Type().(*types.Signature)
	ast.Inspect(gi.Decl.Body, func(m ast.Node) bool {
		switch x := m.(type) {
		case *ast.FuncLit:
			return false
		case *ast.ReturnStmt:
			switch {
			case len(x.Results) == sig.Results().Len():
				out = append(out, t.trace(x.Results[i], sub, depth+1)...)
			case len(x.Results) == 0 && sig.Results().At(i).Name() != "":
				out = append(out, t.defs(sig.Results().At(i), sub, depth+1)...)
			default:
				out = append(out, c25Src{desc: "result of " + exprStr(x.Results[0])})
			}
		}
		return true
	})
	return out
}

func c25DecodeIntoNew(r *Run) {
	const R = "R-9"
	tr := &c25Tracer{p: r.P, byObj: map[*types.Func]*FuncInfo{}, seen: map[string]bool{}}
	var fns []*FuncInfo
	for _, fi := range r.P.Funcs("builtin") {
		if r.P.isTestFile(fi.File) || fi.Obj == nil {
			continue
		}
		tr.byObj[fi.Obj] = fi
		fns = append(fns, fi)
	}
	// helpers of the package that hand one of their parameters to a decoder and return an error are
	// decoders themselves (fixpoint)
	errT := types.Universe.Lookup("error").Type()
	helper := map[*types.Func]int{}
	destOf := func(fn *types.Func) int {
		if k, ok := helper[fn]; ok {
			return k
		}
		return c25DecoderDest(fn)
	}
	for changed := true; changed; {
		changed = false
		for _, fi := range fns {
			if _, ok := helper[fi.Obj]; ok {
				continue
			}
			sig := fi.Obj.Type().(*types.Signature)
			hasErr := false
			for i := 0; i < sig.Results().Len(); i++ {
				hasErr = hasErr || types.Identical(sig.Results().At(i).Type(), errT)
			}
			if !hasErr {
				continue
			}
			for _, dc := range calls(fi.Decl.Body, true) {
				k := destOf(callee(fi.Pkg.TypesInfo, dc))
				if k < 0 || k >= len(dc.Args) {
					continue
				}
				if v, ok := objOfIdent(fi.Pkg.TypesInfo, dc.Args[k]).(*types.Var); ok {
					if j := c25ParamIndex(fi, v); j >= 0 && !c25Assigned(fi, v) {
						helper[fi.Obj] = j
						changed = true
						break
					}
				}
			}
		}
	}
	sites := 0
	for _, fi := range fns {
		info := fi.Pkg.TypesInfo
		par := r.P.Parents(fi.File)
		for _, dc := range calls(fi.Decl.Body, true) {
			fn := callee(info, dc)
			k := destOf(fn)
			if k < 0 || k >= len(dc.Args) {
				continue
			}
			sites++
			lib := fn.Pkg().Name() + "." + fn.Name()
			key := fi.Name() + "#" + lib
			srcs := tr.trace(dc.Args[k], &c25Frame{fi: fi}, 0)
			made := map[ast.Node]bool{}
			var callers, unknowns, mades []string
			for _, s := range srcs {
				switch s.kind {
				case 0:
					unknowns = append(unknowns, s.desc)
				case 1:
					made[s.node] = true
					mades = append(mades, s.desc)
				case 2:
					callers = append(callers, s.desc)
				}
			}
			callers, unknowns, mades = c25Uniq(callers), c25Uniq(unknowns), c25Uniq(mades)
			o := r.Ob(R, key+"#destination", dc.Pos())
			switch {
			case len(callers) > 0:
				o.Bad("the destination %s of %s can be (a handle on) %s: the decoder stores what it decodes before it reports a type mismatch, so when %s returns an error the value pointed to by the caller's argument has already been changed, against the documentation (\"does not change the value pointed to by v … if no errors occur\")", exprStr(dc.Args[k]), lib, strings.Join(callers, ", "), fi.Name())
			case len(unknowns) > 0:
				o.Unknown("the destination %s of %s: origin not understood (%s)", exprStr(dc.Args[k]), lib, strings.Join(unknowns, "; "))
			case len(mades) == 0:
				o.Unknown("the destination %s of %s is never given a value", exprStr(dc.Args[k]), lib)
			default:
				o.OK("the destination %s of %s is, on every path, a value made here: %s", exprStr(dc.Args[k]), lib, strings.Join(mades, ", "))
			}
			if len(made) == 0 {
				continue
			}
			// R-9b: copies of the new value
			c25CopyOut(r, R, tr, fi, par, dc, lib, key, made)
		}
	}
	r.Stats[R+"_decoder_calls"] = sites
	r.Require(R, 4)
}

func c25Uniq(xs []string) []string {
	m := map[string]bool{}
	var out []string
	for _, x := range xs {
		if !m[x] {
			m[x] = true
			out = append(out, x)
		}
	}
	sort.Strings(out)
	return out
}

// c25CopyOut checks every reflect.Value.Set* of fi whose argument is (a part of) a value in made.
func c25CopyOut(r *Run, R string, tr *c25Tracer, fi *FuncInfo, par map[ast.Node]ast.Node, dc *ast.CallExpr, lib, key string, made map[ast.Node]bool) {
	info := fi.Pkg.TypesInfo
	g := r.P.CFGOf(fi)
	// the variable holding the decoder's error
	var errObj types.Object
	switch p := par[dc].(type) {
	case *ast.AssignStmt:
		if len(p.Lhs) == 1 && len(p.Rhs) == 1 {
			errObj = objOfIdent(info, p.Lhs[0])
		}
	case *ast.ValueSpec:
		if len(p.Names) == 1 && len(p.Values) == 1 {
			errObj = info.Defs[p.Names[0]]
		}
	}
	isNilErr := func(l Lit) bool {
		e, truth := c25ResolveBool(info, fi, l.Expr, l.Truth)
		if l.Tag != nil {
			// switch err { case nil: }
			tv, ok := info.Types[ast.Unparen(l.Expr)]
			return ok && tv.IsNil() && objOfIdent(info, l.Tag) == errObj && l.Truth
		}
		be, ok := ast.Unparen(e).(*ast.BinaryExpr)
		if !ok || (be.Op != token.EQL && be.Op != token.NEQ) {
			return false
		}
		x, y := be.X, be.Y
		if objOfIdent(info, x) != errObj {
			x, y = y, x
		}
		if objOfIdent(info, x) != errObj {
			return false
		}
		if tv, ok := info.Types[ast.Unparen(y)]; !ok || !tv.IsNil() {
			return false
		}
		return (be.Op == token.EQL) == truth
	}
	cut := func(b *cfg.Block, i int) bool {
		for _, l := range g.edgeLits(b, i) {
			if isNilErr(l) {
				return true
			}
		}
		return false
	}
	db, di := g.Locate(dc)
	for _, sc := range calls(fi.Decl.Body, true) {
		fn := callee(info, sc)
		if fn == nil || fn.Pkg() == nil || fn.Pkg().Path() != "reflect" || !strings.HasPrefix(fn.Name(), "Set") || len(sc.Args) == 0 {
			continue
		}
		if s := fn.Type().(*types.Signature); s.Recv() == nil || typeStr(s.Recv().Type()) != "reflect.Value" {
			continue
		}
		from := false
		for _, a := range sc.Args {
			for _, s := range tr.trace(a, &c25Frame{fi: fi}, 0) {
				if s.kind == 1 && made[s.node] {
					from = true
				}
			}
		}
		if !from {
			continue
		}
		o := r.Ob(R, key+"#copy-out:"+fn.Name(), sc.Pos())
		sb, si := g.Locate(sc)
		switch {
		case errObj == nil:
			o.Unknown("the error of %s is not kept in a variable: whether %s runs only on success cannot be read", lib, exprStr(sc))
		case db == nil || sb == nil || !containsNode(db.Nodes[di], dc) || !containsNode(sb.Nodes[si], sc):
			o.Unknown("%s or the call of %s is inside a function literal: paths between them are not followed", exprStr(sc), lib)
		default:
			reach := false
			if db == sb && si > di {
				reach = true
			}
			for i, s := range db.Succs {
				if reach || cut(db, i) {
					continue
				}
				if s == sb || g.reachable(s, sb, cut, nil) {
					reach = true
				}
			}
			if reach {
				o.Bad("%s copies the value decoded by %s and is reached from the decoder call without crossing a test that its error %s is nil: after a type mismatch the decoder returns an error together with a partly filled value, which then replaces the caller's value although %s returns an error", exprStr(sc), lib, errObj.Name(), fi.Name())
			} else {
				o.OK("%s is reached from %s only across an edge where %s is nil", exprStr(sc), lib, errObj.Name())
			}
		}
	}
}

// c25ResolveBool replaces a boolean local with a single definition by its defining expression.
func c25ResolveBool(info *types.Info, fi *FuncInfo, e ast.Expr, truth bool) (ast.Expr, bool) {
	for depth := 0; depth < 4; depth++ {
		e = ast.Unparen(e)
		if u, ok := e.(*ast.UnaryExpr); ok && u.Op == token.NOT {
			e, truth = u.X, !truth
			continue
		}
		id, ok := e.(*ast.Ident)
		if !ok {
			break
		}
		v, ok := info.Uses[id].(*types.Var)
		if !ok || v.Pkg() == nil || v.Parent() == v.Pkg().Scope() {
			break
		}
		rhs := c25SingleDef(info, fi.Decl.Body, v)
		if rhs == nil {
			break
		}
		e = rhs
	}
	return e, truth
}
