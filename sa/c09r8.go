package main

// C09 R-8 (added after seeded change C09-6): the static "implements" answer for a type compiled by
// Scriggo.
//
// checkShow accepts struct, pointer, … kinds only through t.Implements(stringerType / errorType / …). For a
// type compiled by Scriggo (a type declared in the template, a pointer / slice / struct built from one) the
// run-time value is a proxy or a value of the Go type: the renderer's type switches never match an
// interface with methods for it. So the answer for such a type must be "implements only the empty
// interface", whatever the method set of the Go type underneath. Two structural conditions:
//
//	(a) every type of package compiler/types that implements runtime.ScriggoType DECLARES its Implements
//	    method (it is not the one promoted from the embedded reflect.Type, which would answer for the Go
//	    type underneath) and that method returns the package's decision function applied to the receiver
//	    itself and the interface;
//	(b) in that decision function, the branch taken when the first type is a ScriggoType consults no Go
//	    method set (no Implements / NumMethod / Method / MethodByName on a receiver other than the
//	    interface type y, no recursion on another type), and every `true` it can return is conditioned by
//	    the test that y has no methods.

import (
	"go/ast"
	"go/constant"
	"go/token"
	"go/types"
	"sort"

	"golang.org/x/tools/go/packages"
)

func init() {
	p := registry["C09"]
	if p == nil {
		return
	}
	run := p.run
	p.run = func(r *Run) { run(r); c09ScriggoImplements(r) }
	p.explain += " R-8: every ScriggoType implementation declares its own Implements method delegating to the package decision function with the receiver itself, and that function's branch for a Scriggo type consults no Go method set and answers true only under the test that the interface has no methods."
}

func c09ScriggoImplements(r *Run) {
	const R = "R-8"
	const rel = "internal/compiler/types"
	st := r.P.Named("internal/runtime", "ScriggoType")
	pk := r.P.Pkg(rel)
	if !r.Anchor(R, "runtime.ScriggoType", st != nil) || !r.Anchor(R, "package "+rel, pk != nil) {
		return
	}
	stI, ok := st.Underlying().(*types.Interface)
	if !r.Anchor(R, "runtime.ScriggoType is an interface", ok) {
		return
	}
	byObj := map[*types.Func]*FuncInfo{}
	for _, fi := range r.P.Funcs(rel) {
		if !r.P.isTestFile(fi.File) && fi.Obj != nil {
			byObj[fi.Obj] = fi
		}
	}
	// ---- (a)
	impls := implementers(pk, stI)
	sort.Slice(impls, func(i, j int) bool { return typeStr(impls[i]) < typeStr(impls[j]) })
	var decision *types.Func
	nimpl := 0
	for _, t := range impls {
		nimpl++
		o := r.Ob(R, typeStr(t)+"#Implements", pk.Types.Scope().Pos())
		if ctor := c09methodlessUnderneath(pk, t); ctor != "" {
			// nothing to require: whichever Implements answers, the Go type underneath has no methods
			o.Trivial("the Go type under %s is always built with %s, an unnamed type without methods", typeStr(t), ctor)
			continue
		}
		obj, index, _ := types.LookupFieldOrMethod(t, true, pk.Types, "Implements")
		m, _ := obj.(*types.Func)
		if m == nil {
			o.Unknown("%s has no Implements method", typeStr(t))
			continue
		}
		fi := byObj[m]
		if len(index) > 1 || fi == nil {
			o.Bad("%s does not declare Implements: the method is promoted from an embedded field (the reflect.Type of the Go type underneath), so the static check believes a type compiled by Scriggo implements fmt.Stringer / error / … whenever that Go type does, while its run-time value matches none of the renderer's interface clauses: the show builds and fails with 'cannot show value of type …'", typeStr(t))
			continue
		}
		o.Pos = r.P.Pos(fi.Decl.Pos())
		info := fi.Pkg.TypesInfo
		recv := c09recvObj(info, fi)
		var rets []*ast.ReturnStmt
		ast.Inspect(fi.Decl.Body, func(n ast.Node) bool {
			if _, ok := n.(*ast.FuncLit); ok {
				return false
			}
			if rs, ok := n.(*ast.ReturnStmt); ok {
				rets = append(rets, rs)
			}
			return true
		})
		good := len(rets) > 0
		why := ""
		for _, rs := range rets {
			if len(rs.Results) != 1 {
				good = false
				continue
			}
			c, ok := ast.Unparen(rs.Results[0]).(*ast.CallExpr)
			var fn *types.Func
			if ok {
				fn = callee(info, c)
			}
			if fn == nil || byObj[fn] == nil || fn.Type().(*types.Signature).Recv() != nil || len(c.Args) != 2 {
				good = false
				why = "it returns " + exprStr(rs.Results[0]) + ", not the package's decision function"
				continue
			}
			if recv == nil || objOfIdent(info, c.Args[0]) != recv {
				good = false
				why = "it asks the decision function about " + exprStr(c.Args[0]) + ", not about the receiver itself"
				continue
			}
			if decision == nil {
				decision = fn
			} else if decision != fn {
				good = false
				why = "it delegates to " + fn.Name() + " while other implementations delegate to " + decision.Name()
			}
		}
		if good {
			o.OK("declared on the type and delegating to %s(receiver, y)", decision.Name())
		} else if why != "" {
			o.Bad("the Implements method of %s does not give the answer for the Scriggo type: %s; the answer of a Go type underneath lets a show build that fails at run time with 'cannot show value of type …'", typeStr(t), why)
		} else {
			o.Unknown("the Implements method of %s has a shape this rule does not read", typeStr(t))
		}
	}
	if !r.Anchor(R, "the decision function the Implements methods delegate to", decision != nil) {
		return
	}
	// ---- (b)
	fi := byObj[decision]
	info := fi.Pkg.TypesInfo
	sig := decision.Type().(*types.Signature)
	if !r.Anchor(R, decision.Name()+" has two parameters (x, y)", sig.Params().Len() == 2) {
		return
	}
	px, py := sig.Params().At(0), sig.Params().At(1)
	branches := c09scriggoBranches(info, fi.Decl.Body, px, st)
	if !r.Anchor(R, "the branch of "+decision.Name()+" taken when x is a ScriggoType", len(branches) > 0) {
		return
	}
	isY := isIdentOf(info, py)
	// y.NumMethod(), or a local assigned once from it
	numLocals := map[types.Object]bool{}
	isNumCall := func(e ast.Expr) bool {
		c, ok := ast.Unparen(e).(*ast.CallExpr)
		if !ok {
			return false
		}
		sel, ok := c.Fun.(*ast.SelectorExpr)
		return ok && sel.Sel.Name == "NumMethod" && isY(sel.X)
	}
	ast.Inspect(fi.Decl.Body, func(n ast.Node) bool {
		if as, ok := n.(*ast.AssignStmt); ok && len(as.Lhs) == 1 && len(as.Rhs) == 1 && as.Tok == token.DEFINE && isNumCall(as.Rhs[0]) {
			if o := objOfIdent(info, as.Lhs[0]); o != nil {
				numLocals[o] = true
			}
		}
		return true
	})
	isNum := func(e ast.Expr) bool {
		if isNumCall(e) {
			return true
		}
		id, ok := ast.Unparen(e).(*ast.Ident)
		return ok && numLocals[info.Uses[id]]
	}
	// emptiness: a condition over y.NumMethod() that holds exactly for 0
	emptiness := func(e ast.Expr, truth bool) bool {
		if !mentions(e, isNum) {
			return false
		}
		set, ok := predSet(info, e, isNum, 0, 3)
		if !ok {
			return false
		}
		for v := int64(0); v <= 3; v++ {
			if (set[v] == truth) != (v == 0) {
				return false
			}
		}
		return true
	}
	cf := r.P.CFGOf(fi)
	for bi, br := range branches {
		key := fi.Name() + "#scriggo-branch"
		if bi > 0 {
			key += "~" + string(rune('a'+bi))
		}
		// (b1) no Go method set is consulted
		o1 := r.Ob(R, key+":no-go-method-set", br.Pos())
		bad := ""
		for _, c := range calls(br, false) {
			fn := callee(info, c)
			if fn == nil {
				continue
			}
			if fn == decision {
				bad = "it recurses on " + exprStr(c)
				continue
			}
			sel, ok := c.Fun.(*ast.SelectorExpr)
			if !ok {
				continue
			}
			switch fn.Name() {
			case "Implements", "NumMethod", "Method", "MethodByName":
				if rt := info.TypeOf(sel.X); rt != nil && typeStr(rt) == "reflect.Type" && !isY(sel.X) {
					bad = "it calls " + exprStr(c)
				}
			}
		}
		if bad == "" {
			o1.OK("the branch for a Scriggo type asks nothing about the method set of a Go type")
		} else {
			o1.Bad("in the branch of %s taken when x is a type compiled by Scriggo, %s: the answer then follows the method set of the Go type underneath, which the run-time value (a proxy) does not have; checkShow accepts the type through Implements and the renderer fails with 'cannot show value of type …'", decision.Name(), bad)
		}
		// (b2) true only when y has no methods
		var rets []*ast.ReturnStmt
		ast.Inspect(br, func(n ast.Node) bool {
			if _, ok := n.(*ast.FuncLit); ok {
				return false
			}
			if rs, ok := n.(*ast.ReturnStmt); ok {
				rets = append(rets, rs)
			}
			return true
		})
		for i, rs := range rets {
			k := key + ":true-only-for-empty-interface"
			o2 := r.Ob(R, k, rs.Pos())
			_ = i
			if len(rs.Results) != 1 {
				o2.Unknown("return without a single result")
				continue
			}
			e := rs.Results[0]
			guarded := cf.GuardedBy(rs, func(l Lit) bool { return l.Tag == nil && emptiness(l.Expr, l.Truth) })
			if tv, ok := info.Types[e]; ok && tv.Value != nil && tv.Value.Kind() == constant.Bool {
				if !constant.BoolVal(tv.Value) {
					o2.OK("returns false")
				} else if guarded {
					o2.OK("returns true under the test that y has no methods")
				} else {
					o2.Bad("the branch of %s for a type compiled by Scriggo returns true without testing that the interface y has no methods: such a type is then accepted by checkShow as a fmt.Stringer / error / … and its show fails at run time with 'cannot show value of type …'", decision.Name())
				}
				continue
			}
			if guarded {
				o2.OK("returned under the test that y has no methods")
				continue
			}
			has := false
			for _, cj := range splitAnd(e) {
				if emptiness(cj, true) {
					has = true
				}
			}
			if has {
				o2.OK("the result %s requires that y has no methods", exprStr(e))
			} else if bad != "" {
				o2.Bad("the result %s does not require that the interface y has no methods", exprStr(e))
			} else {
				o2.Unknown("the result %s of the Scriggo-type branch is not read as 'y has no methods'", exprStr(e))
			}
		}
	}
	r.Require(R, 5)
}

// c09methodlessUnderneath reports (with the constructor's name) whether every composite literal of the
// implementation t sets its embedded reflect.Type from a reflect constructor of unnamed types that cannot
// have methods (ArrayOf, ChanOf, FuncOf, MapOf, SliceOf).
func c09methodlessUnderneath(pk *packages.Package, t types.Type) string {
	if p, ok := t.(*types.Pointer); ok {
		t = p.Elem()
	}
	info := pk.TypesInfo
	name, n, all := "", 0, true
	for _, f := range pk.Syntax {
		ast.Inspect(f, func(m ast.Node) bool {
			cl, ok := m.(*ast.CompositeLit)
			if !ok {
				return true
			}
			if lt := info.TypeOf(cl); lt == nil || !types.Identical(lt, t) {
				return true
			}
			n++
			found := false
			for _, el := range cl.Elts {
				kv, ok := el.(*ast.KeyValueExpr)
				if !ok {
					continue
				}
				fld, _ := info.Uses[selIdent(kv.Key)].(*types.Var)
				if fld == nil || !fld.Embedded() || typeStr(fld.Type()) != "reflect.Type" {
					continue
				}
				if c, ok := ast.Unparen(kv.Value).(*ast.CallExpr); ok {
					if fn := callee(info, c); fn != nil && fn.Pkg() != nil && fn.Pkg().Path() == "reflect" {
						switch fn.Name() {
						case "ArrayOf", "ChanOf", "FuncOf", "MapOf", "SliceOf":
							found = true
							name = "reflect." + fn.Name()
						}
					}
				}
			}
			if !found {
				all = false
			}
			return true
		})
	}
	if n > 0 && all {
		return name
	}
	return ""
}

func c09recvObj(info *types.Info, fi *FuncInfo) types.Object {
	if fi.Decl.Recv == nil || len(fi.Decl.Recv.List) == 0 || len(fi.Decl.Recv.List[0].Names) == 0 {
		return nil
	}
	return info.Defs[fi.Decl.Recv.List[0].Names[0]]
}

// c09scriggoBranches returns the statement blocks executed when parameter x holds a ScriggoType: the body
// of `if _, ok := x.(ScriggoType); ok { … }` (also with the assertion made in an earlier statement), and
// the clause of a type switch over x listing ScriggoType.
func c09scriggoBranches(info *types.Info, body *ast.BlockStmt, x types.Object, st *types.Named) []ast.Node {
	var out []ast.Node
	isAssert := func(e ast.Expr) bool {
		ta, ok := ast.Unparen(e).(*ast.TypeAssertExpr)
		if !ok || ta.Type == nil {
			return false
		}
		id, ok := ast.Unparen(ta.X).(*ast.Ident)
		if !ok || info.Uses[id] != x {
			return false
		}
		t := info.TypeOf(ta.Type)
		return t != nil && types.Identical(t, st)
	}
	okVars := map[types.Object]bool{}
	ast.Inspect(body, func(n ast.Node) bool {
		if as, ok := n.(*ast.AssignStmt); ok && len(as.Lhs) == 2 && len(as.Rhs) == 1 && isAssert(as.Rhs[0]) {
			if o := objOfIdent(info, as.Lhs[1]); o != nil {
				okVars[o] = true
			}
		}
		return true
	})
	ast.Inspect(body, func(n ast.Node) bool {
		switch s := n.(type) {
		case *ast.FuncLit:
			return false
		case *ast.IfStmt:
			for _, cj := range splitAnd(s.Cond) {
				if id, ok := ast.Unparen(cj).(*ast.Ident); ok && okVars[info.Uses[id]] {
					out = append(out, s.Body)
				}
			}
		case *ast.TypeSwitchStmt:
			for _, t := range c09TypeSwitches(info, &ast.BlockStmt{List: []ast.Stmt{s}}) {
				if t.stmt != s || t.subjObj != x {
					continue
				}
				for _, c := range s.Body.List {
					cc := c.(*ast.CaseClause)
					for _, te := range cc.List {
						if tt := info.TypeOf(te); tt != nil && types.Identical(tt, st) {
							out = append(out, cc)
						}
					}
				}
			}
		}
		return true
	})
	return out
}
