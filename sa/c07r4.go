package main

// C07 R-4 (added after seeded change C07-3): literal text consumes the per-value flags of the URL renderer
// whatever it begins with.
//
// The renderer keeps boolean flags between the pieces of a URL attribute. One of them records that the
// value just shown carried the '?' of the URL (removeQuestionMark): the URL show function tests it to pick
// the escaper of the NEXT value — the path escaper while it is set, the query escaper otherwise. The flag
// describes "nothing but that value has been written since"; the function that writes literal text tests it
// (to drop a duplicated '?') and clears it. It must clear it on every path on which text is written, not
// only when the text happens to begin with the character it looks for: otherwise, after `{{ base }}&ref=`,
// the value of `ref` is escaped as a path ('&' → &amp;, '=' '#' '+' kept) and no longer decodes to itself.
//
// Shape checked, for every method M of the renderer type and every boolean field f that another method of
// the type tests: if M tests f and, from that test, reaches an assignment of f, all of them being clears
// (constant false, or a call of a method that clears it unconditionally), then every path from the test on
// which f is true and that returns without error passes a clear. Decided on the CFG of M with the edge
// conditions evaluated on f (three-valued), so `if f && first == '?' { …; f = false }` is not a clear on the
// path where the second conjunct fails, while `if f { f = false }` is.

import (
	"go/ast"
	"go/constant"
	"go/token"
	"go/types"
	"sort"
	"strings"

	"golang.org/x/tools/go/cfg"
)

func init() {
	p := registry["C07"]
	if p == nil {
		return
	}
	run := p.run
	p.run = func(r *Run) { run(r); c07ConsumedFlags(r) }
	p.explain += " R-4: a boolean flag of the renderer that the text writer tests and clears, and that another method tests to choose an escaper (removeQuestionMark), is cleared on every non-error path from that test on which it is set — literal text ends the state 'the last thing written is the value that carried the ?' whatever its first byte."
}

// c07Renderer finds the renderer type by role: the receiver of the method of package runtime switching on ast.Context.
func c07Renderer(r *Run, R string) (*types.Named, []*FuncInfo) {
	const rt = "internal/runtime"
	ctxT := r.P.Named("ast", "Context")
	if !r.Anchor(R, "ast.Context", ctxT != nil) {
		return nil, nil
	}
	var show *FuncInfo
	n := 0
	for _, fi := range r.P.Funcs(rt) {
		if fi.Decl.Recv != nil && !r.P.isTestFile(fi.File) && len(switchesOn(fi.Pkg.TypesInfo, fi.Decl.Body, ctxT)) > 0 {
			show = fi
			n++
		}
	}
	if !r.Anchor(R, "the method of package runtime switching on ast.Context (renderer.Show)", n == 1 && show.Obj != nil) {
		return nil, nil
	}
	rt0 := show.Obj.Type().(*types.Signature).Recv().Type()
	if p, ok := rt0.(*types.Pointer); ok {
		rt0 = p.Elem()
	}
	named, _ := rt0.(*types.Named)
	if !r.Anchor(R, "the renderer type", named != nil) {
		return nil, nil
	}
	var ms []*FuncInfo
	for _, fi := range r.P.Funcs(rt) {
		if fi.Obj == nil || r.P.isTestFile(fi.File) {
			continue
		}
		sig := fi.Obj.Type().(*types.Signature)
		if sig.Recv() == nil {
			continue
		}
		t := sig.Recv().Type()
		if p, ok := t.(*types.Pointer); ok {
			t = p.Elem()
		}
		if types.Identical(t, named) {
			ms = append(ms, fi)
		}
	}
	return named, ms
}

// c07FieldOf returns the field of the receiver type that e selects (e is `recv.f`), or nil.
func c07FieldOf(info *types.Info, named *types.Named, e ast.Expr) *types.Var {
	sel, ok := ast.Unparen(e).(*ast.SelectorExpr)
	if !ok {
		return nil
	}
	v, ok := info.Uses[sel.Sel].(*types.Var)
	if !ok || !v.IsField() {
		return nil
	}
	t := info.TypeOf(sel.X)
	if t == nil {
		return nil
	}
	if p, ok := t.Underlying().(*types.Pointer); ok {
		t = p.Elem()
	}
	if !types.Identical(t, named) {
		return nil
	}
	return v
}

// c07ClearsAlways reports whether fn (a method of the renderer) assigns false to f in a top-level statement
// of its body and nothing else to it.
func c07ClearsAlways(p *Prog, named *types.Named, fn *types.Func, f *types.Var) (clears, touches bool) {
	fi := c06FuncInfoOf(p, fn)
	if fi == nil {
		return false, false
	}
	info := fi.Pkg.TypesInfo
	other := false
	for _, st := range fi.Decl.Body.List {
		if as, ok := st.(*ast.AssignStmt); ok && len(as.Lhs) == len(as.Rhs) {
			for i, l := range as.Lhs {
				if c07FieldOf(info, named, l) == f {
					if b, ok := c07BoolConst(info, as.Rhs[i]); ok && !b {
						clears = true
					}
				}
			}
		}
	}
	ast.Inspect(fi.Decl.Body, func(n ast.Node) bool {
		if as, ok := n.(*ast.AssignStmt); ok {
			for i, l := range as.Lhs {
				if c07FieldOf(info, named, l) == f {
					touches = true
					if len(as.Lhs) != len(as.Rhs) {
						other = true
					} else if b, ok := c07BoolConst(info, as.Rhs[i]); !ok || b {
						other = true
					}
				}
			}
		}
		return true
	})
	return clears && !other, touches
}

func c07BoolConst(info *types.Info, e ast.Expr) (bool, bool) {
	tv, ok := info.Types[e]
	if !ok || tv.Value == nil || tv.Value.Kind() != constant.Bool {
		return false, false
	}
	return constant.BoolVal(tv.Value), true
}

// c07Eval3 evaluates cond with field f known to be val; anything else is unknown.
func c07Eval3(info *types.Info, named *types.Named, f *types.Var, e ast.Expr, val bool) int {
	e = ast.Unparen(e)
	if b, ok := c07BoolConst(info, e); ok {
		if b {
			return c06T
		}
		return c06F
	}
	if c07FieldOf(info, named, e) == f {
		if val {
			return c06T
		}
		return c06F
	}
	switch b := e.(type) {
	case *ast.UnaryExpr:
		if b.Op == token.NOT {
			return c06Not(c07Eval3(info, named, f, b.X, val))
		}
	case *ast.BinaryExpr:
		l, r := c07Eval3(info, named, f, b.X, val), c07Eval3(info, named, f, b.Y, val)
		switch b.Op {
		case token.LAND:
			if l == c06F || r == c06F {
				return c06F
			}
			if l == c06T && r == c06T {
				return c06T
			}
		case token.LOR:
			if l == c06T || r == c06T {
				return c06T
			}
			if l == c06F && r == c06F {
				return c06F
			}
		case token.EQL:
			if l != c06U && r != c06U {
				if l == r {
					return c06T
				}
				return c06F
			}
		case token.NEQ:
			if l != c06U && r != c06U {
				if l != r {
					return c06T
				}
				return c06F
			}
		}
	}
	return c06U
}

func c07Mentions(info *types.Info, named *types.Named, f *types.Var, n ast.Node) bool {
	found := false
	ast.Inspect(n, func(m ast.Node) bool {
		if e, ok := m.(ast.Expr); ok && c07FieldOf(info, named, e) == f {
			found = true
		}
		return !found
	})
	return found
}

func c07ConsumedFlags(r *Run) {
	const R = "R-4"
	named, methods := c07Renderer(r, R)
	if named == nil {
		return
	}
	st, ok := named.Underlying().(*types.Struct)
	if !r.Anchor(R, "the renderer struct", ok) {
		return
	}
	// boolean fields and the methods testing them in a condition
	testedIn := map[*types.Var]map[*types.Func]bool{}
	for _, m := range methods {
		info := m.Pkg.TypesInfo
		ast.Inspect(m.Decl.Body, func(n ast.Node) bool {
			var conds []ast.Expr
			switch v := n.(type) {
			case *ast.IfStmt:
				conds = append(conds, v.Cond)
			case *ast.ForStmt:
				if v.Cond != nil {
					conds = append(conds, v.Cond)
				}
			case *ast.SwitchStmt:
				if v.Tag == nil {
					for _, cl := range v.Body.List {
						conds = append(conds, cl.(*ast.CaseClause).List...)
					}
				}
			}
			for _, cond := range conds {
				for i := 0; i < st.NumFields(); i++ {
					f := st.Field(i)
					if b, ok := f.Type().Underlying().(*types.Basic); !ok || b.Kind() != types.Bool {
						continue
					}
					if c07Mentions(info, named, f, cond) {
						if testedIn[f] == nil {
							testedIn[f] = map[*types.Func]bool{}
						}
						testedIn[f][m.Obj] = true
					}
				}
			}
			return true
		})
	}
	n := 0
	sort.Slice(methods, func(i, j int) bool { return methods[i].Decl.Pos() < methods[j].Decl.Pos() })
	for _, m := range methods {
		info := m.Pkg.TypesInfo
		for i := 0; i < st.NumFields(); i++ {
			f := st.Field(i)
			if !testedIn[f][m.Obj] || len(testedIn[f]) < 2 {
				continue
			}
			c := r.P.CFGOf(m)
			// effect of a CFG node on f: 0 none, 1 clear, 2 other assignment
			effect := func(nd ast.Node) int {
				e := 0
				ast.Inspect(nd, func(x ast.Node) bool {
					switch v := x.(type) {
					case *ast.FuncLit:
						return false
					case *ast.AssignStmt:
						for k, l := range v.Lhs {
							if c07FieldOf(info, named, l) != f {
								continue
							}
							if len(v.Lhs) == len(v.Rhs) {
								if b, ok := c07BoolConst(info, v.Rhs[k]); ok && !b {
									if e == 0 {
										e = 1
									}
									continue
								}
							}
							e = 2
						}
					case *ast.CallExpr:
						if g := callee(info, v); g != nil && g != m.Obj {
							if sig, ok := g.Type().(*types.Signature); ok && sig.Recv() != nil {
								cl, touches := c07ClearsAlways(r.P, named, g, f)
								if cl && e == 0 {
									e = 1
								} else if touches && !cl {
									e = 2
								}
							}
						}
					}
					return true
				})
				return e
			}
			// test nodes: conditions of M mentioning f
			type site struct {
				b   *cfg.Block
				idx int
				e   ast.Expr
			}
			var tests []site
			for _, b := range c.G.Blocks {
				if !b.Live {
					continue
				}
				if cd := c.CondOf(b); cd != nil && cd.Tag == nil && c07Mentions(info, named, f, cd.Expr) {
					tests = append(tests, site{b, len(b.Nodes) - 1, cd.Expr})
				}
			}
			for _, t := range tests {
				// assignments reachable from the test
				clears, others := 0, 0
				seen := map[*cfg.Block]bool{}
				var walk func(b *cfg.Block)
				walk = func(b *cfg.Block) {
					if seen[b] {
						return
					}
					seen[b] = true
					for _, nd := range b.Nodes {
						switch effect(nd) {
						case 1:
							clears++
						case 2:
							others++
						}
					}
					for _, s := range b.Succs {
						walk(s)
					}
				}
				for _, s := range t.b.Succs {
					walk(s)
				}
				if clears == 0 || others > 0 {
					continue // not a consume-and-clear flag of this method
				}
				n++
				o := r.Ob(R, m.Name()+"#clears:"+f.Name(), t.e.Pos())
				// paths from the test with f true that return without a clear
				type key struct {
					b *cfg.Block
				}
				visited := map[key]bool{}
				var leaks []string
				var flow func(b *cfg.Block, start int)
				flow = func(b *cfg.Block, start int) {
					for k := start; k < len(b.Nodes); k++ {
						nd := b.Nodes[k]
						if effect(nd) == 1 {
							return
						}
						if ret, ok := nd.(*ast.ReturnStmt); ok {
							if !c07ErrorReturn(r.P, m, ret) {
								leaks = append(leaks, r.P.Pos(ret.Pos()))
							}
							return
						}
					}
					if len(b.Succs) == 0 {
						return
					}
					for k, s := range b.Succs {
						feasible := true
						for _, l := range c.edgeLits(b, k) {
							if l.Tag != nil {
								continue
							}
							v := c07Eval3(info, named, f, l.Expr, true)
							if !l.Truth {
								v = c06Not(v)
							}
							if v == c06F {
								feasible = false
							}
						}
						if !feasible || visited[key{s}] {
							continue
						}
						visited[key{s}] = true
						flow(s, 0)
					}
				}
				// the test itself is the last node of its block: follow its edges
				flow(t.b, len(t.b.Nodes))
				if len(leaks) == 0 {
					o.OK("every non-error path from the test `%s` on which %s is set clears it (%d clearing statements)", exprStr(t.e), f.Name(), clears)
				} else {
					sort.Strings(leaks)
					o.Bad("%s is tested by `%s` and cleared only on some of the paths that follow: with the flag set the method can return at %s leaving it set. The flag, set by the URL show function for a value that carried the '?', makes the NEXT value be escaped as a path instead of a query value ('&' → &amp;, '=', '#', '+' kept): after literal text not beginning with the tested character, e.g. href=\"{{ base }}&ref={{ v }}\", the value no longer decodes to itself", f.Name(), exprStr(t.e), strings.Join(leaks, ", "))
				}
			}
		}
	}
	if n == 0 {
		r.Ob(R, "runtime.renderer#consumed-flags", token.NoPos).Unknown("no method of the renderer tests and clears a flag that another method tests: the URL state of the renderer was reshaped, the rule must be re-confirmed")
	}
	r.Require(R, 1)
}

// c07ErrorReturn reports whether ret is under `if err != nil` (an error exit: rendering stops).
func c07ErrorReturn(p *Prog, m *FuncInfo, ret *ast.ReturnStmt) bool {
	info := m.Pkg.TypesInfo
	par := p.Parents(m.File)
	var child ast.Node = ret
	for n := par[ret]; n != nil; n = par[n] {
		if is, ok := n.(*ast.IfStmt); ok && containsNode(is.Body, child) {
			if be, ok := ast.Unparen(is.Cond).(*ast.BinaryExpr); ok && be.Op == token.NEQ {
				for _, pr := range [][2]ast.Expr{{be.X, be.Y}, {be.Y, be.X}} {
					if tv, ok := info.Types[pr[1]]; ok && tv.IsNil() {
						if t := info.TypeOf(pr[0]); t != nil && types.Identical(t, types.Universe.Lookup("error").Type()) {
							return true
						}
					}
				}
			}
		}
		if _, ok := n.(*ast.FuncDecl); ok {
			break
		}
		child = n
	}
	return false
}
