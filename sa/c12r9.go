package main

// C12 R-9 (added after seeded change C12-5): a loop that walks the chain of panics reads every attribute
// of a panic from the element it is visiting.
//
// The chain of a *PanicError (field `next` / method Next) is what Error() prints and what nextCall trims.
// A loop over it has a cursor: a variable (or field) of type *PanicError that the loop assigns from the
// link of a panic, from an element of a slice of panics, or as the range variable over such a slice.
// Inside the loop (condition, body, post statement) every field read or method call on a panic —
// message, recovered flag, path, position, String(), Recovered() … — must be made on an expression the
// loop changes. A read on a panic variable that the loop never assigns (typically the receiver, i.e. the
// head of the chain, after the walk was rewritten with a new cursor) yields the same answer for every
// element: Error() then prints the head's flag / message on every line, so the text (and the fatal message
// of a callback panic) disagrees with Message()/Recovered()/Next() as soon as two panics of the chain
// differ in that attribute.
//
// Nothing depends on names: panic types are the type of the field vm.panic and the public wrapper around
// it; the link is any field or method of those types whose type is again a pointer to one of them.

import (
	"go/ast"
	"go/types"
	"sort"
	"strings"

	"golang.org/x/tools/go/packages"
)

func init() {
	p := registry["C12"]
	if p == nil {
		return
	}
	run := p.run
	p.run = func(r *Run) { run(r); c12ChainLoops(r) }
	p.explain += " R-9: in every loop that walks the chain of panics (a *PanicError cursor assigned in the loop from a link, a slice element or a range), each field read or method call on a panic inside the loop is made on an expression the loop changes, never on a panic variable that stays the same for every element (the head)."
}

type c12cl struct {
	r      *Run
	panicT map[*types.Named]bool
}

func (x *c12cl) isPanic(t types.Type) bool {
	n := c11NamedOf(t)
	return n != nil && x.panicT[n]
}

func (x *c12cl) isPanicSeq(t types.Type) bool {
	if t == nil {
		return false
	}
	switch u := t.Underlying().(type) {
	case *types.Slice:
		return x.isPanic(u.Elem())
	case *types.Array:
		return x.isPanic(u.Elem())
	case *types.Map:
		return x.isPanic(u.Elem())
	case *types.Pointer:
		if a, ok := u.Elem().Underlying().(*types.Array); ok {
			return x.isPanic(a.Elem())
		}
	}
	return false
}

// c12Rel is the key of a module package for Prog.Pkg / Prog.Funcs.
func c12Rel(pk *packages.Package) string {
	return strings.TrimPrefix(strings.TrimPrefix(pk.PkgPath, modulePath), "/")
}

// c12Place identifies what an expression of panic type denotes: a variable, or a field (whatever the
// base it is selected from: vm.panic is one place).
func c12Place(info *types.Info, e ast.Expr) types.Object {
	e = ast.Unparen(e)
	if o := c11ObjOf(info, e); o != nil {
		return o
	}
	if f := c11FieldOf(info, e); f != nil {
		return f
	}
	return nil
}

// navigates reports whether e produces a panic out of another one or out of a collection of panics.
func (x *c12cl) navigates(info *types.Info, e ast.Expr) bool {
	e = ast.Unparen(e)
	switch v := e.(type) {
	case *ast.SelectorExpr:
		// p.next
		return x.isPanic(info.TypeOf(v)) && x.isPanic(info.TypeOf(v.X)) && c11FieldOf(info, v) != nil
	case *ast.CallExpr:
		// p.Next()
		if se, ok := ast.Unparen(v.Fun).(*ast.SelectorExpr); ok && x.isPanic(info.TypeOf(v)) && x.isPanic(info.TypeOf(se.X)) {
			return true
		}
	case *ast.IndexExpr:
		return x.isPanic(info.TypeOf(v)) && x.isPanicSeq(info.TypeOf(v.X))
	case *ast.UnaryExpr:
		// &PanicError{inner.Next()} and the like are not followed
	}
	return false
}

func c12ChainLoops(r *Run) {
	const R = "R-9"
	a := c11Resolve(r.P)
	if !c11Need(r, R, a) {
		return
	}
	x := &c12cl{r: r, panicT: map[*types.Named]bool{}}
	inner := c11NamedOf(a.fPanic.Type())
	if !r.Anchor(R, "type of the panic record (the type of vm.panic)", inner != nil) {
		return
	}
	x.panicT[inner] = true
	// public wrappers: structs of the root package with a single field of the inner type
	if root := r.P.Pkg(""); root != nil {
		sc := root.Types.Scope()
		for _, nm := range sc.Names() {
			if tn, ok := sc.Lookup(nm).(*types.TypeName); ok && !tn.IsAlias() {
				if n, _ := tn.Type().(*types.Named); n != nil {
					if fs := c11StructFields(n); len(fs) == 1 && c11NamedOf(fs[0].Type()) == inner {
						x.panicT[n] = true
					}
				}
			}
		}
	}
	var fns []*FuncInfo
	for _, pk := range r.P.Pkgs {
		if r.P.Pkg(c12Rel(pk)) != pk {
			continue
		}
		for _, fi := range r.P.Funcs(c12Rel(pk)) {
			if !r.P.isTestFile(fi.File) && fi.Obj != nil {
				fns = append(fns, fi)
			}
		}
	}
	sort.Slice(fns, func(i, j int) bool { return fns[i].Name() < fns[j].Name() })
	for _, fi := range fns {
		info := fi.Pkg.TypesInfo
		ast.Inspect(fi.Decl.Body, func(n ast.Node) bool {
			switch l := n.(type) {
			case *ast.ForStmt:
				parts := []ast.Node{l.Body}
				if l.Cond != nil {
					parts = append(parts, l.Cond)
				}
				if l.Post != nil {
					parts = append(parts, l.Post)
				}
				x.loop(R, fi, info, l, l.Body, parts, nil)
			case *ast.RangeStmt:
				x.loop(R, fi, info, l, l.Body, []ast.Node{l.Body}, l)
			}
			return true
		})
	}
	r.Require(R, 3)
}

// loop judges one loop. parts are the pieces executed on every iteration.
func (x *c12cl) loop(R string, fi *FuncInfo, info *types.Info, l ast.Node, body *ast.BlockStmt, parts []ast.Node, rng *ast.RangeStmt) {
	r := x.r
	changed := map[types.Object]bool{} // panic-typed places assigned on every iteration
	cursors := map[types.Object]bool{} // those assigned by navigating the chain
	if rng != nil && x.isPanicSeq(info.TypeOf(rng.X)) {
		for _, kv := range []ast.Expr{rng.Key, rng.Value} {
			if kv != nil && x.isPanic(info.TypeOf(kv)) {
				if o := c12Place(info, kv); o != nil {
					changed[o], cursors[o] = true, true
				}
			}
		}
	}
	for _, part := range parts {
		var scan func(n ast.Node, nested bool)
		scan = func(root ast.Node, nested bool) {
			ast.Inspect(root, func(n ast.Node) bool {
				if n == nil || n == root {
					return true
				}
				switch v := n.(type) {
				case *ast.FuncLit:
					return false
				case *ast.ForStmt, *ast.RangeStmt:
					// what a nested loop assigns changes, but its cursor is its own
					if rs, ok := v.(*ast.RangeStmt); ok {
						for _, kv := range []ast.Expr{rs.Key, rs.Value} {
							if kv != nil && x.isPanic(info.TypeOf(kv)) {
								if o := c12Place(info, kv); o != nil {
									changed[o] = true
								}
							}
						}
					}
					scan(n, true)
					return false
				case *ast.AssignStmt:
					for i, lh := range v.Lhs {
						if !x.isPanic(info.TypeOf(lh)) {
							continue
						}
						o := c12Place(info, lh)
						if o == nil {
							continue
						}
						changed[o] = true
						if !nested && len(v.Lhs) == len(v.Rhs) && x.navigates(info, v.Rhs[i]) {
							cursors[o] = true
						}
					}
				}
				return true
			})
		}
		if as, ok := part.(*ast.AssignStmt); ok {
			// the post statement is itself the assignment
			scan(&ast.BlockStmt{List: []ast.Stmt{as}}, false)
		} else {
			scan(part, false)
		}
	}
	if len(cursors) == 0 {
		return
	}
	var cn []string
	for o := range cursors {
		cn = append(cn, o.Name())
	}
	sort.Strings(cn)
	o := r.Ob(R, fi.Name()+"#chain-loop", l.Pos())
	// variables declared inside the loop are new on every iteration
	inLoop := func(obj types.Object) bool { return obj.Pos() >= l.Pos() && obj.Pos() < l.End() }
	lhs := map[ast.Expr]bool{}
	var bad []string
	nreads := 0
	for _, part := range parts {
		ast.Inspect(part, func(n ast.Node) bool {
			switch v := n.(type) {
			case *ast.FuncLit:
				return false
			case *ast.AssignStmt:
				for _, lh := range v.Lhs {
					lhs[ast.Unparen(lh)] = true
				}
			case *ast.SelectorExpr:
				if !x.isPanic(info.TypeOf(v.X)) || lhs[v] {
					return true
				}
				sel := info.Selections[v]
				if sel == nil {
					return true // qualified identifier
				}
				nreads++
				base := ast.Unparen(v.X)
				for {
					// an attribute of an attribute: p.next.recovered is read from p
					if se, ok := base.(*ast.SelectorExpr); ok && x.isPanic(info.TypeOf(se.X)) && c11FieldOf(info, se) != nil && c12Place(info, se) != nil && !changed[c12Place(info, se)] {
						base = ast.Unparen(se.X)
						continue
					}
					if c, ok := base.(*ast.CallExpr); ok {
						if se, ok := ast.Unparen(c.Fun).(*ast.SelectorExpr); ok && x.isPanic(info.TypeOf(se.X)) {
							base = ast.Unparen(se.X)
							continue
						}
					}
					break
				}
				place := c12Place(info, base)
				switch {
				case place == nil:
					// an element of a collection, the result of a call … : not a fixed panic variable
				case changed[place] || inLoop(place):
				default:
					bad = append(bad, exprStr(v)+" ("+r.P.Pos(v.Pos())+")")
				}
			}
			return true
		})
	}
	switch {
	case len(bad) > 0:
		sort.Strings(bad)
		o.Bad("the loop walks the chain of panics with the cursor %s, but reads %s from a panic that the loop never changes: the same value is used for every panic of the chain, so the report of a chain whose panics differ in that attribute (an earlier panic recovered, the last one not) is wrong for all but one of them", strings.Join(cn, ", "), strings.Join(bad, ", "))
	case nreads == 0:
		o.Trivial("cursor %s; the loop reads no attribute of a panic", strings.Join(cn, ", "))
	default:
		o.OK("cursor %s; the %d attribute reads of the loop are all made on a panic the loop changes", strings.Join(cn, ", "), nreads)
	}
}
