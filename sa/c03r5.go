package main

// C03 R-5: the kind-level case analysis of the type relations agrees with the Go specification.
//
// "Build accepts a program exactly when the Go type checker does": a non-constant conversion T(x) is
// decided by types.ConvertibleTo and every assignment / argument passing / comparison by
// types.AssignableTo. The Go specification decides both relations, for many pairs of types, by the
// KINDS of the two underlying types alone:
//
//   - conversion is ALWAYS permitted between integer and floating point kinds, between the two complex
//     kinds, from an integer kind to a string kind, and between two types of the same basic kind (their
//     underlying types are identical);
//   - conversion is NEVER permitted between two different kinds outside that list, the pairs
//     slice<->string, slice->pointer (to array), slice->array and anything->interface excepted, where it
//     DEPENDS on more than the kinds; it also depends on more than the kinds between two composite
//     types of the same kind;
//   - assignability of two types of DIFFERENT kinds is never permitted unless the destination is an
//     interface; with equal kinds, or an interface destination, it depends on more than the kinds.
//
// The rule evaluates the body of each relation on the finite domain reflect.Kind x reflect.Kind
// (26 x 26 pairs) by abstract interpretation of its syntax: the two parameters are "a type of kind k",
// a comparison of kinds with constants is decided, everything else (Elem, Name, NumMethod, ...) is
// unknown, calls of functions of the same package are interpreted with the abstract arguments. For
// each pair the set of possible results {true}, {false} or {true,false} must be the one the
// specification prescribes: always -> {true}, never -> {false}, depends -> {true,false}. Nothing of
// /repo is executed.

import (
	"fmt"
	"go/ast"
	"go/constant"
	"go/token"
	"go/types"
	"sort"
	"strings"
)

func init() {
	p := registry["C03"]
	if p == nil {
		return
	}
	run := p.run
	p.run = func(r *Run) { run(r); c03KindMatrix(r) }
	p.explain += " R-5: on the finite domain of pairs of reflect kinds, the result of types.ConvertibleTo and types.AssignableTo computed by abstract interpretation of their bodies (kinds known, everything else unknown) is {true} where the Go specification always permits, {false} where it never permits and {true,false} where the answer depends on more than the kinds."
	for i, s := range p.notCov {
		if strings.HasPrefix(s, "which programs are accepted or rejected") {
			p.notCov[i] = "which programs are accepted or rejected (first two clauses of C03): equivalence with go/types is not decided; only the structural necessary conditions R-5 (kind matrix of the type relations), R-6 (a pure assignment is not a use) and R-7 (terminating statements) are"
		}
	}
}

// ---------------------------------------------------------------------------
// abstract values

type c03Tri uint8 // bit 1: may be true, bit 2: may be false

const (
	c03T c03Tri = 1
	c03F c03Tri = 2
	c03U c03Tri = 3
)

func c03TriOf(b bool) c03Tri {
	if b {
		return c03T
	}
	return c03F
}

func (t c03Tri) not() c03Tri {
	switch t {
	case c03T:
		return c03F
	case c03F:
		return c03T
	}
	return c03U
}

func c03And(a, b c03Tri) c03Tri {
	if a == c03F || b == c03F {
		return c03F
	}
	if a == c03T && b == c03T {
		return c03T
	}
	return c03U
}

func c03Or(a, b c03Tri) c03Tri { return c03And(a.not(), b.not()).not() }

type c03AVKind uint8

const (
	c03AVUnknown c03AVKind = iota
	c03AVBool
	c03AVInt
	c03AVType // a reflect.Type; n is its kind when known
)

type c03AV struct {
	k     c03AVKind
	b     c03Tri
	n     int64
	known bool // for c03AVInt and c03AVType
}

func (v c03AV) String() string {
	switch v.k {
	case c03AVBool:
		return fmt.Sprintf("b%d", v.b)
	case c03AVInt:
		if v.known {
			return fmt.Sprintf("i%d", v.n)
		}
		return "i?"
	case c03AVType:
		if v.known {
			return fmt.Sprintf("t%d", v.n)
		}
		return "t?"
	}
	return "?"
}

func (v c03AV) tri() c03Tri {
	if v.k == c03AVBool {
		return v.b
	}
	return c03U
}

type c03Env map[types.Object]c03AV

func (e c03Env) clone() c03Env {
	o := make(c03Env, len(e))
	for k, v := range e {
		o[k] = v
	}
	return o
}

func c03JoinEnv(a, b c03Env) c03Env {
	o := c03Env{}
	for k, v := range a {
		w, ok := b[k]
		if !ok {
			continue
		}
		if v == w {
			o[k] = v
			continue
		}
		switch {
		case v.k == c03AVBool && w.k == c03AVBool:
			o[k] = c03AV{k: c03AVBool, b: v.b | w.b}
		case v.k == w.k:
			o[k] = c03AV{k: v.k}
		}
	}
	return o
}

// outcome of executing statements
type c03Out struct {
	ret  c03Tri // possible boolean results of `return`
	fall bool   // control may reach the end of the statements
	brk  bool   // control may leave through break / continue
}

func (o c03Out) join(p c03Out) c03Out {
	return c03Out{ret: o.ret | p.ret, fall: o.fall || p.fall, brk: o.brk || p.brk}
}

// c03Abs interprets functions of one package.
type c03Abs struct {
	P        *Prog
	info     *types.Info
	decls    map[*types.Func]*FuncInfo
	memo     map[string]c03Tri
	active   map[string]bool
	unread   []string // constructs the interpreter could not read
	unreadAt token.Pos
}

func c03NewAbs(p *Prog, rel string) *c03Abs {
	pk := p.Pkg(rel)
	if pk == nil {
		return nil
	}
	a := &c03Abs{P: p, info: pk.TypesInfo, decls: map[*types.Func]*FuncInfo{}, memo: map[string]c03Tri{}, active: map[string]bool{}}
	for _, fi := range p.Funcs(rel) {
		if fi.Obj != nil && !p.isTestFile(fi.File) {
			a.decls[fi.Obj] = fi
		}
	}
	return a
}

func (a *c03Abs) noRead(n ast.Node, what string) {
	if len(a.unread) < 4 {
		a.unread = append(a.unread, fmt.Sprintf("%s at %s", what, a.P.Pos(n.Pos())))
	}
	if !a.unreadAt.IsValid() {
		a.unreadAt = n.Pos()
	}
}

func c03IsReflectType(t types.Type) bool {
	n, ok := t.(*types.Named)
	return ok && n.Obj().Pkg() != nil && n.Obj().Pkg().Path() == "reflect" && n.Obj().Name() == "Type"
}

// unknownOf returns the unknown value of the class of a Go type.
func c03UnknownOf(t types.Type) c03AV {
	if t == nil {
		return c03AV{}
	}
	if c03IsReflectType(t) {
		return c03AV{k: c03AVType}
	}
	if b, ok := t.Underlying().(*types.Basic); ok {
		switch {
		case b.Info()&types.IsBoolean != 0:
			return c03AV{k: c03AVBool, b: c03U}
		case b.Info()&types.IsInteger != 0:
			return c03AV{k: c03AVInt}
		}
	}
	return c03AV{}
}

func (a *c03Abs) eval(e ast.Expr, env c03Env) c03AV {
	e = ast.Unparen(e)
	if tv, ok := a.info.Types[e]; ok && tv.Value != nil {
		switch tv.Value.Kind() {
		case constant.Bool:
			return c03AV{k: c03AVBool, b: c03TriOf(constant.BoolVal(tv.Value))}
		case constant.Int:
			if n, ok := constant.Int64Val(tv.Value); ok {
				return c03AV{k: c03AVInt, n: n, known: true}
			}
		}
		return c03UnknownOf(tv.Type)
	}
	typ := a.info.TypeOf(e)
	switch x := e.(type) {
	case *ast.Ident:
		if obj := a.info.Uses[x]; obj != nil {
			if v, ok := env[obj]; ok {
				return v
			}
		}
	case *ast.UnaryExpr:
		if x.Op == token.NOT {
			return c03AV{k: c03AVBool, b: a.eval(x.X, env).tri().not()}
		}
	case *ast.BinaryExpr:
		l, r := a.eval(x.X, env), a.eval(x.Y, env)
		switch x.Op {
		case token.LAND:
			return c03AV{k: c03AVBool, b: c03And(l.tri(), r.tri())}
		case token.LOR:
			return c03AV{k: c03AVBool, b: c03Or(l.tri(), r.tri())}
		case token.EQL, token.NEQ, token.LSS, token.LEQ, token.GTR, token.GEQ:
			res := c03U
			switch {
			case l.k == c03AVInt && r.k == c03AVInt && l.known && r.known:
				res = c03TriOf(constant.Compare(constant.MakeInt64(l.n), x.Op, constant.MakeInt64(r.n)))
			case l.k == c03AVType && r.k == c03AVType && l.known && r.known && l.n != r.n && (x.Op == token.EQL || x.Op == token.NEQ):
				// two types of different kinds are different types
				res = c03TriOf(x.Op == token.NEQ)
			case l.k == c03AVBool && r.k == c03AVBool && l.b != c03U && r.b != c03U && (x.Op == token.EQL || x.Op == token.NEQ):
				res = c03TriOf((l.b == r.b) == (x.Op == token.EQL))
			}
			return c03AV{k: c03AVBool, b: res}
		}
	case *ast.CallExpr:
		// conversion reflect.Kind(v) / int(v): the value is unchanged on the domain
		if tv, ok := a.info.Types[x.Fun]; ok && tv.IsType() && len(x.Args) == 1 {
			v := a.eval(x.Args[0], env)
			if v.k == c03AVInt {
				return v
			}
			return c03UnknownOf(typ)
		}
		fn := callee(a.info, x)
		if fn == nil {
			break
		}
		// t.Kind() on a type of known kind
		if sel, ok := ast.Unparen(x.Fun).(*ast.SelectorExpr); ok && len(x.Args) == 0 && fn.Name() == "Kind" && fn.Pkg() != nil && fn.Pkg().Path() == "reflect" {
			if v := a.eval(sel.X, env); v.k == c03AVType {
				return c03AV{k: c03AVInt, n: v.n, known: v.known}
			}
			return c03AV{k: c03AVInt}
		}
		if fi := a.decls[fn]; fi != nil && fi.Decl.Recv == nil {
			sig := fn.Type().(*types.Signature)
			if sig.Results().Len() == 1 && !sig.Variadic() && len(x.Args) == sig.Params().Len() {
				if b, ok := sig.Results().At(0).Type().Underlying().(*types.Basic); ok && b.Info()&types.IsBoolean != 0 {
					args := make([]c03AV, len(x.Args))
					for i, ae := range x.Args {
						args[i] = a.eval(ae, env)
					}
					return c03AV{k: c03AVBool, b: a.call(fi, args)}
				}
			}
		}
	}
	return c03UnknownOf(typ)
}

// call interprets a boolean function of the package on abstract arguments.
func (a *c03Abs) call(fi *FuncInfo, args []c03AV) c03Tri {
	var sb strings.Builder
	sb.WriteString(fi.Name())
	for _, v := range args {
		sb.WriteString(" " + v.String())
	}
	key := sb.String()
	if t, ok := a.memo[key]; ok {
		return t
	}
	if a.active[key] || len(a.active) > 12 {
		return c03U // recursion on the same abstract arguments: any result
	}
	a.active[key] = true
	defer delete(a.active, key)
	env := c03Env{}
	i := 0
	for _, fl := range fi.Decl.Type.Params.List {
		if len(fl.Names) == 0 {
			i++
			continue
		}
		for _, nm := range fl.Names {
			if obj := a.info.Defs[nm]; obj != nil && i < len(args) {
				v := args[i]
				if v.k == c03AVUnknown {
					v = c03UnknownOf(obj.Type())
				}
				env[obj] = v
			}
			i++
		}
	}
	out, _ := a.exec(fi.Decl.Body.List, env)
	res := out.ret
	if out.fall || out.brk || res == 0 {
		// a boolean function cannot fall off its end; an empty result set means the body was not read
		res = c03U
	}
	a.memo[key] = res
	return res
}

func (a *c03Abs) assign(lhs ast.Expr, v c03AV, env c03Env) {
	id, ok := ast.Unparen(lhs).(*ast.Ident)
	if !ok {
		return // a store into a field / element: no tracked variable changes
	}
	if id.Name == "_" {
		return
	}
	obj := a.info.Defs[id]
	if obj == nil {
		obj = a.info.Uses[id]
	}
	if obj == nil {
		return
	}
	if v.k == c03AVUnknown {
		v = c03UnknownOf(obj.Type())
	}
	env[obj] = v
}

// havoc forgets every variable assigned inside n.
func (a *c03Abs) havoc(n ast.Node, env c03Env) {
	ast.Inspect(n, func(m ast.Node) bool {
		switch s := m.(type) {
		case *ast.AssignStmt:
			for _, l := range s.Lhs {
				a.assign(l, c03AV{}, env)
			}
		case *ast.IncDecStmt:
			a.assign(s.X, c03AV{}, env)
		case *ast.RangeStmt:
			if s.Key != nil {
				a.assign(s.Key, c03AV{}, env)
			}
			if s.Value != nil {
				a.assign(s.Value, c03AV{}, env)
			}
		}
		return true
	})
}

func (a *c03Abs) exec(list []ast.Stmt, env c03Env) (c03Out, c03Env) {
	out := c03Out{}
	for _, st := range list {
		o, e2 := a.execStmt(st, env)
		env = e2
		out.ret |= o.ret
		out.brk = out.brk || o.brk
		if !o.fall {
			return out, env
		}
	}
	out.fall = true
	return out, env
}

func (a *c03Abs) execStmt(st ast.Stmt, env c03Env) (c03Out, c03Env) {
	switch s := st.(type) {
	case nil:
		return c03Out{fall: true}, env
	case *ast.ReturnStmt:
		if len(s.Results) == 1 {
			return c03Out{ret: a.eval(s.Results[0], env).tri()}, env
		}
		return c03Out{ret: c03U}, env
	case *ast.BlockStmt:
		return a.exec(s.List, env)
	case *ast.EmptyStmt:
		return c03Out{fall: true}, env
	case *ast.ExprStmt:
		if call, ok := s.X.(*ast.CallExpr); ok && isBuiltinCall(a.info, call, "panic") {
			return c03Out{}, env
		}
		return c03Out{fall: true}, env
	case *ast.DeclStmt:
		if gd, ok := s.Decl.(*ast.GenDecl); ok && gd.Tok == token.VAR {
			for _, sp := range gd.Specs {
				vs := sp.(*ast.ValueSpec)
				for i, nm := range vs.Names {
					v := c03AV{}
					if len(vs.Values) == len(vs.Names) {
						v = a.eval(vs.Values[i], env)
					} else if len(vs.Values) == 0 {
						if obj := a.info.Defs[nm]; obj != nil {
							v = c03UnknownOf(obj.Type())
							switch v.k { // zero value
							case c03AVBool:
								v.b = c03F
							case c03AVInt:
								v.known, v.n = true, 0
							}
						}
					}
					a.assign(nm, v, env)
				}
			}
		}
		return c03Out{fall: true}, env
	case *ast.AssignStmt:
		if len(s.Lhs) == len(s.Rhs) && (s.Tok == token.ASSIGN || s.Tok == token.DEFINE) {
			vals := make([]c03AV, len(s.Rhs))
			for i, r := range s.Rhs {
				vals[i] = a.eval(r, env)
			}
			for i, l := range s.Lhs {
				a.assign(l, vals[i], env)
			}
		} else {
			for _, l := range s.Lhs {
				a.assign(l, c03AV{}, env)
			}
		}
		return c03Out{fall: true}, env
	case *ast.IncDecStmt:
		a.assign(s.X, c03AV{}, env)
		return c03Out{fall: true}, env
	case *ast.IfStmt:
		if s.Init != nil {
			_, env = a.execStmt(s.Init, env)
		}
		c := a.eval(s.Cond, env).tri()
		var els ast.Stmt = s.Else
		switch c {
		case c03T:
			return a.exec(s.Body.List, env)
		case c03F:
			if els == nil {
				return c03Out{fall: true}, env
			}
			return a.execStmt(els, env)
		}
		o1, e1 := a.exec(s.Body.List, env.clone())
		o2, e2 := c03Out{fall: true}, env
		if els != nil {
			o2, e2 = a.execStmt(els, env.clone())
		}
		return o1.join(o2), c03JoinEnv(e1, e2)
	case *ast.SwitchStmt:
		if s.Init != nil {
			_, env = a.execStmt(s.Init, env)
		}
		var tag *c03AV
		if s.Tag != nil {
			v := a.eval(s.Tag, env)
			tag = &v
		}
		out := c03Out{}
		var envs []c03Env
		var def *ast.CaseClause
		decided := false // some clause is taken for sure
		for _, cs := range s.Body.List {
			cc := cs.(*ast.CaseClause)
			if cc.List == nil {
				def = cc
				continue
			}
			m := c03F
			for _, ce := range cc.List {
				var one c03Tri
				if tag == nil {
					one = a.eval(ce, env).tri()
				} else {
					cv := a.eval(ce, env)
					one = c03U
					if tag.k == c03AVInt && cv.k == c03AVInt && tag.known && cv.known {
						one = c03TriOf(tag.n == cv.n)
					}
				}
				m = c03Or(m, one)
			}
			if m == c03F {
				continue
			}
			o, e2 := a.execClause(cc, env.clone())
			out = out.join(o)
			envs = append(envs, e2)
			if m == c03T {
				decided = true
				break
			}
		}
		if !decided {
			if def != nil {
				o, e2 := a.execClause(def, env.clone())
				out = out.join(o)
				envs = append(envs, e2)
			} else {
				out.fall = true
				envs = append(envs, env)
			}
		}
		return c03SwitchOut(out), c03JoinEnvs(envs, env)
	case *ast.TypeSwitchStmt:
		if s.Init != nil {
			_, env = a.execStmt(s.Init, env)
		}
		out := c03Out{}
		envs := []c03Env{}
		hasDef := false
		for _, cs := range s.Body.List {
			cc := cs.(*ast.CaseClause)
			if cc.List == nil {
				hasDef = true
			}
			o, e2 := a.execClause(cc, env.clone())
			out = out.join(o)
			envs = append(envs, e2)
		}
		if !hasDef {
			out.fall = true
			envs = append(envs, env)
		}
		return c03SwitchOut(out), c03JoinEnvs(envs, env)
	case *ast.ForStmt, *ast.RangeStmt:
		if f, ok := s.(*ast.ForStmt); ok && f.Init != nil {
			_, env = a.execStmt(f.Init, env)
		}
		env = env.clone()
		a.havoc(s, env)
		var body *ast.BlockStmt
		if f, ok := s.(*ast.ForStmt); ok {
			body = f.Body
		} else {
			body = s.(*ast.RangeStmt).Body
		}
		o, _ := a.exec(body.List, env.clone())
		// zero or more iterations: the loop may be left normally whatever the body does
		return c03Out{ret: o.ret, fall: true}, env
	case *ast.BranchStmt:
		if s.Label == nil && (s.Tok == token.BREAK || s.Tok == token.CONTINUE) {
			return c03Out{brk: true}, env
		}
		a.noRead(s, "branch statement "+s.Tok.String())
		return c03Out{ret: c03U, fall: true}, env
	}
	a.noRead(st, fmt.Sprintf("statement %T", st))
	return c03Out{ret: c03U, fall: true}, env
}

func (a *c03Abs) execClause(cc *ast.CaseClause, env c03Env) (c03Out, c03Env) {
	for _, st := range cc.Body {
		if b, ok := st.(*ast.BranchStmt); ok && b.Tok == token.FALLTHROUGH {
			a.noRead(b, "fallthrough")
		}
	}
	return a.exec(cc.Body, env)
}

// a break inside a switch clause leaves the switch
func c03SwitchOut(o c03Out) c03Out {
	if o.brk {
		o.brk, o.fall = false, true
	}
	return o
}

func c03JoinEnvs(envs []c03Env, dflt c03Env) c03Env {
	if len(envs) == 0 {
		return dflt
	}
	e := envs[0]
	for _, x := range envs[1:] {
		e = c03JoinEnv(e, x)
	}
	return e
}

// ---------------------------------------------------------------------------
// the specification, by kinds

type c03Spec uint8

const (
	c03Always  c03Spec = iota // {true}
	c03Never                  // {false}
	c03Depends                // {true,false}
	c03NotMore                // {false} or {true,false}: permitted by Go in some cases, outside the supported subset or not implemented
)

func (s c03Spec) String() string {
	return [...]string{"always permitted", "never permitted", "dependent on more than the kinds", "never or conditionally permitted"}[s]
}

type c03Kinds struct {
	val   map[string]int64
	name  map[int64]string
	order []int64
}

func c03LoadKinds(p *Prog) *c03Kinds {
	kt := p.ExtNamed("reflect", "Kind")
	if kt == nil {
		return nil
	}
	ks := &c03Kinds{val: map[string]int64{}, name: map[int64]string{}}
	for _, c := range EnumConsts(kt) {
		v, ok := constantInt64(c)
		if !ok {
			continue
		}
		ks.val[c.Name()] = v
		if c.Name() == "Ptr" || c.Name() == "Invalid" {
			continue
		}
		if _, dup := ks.name[v]; !dup {
			ks.name[v] = c.Name()
			ks.order = append(ks.order, v)
		}
	}
	sort.Slice(ks.order, func(i, j int) bool { return ks.order[i] < ks.order[j] })
	for _, need := range []string{"Bool", "Int", "Int8", "Int16", "Int32", "Int64", "Uint", "Uint8", "Uint16", "Uint32", "Uint64", "Uintptr", "Float32", "Float64", "Complex64", "Complex128", "Array", "Chan", "Func", "Interface", "Map", "Pointer", "Slice", "String", "Struct", "UnsafePointer"} {
		if _, ok := ks.val[need]; !ok {
			return nil
		}
	}
	return ks
}

func (ks *c03Kinds) class(k int64) string {
	switch n := ks.name[k]; n {
	case "Int", "Int8", "Int16", "Int32", "Int64", "Uint", "Uint8", "Uint16", "Uint32", "Uint64", "Uintptr":
		return "integer"
	case "Float32", "Float64":
		return "float"
	case "Complex64", "Complex128":
		return "complex"
	default:
		return n
	}
}

// convertible: Go specification, "Conversions", non-constant values, no type parameters.
func (ks *c03Kinds) convertible(x, y int64) c03Spec {
	cx, cy := ks.class(x), ks.class(y)
	basic := func(c string) bool {
		switch c {
		case "Bool", "integer", "float", "complex", "String", "UnsafePointer":
			return true
		}
		return false
	}
	if x == y {
		if basic(cx) {
			return c03Always // identical underlying types
		}
		return c03Depends
	}
	num := func(c string) bool { return c == "integer" || c == "float" }
	switch {
	case num(cx) && num(cy), cx == "complex" && cy == "complex", cx == "integer" && cy == "String":
		return c03Always
	case cy == "Interface": // x must implement y
		return c03Depends
	case cx == "Slice" && cy == "String", cx == "String" && cy == "Slice", cx == "Slice" && cy == "Pointer":
		return c03Depends
	case cx == "Slice" && cy == "Array": // Go 1.20; not implemented by Scriggo
		return c03NotMore
	case cx == "UnsafePointer" && (cy == "Pointer" || ks.name[y] == "Uintptr"), cy == "UnsafePointer" && (cx == "Pointer" || ks.name[x] == "Uintptr"):
		return c03NotMore // package unsafe is outside the supported subset
	}
	return c03Never
}

// assignable: Go specification, "Assignability", typed non-nil values, no type parameters.
func (ks *c03Kinds) assignable(x, y int64) c03Spec {
	if x == y || ks.class(y) == "Interface" {
		return c03Depends
	}
	return c03Never
}

// ---------------------------------------------------------------------------

func c03KindMatrix(r *Run) {
	const R = "R-5"
	const rel = "internal/compiler/types"
	ks := c03LoadKinds(r.P)
	if !r.Anchor(R, "the constants of reflect.Kind", ks != nil) {
		return
	}
	abs := c03NewAbs(r.P, rel)
	if !r.Anchor(R, "package "+rel, abs != nil) {
		return
	}
	// by role: the exported binary relations on reflect.Type of the package; the relation each decides is
	// told by its name (fallback), which is part of the package's interface with the checker
	relations := map[string]*FuncInfo{}
	for _, fi := range r.P.Funcs(rel) {
		if r.P.isTestFile(fi.File) || fi.Decl.Recv != nil || fi.Obj == nil || !fi.Obj.Exported() {
			continue
		}
		sig := fi.Obj.Type().(*types.Signature)
		if sig.Params().Len() != 2 || sig.Results().Len() != 1 || !c03IsReflectType(sig.Params().At(0).Type()) || !c03IsReflectType(sig.Params().At(1).Type()) {
			continue
		}
		if b, ok := sig.Results().At(0).Type().(*types.Basic); !ok || b.Kind() != types.Bool {
			continue
		}
		relations[fi.Obj.Name()] = fi
	}
	type relSpec struct {
		name string
		spec func(x, y int64) c03Spec
	}
	n := 0
	for _, rs := range []relSpec{{"ConvertibleTo", ks.convertible}, {"AssignableTo", ks.assignable}} {
		fi := relations[rs.name]
		if !r.Anchor(R, "the relation "+rs.name+"(x, y reflect.Type) bool of package "+rel, fi != nil) {
			continue
		}
		// the relation must be the one the checker consults
		used := false
		for _, cf := range r.P.Funcs(c03Compiler) {
			if r.P.isTestFile(cf.File) {
				continue
			}
			for _, c := range calls(cf.Decl.Body, true) {
				if callee(cf.Pkg.TypesInfo, c) == fi.Obj {
					used = true
				}
			}
		}
		if !r.Anchor(R, "a call of types."+rs.name+" in the type checker", used) {
			continue
		}
		for _, x := range ks.order {
			// group the destination kinds with the same verdict to keep the obligations readable:
			// one obligation per source kind
			var bad, unk []string
			for _, y := range ks.order {
				got := abs.call(fi, []c03AV{{k: c03AVType, n: x, known: true}, {k: c03AVType, n: y, known: true}})
				want := rs.spec(x, y)
				ok := false
				switch want {
				case c03Always:
					ok = got == c03T
				case c03Never:
					ok = got == c03F
				case c03Depends:
					ok = got == c03U
				case c03NotMore:
					ok = got == c03F || got == c03U
				}
				if ok {
					continue
				}
				desc := fmt.Sprintf("%s->%s: the specification says %s, the function %s", ks.name[x], ks.name[y], want, c03GotString(got))
				if len(abs.unread) > 0 {
					unk = append(unk, desc+" (not read: "+strings.Join(abs.unread, "; ")+")")
				} else {
					bad = append(bad, desc)
				}
			}
			o := r.Ob(R, fmt.Sprintf("types.%s#from:%s", rs.name, ks.name[x]), fi.Decl.Pos())
			n++
			switch {
			case len(bad) > 0:
				o.Bad("%s from a type of kind %s disagrees with the Go specification for %d destination kind(s): %s", rs.name, ks.name[x], len(bad), c03Head(bad, 4))
			case len(unk) > 0:
				o.Unknown("%s from a type of kind %s could not be decided for %d destination kind(s): %s", rs.name, ks.name[x], len(unk), c03Head(unk, 2))
			default:
				o.OK("for every destination kind the result set of %s on (type of kind %s, type of that kind) is the one the specification prescribes (26 pairs)", rs.name, ks.name[x])
			}
		}
	}
	r.Require(R, 52)
	r.Stats["R-5 kind pairs evaluated"] = n * len(ks.order)
}

func c03GotString(t c03Tri) string {
	switch t {
	case c03T:
		return "returns true whatever the two types are"
	case c03F:
		return "returns false whatever the two types are"
	}
	return "makes the answer depend on something other than the kinds"
}

func c03Head(xs []string, n int) string {
	if len(xs) > n {
		return strings.Join(xs[:n], "; ") + fmt.Sprintf("; ... (%d more)", len(xs)-n)
	}
	return strings.Join(xs, "; ")
}
