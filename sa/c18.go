package main

// C18 — template file loading stays inside the file system and terminates.
//
// R-1 (E3)     single gate: the only file-system touching calls reachable from BuildTemplate are in one
//              function, and they use that function's name parameter
// R-2 (E5)     every name handed to the gate is the top name or the first result of the rooting function
//              applied to the top of the stack of files being expanded
// R-3 (E4a)    the rooting function returns a relative result only on the false edge of the ".." test
// R-4 (E3+E4a) every Extends/Render/Import node the template parser builds carries a validated path
// R-5 (E4)     cycle test and cache lookup dominate the read, the cache is filled after a successful
//              parse, the stack of files is popped on every exit
//
// See /verif/DESIGN.md §5 C18.

import (
	"fmt"
	"go/ast"
	"go/token"
	"go/types"
	"sort"
	"strings"

	"golang.org/x/tools/go/cfg"
	"golang.org/x/tools/go/ssa"
)

func init() {
	register("C18", &ruleSet{
		explain: "Template building reads files through one gate. (R-1) Over the module-internal call graph from scriggo.BuildTemplate (static calls, references to functions, interface calls resolved to the module's own implementers) every call into io/fs, os or io/ioutil that can fail, and every method call on a value implementing fs.FS or fs.File, lies in a single function (the gate, today readFileAndFormat) and is applied to the gate's unmodified name parameter; the same calls elsewhere in compiler/ast/root are listed and must be unreachable from BuildTemplate. (R-2) At every call of the gate the name is either the unmodified name parameter of an exported entry point or, on go/ssa, the first result of one rooting function whose parent argument is the last element of the expansion state's only []string field. (R-3) In the rooting function every return of a non-constant path is either the name parameter minus its first byte under path.IsAbs(name), or a variable guarded by the false edge of strings.HasPrefix(v, \"..\"). (R-4) Every call of ast.NewExtends/NewRender/NewImport statically reachable from ParseTemplateSource has a path argument that, on every path, passed the true edge of ValidTemplatePath(path) or a validator that panics unless it holds. (R-5) In each caller that roots a name: the gate call is guarded by the false edge of slices.Contains(state.paths, name) and by the miss of state.trees[name], name is not reassigned in between, every non-error exit after the read stores state.trees[name]; each push on state.paths is followed by the pop on every exit, and the pushed value is the name that was read.",
		notCov: []string{
			"path.Join, path.Dir, path.IsAbs, fs.ValidPath, slices.Contains: trusted by contract",
			"what the supplied fs.FS does with a name; the transformer callbacks supplied by the embedder",
			"that ValidTemplatePath itself admits only rooted paths (its body is not analysed)",
			"programs: parsePackage/readModulePath read through fsys.Open and fs.ReadDir, outside this property (listed as unreachable from BuildTemplate)",
			"the top name given to BuildTemplate is used as supplied",
		},
		trusted: []string{"io/fs, path, strings, slices contracts", "module-internal call graph: calls made by the standard library back into the module other than through the listed interfaces are not followed"},
		run:     runC18,
	})
}

type c18 struct {
	r       *Run
	byObj   map[*types.Func]*FuncInfo
	fsFS    *types.Interface
	fsFile  *types.Interface
	impls   map[string][]*types.Func // interface method name -> module methods of that name on types of traversed packages
	gate    *FuncInfo
	gateArg types.Object
}

var c18traversed = []string{"", "internal/compiler", "ast", "ast/astutil", "native", "internal/runtime", "internal/compiler/types", "builtin", "internal/thirdparties"}

func runC18(r *Run) {
	x := &c18{r: r, byObj: map[*types.Func]*FuncInfo{}, impls: map[string][]*types.Func{}}
	r.Require("R-1", 2)
	r.Require("R-2", 2)
	r.Require("R-3", 2)
	r.Require("R-4", 3)
	r.Require("R-5", 4)
	if n := r.P.ExtNamed("io/fs", "FS"); n != nil {
		x.fsFS, _ = n.Underlying().(*types.Interface)
	}
	if n := r.P.ExtNamed("io/fs", "File"); n != nil {
		x.fsFile, _ = n.Underlying().(*types.Interface)
	}
	if !r.Anchor("R-1", "io/fs.FS and io/fs.File", x.fsFS != nil && x.fsFile != nil) {
		return
	}
	for _, rel := range c18traversed {
		for _, fi := range r.P.Funcs(rel) {
			if fi.Obj != nil && !r.P.isTestFile(fi.File) {
				x.byObj[fi.Obj] = fi
				if fi.Decl.Recv != nil {
					x.impls[fi.Obj.Name()] = append(x.impls[fi.Obj.Name()], fi.Obj)
				}
			}
		}
	}
	// entry: exported function of the root package taking an fs.FS and a name and returning a template
	var entry *FuncInfo
	for _, fi := range r.P.Funcs("") {
		if fi.Obj == nil || !fi.Obj.Exported() || fi.Decl.Recv != nil {
			continue
		}
		sig := fi.Obj.Type().(*types.Signature)
		if sig.Params().Len() >= 2 && x.isFS(sig.Params().At(0).Type()) && c18isString(sig.Params().At(1).Type()) {
			entry = fi
		}
	}
	if !r.Anchor("R-1", "root package: exported func(fs.FS, name string, ...) (BuildTemplate)", entry != nil) {
		return
	}
	reach := x.reachable(entry)
	r.Stats["functions_reachable_from_BuildTemplate"] = len(reach)

	// ---- R-1: enumerate file-system touching calls
	type site struct {
		fi   *FuncInfo
		call *ast.CallExpr
		what string
		name ast.Expr
	}
	var sites []site
	for _, rel := range []string{"", "internal/compiler", "ast", "ast/astutil"} {
		for _, fi := range r.P.Funcs(rel) {
			if r.P.isTestFile(fi.File) || fi.Obj == nil {
				continue
			}
			for _, c := range calls(fi.Decl.Body, true) {
				if what, name, ok := x.fsTouch(fi, c); ok {
					sites = append(sites, site{fi, c, what, name})
				}
			}
		}
	}
	// the gate: the reachable function holding such calls; when there are several, the one with most
	perFn := map[*FuncInfo]int{}
	for _, s := range sites {
		if sig := s.fi.Obj.Type().(*types.Signature); sig.Recv() != nil && x.isFS(sig.Recv().Type()) {
			continue
		}
		if reach[s.fi.Obj] {
			perFn[s.fi]++
		}
	}
	// a toucher whose only caller in the module is another toucher is that one's helper (`readFile(fsys,
	// name)` called by the gate): the gate is the caller, the helper's sites are judged with it
	callersOf := map[*types.Func]map[*types.Func]bool{}
	for _, rel := range []string{"", "internal/compiler", "ast", "ast/astutil"} {
		for _, fi := range r.P.Funcs(rel) {
			if r.P.isTestFile(fi.File) || fi.Obj == nil {
				continue
			}
			for _, c := range calls(fi.Decl.Body, true) {
				if f := callee(fi.Pkg.TypesInfo, c); f != nil {
					if callersOf[f] == nil {
						callersOf[f] = map[*types.Func]bool{}
					}
					callersOf[f][fi.Obj] = true
				}
			}
		}
	}
	helperOf := map[*FuncInfo]*FuncInfo{}
	for fi := range perFn {
		if cs := callersOf[fi.Obj]; len(cs) == 1 {
			for c := range cs {
				for g := range perFn {
					if g.Obj == c && g.Obj != fi.Obj {
						helperOf[fi] = g
					}
				}
			}
		}
	}
	weight := map[*FuncInfo]int{}
	for fi, n := range perFn {
		if g := helperOf[fi]; g != nil && helperOf[g] == nil {
			weight[g] += n
		} else {
			weight[fi] += n
		}
	}
	for fi, n := range weight {
		if x.gate == nil || n > weight[x.gate] || (n == weight[x.gate] && fi.Name() < x.gate.Name()) {
			x.gate = fi
		}
	}
	if !r.Anchor("R-1", "a function reachable from BuildTemplate that reads files (readFileAndFormat)", x.gate != nil) {
		return
	}
	gsig := x.gate.Obj.Type().(*types.Signature)
	gateIdx := -1
	for i := 0; i < gsig.Params().Len(); i++ {
		if c18isString(gsig.Params().At(i).Type()) {
			if gateIdx >= 0 {
				gateIdx = -2
				break
			}
			gateIdx = i
		}
	}
	if !r.Anchor("R-1", "gate with exactly one string parameter (the file name)", gateIdx >= 0) {
		return
	}
	x.gateArg = gsig.Params().At(gateIdx)
	gateParamAssigned := len(cgxAssignsTo(x.gate.Pkg.TypesInfo, x.gate.Decl.Body, x.gateArg)) > 0
	for _, s := range sites {
		o := r.Ob("R-1", funcKey(s.fi.Obj)+"#"+s.what, s.call.Pos())
		if sig := s.fi.Obj.Type().(*types.Signature); sig.Recv() != nil && x.isFS(sig.Recv().Type()) {
			// a file-system adapter of the module (a type that is itself an fs.FS): it must forward the name it is given
			info := s.fi.Pkg.TypesInfo
			obj := cgxObj(info, s.name)
			switch {
			case s.name == nil:
				o.Trivial("method of the file system adapter %s without a name", typeStr(sig.Recv().Type()))
			case obj == nil || !c18isParam(s.fi, obj) || len(cgxAssignsTo(info, s.fi.Decl.Body, obj)) > 0:
				o.Bad("the file system adapter %s passes %s to the wrapped file system, not its own unmodified name parameter", typeStr(sig.Recv().Type()), exprStr(s.name))
			default:
				o.OK("file system adapter %s forwards its unmodified name parameter %s", typeStr(sig.Recv().Type()), obj.Name())
			}
			continue
		}
		switch {
		case !reach[s.fi.Obj]:
			o.Trivial("not reachable from %s over the module's call graph (program loading), outside template building", funcKey(entry.Obj))
		case s.fi != x.gate && helperOf[s.fi] == x.gate:
			// in a helper called only by the gate: applied to the helper's unmodified parameter, which the
			// gate fills with its own unmodified name parameter
			hinfo := s.fi.Pkg.TypesInfo
			hobj := cgxObj(hinfo, s.name)
			hidx := -1
			hsig := s.fi.Obj.Type().(*types.Signature)
			for i := 0; i < hsig.Params().Len(); i++ {
				if types.Object(hsig.Params().At(i)) == hobj {
					hidx = i
				}
			}
			passed := hidx >= 0
			for _, gc := range calls(x.gate.Decl.Body, true) {
				if callee(x.gate.Pkg.TypesInfo, gc) == s.fi.Obj {
					if hidx < 0 || hidx >= len(gc.Args) || cgxObj(x.gate.Pkg.TypesInfo, gc.Args[hidx]) != x.gateArg {
						passed = false
					}
				}
			}
			switch {
			case s.name == nil || hidx < 0:
				o.Bad("%s in %s, a helper of the gate, is not applied to a parameter of the helper", s.what, funcKey(s.fi.Obj))
			case len(cgxAssignsTo(hinfo, s.fi.Decl.Body, hobj)) > 0 || gateParamAssigned:
				o.Bad("the name is reassigned on its way from the gate to %s in %s", s.what, funcKey(s.fi.Obj))
			case !passed:
				o.Bad("the gate does not pass its name parameter %s unchanged to its helper %s", x.gateArg.Name(), funcKey(s.fi.Obj))
			default:
				o.OK("in %s, a helper called only by the gate, applied to its unmodified parameter %s, which the gate fills with its unmodified name parameter %s", funcKey(s.fi.Obj), hobj.Name(), x.gateArg.Name())
			}
		case s.fi != x.gate:
			o.Bad("file system touched outside the gate %s: %s in %s is reachable from %s", funcKey(x.gate.Obj), s.what, funcKey(s.fi.Obj), funcKey(entry.Obj))
		case s.name == nil:
			o.Bad("%s in the gate is not given a file name", s.what)
		case cgxObj(s.fi.Pkg.TypesInfo, s.name) != x.gateArg:
			o.Bad("%s in the gate is applied to %s, not to the gate's name parameter %s", s.what, exprStr(s.name), x.gateArg.Name())
		case gateParamAssigned:
			o.Bad("the gate's name parameter %s is reassigned inside the gate", x.gateArg.Name())
		default:
			o.OK("in the gate, applied to its unmodified name parameter %s", x.gateArg.Name())
		}
	}

	// ---- R-2: every call of the gate
	type gcall struct {
		fi   *FuncInfo
		call *ast.CallExpr
	}
	var gcalls []gcall
	for _, fi := range x.byObj {
		for _, c := range calls(fi.Decl.Body, true) {
			if callee(fi.Pkg.TypesInfo, c) == x.gate.Obj {
				gcalls = append(gcalls, gcall{fi, c})
			}
		}
	}
	sort.Slice(gcalls, func(i, j int) bool { return gcalls[i].call.Pos() < gcalls[j].call.Pos() })
	// references to the gate other than calls (stored, passed on) are not understood
	for _, fi := range x.byObj {
		info := fi.Pkg.TypesInfo
		par := r.P.Parents(fi.File)
		ast.Inspect(fi.Decl.Body, func(n ast.Node) bool {
			if id, ok := n.(*ast.Ident); ok && info.Uses[id] == types.Object(x.gate.Obj) {
				if c, ok := par[id].(*ast.CallExpr); !ok || c.Fun != ast.Expr(id) {
					r.Ob("R-2", funcKey(fi.Obj)+"#gate-reference", id.Pos()).Unknown("the gate is used as a value; its callers cannot be enumerated")
				}
			}
			return true
		})
	}
	rooters := map[*types.Func][]gcall{}
	for _, g := range gcalls {
		if g.fi == x.gate {
			continue
		}
		o := r.Ob("R-2", funcKey(g.fi.Obj)+"#gate-name", g.call.Pos())
		info := g.fi.Pkg.TypesInfo
		arg := g.call.Args[gateIdx]
		// (a) top name
		if obj := cgxObj(info, arg); obj != nil && g.fi.Obj.Exported() && g.fi.Decl.Recv == nil && c18isParam(g.fi, obj) {
			if len(cgxAssignsTo(info, g.fi.Decl.Body, obj)) == 0 {
				o.OK("top name: the unmodified parameter %s of the exported entry point %s", obj.Name(), funcKey(g.fi.Obj))
			} else {
				o.Bad("the top name parameter %s is modified before the read", obj.Name())
			}
			continue
		}
		// (b) rooted name on SSA
		fn := r.P.SSAFunc(g.fi)
		var sc *ssa.Call
		if fn != nil {
			for _, f := range cgxFns(fn) {
				for _, b := range f.Blocks {
					for _, in := range b.Instrs {
						if c, ok := in.(*ssa.Call); ok && c.Pos() == g.call.Lparen {
							sc = c
						}
					}
				}
			}
		}
		if sc == nil || gateIdx >= len(sc.Call.Args) {
			o.Unknown("gate call not found in SSA form")
			continue
		}
		rootFn, why := x.rootedValue(sc.Call.Args[gateIdx], g.fi)
		if rootFn == nil {
			o.Bad("the name read in %s is not the first result of a rooting function: %s", funcKey(g.fi.Obj), why)
			continue
		}
		o.OK("the name is result 0 of %s(parent, path) with parent = last element of the stack of files being expanded%s", funcKey(rootFn), why)
		rooters[rootFn] = append(rooters[rootFn], g)
	}

	// ---- R-3
	var rootFns []*types.Func
	for f := range rooters {
		rootFns = append(rootFns, f)
	}
	sort.Slice(rootFns, func(i, j int) bool { return rootFns[i].Name() < rootFns[j].Name() })
	for _, f := range rootFns {
		x.checkRooted(f)
	}
	if len(rootFns) == 0 {
		r.Ob("R-3", "anchor:rooting-function", token.NoPos).Unknown("no gate call takes a rooted name, so the rooting function was not identified")
	}

	// ---- R-4
	x.checkConstructors()

	// ---- R-5
	for _, f := range rootFns {
		for _, g := range rooters[f] {
			x.checkCycleAndCache(g.fi, g.call, g.call.Args[gateIdx])
		}
	}
}

func c18isString(t types.Type) bool {
	b, ok := t.Underlying().(*types.Basic)
	return ok && b.Kind() == types.String
}

func c18isParam(fi *FuncInfo, obj types.Object) bool {
	sig := fi.Obj.Type().(*types.Signature)
	for i := 0; i < sig.Params().Len(); i++ {
		if types.Object(sig.Params().At(i)) == obj {
			return true
		}
	}
	return false
}

func (x *c18) isFS(t types.Type) bool {
	return t != nil && (types.Implements(t, x.fsFS) || types.Implements(t, x.fsFile))
}

// fsTouch classifies a call as touching the file system.
func (x *c18) fsTouch(fi *FuncInfo, c *ast.CallExpr) (what string, name ast.Expr, ok bool) {
	info := fi.Pkg.TypesInfo
	firstString := func() ast.Expr {
		for _, a := range c.Args {
			if t := info.TypeOf(a); t != nil && c18isString(t) {
				return a
			}
		}
		return nil
	}
	f := callee(info, c)
	if f == nil || f.Pkg() == nil {
		return "", nil, false
	}
	sig := f.Type().(*types.Signature)
	if sig.Recv() == nil {
		switch f.Pkg().Path() {
		case "io/fs", "os", "io/ioutil":
			errT := types.Universe.Lookup("error").Type()
			for i := 0; i < sig.Results().Len(); i++ {
				if types.Identical(sig.Results().At(i).Type(), errT) {
					return f.Pkg().Name() + "." + f.Name(), firstString(), true
				}
			}
		}
		return "", nil, false
	}
	sel, isSel := ast.Unparen(c.Fun).(*ast.SelectorExpr)
	if !isSel {
		return "", nil, false
	}
	if rt := info.TypeOf(sel.X); rt != nil && x.isFS(rt) {
		return typeStr(rt) + "." + f.Name(), firstString(), true
	}
	return "", nil, false
}

// reachable computes the module functions reachable from entry: static calls, references to
// functions, and interface method calls resolved to every method of that name in the traversed
// packages whose receiver implements the interface.
func (x *c18) reachable(entry *FuncInfo) map[*types.Func]bool {
	seen := map[*types.Func]bool{entry.Obj: true}
	stack := []*FuncInfo{entry}
	for len(stack) > 0 {
		fi := stack[len(stack)-1]
		stack = stack[:len(stack)-1]
		info := fi.Pkg.TypesInfo
		var inspect func(n ast.Node) bool
		inspect = func(n ast.Node) bool {
			if sel, isSel := n.(*ast.SelectorExpr); isSel {
				// a method of the file system itself is the file system, not template building
				if rt := info.TypeOf(sel.X); rt != nil && x.isFS(rt) {
					ast.Inspect(sel.X, inspect)
					return false
				}
			}
			id, ok := n.(*ast.Ident)
			if !ok {
				return true
			}
			f, ok := info.Uses[id].(*types.Func)
			if !ok {
				return true
			}
			var targets []*types.Func
			sig := f.Type().(*types.Signature)
			if sig.Recv() != nil {
				if it, isIface := sig.Recv().Type().Underlying().(*types.Interface); isIface {
					for _, m := range x.impls[f.Name()] {
						rt := m.Type().(*types.Signature).Recv().Type()
						if types.Implements(rt, it) || types.Implements(types.NewPointer(rt), it) {
							targets = append(targets, m)
						}
					}
				}
			}
			targets = append(targets, f.Origin())
			for _, t := range targets {
				if tfi := x.byObj[t]; tfi != nil && !seen[t] {
					seen[t] = true
					stack = append(stack, tfi)
				}
			}
			return true
		}
		ast.Inspect(fi.Decl.Body, inspect)
	}
	return seen
}

// rootedValue decides whether v is (a phi of) result 0 of calls to one rooting function whose first
// argument is the last element of the state's []string field.
func (x *c18) rootedValue(v ssa.Value, fi *FuncInfo) (*types.Func, string) {
	var fn *types.Func
	seen := map[ssa.Value]bool{}
	var why string
	var visit func(v ssa.Value) bool
	visit = func(v ssa.Value) bool {
		if seen[v] {
			return true
		}
		seen[v] = true
		switch t := v.(type) {
		case *ssa.Phi:
			for _, e := range t.Edges {
				if !visit(e) {
					return false
				}
			}
			return true
		case *ssa.Extract:
			c, ok := t.Tuple.(*ssa.Call)
			if !ok || t.Index != 0 {
				why = "it is " + cgxDescribe(v)
				return false
			}
			callee := c.Call.StaticCallee()
			if callee == nil || callee.Object() == nil {
				why = "it comes from a dynamic call"
				return false
			}
			f, _ := callee.Object().(*types.Func)
			if f == nil || (fn != nil && fn != f) {
				why = "it comes from several functions"
				return false
			}
			sig := f.Type().(*types.Signature)
			if sig.Params().Len() != 2 || !c18isString(sig.Params().At(0).Type()) || !c18isString(sig.Params().At(1).Type()) || sig.Results().Len() != 2 {
				why = "it is result 0 of " + funcKey(f) + ", which is not a func(parent, name string) (string, error)"
				return false
			}
			if msg := x.isTopOfStack(c.Call.Args[0], fi); msg != "" {
				why = "the parent given to " + funcKey(f) + " is not the last element of the stack of files: " + msg
				return false
			}
			if msg := x.isNodePath(c.Call.Args[1]); msg != "" {
				why = "the path given to " + funcKey(f) + " " + msg
				return false
			}
			fn = f
			return true
		}
		why = "it is " + cgxDescribe(v)
		return false
	}
	if !visit(v) {
		return nil, why
	}
	return fn, ""
}

// stackField returns the only []string field of the receiver's struct type.
func (x *c18) stackField(fi *FuncInfo) *types.Var {
	return c18onlyField(fi, func(t types.Type) bool {
		s, ok := t.Underlying().(*types.Slice)
		return ok && c18isString(s.Elem())
	})
}

// cacheField returns the only map[string]T field of the receiver's struct type.
func (x *c18) cacheField(fi *FuncInfo) *types.Var {
	return c18onlyField(fi, func(t types.Type) bool {
		m, ok := t.Underlying().(*types.Map)
		return ok && c18isString(m.Key())
	})
}

func c18onlyField(fi *FuncInfo, pred func(types.Type) bool) *types.Var {
	sig := fi.Obj.Type().(*types.Signature)
	if sig.Recv() == nil {
		return nil
	}
	t := sig.Recv().Type()
	if p, ok := t.(*types.Pointer); ok {
		t = p.Elem()
	}
	st, ok := t.Underlying().(*types.Struct)
	if !ok {
		return nil
	}
	var out *types.Var
	for i := 0; i < st.NumFields(); i++ {
		if pred(st.Field(i).Type()) {
			if out != nil {
				return nil
			}
			out = st.Field(i)
		}
	}
	return out
}

// isTopOfStack: v == *(&(*&recv.stack)[len(recv.stack)-1]).
func (x *c18) isTopOfStack(v ssa.Value, fi *FuncInfo) string {
	field := x.stackField(fi)
	if field == nil {
		return "the receiver has no single []string field"
	}
	isFieldLoad := func(v ssa.Value) bool {
		u, ok := v.(*ssa.UnOp)
		if !ok || u.Op != token.MUL {
			return false
		}
		fa, ok := u.X.(*ssa.FieldAddr)
		if !ok {
			return false
		}
		p, ok := fa.X.(*ssa.Parameter)
		if !ok || len(p.Parent().Params) == 0 || p.Parent().Params[0] != p {
			return false
		}
		st, _ := p.Type().(*types.Pointer)
		if st == nil {
			return false
		}
		s, _ := st.Elem().Underlying().(*types.Struct)
		return s != nil && s.Field(fa.Field) == field
	}
	u, ok := v.(*ssa.UnOp)
	if !ok || u.Op != token.MUL {
		return "it is " + cgxDescribe(v)
	}
	ia, ok := u.X.(*ssa.IndexAddr)
	if !ok || !isFieldLoad(ia.X) {
		return "it is not an element of " + field.Name()
	}
	bo, ok := ia.Index.(*ssa.BinOp)
	if !ok || bo.Op != token.SUB {
		return "the index is not len(" + field.Name() + ")-1"
	}
	one, ok := bo.Y.(*ssa.Const)
	if !ok || one.Value == nil || one.Int64() != 1 {
		return "the index is not len(" + field.Name() + ")-1"
	}
	lc, ok := bo.X.(*ssa.Call)
	if !ok {
		return "the index is not len(" + field.Name() + ")-1"
	}
	if b, isB := lc.Call.Value.(*ssa.Builtin); !isB || b.Name() != "len" || len(lc.Call.Args) != 1 || !isFieldLoad(lc.Call.Args[0]) {
		return "the index is not len(" + field.Name() + ")-1"
	}
	return ""
}

// isNodePath: v is (a phi of) loads of a string field of an ast node named Path, or the empty string.
func (x *c18) isNodePath(v ssa.Value) string {
	seen := map[ssa.Value]bool{}
	var visit func(v ssa.Value) string
	visit = func(v ssa.Value) string {
		if seen[v] {
			return ""
		}
		seen[v] = true
		switch t := v.(type) {
		case *ssa.Phi:
			for _, e := range t.Edges {
				if m := visit(e); m != "" {
					return m
				}
			}
			return ""
		case *ssa.Const:
			if t.Value != nil && t.Value.ExactString() == `""` {
				return ""
			}
			return "can be the constant " + t.String()
		case *ssa.UnOp:
			if fa, ok := t.X.(*ssa.FieldAddr); ok && t.Op == token.MUL {
				pt, _ := fa.X.Type().Underlying().(*types.Pointer)
				if pt != nil {
					if st, ok := pt.Elem().Underlying().(*types.Struct); ok {
						f := st.Field(fa.Field)
						if f.Pkg() != nil && strings.HasSuffix(f.Pkg().Path(), "/ast") && c18isString(f.Type()) {
							return ""
						}
						return "is read from field " + f.Name() + ", not from a path field of an ast node"
					}
				}
			}
		}
		return "is " + cgxDescribe(v)
	}
	return visit(v)
}

// ---------------------------------------------------------------------------
// R-3

func (x *c18) checkRooted(f *types.Func) {
	r := x.r
	fi := x.byObj[f]
	key := funcKey(f)
	if fi == nil {
		r.Ob("R-3", key, token.NoPos).Unknown("rooting function has no body in the module")
		return
	}
	info := fi.Pkg.TypesInfo
	sig := f.Type().(*types.Signature)
	nameParam := sig.Params().At(1)
	c := r.P.CFGOf(fi)
	n := 0
	for _, ret := range c.Returns() {
		if len(ret.Results) != 2 {
			r.Ob("R-3", key+"#return", ret.Pos()).Unknown("return without two operands")
			continue
		}
		e := ast.Unparen(ret.Results[0])
		if s, ok := stringValue(info, e); ok {
			if s == "" {
				continue // error return
			}
			r.Ob("R-3", key+"#return-constant", ret.Pos()).Bad("returns the constant path %q", s)
			continue
		}
		n++
		switch t := e.(type) {
		case *ast.SliceExpr:
			o := r.Ob("R-3", key+"#return-absolute", ret.Pos())
			lo, okLo := int64(0), false
			if t.Low != nil {
				lo, okLo = intValue(info, t.Low)
			}
			if cgxObj(info, t.X) != types.Object(nameParam) || !okLo || lo != 1 || t.High != nil || t.Slice3 {
				o.Bad("the absolute branch returns %s, not the name parameter without its leading slash", exprStr(e))
				continue
			}
			if len(cgxAssignsTo(info, fi.Decl.Body, nameParam)) > 0 {
				o.Unknown("the name parameter is reassigned")
				continue
			}
			mentions := false
			ok := c.GuardedBy(ret, func(l Lit) bool {
				if cgxMentions(info, l.Expr, nameParam) {
					mentions = true
				}
				call, isCall := ast.Unparen(l.Expr).(*ast.CallExpr)
				if !isCall || l.Tag != nil || !l.Truth || len(call.Args) < 1 || cgxObj(info, call.Args[0]) != types.Object(nameParam) {
					return false
				}
				if isPkgFunc(callee(info, call), "path", "", "IsAbs") && len(call.Args) == 1 {
					return true
				}
				if isPkgFunc(callee(info, call), "strings", "", "HasPrefix") && len(call.Args) == 2 {
					s, isStr := stringValue(info, call.Args[1])
					return isStr && s == "/"
				}
				return false
			})
			switch {
			case ok:
				o.OK("returns %s[1:] only when %s starts with a slash: exactly the leading slash is stripped", nameParam.Name(), nameParam.Name())
			case mentions:
				o.Unknown("%s[1:] is returned under a test of %s this rule does not recognise as 'starts with a slash'", nameParam.Name(), nameParam.Name())
			default:
				o.Bad("%s[1:] is returned without a test that %s starts with a slash: the first byte of a relative name would be dropped", nameParam.Name(), nameParam.Name())
			}
		case *ast.Ident:
			v := cgxObj(info, t)
			// the absolute branch written with strings.CutPrefix: `if abs, ok := strings.CutPrefix(name, "/"); ok { return abs }`
			if v != nil {
				if as := cgxAssignsTo(info, fi.Decl.Body, v); len(as) == 1 && as[0].Idx == 0 {
					if st, isAs := as[0].Node.(*ast.AssignStmt); isAs && len(st.Lhs) == 2 && len(st.Rhs) == 1 {
						if call, isCall := ast.Unparen(st.Rhs[0]).(*ast.CallExpr); isCall && len(call.Args) == 2 && isPkgFunc(callee(info, call), "strings", "", "CutPrefix") {
							o := r.Ob("R-3", key+"#return-absolute", ret.Pos())
							pfx, isStr := stringValue(info, call.Args[1])
							okObj := cgxObj(info, st.Lhs[1])
							switch {
							case cgxObj(info, call.Args[0]) != types.Object(nameParam) || !isStr || pfx != "/":
								o.Bad("the absolute branch returns %s, cut from %s with prefix %q, not the name parameter without its leading slash", v.Name(), exprStr(call.Args[0]), pfx)
							case len(cgxAssignsTo(info, fi.Decl.Body, nameParam)) > 0:
								o.Unknown("the name parameter is reassigned")
							case okObj != nil && c.GuardedBy(ret, func(l Lit) bool { return l.Tag == nil && l.Truth && cgxObj(info, l.Expr) == okObj }):
								o.OK("returns %s cut of its leading slash only when strings.CutPrefix found one: exactly the leading slash is stripped", nameParam.Name())
							default:
								o.Bad("the result of strings.CutPrefix(%s, \"/\") is returned without testing that the prefix was found", nameParam.Name())
							}
							continue
						}
					}
				}
			}
			o := r.Ob("R-3", key+"#return-relative", ret.Pos())
			if v == nil {
				o.Unknown("returned identifier not resolved")
				continue
			}
			if as := cgxAssignsTo(info, fi.Decl.Body, v); len(as) != 1 {
				o.Unknown("%s is assigned %d times", v.Name(), len(as))
				continue
			}
			ok := c.GuardedBy(ret, func(l Lit) bool {
				call, isCall := ast.Unparen(l.Expr).(*ast.CallExpr)
				if !isCall || l.Tag != nil || l.Truth || !isPkgFunc(callee(info, call), "strings", "", "HasPrefix") || len(call.Args) != 2 {
					return false
				}
				s, isStr := stringValue(info, call.Args[1])
				return isStr && s == ".." && cgxObj(info, call.Args[0]) == v
			})
			if ok {
				o.OK("the joined path %s is returned only on the false edge of strings.HasPrefix(%s, \"..\")", v.Name(), v.Name())
			} else {
				o.Bad("the joined path %s can be returned without passing the false edge of strings.HasPrefix(%s, \"..\"): a reference can leave the root", v.Name(), v.Name())
			}
		default:
			r.Ob("R-3", key+"#return", ret.Pos()).Unknown("returned path %s is neither name[1:] nor a variable", exprStr(e))
		}
	}
	if n == 0 {
		r.Ob("R-3", key+"#return", fi.Decl.Pos()).Unknown("no return of a non-constant path")
	}
}

// ---------------------------------------------------------------------------
// R-4

func (x *c18) checkConstructors() {
	r := x.r
	// the template parser: functions statically reachable from the exported function of compiler
	// that takes the source bytes and a format and returns the tree with the unexpanded nodes
	var root *FuncInfo
	for _, fi := range r.P.Funcs("internal/compiler") {
		if fi.Obj == nil || !fi.Obj.Exported() || fi.Decl.Recv != nil || r.P.isTestFile(fi.File) {
			continue
		}
		sig := fi.Obj.Type().(*types.Signature)
		if sig.Results().Len() == 3 && sig.Params().Len() >= 2 {
			if s, ok := sig.Results().At(1).Type().(*types.Slice); ok && typeStr(s.Elem()) == "ast.Node" {
				root = fi
			}
		}
	}
	if !r.Anchor("R-4", "compiler: exported parser entry returning (tree, unexpanded []ast.Node, error) (ParseTemplateSource)", root != nil) {
		return
	}
	reach := x.reachable(root)
	valid := r.P.Func("internal/compiler", "ValidTemplatePath")
	if !r.Anchor("R-4", "compiler.ValidTemplatePath", valid != nil) {
		return
	}
	targets := map[string]bool{"NewExtends": true, "NewRender": true, "NewImport": true}
	var fns []*FuncInfo
	for f := range reach {
		if fi := x.byObj[f]; fi != nil && relOf(f.Pkg()) == "compiler" {
			fns = append(fns, fi)
		}
	}
	sort.Slice(fns, func(i, j int) bool { return fns[i].Decl.Pos() < fns[j].Decl.Pos() })
	for _, fi := range fns {
		info := fi.Pkg.TypesInfo
		for _, c := range calls(fi.Decl.Body, true) {
			f := callee(info, c)
			if f == nil || f.Pkg() == nil || relOf(f.Pkg()) != "ast" || !targets[f.Name()] {
				continue
			}
			o := r.Ob("R-4", funcKey(fi.Obj)+"#ast."+f.Name(), c.Pos())
			// the path parameter of the constructor: its string parameter
			sig := f.Type().(*types.Signature)
			pi := -1
			for i := 0; i < sig.Params().Len(); i++ {
				if c18isString(sig.Params().At(i).Type()) {
					pi = i
				}
			}
			if pi < 0 || pi >= len(c.Args) {
				o.Unknown("constructor without a string path parameter")
				continue
			}
			pobj := cgxObj(info, c.Args[pi])
			if pobj == nil {
				o.Bad("the path given to ast.%s is %s, not a variable that was validated", f.Name(), exprStr(c.Args[pi]))
				continue
			}
			if cgxEnclosingLit(r.P, fi, c) != nil {
				o.Unknown("constructor called in a function literal")
				continue
			}
			cg := r.P.CFGOf(fi)
			blk, idx := cg.Locate(c)
			if blk == nil {
				o.Unknown("constructor call not found in the control-flow graph")
				continue
			}
			// every path entry -> site crosses the true edge of ValidTemplatePath(p) or a validator call on p,
			// and p is not assigned afterwards
			var facts []string
			isValidEdge := func(b *cfg.Block, i int) bool {
				return cgxEdgeHas(cg, b, i, func(l Lit) bool {
					call, isCall := ast.Unparen(l.Expr).(*ast.CallExpr)
					if isCall && l.Tag == nil && l.Truth && callee(info, call) == valid.Obj && len(call.Args) == 1 && cgxObj(info, call.Args[0]) == pobj {
						return true
					}
					return false
				})
			}
			isValidatorNode := func(n ast.Node) bool {
				es, ok := n.(*ast.ExprStmt)
				if !ok {
					return false
				}
				call, ok := es.X.(*ast.CallExpr)
				if !ok {
					return false
				}
				vf := x.byObj[callee(info, call)]
				if vf == nil {
					return false
				}
				for ai, a := range call.Args {
					if cgxObj(info, a) == pobj {
						if fact, ok := x.isValidator(vf, ai, valid.Obj); ok {
							facts = append(facts, fact)
							return true
						}
					}
				}
				return false
			}
			assigns := map[ast.Node]bool{}
			for _, a := range cgxAssignsTo(info, fi.Decl.Body, pobj) {
				assigns[a.Node] = true
			}
			// walk backwards is not available: delete validated edges/nodes and the (re)definitions of p; the
			// site must then be unreachable from every definition of p and from the entry.
			reachUnvalidated := func(b0 *cfg.Block, i0 int) bool {
				found := false
				cgxWalk(cg, b0, i0, func(b *cfg.Block, i int, n ast.Node) bool {
					if b == blk && i == idx {
						found = true
						return true
					}
					return isValidatorNode(n)
				}, isValidEdge)
				return found
			}
			bad := false
			starts := 0
			for _, b := range cg.G.Blocks {
				for i, n := range b.Nodes {
					if assigns[n] {
						starts++
						if reachUnvalidated(b, i+1) {
							bad = true
						}
					}
				}
			}
			if c18isParam(fi, pobj) || starts == 0 {
				if reachUnvalidated(cg.G.Blocks[0], 0) {
					bad = true
				}
			}
			if bad {
				o.Bad("ast.%s can be reached with a path %s that did not pass the true edge of ValidTemplatePath(%s): an unrooted name would reach the file system", f.Name(), pobj.Name(), pobj.Name())
				continue
			}
			fact := "dominated by the true edge of ValidTemplatePath(" + pobj.Name() + ")"
			if len(facts) > 0 {
				fact += " or by " + strings.Join(c18uniq(facts), "; ")
			}
			o.OK("%s", fact)
		}
	}
}

func c18uniq(s []string) []string {
	sort.Strings(s)
	var out []string
	for i, v := range s {
		if i == 0 || v != s[i-1] {
			out = append(out, v)
		}
	}
	return out
}

// isValidator: every normal exit of vf is guarded by ValidTemplatePath(param) true or by
// param == constant.
func (x *c18) isValidator(vf *FuncInfo, argIdx int, valid *types.Func) (string, bool) {
	info := vf.Pkg.TypesInfo
	sig := vf.Obj.Type().(*types.Signature)
	if argIdx >= sig.Params().Len() {
		return "", false
	}
	p := sig.Params().At(argIdx)
	if len(cgxAssignsTo(info, vf.Decl.Body, p)) > 0 {
		return "", false
	}
	c := x.r.P.CFGOf(vf)
	var consts []string
	for _, ret := range c.Returns() {
		ok := c.GuardedBy(ret, func(l Lit) bool {
			if call, isCall := ast.Unparen(l.Expr).(*ast.CallExpr); isCall && l.Tag == nil && l.Truth && callee(info, call) == valid && len(call.Args) == 1 && cgxObj(info, call.Args[0]) == types.Object(p) {
				return true
			}
			if other, eq, ok := cgxCmpObj(info, l, p); ok && eq {
				if s, isStr := stringValue(info, other); isStr && c18plainName(s) {
					consts = append(consts, fmt.Sprintf("%q", s))
					return true
				}
			}
			return false
		})
		if !ok {
			return "", false
		}
	}
	fact := "the call " + funcKey(vf.Obj) + "(" + p.Name() + "), which returns only after ValidTemplatePath(" + p.Name() + ")"
	if len(consts) > 0 {
		fact += " or " + p.Name() + " == " + strings.Join(c18uniq(consts), "/")
	}
	return fact, true
}

// c18plainName: a single path element of letters and digits is a valid rooted path by io/fs.ValidPath's contract.
func c18plainName(s string) bool {
	if s == "" {
		return false
	}
	for _, c := range s {
		if !(c >= 'a' && c <= 'z' || c >= 'A' && c <= 'Z' || c >= '0' && c <= '9' || c == '_') {
			return false
		}
	}
	return true
}

// ---------------------------------------------------------------------------
// R-5

func (x *c18) checkCycleAndCache(fi *FuncInfo, gateCall *ast.CallExpr, nameArg ast.Expr) {
	r := x.r
	info := fi.Pkg.TypesInfo
	key := funcKey(fi.Obj)
	name := cgxObj(info, nameArg)
	stack, cache := x.stackField(fi), x.cacheField(fi)
	oc := r.Ob("R-5", key+"#cycle-test-dominates-read", gateCall.Pos())
	ol := r.Ob("R-5", key+"#cache-lookup-dominates-read", gateCall.Pos())
	os := r.Ob("R-5", key+"#cache-store-after-parse", gateCall.Pos())
	if name == nil || stack == nil || cache == nil || cgxEnclosingLit(r.P, fi, gateCall) != nil {
		for _, o := range []*Obl{oc, ol, os} {
			o.Unknown("the name read is not a variable, or the expansion state has no single []string / map[string] field")
		}
		return
	}
	c := r.P.CFGOf(fi)
	blk, idx := c.Locate(gateCall)
	if blk == nil {
		for _, o := range []*Obl{oc, ol, os} {
			o.Unknown("gate call not found in the control-flow graph")
		}
		return
	}
	isField := func(e ast.Expr, f *types.Var) bool {
		sel, ok := ast.Unparen(e).(*ast.SelectorExpr)
		if !ok {
			return false
		}
		s := info.Selections[sel]
		return s != nil && s.Obj() == types.Object(f)
	}
	assigns := map[ast.Node]bool{}
	for _, a := range cgxAssignsTo(info, fi.Decl.Body, name) {
		assigns[a.Node] = true
	}
	// name is not reassigned between a test node and the read
	reassigned := func(b0 *cfg.Block, i0 int) bool {
		bad := false
		cgxWalk(c, b0, i0, func(b *cfg.Block, i int, n ast.Node) bool {
			if b == blk && i == idx {
				return true
			}
			if assigns[n] {
				// only matters when the read is reachable from here
				if cgxReaches(c, b, i+1, blk, idx, nil) {
					bad = true
				}
				return true
			}
			return false
		}, nil)
		return bad
	}

	// (a) cycle test
	var testBlk *cfg.Block
	okCycle := c.GuardedBy(gateCall, func(l Lit) bool {
		call, isCall := ast.Unparen(l.Expr).(*ast.CallExpr)
		if !isCall || l.Tag != nil || l.Truth || len(call.Args) != 2 {
			return false
		}
		f := callee(info, call)
		if f == nil || f.Pkg() == nil || f.Pkg().Path() != "slices" || f.Name() != "Contains" {
			return false
		}
		if !isField(call.Args[0], stack) || cgxObj(info, call.Args[1]) != name {
			return false
		}
		testBlk, _ = c.Locate(call)
		return true
	})
	switch {
	case !okCycle:
		oc.Bad("the read of %s is not dominated by the false edge of slices.Contains(%s, %s): a cycle of extends/import/render would recurse", name.Name(), stack.Name(), name.Name())
	case testBlk != nil && reassigned(testBlk, len(testBlk.Nodes)):
		oc.Bad("%s is reassigned between the cycle test and the read", name.Name())
	default:
		oc.OK("the read is dominated by the false edge of slices.Contains(%s, %s) and %s is not reassigned in between", stack.Name(), name.Name(), name.Name())
	}

	// (b) cache lookup: the comma-ok lookup cache[name]
	var lookup *ast.AssignStmt
	ast.Inspect(fi.Decl.Body, func(n ast.Node) bool {
		as, ok := n.(*ast.AssignStmt)
		if !ok || len(as.Lhs) != 2 || len(as.Rhs) != 1 {
			return true
		}
		ix, ok := ast.Unparen(as.Rhs[0]).(*ast.IndexExpr)
		if ok && isField(ix.X, cache) && cgxObj(info, ix.Index) == name {
			lookup = as
		}
		return true
	})
	if lookup == nil {
		ol.Bad("no lookup %s[%s] before the read: every reference would read the file again", cache.Name(), name.Name())
	} else {
		val, okv := cgxObj(info, lookup.Lhs[0]), cgxObj(info, lookup.Lhs[1])
		missLit := func(l Lit) bool {
			return l.Tag == nil && !l.Truth && okv != nil && cgxObj(info, l.Expr) == okv
		}
		hitLit := func(l Lit) bool {
			return l.Tag == nil && l.Truth && okv != nil && cgxObj(info, l.Expr) == okv
		}
		if okv != nil && len(cgxAssignsTo(info, fi.Decl.Body, okv)) != 1 {
			ol.Unknown("the ok variable of the cache lookup is assigned more than once")
		} else if c.GuardedBy(gateCall, missLit) {
			ol.OK("the read is dominated by the miss edge of %s[%s]", cache.Name(), name.Name())
		} else {
			// indirect form: a local t, nil unless assigned on the hit edge from the looked-up value; read guarded by t == nil
			// candidates: variables assigned from the looked-up value
			var via types.Object
			guarded := false
			if val != nil {
				ast.Inspect(fi.Decl.Body, func(n ast.Node) bool {
					as, ok := n.(*ast.AssignStmt)
					if !ok || guarded {
						return !guarded
					}
					for i, l := range as.Lhs {
						v := cgxObj(info, l)
						if v == nil || i >= len(as.Rhs) || len(as.Lhs) != len(as.Rhs) || !cgxMentions(info, as.Rhs[i], val) {
							continue
						}
						if c.GuardedBy(gateCall, func(l Lit) bool {
							isNil, ok := cgxAssertsNil(info, l, v)
							return ok && isNil
						}) {
							via, guarded = v, true
						}
					}
					return true
				})
			}
			if !guarded || via == nil {
				ol.Bad("the read is guarded neither by the miss edge of %s[%s] nor by a nil test of the cached tree", cache.Name(), name.Name())
			} else {
				// every assignment to via that can reach the read: zero value, or on the hit edge from the looked-up value
				why := ""
				for _, a := range cgxAssignsTo(info, fi.Decl.Body, via) {
					if vs, ok := a.Node.(*ast.ValueSpec); ok && len(vs.Values) == 0 {
						continue
					}
					ab, ai := c.Locate(a.Node)
					if ab == nil {
						why = "an assignment to " + via.Name() + " is not in the graph"
						break
					}
					if !cgxReaches(c, ab, ai+1, blk, idx, nil) {
						continue
					}
					if a.Rhs == nil || val == nil || !cgxMentions(info, a.Rhs, val) {
						why = via.Name() + " is assigned a value that does not come from the cache lookup before the read"
						break
					}
					if !c.GuardedBy(a.Node, hitLit) {
						why = via.Name() + " is assigned from the looked-up value outside the hit edge"
						break
					}
				}
				if why != "" {
					ol.Unknown("%s", why)
				} else if !c.MustPassNode(gateCall, func(n ast.Node) bool { return n == ast.Node(lookup) }) {
					ol.Bad("a path reaches the read without performing the lookup %s[%s]", cache.Name(), name.Name())
				} else if lb, li := c.Locate(lookup); lb != nil && reassigned(lb, li+1) {
					ol.Bad("%s is reassigned between the cache lookup and the read", name.Name())
				} else {
					ol.OK("the read is dominated by the lookup %s[%s] and by %s == nil, where %s is non-nil only on the hit edge", cache.Name(), name.Name(), via.Name(), via.Name())
				}
			}
		}
	}

	// (c) cache store on every non-error exit after the read
	isStore := func(n ast.Node) bool {
		as, ok := n.(*ast.AssignStmt)
		if !ok {
			return false
		}
		for _, l := range as.Lhs {
			if ix, ok := ast.Unparen(l).(*ast.IndexExpr); ok && isField(ix.X, cache) && cgxObj(info, ix.Index) == name {
				return true
			}
		}
		return false
	}
	missing := 0
	for _, e := range c.ExitsWithout(blk, idx+1, isStore) {
		ret := e.(*ast.ReturnStmt)
		if len(ret.Results) >= 1 && cgxIsNil(info, ret.Results[0]) {
			continue // error exit: no tree
		}
		missing++
	}
	if missing > 0 {
		os.Bad("%d non-error exit(s) after the read do not store %s[%s]: the file would be read again for the next reference", missing, cache.Name(), name.Name())
	} else {
		os.OK("every exit after the read either returns no tree or has stored %s[%s]", cache.Name(), name.Name())
	}

	// (d) push/pop in the functions the caller hands the name to
	for _, call := range calls(fi.Decl.Body, false) {
		tf := x.byObj[callee(info, call)]
		if tf == nil || tf == x.gate {
			continue
		}
		for ai, a := range call.Args {
			if cgxObj(info, a) == name {
				x.checkPushPop(tf, ai, stack)
			}
		}
	}
}

var c18pushSeen = map[*FuncInfo]bool{}

func (x *c18) checkPushPop(tf *FuncInfo, argIdx int, stack *types.Var) {
	r := x.r
	if c18pushSeen[tf] {
		return
	}
	info := tf.Pkg.TypesInfo
	sig := tf.Obj.Type().(*types.Signature)
	if argIdx >= sig.Params().Len() {
		return
	}
	p := sig.Params().At(argIdx)
	isField := func(e ast.Expr) bool {
		sel, ok := ast.Unparen(e).(*ast.SelectorExpr)
		if !ok {
			return false
		}
		s := info.Selections[sel]
		return s != nil && s.Obj() == types.Object(stack)
	}
	var pushes []*ast.AssignStmt
	ast.Inspect(tf.Decl.Body, func(n ast.Node) bool {
		as, ok := n.(*ast.AssignStmt)
		if !ok || len(as.Lhs) != 1 || len(as.Rhs) != 1 || !isField(as.Lhs[0]) {
			return true
		}
		if call, ok := ast.Unparen(as.Rhs[0]).(*ast.CallExpr); ok && isBuiltinCall(info, call, "append") && len(call.Args) >= 1 && isField(call.Args[0]) {
			pushes = append(pushes, as)
		}
		return true
	})
	if len(pushes) == 0 {
		return
	}
	c18pushSeen[tf] = true
	key := funcKey(tf.Obj)
	c := r.P.CFGOf(tf)
	var isPop func(n ast.Node) bool
	isPop = func(n ast.Node) bool {
		if d, ok := n.(*ast.DeferStmt); ok {
			// a deferred closure that pops runs on every exit
			if lit, ok := d.Call.Fun.(*ast.FuncLit); ok {
				for _, st := range lit.Body.List {
					if isPop(st) {
						return true
					}
				}
			}
			return false
		}
		as, ok := n.(*ast.AssignStmt)
		if !ok || len(as.Lhs) != 1 || len(as.Rhs) != 1 || !isField(as.Lhs[0]) {
			return false
		}
		se, ok := ast.Unparen(as.Rhs[0]).(*ast.SliceExpr)
		if !ok || !isField(se.X) || se.Low != nil || se.High == nil {
			return false
		}
		be, ok := ast.Unparen(se.High).(*ast.BinaryExpr)
		if !ok || be.Op != token.SUB {
			return false
		}
		one, okOne := intValue(info, be.Y)
		lc, okLen := ast.Unparen(be.X).(*ast.CallExpr)
		return okOne && one == 1 && okLen && isBuiltinCall(info, lc, "len") && len(lc.Args) == 1 && isField(lc.Args[0])
	}
	for _, push := range pushes {
		o := r.Ob("R-5", key+"#push-popped-on-every-exit", push.Pos())
		call := ast.Unparen(push.Rhs[0]).(*ast.CallExpr)
		if len(call.Args) != 2 || cgxObj(info, call.Args[1]) != types.Object(p) || len(cgxAssignsTo(info, tf.Decl.Body, p)) > 0 {
			o.Unknown("the value pushed on %s is not the unmodified path parameter %s that the caller read: it cannot be related to the names the cycle test compares", stack.Name(), p.Name())
			continue
		}
		blk, idx := c.Locate(push)
		if blk == nil || cgxEnclosingLit(r.P, tf, push) != nil {
			o.Unknown("push not found in the control-flow graph")
			continue
		}
		if exits := c.ExitsWithout(blk, idx+1, isPop); len(exits) > 0 {
			o.Bad("%d exit(s) after the push on %s do not pop it: later references would be reported as cycles or resolved against the wrong directory", len(exits), stack.Name())
			continue
		}
		o.OK("the push of %s on %s is followed by the pop on every exit", p.Name(), stack.Name())
	}
}
