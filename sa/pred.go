package main

// Engine E2: denotation of a pure boolean predicate over ONE variable on a finite domain,
// computed from syntax with go/constant. Nothing of /repo is executed: the evaluator
// interprets only comparisons of the variable with constants, &&, ||, !, parentheses, and calls of
// one-line pure predicates of the module on the variable (whose body is interpreted the same way).

import (
	"go/ast"
	"go/constant"
	"go/token"
	"go/types"

	"golang.org/x/tools/go/types/typeutil"
)

// evalPred evaluates e with the variable (recognised by isVar) bound to val.
// ok is false when e contains anything other than the supported forms.
func evalPred(info *types.Info, e ast.Expr, isVar func(ast.Expr) bool, val int64) (res bool, ok bool) {
	e = ast.Unparen(e)
	switch x := e.(type) {
	case *ast.UnaryExpr:
		if x.Op == token.NOT {
			r, ok := evalPred(info, x.X, isVar, val)
			return !r, ok
		}
	case *ast.BinaryExpr:
		switch x.Op {
		case token.LAND, token.LOR:
			l, ok1 := evalPred(info, x.X, isVar, val)
			r, ok2 := evalPred(info, x.Y, isVar, val)
			if !ok1 || !ok2 {
				return false, false
			}
			if x.Op == token.LAND {
				return l && r, true
			}
			return l || r, true
		case token.EQL, token.NEQ, token.LSS, token.LEQ, token.GTR, token.GEQ:
			lv, lok := operand(info, x.X, isVar, val)
			rv, rok := operand(info, x.Y, isVar, val)
			if !lok || !rok {
				return false, false
			}
			return constant.Compare(lv, x.Op, rv), true
		}
	case *ast.CallExpr:
		// a pure predicate of the module applied to the variable: evaluate its body
		if len(x.Args) == 1 && isVar(ast.Unparen(x.Args[0])) {
			if fn, ok := typeutil.Callee(info, x).(*types.Func); ok {
				if pf, ok := predFuncs[fn]; ok && pf.param != nil {
					return evalPred(pf.info, pf.body, isIdentOf(pf.info, pf.param), val)
				}
			}
		}
	default:
		if tv, has := info.Types[e]; has && tv.Value != nil && tv.Value.Kind() == constant.Bool {
			return constant.BoolVal(tv.Value), true
		}
	}
	return false, false
}

func operand(info *types.Info, e ast.Expr, isVar func(ast.Expr) bool, val int64) (constant.Value, bool) {
	e = ast.Unparen(e)
	if isVar(e) {
		return constant.MakeInt64(val), true
	}
	if tv, ok := info.Types[e]; ok && tv.Value != nil {
		v := constant.ToInt(tv.Value)
		if v.Kind() == constant.Int {
			return v, true
		}
	}
	// conversions of the variable: T(v) where the conversion cannot change a value of the domain
	if c, ok := e.(*ast.CallExpr); ok && len(c.Args) == 1 {
		if tv, ok := info.Types[c.Fun]; ok && tv.IsType() {
			return operand(info, c.Args[0], isVar, val)
		}
	}
	// v - const / v + const
	if b, ok := e.(*ast.BinaryExpr); ok && (b.Op == token.ADD || b.Op == token.SUB) {
		l, lok := operand(info, b.X, isVar, val)
		r, rok := operand(info, b.Y, isVar, val)
		if lok && rok {
			return constant.BinaryOp(l, b.Op, r), true
		}
	}
	return nil, false
}

// predSet returns the subset of [lo,hi] on which e holds.
func predSet(info *types.Info, e ast.Expr, isVar func(ast.Expr) bool, lo, hi int64) (map[int64]bool, bool) {
	out := map[int64]bool{}
	for v := lo; v <= hi; v++ {
		r, ok := evalPred(info, e, isVar, v)
		if !ok {
			return nil, false
		}
		if r {
			out[v] = true
		}
	}
	return out, true
}

// mentions reports whether e contains a sub-expression satisfying isVar.
func mentions(e ast.Expr, isVar func(ast.Expr) bool) bool {
	found := false
	ast.Inspect(e, func(n ast.Node) bool {
		if x, ok := n.(ast.Expr); ok && isVar(x) {
			found = true
		}
		return !found
	})
	return found
}

// splitOr / splitAnd flatten a chain of || / &&.
func splitOr(e ast.Expr) []ast.Expr  { return splitOp(e, token.LOR) }
func splitAnd(e ast.Expr) []ast.Expr { return splitOp(e, token.LAND) }
func splitOp(e ast.Expr, op token.Token) []ast.Expr {
	e = ast.Unparen(e)
	if b, ok := e.(*ast.BinaryExpr); ok && b.Op == op {
		return append(splitOp(b.X, op), splitOp(b.Y, op)...)
	}
	return []ast.Expr{e}
}

// isIdentOf returns a matcher for identifiers denoting obj.
func isIdentOf(info *types.Info, obj types.Object) func(ast.Expr) bool {
	return func(e ast.Expr) bool {
		id, ok := ast.Unparen(e).(*ast.Ident)
		return ok && obj != nil && info.Uses[id] == obj
	}
}
