package main

// C05 R-22 (added after seeded change C05-8): reaching a struct field never indirects a pointer blindly.
//
// The Field / SetField / Addr instructions reach a possibly promoted field along an index path. A path
// crosses embedded POINTERS (`type S struct{ *Inner }`, `s.A`), and an embedded pointer can be nil in a
// program that builds. The only classified outcome is the run-time error of a nil dereference, raised by
// the VM itself (panic(errNilPointer)); every panic reflect raises on its own there is a plain string or a
// *reflect.ValueError, which the panic classifier turns into a fatal error, i.e. a host panic. Two necessary
// conditions, on every function of package runtime (the renderer included: it runs under OpShow):
//
//	(a) the reflect methods that follow embedded pointers by themselves — Value.FieldByIndex,
//	    Value.FieldByName, Value.FieldByNameFunc, which panic with "reflect: indirection through nil
//	    pointer to embedded struct" — are not used (neither called nor taken as method values);
//	(b) in a field walk (a loop in which a reflect.Value variable is replaced by one of its fields,
//	    `v = v.Field(x)`), the walked variable is dereferenced inside the loop (else Field is called on a
//	    Value of kind Pointer: *reflect.ValueError), every such Elem() is on the true edge of a test of
//	    its kind being Pointer (Elem on a struct panics) and on the false edge of its IsNil() (else Field
//	    is called on the zero Value).
//
// Every function that selects a field of a reflect.Value gets an obligation for (a); every walk gets (b).

import (
	"go/ast"
	"go/token"
	"go/types"
)

func init() {
	p := registry["C05"]
	if p == nil {
		return
	}
	run := p.run
	p.run = func(r *Run) { run(r); c05FieldWalk(r) }
	p.explain += " R-22: struct fields of a reflect.Value are reached without the reflect methods that follow embedded pointers by themselves (FieldByIndex, FieldByName, FieldByNameFunc: an unclassified panic on a nil embedded pointer), and a field walk along an index path dereferences the walked value inside the loop only under a pointer-kind test and after its IsNil check."
}

func c05FieldWalk(r *Run) {
	const R = "R-22"
	const rel = "internal/runtime"
	valT := r.P.ExtNamed("reflect", "Value")
	kindT := r.P.ExtNamed("reflect", "Kind")
	if !r.Anchor(R, "reflect.Value and reflect.Kind", valT != nil && kindT != nil) {
		return
	}
	var ptrKind int64 = -1
	for _, c := range EnumConsts(kindT) {
		if c.Name() == "Pointer" {
			ptrKind, _ = constantInt64(c)
		}
	}
	if !r.Anchor(R, "reflect.Pointer", ptrKind >= 0) {
		return
	}
	blind := map[string]bool{"FieldByIndex": true, "FieldByName": true, "FieldByNameFunc": true}
	isValueMethod := func(f *types.Func, names map[string]bool) bool {
		if f == nil || !names[f.Name()] {
			return false
		}
		sig, _ := f.Type().(*types.Signature)
		if sig == nil || sig.Recv() == nil {
			return false
		}
		t := sig.Recv().Type()
		if p, ok := t.(*types.Pointer); ok {
			t = p.Elem()
		}
		return types.Identical(t, valT)
	}
	n := 0
	for _, fi := range r.P.Funcs(rel) {
		if r.P.isTestFile(fi.File) || fi.Obj == nil {
			continue
		}
		info := fi.Pkg.TypesInfo
		// ---- (a)
		var blindUses []*ast.SelectorExpr
		selects := false
		ast.Inspect(fi.Decl.Body, func(m ast.Node) bool {
			sel, ok := m.(*ast.SelectorExpr)
			if !ok {
				return true
			}
			f, _ := info.Uses[sel.Sel].(*types.Func)
			if isValueMethod(f, blind) {
				blindUses = append(blindUses, sel)
				selects = true
			} else if isValueMethod(f, map[string]bool{"Field": true}) {
				selects = true
			}
			return true
		})
		if !selects {
			continue
		}
		n++
		if len(blindUses) == 0 {
			r.Ob(R, fi.Name()+"#field-selection", fi.Decl.Pos()).OK("fields are selected one step at a time with Value.Field")
		}
		for _, sel := range blindUses {
			r.Ob(R, fi.Name()+"#"+sel.Sel.Name, sel.Pos()).Bad("reflect.Value.%s follows embedded pointers by itself and, when one of them is nil, panics with the plain string \"reflect: indirection through nil pointer to embedded struct\": it is not a run-time error the panic classifier knows, so a field promoted through a nil embedded pointer (`type S struct{ *Inner }; var s S; s.A`) makes Run panic in the host instead of returning the nil-dereference *PanicError", sel.Sel.Name)
		}
		// ---- (b) walks: `w = w.Field(…)` inside a loop
		par := r.P.Parents(fi.File)
		type walk struct {
			w    types.Object
			loop ast.Stmt
			at   *ast.AssignStmt
		}
		var walks []walk
		ast.Inspect(fi.Decl.Body, func(m ast.Node) bool {
			as, ok := m.(*ast.AssignStmt)
			if !ok || len(as.Lhs) != 1 || len(as.Rhs) != 1 {
				return true
			}
			c, ok := ast.Unparen(as.Rhs[0]).(*ast.CallExpr)
			if !ok || !isValueMethod(callee(info, c), map[string]bool{"Field": true}) {
				return true
			}
			sel := ast.Unparen(c.Fun).(*ast.SelectorExpr)
			w := objOfIdent(info, sel.X)
			if w == nil || w != objOfIdent(info, as.Lhs[0]) {
				return true
			}
			for p := par[ast.Node(as)]; p != nil; p = par[p] {
				if _, isLit := p.(*ast.FuncLit); isLit {
					break
				}
				switch l := p.(type) {
				case *ast.ForStmt:
					walks = append(walks, walk{w, l, as})
					return true
				case *ast.RangeStmt:
					walks = append(walks, walk{w, l, as})
					return true
				}
			}
			return true
		})
		if len(walks) == 0 {
			continue
		}
		byObj := map[*types.Func]*FuncInfo{}
		for _, f2 := range r.P.Funcs(rel) {
			if f2.Obj != nil {
				byObj[f2.Obj] = f2
			}
		}
		isPtrConst := func(in *types.Info, e ast.Expr) bool {
			v, ok := intValue(in, e)
			if !ok || v != ptrKind {
				return false
			}
			t := in.TypeOf(e)
			return t != nil && types.Identical(t, kindT)
		}
		// derefs lists the Elem() calls on variable w inside scope (a node of function f) with their two guards.
		type deref struct {
			call          *ast.CallExpr
			kindOK, nilOK bool
		}
		derefs := func(f *FuncInfo, w types.Object, scope ast.Node) []deref {
			in := f.Pkg.TypesInfo
			g := r.P.CFGOf(f)
			// locals defined once, by `x := e` (a bool or kind local standing for a test of w)
			defs := map[types.Object][]ast.Expr{}
			ast.Inspect(f.Decl.Body, func(m ast.Node) bool {
				if as, ok := m.(*ast.AssignStmt); ok {
					for i, l := range as.Lhs {
						if o := objOfIdent(in, l); o != nil {
							var rhs ast.Expr
							if len(as.Lhs) == len(as.Rhs) {
								rhs = as.Rhs[i]
							}
							defs[o] = append(defs[o], rhs)
						}
					}
				}
				return true
			})
			var callOnW func(e ast.Expr, name string) bool
			callOnW = func(e ast.Expr, name string) bool {
				e = ast.Unparen(e)
				if id, ok := e.(*ast.Ident); ok {
					if o := in.Uses[id]; o != nil && o != w && len(defs[o]) == 1 && defs[o][0] != nil {
						return callOnW(defs[o][0], name)
					}
					return false
				}
				c, ok := e.(*ast.CallExpr)
				if !ok {
					return false
				}
				sel, ok := ast.Unparen(c.Fun).(*ast.SelectorExpr)
				return ok && objOfIdent(in, sel.X) == w && isValueMethod(callee(in, c), map[string]bool{name: true})
			}
			// the literal says "the kind of w is Pointer"
			kindIsPtr := func(l Lit) bool {
				if l.Tag != nil {
					return l.Truth && callOnW(l.Tag, "Kind") && isPtrConst(in, l.Expr)
				}
				be, ok := ast.Unparen(l.Expr).(*ast.BinaryExpr)
				if !ok || (be.Op != token.EQL && be.Op != token.NEQ) {
					return false
				}
				if (be.Op == token.EQL) != l.Truth {
					return false
				}
				return (callOnW(be.X, "Kind") && isPtrConst(in, be.Y)) || (callOnW(be.Y, "Kind") && isPtrConst(in, be.X))
			}
			notNil := func(l Lit) bool { return l.Tag == nil && !l.Truth && callOnW(l.Expr, "IsNil") }
			var out []deref
			ast.Inspect(scope, func(m ast.Node) bool {
				if _, isLit := m.(*ast.FuncLit); isLit {
					return false
				}
				if c, ok := m.(*ast.CallExpr); ok && callOnW(c, "Elem") {
					out = append(out, deref{c, g.GuardedBy(c, kindIsPtr), g.GuardedBy(c, notNil)})
				}
				return true
			})
			return out
		}
		for _, wk := range walks {
			key := fi.Name() + "#field-walk"
			where := "inside the loop"
			ds := derefs(fi, wk.w, wk.loop)
			delegated := false
			if len(ds) == 0 {
				// the step may be delegated: `w = h(w)` with h a function of the package; read h's body
				ast.Inspect(wk.loop, func(m ast.Node) bool {
					c, ok := m.(*ast.CallExpr)
					if !ok {
						return true
					}
					h := byObj[callee(info, c)]
					if h == nil || h.Obj == fi.Obj {
						return true
					}
					for ai, a := range c.Args {
						if objOfIdent(info, a) != wk.w {
							continue
						}
						delegated = true
						ps := h.Obj.Type().(*types.Signature).Params()
						if ai < ps.Len() {
							if d2 := derefs(h, ps.At(ai), h.Decl.Body); len(d2) > 0 {
								ds = append(ds, d2...)
								where = "in " + h.Name() + ", called inside the loop"
							}
						}
					}
					return true
				})
			}
			o := r.Ob(R, key+".deref", wk.at.Pos())
			if len(ds) == 0 {
				if delegated {
					o.Unknown("the loop replaces %s by one of its fields at every step and hands it to a helper in which no Elem() on it is found: the rule cannot read where an embedded pointer is dereferenced", wk.w.Name())
				} else {
					o.Bad("the loop replaces %s by one of its fields at every step and never dereferences it: on a path that crosses an embedded pointer Field is called on a Value of kind Pointer, a *reflect.ValueError the panic classifier does not know (host panic for every field promoted through an embedded pointer)", wk.w.Name())
				}
				continue
			}
			o.OK("the walked value is dereferenced %s (%d Elem call(s))", where, len(ds))
			for _, d := range ds {
				o := r.Ob(R, key+".Elem()", d.call.Pos())
				switch {
				case !d.kindOK:
					o.Bad("the Elem() of the field walk (%s) is not on the true edge of a test of the value's Kind() being reflect.Pointer: Elem on a struct panics with a *reflect.ValueError (host panic)", where)
				case !d.nilOK:
					o.Bad("the Elem() of the field walk (%s) is not dominated by the false edge of the value's IsNil(): for a nil (embedded) pointer the next Field is called on the zero Value, a *reflect.ValueError the panic classifier does not know, so `type S struct{ *Inner }; var s S; s.A` makes Run panic in the host instead of returning the nil-dereference *PanicError", where)
				default:
					o.OK("under Kind() == reflect.Pointer and after the IsNil() check (%s)", where)
				}
			}
		}
	}
	r.Require(R, 3)
}
