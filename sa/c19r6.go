package main

// C19 R-6 (added after seeded change C19-2): a native import succeeds only after the importer was
// asked. In the function that calls Importer.Import, every success return (`return nil`) located in the
// same branch as that call is reached only through the call — an early `return nil` (for a blank
// import, say) placed before it would let `import _ "os/exec"` build although the importer never
// returned such a package.

import (
	"go/ast"
	"go/types"
	"strings"
)

func init() {
	p := registry["C19"]
	if p == nil {
		return
	}
	run := p.run
	p.run = func(r *Run) { run(r); c19ImportAsked(r); c10PooledSlots(r, "R-7"); c19Imported(r) }
	p.explain += " R-8: the importer chain an embedder composes (native.CombinedImporter) returns at the first package or error: a deny importer placed first is not overridden by a later one (C22's rule on CombinedImporter.Import, re-used). R-9: the environment of a goroutine's VM is the run's environment (C14 R-2, re-used: its print hook and context are the configured ones)."
	p.explain += " R-7: in the function taking the argument slice from the pool, no branch condition reads the previous value of a slot (a stale native.Env of an earlier run would select that run's print hook)."
	p.explain += " R-6: in the function that calls Importer.Import, every success return of the branch holding the call passes through the call."
}

func c19ImportAsked(r *Run) {
	const R = "R-6"
	n := 0
	for _, fi := range r.P.Funcs("internal/compiler") {
		if r.P.isTestFile(fi.File) {
			continue
		}
		info := fi.Pkg.TypesInfo
		par := r.P.Parents(fi.File)
		var importCalls []*ast.CallExpr
		for _, c := range calls(fi.Decl.Body, false) {
			sel, ok := c.Fun.(*ast.SelectorExpr)
			if !ok || sel.Sel.Name != "Import" {
				continue
			}
			// a method call on an interface value with a method Import(string) (ImportablePackage, error)
			if s, ok := info.Selections[sel]; ok {
				if _, isIface := s.Recv().Underlying().(*types.Interface); isIface {
					importCalls = append(importCalls, c)
				}
			}
		}
		for _, ic := range importCalls {
			// the branch: the innermost if-body (or the function body) containing the call
			var branch ast.Node = fi.Decl.Body
			for p := par[ast.Node(ic)]; p != nil; p = par[p] {
				if blk, ok := p.(*ast.BlockStmt); ok {
					if is, ok := par[blk].(*ast.IfStmt); ok && is.Body == blk {
						// skip the error-handling ifs nested after the call; we want the block whose
						// statement list directly contains the statement with the call
						branch = blk
						break
					}
				}
			}
			g := r.P.CFGOf(fi)
			ast.Inspect(branch, func(m ast.Node) bool {
				if _, isLit := m.(*ast.FuncLit); isLit {
					return false
				}
				rs, ok := m.(*ast.ReturnStmt)
				if !ok || len(rs.Results) == 0 {
					return true
				}
				last := rs.Results[len(rs.Results)-1]
				if tv := info.Types[last]; !tv.IsNil() {
					return true
				}
				n++
				o := r.Ob(R, fi.Name()+"#success-return-after-Import", rs.Pos())
				if g.MustPassNode(rs, func(nd ast.Node) bool { return containsNode(nd, ic) }) {
					o.OK("reached only through the call of the importer")
				} else {
					o.Bad("a success return of the native-import branch is reachable without calling the importer: an import the importer never resolved would be accepted")
				}
				return true
			})
		}
	}
	if n == 0 {
		r.Ob(R, "compiler#Importer.Import", 0).Unknown("no call of an importer with success returns after it was found: the import gate changed shape")
	}
	r.Require(R, 3)
}

// c19Imported imports, by sub-runs, the obligations of C22 about CombinedImporter.Import (R-8) and of C14
// R-2 about the environment handed to goroutine VMs (R-9); added after seeded changes C19-7 and C19-9.
func c19Imported(r *Run) {
	for _, imp := range []struct {
		prop, rule, as string
		keep           func(o *Obl) bool
		min            int
	}{
		{"C22", "", "R-8", func(o *Obl) bool { return strings.Contains(o.Construct, "CombinedImporter") }, 1},
		{"C14", "R-2", "R-9", func(o *Obl) bool { return true }, 4},
		{"C14", "R-1", "R-9", func(o *Obl) bool { return strings.Contains(o.Construct, "startGoroutine") }, 5},
	} {
		p := registry[imp.prop]
		if !r.Anchor(imp.as, "the "+imp.prop+" rule set", p != nil) {
			continue
		}
		sub := NewRun(imp.prop, r.Tier, r.P)
		safeRun(sub, p.run)
		for _, o := range sub.Obls {
			if (imp.rule == "" || o.Rule == imp.rule) && imp.keep(o) {
				o.Rule = imp.as
				r.Obls = append(r.Obls, o)
			}
		}
		r.Require(imp.as, imp.min)
	}
}
