package main

// C01 R-9 (added after seed C01-6): the largest valid code point is valid. By the Go specification the
// conversion of an integer to a string yields the UTF-8 encoding of the value when it is a valid Unicode code
// point, and U+10FFFF (unicode.MaxRune) is one. Every comparison of the run loop and its helpers that names
// the constant unicode.MaxRune directly must therefore keep the value 0x10FFFF on the valid side:
// `x <= MaxRune`, `x > MaxRune` (and the mirrored `MaxRune >= x`, `MaxRune < x`), `==` and `!=` do;
// `x < MaxRune`, `x >= MaxRune`, `MaxRune > x`, `MaxRune <= x` classify U+10FFFF with the invalid values and
// string(rune(0x10FFFF)) becomes "\uFFFD". An operand such as `unicode.MaxRune+1` is a different expression
// and is not an instance. The rule decides the boundary's side, not the conversion.

import (
	"go/ast"
	"go/token"
	"go/types"
)

func init() {
	p := registry["C01"]
	if p == nil {
		return
	}
	run := p.run
	p.run = func(r *Run) {
		run(r)
		if r.P.Arch == "" {
			c01MaxRuneSide(r)
		}
	}
	p.explain += " R-9: every comparison with unicode.MaxRune in the runtime keeps U+10FFFF on the valid side."
}

func c01MaxRuneSide(r *Run) {
	const R = "R-9"
	r.Require(R, 2)
	isMax := func(info *types.Info, e ast.Expr) bool {
		var id *ast.Ident
		switch x := ast.Unparen(e).(type) {
		case *ast.Ident:
			id = x
		case *ast.SelectorExpr:
			id = x.Sel
		default:
			return false
		}
		c, ok := info.Uses[id].(*types.Const)
		return ok && c.Pkg() != nil && c.Pkg().Path() == "unicode" && c.Name() == "MaxRune"
	}
	for _, f := range r.P.Funcs("internal/runtime") {
		if r.P.isTestFile(f.File) || f.Decl.Body == nil {
			continue
		}
		info := f.Pkg.TypesInfo
		ast.Inspect(f.Decl.Body, func(n ast.Node) bool {
			be, ok := n.(*ast.BinaryExpr)
			if !ok {
				return true
			}
			l, rr := isMax(info, be.X), isMax(info, be.Y)
			if l == rr {
				return true
			}
			op := be.Op
			if l { // mirror so that the constant is on the right
				switch op {
				case token.LSS:
					op = token.GTR
				case token.GTR:
					op = token.LSS
				case token.LEQ:
					op = token.GEQ
				case token.GEQ:
					op = token.LEQ
				}
			}
			o := r.Ob(R, f.Name()+"#maxrune:"+op.String(), be.Pos())
			switch op {
			case token.LEQ, token.GTR, token.EQL, token.NEQ:
				o.OK("the comparison `x %s unicode.MaxRune` keeps U+10FFFF with the valid code points", op)
			case token.LSS, token.GEQ:
				o.Bad("the comparison `x %s unicode.MaxRune` classifies U+10FFFF, a valid code point, with the invalid values: string(rune(0x10FFFF)) yields \"\\uFFFD\" instead of its 4-byte encoding", op)
			default:
				o.Unknown("unicode.MaxRune is an operand of %s, which the rule does not read", op)
			}
			return true
		})
	}
}
