package main

// C14 R-6 (added after seeded change C14-3): a receive that reports its ok flag stores the received value
// whatever the flag.
//
// `v, ok := <-ch` and `case v, ok := <-ch` on a closed channel yield the ZERO value and ok == false. The
// machine performs the receive with reflect (Value.Recv, Value.TryRecv, reflect.Select), which returns that
// zero value together with ok == false. A handler that hands the flag to the program (stores it into the
// machine or into a register) implements a receive expression, so the value it got must reach the
// destination register on the ok == false path as well: a store of the received value that runs for one
// value of the flag only leaves the previous content of the register (shared with the other cases of the
// select and kept across loop iterations) where Go has the zero value.
//
// A handler in which the flag only steers control flow (range over a channel: the loop ends, no variable is
// assigned) is not a receive expression and instantiates nothing.
//
// Decided on SSA: the region of a receive is what can run after it before control is back at a block that
// dominates it (the dispatch loop); the flag is followed through phis, negations, comparisons and through
// the machine field it is stored into; a sink of the received value is guarded when cutting one out-edge of
// a branch on the flag makes it unreachable from the receive. A handler that stores something else into the
// same register operand on the other edge (if ok { set(r, v) } else { set(r, zero) }) is accepted.

import (
	"go/token"
	"go/types"

	"golang.org/x/tools/go/ssa"
)

func init() {
	p := registry["C14"]
	if p == nil {
		return
	}
	run := p.run
	p.run = func(r *Run) { run(r); c14R6(r) }
	p.explain += " R-6: a handler that receives from a channel through reflect (Recv, TryRecv, Select) and reports the ok flag to the program stores the received value into its destination whatever the flag (a receive from a closed channel yields the zero value, not the old content of the register)."
}

// c14RecvCall reports whether c is a channel receive through reflect and returns the tuple indexes of the
// received value and of the ok flag.
func c14RecvCall(c *ssa.Call) (vi, oki int, name string, ok bool) {
	sc := c.Common().StaticCallee()
	if sc == nil || sc.Object() == nil || sc.Object().Pkg() == nil || sc.Object().Pkg().Path() != "reflect" {
		return 0, 0, "", false
	}
	fn, _ := sc.Object().(*types.Func)
	if fn == nil {
		return 0, 0, "", false
	}
	sig := fn.Type().(*types.Signature)
	switch {
	case sig.Recv() == nil && fn.Name() == "Select":
		return 1, 2, "reflect.Select", true
	case sig.Recv() != nil && (fn.Name() == "Recv" || fn.Name() == "TryRecv"):
		return 0, 1, "reflect.Value." + fn.Name(), true
	}
	return 0, 0, "", false
}

// c14Region lists the blocks that can run after block b before control is back at a strict dominator of b.
func c14Region(b *ssa.BasicBlock) map[*ssa.BasicBlock]bool {
	reg := map[*ssa.BasicBlock]bool{b: true}
	stack := []*ssa.BasicBlock{b}
	for len(stack) > 0 {
		x := stack[len(stack)-1]
		stack = stack[:len(stack)-1]
		for _, s := range x.Succs {
			if reg[s] || (s != b && s.Dominates(b)) || s == b {
				continue
			}
			reg[s] = true
			stack = append(stack, s)
		}
	}
	return reg
}

type c14Edge struct {
	from *ssa.BasicBlock
	i    int
}

// c14ReachBlocks: blocks reachable from b inside reg without crossing the cut edge.
func c14ReachBlocks(b *ssa.BasicBlock, reg map[*ssa.BasicBlock]bool, cut *c14Edge) map[*ssa.BasicBlock]bool {
	seen := map[*ssa.BasicBlock]bool{b: true}
	stack := []*ssa.BasicBlock{b}
	for len(stack) > 0 {
		x := stack[len(stack)-1]
		stack = stack[:len(stack)-1]
		for i, s := range x.Succs {
			if !reg[s] || seen[s] || (cut != nil && cut.from == x && cut.i == i) {
				continue
			}
			seen[s] = true
			stack = append(stack, s)
		}
	}
	return seen
}

func c14R6(r *Run) {
	const R = "R-6"
	const rel = "internal/runtime"
	n := 0
	for _, fi := range r.P.Funcs(rel) {
		if r.P.isTestFile(fi.File) {
			continue
		}
		f0 := r.P.SSAFunc(fi)
		if f0 == nil {
			continue
		}
		for _, f := range cgxFns(f0) {
			for _, b := range f.Blocks {
				for _, in := range b.Instrs {
					c, ok := in.(*ssa.Call)
					if !ok {
						continue
					}
					vi, oki, name, ok := c14RecvCall(c)
					if !ok {
						continue
					}
					if c14RecvSite(r, R, f, c, vi, oki, name) {
						n++
					}
				}
			}
		}
	}
	r.Anchor(R, "a receive through reflect whose ok flag is reported to the program (the receive and select handlers)", n > 0)
	r.Require(R, 4)
}

// c14RecvSite judges one receive; it returns true when the site is a receive expression (flag reported).
func c14RecvSite(r *Run, R string, f *ssa.Function, c *ssa.Call, vi, oki int, name string) bool {
	key := ssaFuncName(f) + "#" + name
	var vExt, okExt []ssa.Value
	if c.Referrers() != nil {
		for _, ref := range *c.Referrers() {
			if e, ok := ref.(*ssa.Extract); ok {
				switch e.Index {
				case vi:
					vExt = append(vExt, e)
				case oki:
					okExt = append(okExt, e)
				}
			}
		}
	}
	reg := c14Region(c.Block())
	inReg := func(in ssa.Instruction) bool { return in.Block() != nil && reg[in.Block()] }

	// the flag: through phis, !, comparisons, conversions, and the fields it is stored into
	flag := map[ssa.Value]bool{}
	flagFields := map[*types.Var]bool{}
	reported := ""
	var work []ssa.Value
	add := func(v ssa.Value) {
		if !flag[v] {
			flag[v] = true
			work = append(work, v)
		}
	}
	for _, e := range okExt {
		add(e)
	}
	for len(work) > 0 {
		v := work[len(work)-1]
		work = work[:len(work)-1]
		if v.Referrers() == nil {
			continue
		}
		for _, ref := range *v.Referrers() {
			if !inReg(ref) {
				continue
			}
			switch x := ref.(type) {
			case *ssa.Phi:
				add(x)
			case *ssa.UnOp:
				if x.Op == token.NOT {
					add(x)
				}
			case *ssa.BinOp:
				add(x)
			case *ssa.ChangeType:
				add(x)
			case *ssa.Convert:
				add(x)
			case *ssa.Store:
				if x.Val != v {
					continue
				}
				if fa, ok := x.Addr.(*ssa.FieldAddr); ok {
					if fv := c10FieldVar(fa); fv != nil {
						reported = "stored into " + c10Path(fa)
						if !flagFields[fv] {
							flagFields[fv] = true
							// loads of the same field inside the region carry the flag
							for _, b := range f.Blocks {
								if !reg[b] {
									continue
								}
								for _, in := range b.Instrs {
									if u, ok := in.(*ssa.UnOp); ok && u.Op == token.MUL {
										if fa2, ok := u.X.(*ssa.FieldAddr); ok && c10FieldVar(fa2) == fv {
											add(u)
										}
									}
								}
							}
						}
					}
				} else if _, isAlloc := x.Addr.(*ssa.Alloc); !isAlloc {
					reported = "stored through " + x.Addr.Name()
				}
			case ssa.CallInstruction:
				for _, a := range x.Common().Args {
					if a == v {
						reported = "passed to " + c10CalleeName(x.Common())
					}
				}
			case *ssa.Return:
				reported = "returned"
			}
		}
	}

	// the received value: through phis, conversions and the results of its own methods; a sink hands it to
	// the machine (argument of a module function) or stores it
	val := map[ssa.Value]bool{}
	work = work[:0]
	addV := func(v ssa.Value) {
		if !val[v] {
			val[v] = true
			work = append(work, v)
		}
	}
	for _, e := range vExt {
		addV(e)
	}
	var sinks []ssa.Instruction
	for len(work) > 0 {
		v := work[len(work)-1]
		work = work[:len(work)-1]
		if v.Referrers() == nil {
			continue
		}
		for _, ref := range *v.Referrers() {
			if !inReg(ref) {
				continue
			}
			switch x := ref.(type) {
			case *ssa.Phi:
				addV(x)
			case *ssa.ChangeType:
				addV(x)
			case *ssa.MakeInterface:
				addV(x)
			case *ssa.Store:
				// a local cell is not a destination; anything else is
				if _, isAlloc := x.Addr.(*ssa.Alloc); !isAlloc && x.Val == v {
					sinks = append(sinks, ref)
				}
			case ssa.CallInstruction:
				cc := x.Common()
				sc := cc.StaticCallee()
				switch {
				case sc != nil && inModule(sc):
					// handed to the machine (a register setter, a helper preparing the value)
					sinks = append(sinks, ref)
				case sc != nil && cc.Signature().Recv() != nil && len(cc.Args) > 0 && cc.Args[0] == v:
					// a method of the value itself (Type, Kind, Elem, Interface): an inspection; its result is followed
					if val, ok := ref.(ssa.Value); ok {
						addV(val)
					}
				}
			}
		}
	}
	if len(sinks) == 0 {
		// the value is dropped (a send performed with Select, a receive statement without destination)
		return false
	}
	if reported == "" {
		r.Ob(R, key, c.Pos()).Trivial("the ok flag of this receive only steers control flow (it is not handed to the program): not a receive expression")
		return false
	}
	o := r.Ob(R, key, c.Pos())

	// branches on the flag inside the region
	var branches []*ssa.If
	for b := range reg {
		if len(b.Instrs) == 0 {
			continue
		}
		if i, ok := b.Instrs[len(b.Instrs)-1].(*ssa.If); ok && flag[i.Cond] {
			branches = append(branches, i)
		}
	}
	start := c.Block()
	base := c14ReachBlocks(start, reg, nil)
	// register operand of a sink: the first non-receiver argument of a call
	regOperand := func(in ssa.Instruction) ssa.Value {
		ci, ok := in.(ssa.CallInstruction)
		if !ok {
			return nil
		}
		cc := ci.Common()
		args := cc.Args
		if cc.Signature().Recv() != nil && !cc.IsInvoke() && len(args) > 0 {
			args = args[1:]
		}
		if len(args) > 0 && !val[args[0]] {
			return args[0]
		}
		return nil
	}
	for _, s := range sinks {
		if !base[s.Block()] {
			continue
		}
		for _, br := range branches {
			if br.Block() == s.Block() {
				continue // the sink precedes the branch in its own block
			}
			for i := range br.Block().Succs {
				cut := &c14Edge{br.Block(), i}
				re := c14ReachBlocks(start, reg, cut)
				if re[s.Block()] {
					continue
				}
				// the sink runs for one value of the flag only; is the same register written otherwise?
				ro := regOperand(s)
				alt := false
				if ro != nil {
					for b := range re {
						for _, in := range b.Instrs {
							if in == s {
								continue
							}
							if ci, ok := in.(ssa.CallInstruction); ok && regOperand(in) == ro && ci.Common().StaticCallee() != nil &&
								ci.Common().Signature().Recv() != nil {
								alt = true
							}
						}
					}
				}
				if alt {
					continue
				}
				o.Bad("the value received by %s is handed on (%s) only for one value of the ok flag (%s): after a receive from a closed channel the destination keeps its previous content instead of the zero value, although ok == false is reported to the program", name, c14SinkName(s), reported)
				return true
			}
		}
	}
	o.OK("the ok flag is reported (%s) and no store of the received value (%d sink(s)) depends on it", reported, len(sinks))
	return true
}

func c14SinkName(in ssa.Instruction) string {
	if ci, ok := in.(ssa.CallInstruction); ok {
		if n := c10CalleeName(ci.Common()); n != "" {
			return "argument of " + n
		}
		return "argument of a call"
	}
	if _, ok := in.(*ssa.Store); ok {
		return "store"
	}
	return in.String()
}
