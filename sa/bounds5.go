package main

// Engine E6, fifth part: postcondition of position-returning helpers.
//
// A helper such as skipRawSpaces(src, p) takes a byte sequence and a position in it and returns a
// position in it. For an in-package function f(…, S, …, P, …) int with S a string/[]byte parameter and P an
// integer parameter, the summary "P ≤ len(S) at entry ⇒ result ≤ len(S)" holds when, analysed under that
// entry assumption, every return statement's value is proved ≤ len(S). At a call `x = f(…, s, …, e, …)`
// where the caller's state proves e ≤ len(s), the fact x ≤ len(s) is added. (Added after a maintenance
// edit replaced `i += k; i = skip(src, i)` plus explicit length tests by bytes.HasPrefix(src[i:], …).)

import (
	"go/ast"
	"go/types"
)

type posSummary struct{ sliceParam, posParam int }

func (ba *boundsAnalysis) positionSummaries(fi *FuncInfo) []posSummary {
	if ba.posCache == nil {
		ba.posCache = map[*types.Func][]posSummary{}
	}
	if s, ok := ba.posCache[fi.Obj]; ok {
		return s
	}
	ba.posCache[fi.Obj] = nil // recursion guard
	sig := fi.Obj.Type().(*types.Signature)
	if sig.Results().Len() != 1 || !isIntType(sig.Results().At(0).Type()) || fi.Decl.Body == nil {
		return nil
	}
	var out []posSummary
	for si := 0; si < sig.Params().Len(); si++ {
		if !isByteSeq(sig.Params().At(si).Type()) {
			continue
		}
		for pi := 0; pi < sig.Params().Len(); pi++ {
			if !isIntType(sig.Params().At(pi).Type()) {
				continue
			}
			S, P := sig.Params().At(si), sig.Params().At(pi)
			lenS := "len(" + objKey(S) + ")"
			pre := newLin()
			pre.t["v:"+objKey(P)] = 1
			pre.t[lenS] = -1
			bf := &boundsFunc{ba: ba, fi: fi, info: fi.Pkg.TypesInfo, cfg: ba.p.CFGOf(fi), pre: []lin{pre}}
			// the slice parameter must not be reassigned (its length is the yardstick)
			reassigned := false
			ast.Inspect(fi.Decl.Body, func(m ast.Node) bool {
				if as, ok := m.(*ast.AssignStmt); ok {
					for _, l := range as.Lhs {
						if objOfIdent(bf.info, l) == types.Object(S) {
							reassigned = true
						}
					}
				}
				return true
			})
			if reassigned {
				continue
			}
			bf.run()
			ok := true
			nret := 0
			ast.Inspect(fi.Decl.Body, func(m ast.Node) bool {
				if _, isLit := m.(*ast.FuncLit); isLit {
					return false
				}
				rs, isRet := m.(*ast.ReturnStmt)
				if !isRet || !ok {
					return true
				}
				nret++
				if len(rs.Results) != 1 {
					ok = false
					return true
				}
				st := bf.stateAt(rs.Results[0])
				if st == nil {
					return true // unreachable
				}
				e, lin := bf.linOf(rs.Results[0])
				if !lin {
					ok = false
					return true
				}
				goal := e.clone()
				goal.t[lenS]--
				if goal.t[lenS] == 0 {
					delete(goal.t, lenS)
				}
				if proved, _ := st.proves(goal); !proved {
					ok = false
				}
				return true
			})
			if ok && nret > 0 {
				out = append(out, posSummary{si, pi})
			}
		}
	}
	ba.posCache[fi.Obj] = out
	return out
}

// positionResultFacts applies the summaries of the callee at `x = f(args)`.
func (bf *boundsFunc) positionResultFacts(before, s *bstate, lhs []ast.Expr, r ast.Expr) {
	c, ok := ast.Unparen(r).(*ast.CallExpr)
	if !ok || len(lhs) != 1 {
		return
	}
	fn := callee(bf.info, c)
	cfi := bf.ba.funcs[fn]
	if fn == nil || cfi == nil || cfi == bf.fi {
		return
	}
	xk, ok := bf.pathKey(lhs[0])
	if !ok || !isIntType(bf.info.TypeOf(lhs[0])) {
		return
	}
	for _, ps := range bf.ba.positionSummaries(cfi) {
		if ps.sliceParam >= len(c.Args) || ps.posParam >= len(c.Args) {
			continue
		}
		ln, ok1 := bf.lenOf(c.Args[ps.sliceParam])
		e, ok2 := bf.linOf(c.Args[ps.posParam])
		if !ok1 || !ok2 {
			continue
		}
		if proved, _ := before.proves(e.add(ln, -1)); !proved {
			continue
		}
		f := newLin()
		f.t["v:"+xk] = 1
		s.addLE(f.add(ln, -1))
	}
}
