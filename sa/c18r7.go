package main

// C18 R-7 (added after seeded change C18-6): the error of the rooting function is honoured before the
// read. R-2 shows that the name handed to the file-system gate is the first result of the rooting
// function; that result is meaningful only when the second one is nil (for a reference leaving the root
// the function returns "", os.ErrNotExist). In every function that passes the first result of a call of
// the rooting function to a call taking an fs.FS (the gate), the error result of that call is bound to a
// variable and the gate call is reached only on the `err == nil` edge of a test of it.

import (
	"go/ast"
	"go/token"
	"go/types"
)

func init() {
	p := registry["C18"]
	if p == nil {
		return
	}
	run := p.run
	p.run = func(r *Run) { run(r); c18RootedError(r) }
	p.explain += " R-7: a name produced by the rooting function reaches the file-system gate only on the nil edge of a test of the error returned with it."
}

func c18RootedError(r *Run) {
	const R = "R-7"
	const rel = "internal/compiler"
	root := r.NeedFunc(R, rel, "rooted")
	if root == nil {
		return
	}
	fsT := r.P.ExtNamed("io/fs", "FS")
	if !r.Anchor(R, "io/fs.FS", fsT != nil) {
		return
	}
	fsI := fsT.Underlying().(*types.Interface)
	n := 0
	for _, fi := range r.P.Funcs(rel) {
		if r.P.isTestFile(fi.File) {
			continue
		}
		info := fi.Pkg.TypesInfo
		type rc struct {
			name, err types.Object
			blankErr  bool
			at        token.Pos
		}
		var rcs []rc
		ast.Inspect(fi.Decl.Body, func(m ast.Node) bool {
			as, ok := m.(*ast.AssignStmt)
			if !ok || len(as.Rhs) != 1 || len(as.Lhs) != 2 {
				return true
			}
			c, ok := ast.Unparen(as.Rhs[0]).(*ast.CallExpr)
			if !ok || callee(info, c) != root.Obj {
				return true
			}
			x := rc{name: objOfIdent(info, as.Lhs[0]), err: objOfIdent(info, as.Lhs[1]), at: as.Pos()}
			if id, ok := as.Lhs[1].(*ast.Ident); ok && id.Name == "_" {
				x.blankErr = true
			}
			rcs = append(rcs, x)
			return true
		})
		if len(rcs) == 0 {
			continue
		}
		var g *CFGInfo
		for _, c := range calls(fi.Decl.Body, false) {
			f := callee(info, c)
			if f == nil || f == root.Obj {
				continue
			}
			// a call handing a file system and the rooted name to something
			hasFS := false
			for _, a := range c.Args {
				if t := info.TypeOf(a); t != nil && types.Implements(t, fsI) {
					hasFS = true
				}
			}
			if sel, ok := c.Fun.(*ast.SelectorExpr); ok {
				if t := info.TypeOf(sel.X); t != nil && types.Implements(t, fsI) {
					hasFS = true
				}
			}
			if !hasFS {
				continue
			}
			for _, a := range c.Args {
				ao := objOfIdent(info, a)
				if ao == nil {
					continue
				}
				for _, x := range rcs {
					if x.name != ao || x.at > c.Pos() {
						continue
					}
					n++
					o := r.Ob(R, fi.Name()+"#read("+ao.Name()+"):error-of-"+root.Decl.Name.Name+"-checked", c.Pos())
					if x.blankErr || x.err == nil {
						o.Bad("the error returned by %s together with %s is discarded, and %s is then given to %s: for a reference that leaves the root the name is \"\" (not a valid rooted name) and the file system is asked for it", root.Decl.Name.Name, ao.Name(), ao.Name(), f.Name())
						continue
					}
					if g == nil {
						g = r.P.CFGOf(fi)
					}
					guarded := g.GuardedBy(c, func(l Lit) bool {
						be, ok := ast.Unparen(l.Expr).(*ast.BinaryExpr)
						if !ok || l.Tag != nil {
							return false
						}
						isErr := func(e ast.Expr) bool { return objOfIdent(info, e) == x.err }
						isNil := func(e ast.Expr) bool { tv, ok := info.Types[e]; return ok && tv.IsNil() }
						if !(isErr(be.X) && isNil(be.Y) || isErr(be.Y) && isNil(be.X)) {
							return false
						}
						return be.Op == token.NEQ && !l.Truth || be.Op == token.EQL && l.Truth
					})
					if guarded {
						o.OK("the read is reached only on the edge where the error returned with %s is nil", ao.Name())
					} else {
						o.Bad("the read of %s is reachable without a test of the error %s returned with it", ao.Name(), root.Decl.Name.Name)
					}
				}
			}
		}
	}
	r.Require(R, 1)
}
