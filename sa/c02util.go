package main

// helpers shared by C02 R-6 and R-7 (from the rule author's c02r5.go; R-5 itself, which evaluated the fast
// paths of the constant implementations on sampled boundary operands, was not shipped: sampling operands is
// testing, not static analysis)

import (
	"go/ast"
	"go/types"
)

// c02Context rebuilds the resolved anchors of runC02 without emitting obligations (runC02 has already
// reported an anchor that does not resolve).
func c02Context(r *Run) *c02 {
	if x, ok := c02Contexts[r]; ok {
		return x
	}
	x := c02BuildContext(r)
	c02Contexts[r] = x
	return x
}

var c02Contexts = map[*Run]*c02{}

func c02BuildContext(r *Run) *c02 {
	x := &c02{r: r, opVal: map[string]int64{}, opNam: map[int64]string{}, kinds: map[string]int64{}, kname: map[int64]string{}}
	x.pk = r.P.Pkg("internal/compiler")
	if x.pk == nil {
		return nil
	}
	x.info = x.pk.TypesInfo
	x.sizes = x.pk.TypesSizes
	x.opT = r.P.Named("ast", "OperatorType")
	x.kindT = r.P.ExtNamed("reflect", "Kind")
	if rt := r.P.ExtNamed("reflect", "Type"); rt != nil {
		x.rtypT = rt
	}
	if x.opT == nil || x.kindT == nil || x.rtypT == nil {
		return nil
	}
	for _, c := range EnumConsts(x.opT) {
		v, _ := constantInt64(c)
		x.opVal[c.Name()] = v
		x.opNam[v] = c.Name()
	}
	for _, c := range EnumConsts(x.kindT) {
		v, _ := constantInt64(c)
		x.kinds[c.Name()] = v
		if _, dup := x.kname[v]; !dup || c.Name() == "Pointer" {
			x.kname[v] = c.Name()
		}
	}
	x.findImpls()
	if x.iface == nil || len(x.impls) < 6 {
		return nil
	}
	return x
}

func c02IsNil(info *types.Info, e ast.Expr) bool {
	id, ok := ast.Unparen(e).(*ast.Ident)
	return ok && id.Name == "nil" && info.Uses[id] == types.Universe.Lookup("nil")
}
