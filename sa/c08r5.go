package main

// C08 R-5, R-6 (added after seeded changes C08-1 and C08-2).
//
// R-5  the escape table the JS and JSON serialisers share only holds escapes valid in a JSON string
//      (\uXXXX \" \\ \/ \b \f \n \r \t) — `\v` or `\x0b` are JavaScript only. This is C07 R-1 restricted to
//      the entries of the string-escape table, re-used.
// R-6  separator discipline of the serialisers: in a loop of showInJS / showInJSON that writes elements
//      separated by commas, once the separator has been written — or the `first` flag cleared — the element
//      is written: no `continue` of that loop follows either of them. Otherwise a skipped field
//      (`json:"-"`, omitempty) leaves `{,"name":…}` or `{"a":1,}`: not a JSON value.

import (
	"go/ast"
	"go/token"
	"go/types"
	"strings"
)

func init() {
	p := registry["C08"]
	if p == nil {
		return
	}
	run := p.run
	p.run = func(r *Run) { run(r); c08EscapeTable(r); c08Separators(r) }
	p.explain += " R-5: the string-escape table shared by the JS and JSON serialisers holds only escapes valid in JSON (C07 R-1 re-used). R-6: in the serialisers' loops no `continue` follows the write of the separator or the clearing of the first-element flag."
}

func c08EscapeTable(r *Run) {
	const R = "R-5"
	c07 := registry["C07"]
	if !r.Anchor(R, "the C07 rule set (escape tables)", c07 != nil) {
		return
	}
	sub := NewRun("C07", r.Tier, r.P)
	safeRun(sub, c07.run)
	for _, o := range sub.Obls {
		if o.Rule == "R-1" && strings.Contains(o.Construct, "jsStringEscapes") {
			o.Rule = R
			r.Obls = append(r.Obls, o)
		}
	}
	r.Require(R, 20)
}

func c08Separators(r *Run) {
	const R = "R-6"
	x := c06ShowTable(r, R)
	if x == nil {
		return
	}
	n := 0
	for name, ctxs := range x.ctxFuncs {
		isSer := false
		for _, c := range ctxs {
			if c == "ContextJS" || c == "ContextJSON" {
				isSer = true
			}
		}
		fi := x.funcs[name]
		if !isSer || fi == nil {
			continue
		}
		info := fi.Pkg.TypesInfo
		var loops []ast.Stmt
		ast.Inspect(fi.Decl.Body, func(m ast.Node) bool {
			switch m.(type) {
			case *ast.ForStmt, *ast.RangeStmt:
				loops = append(loops, m.(ast.Stmt))
			}
			return true
		})
		for li, loop := range loops {
			var body *ast.BlockStmt
			switch l := loop.(type) {
			case *ast.ForStmt:
				body = l.Body
			case *ast.RangeStmt:
				body = l.Body
			}
			// separator writes and `flag = false` of boolean locals, directly in this loop (not in nested loops)
			var marks []ast.Node
			var conts []*ast.BranchStmt
			var walk func(n ast.Node, top bool)
			walk = func(n ast.Node, top bool) {
				ast.Inspect(n, func(m ast.Node) bool {
					if m == nil {
						return true
					}
					switch s := m.(type) {
					case *ast.FuncLit:
						return false
					case *ast.ForStmt, *ast.RangeStmt:
						if m != n {
							return false // nested loop: its continues are its own
						}
					case *ast.BranchStmt:
						if s.Tok == token.CONTINUE && s.Label == nil {
							conts = append(conts, s)
						}
					case *ast.CallExpr:
						if len(s.Args) >= 1 {
							if str, ok := stringValue(info, s.Args[len(s.Args)-1]); ok && strings.HasPrefix(str, ",") {
								if f := callee(info, s); f != nil && strings.HasPrefix(f.Name(), "Write") {
									marks = append(marks, s)
								}
							}
						}
					case *ast.AssignStmt:
						if len(s.Lhs) == 1 && len(s.Rhs) == 1 && s.Tok == token.ASSIGN {
							if tv, ok := info.Types[s.Rhs[0]]; ok && tv.Value != nil && tv.Value.String() == "false" {
								if o := objOfIdent(info, s.Lhs[0]); o != nil {
									if b, ok := o.Type().Underlying().(*types.Basic); ok && b.Kind() == types.Bool {
										marks = append(marks, s)
									}
								}
							}
						}
					}
					return true
				})
			}
			walk(body, true)
			if len(marks) == 0 {
				continue
			}
			n++
			key := fi.Name() + "#loop" + itoa(li+1) + ":separator-then-element"
			o := r.Ob(R, key, loop.Pos())
			bad := ""
			for _, mk := range marks {
				for _, c := range conts {
					if c.Pos() > mk.Pos() {
						bad = "a `continue` at " + r.P.Pos(c.Pos()) + " follows the separator / first-flag update at " + r.P.Pos(mk.Pos())
					}
				}
			}
			if bad == "" {
				o.OK("%d separator writes / first-flag updates, none followed by a `continue` of the loop", len(marks))
			} else {
				o.Bad("%s: an element skipped after its separator was written (or after the first-element flag was cleared) leaves a stray comma — `{,\"name\":…}` — and the output is not a JSON / JavaScript value", bad)
			}
		}
	}
	r.Require(R, 4)
}
