package main

// C28 R-2d (added after seeded change C28-7): a walk clause reaches what lies below a child only through
// the walker.
//
// "Visit every node exactly once" is kept by a simple discipline: the clause of a node hands each child to
// the walker, and the walker — not the clause — visits the child and goes on below it. A clause that walks
// the children of a child by itself (n.Else.Condition, n.Body.Nodes[i] …; also after rebinding its variable
// to the child, as a loop that follows a chain of nodes does) breaks one half of the property whatever the
// rest of the clause does: if the child is also handed to the walker, everything below it is visited twice;
// if it is not, the child itself is never visited, although all its children are. R-2w accepts a child
// that is handed to the walker once and does not look further; this rule adds: when a clause hands to the
// walker a position strictly below a child position, the child is not handed to the walker, and it is
// handed to the visitor's own method (the clause is then an inlined step of the walk, which is legitimate).
// The positions are those computed by the abstract evaluation of the clause (E10), through local variables,
// type assertions, helpers and rebinding; nothing depends on how the clause is spelled.

import (
	"go/types"
	"sort"
	"strings"
)

func init() {
	p := registry["C28"]
	if p == nil {
		return
	}
	run := p.run
	p.run = func(r *Run) { run(r); c28DeepWalk(r) }
	p.explain += " R-2d: a walk clause never hands to the walker a position strictly below one of the node's child positions (n.F.G, n.F[i] of a child F) unless it gives the child F itself to the visitor's method and not to the walker: otherwise F is either never visited or everything below it is visited twice."
}

func c28DeepWalk(r *Run) {
	const R = "R-2d"
	x := c28cur
	if x == nil || x.r != r || x.walk == nil {
		return // the anchors of R-1 have already been reported as unresolved
	}
	walkName := x.walk.Name()
	for _, nt := range x.nodes {
		hit := x.resolve(x.walk, nt, 0)
		if hit.kind != c28Exact && hit.kind != c28Generic {
			continue
		}
		leaves := x.walkLeaves(nt, true)
		if len(leaves) == 0 {
			continue
		}
		name := nt.Obj().Name()
		e := x.runClause2(hit, nt)
		o := r.Ob(R, walkName+"#"+name, hit.clause.Pos())
		if len(e.unk) > 0 {
			o.Unknown("walk clause for *%s not understood: %s", name, strings.Join(e.unk, "; "))
			continue
		}
		var bad, inlined []string
		for _, lf := range leaves {
			var deeper []string
			for _, s := range e.sinks {
				if strings.HasPrefix(s.path, lf+".") || strings.HasPrefix(s.path, lf+"[]") {
					deeper = append(deeper, "n."+s.path)
				}
			}
			if len(deeper) == 0 {
				continue
			}
			sort.Strings(deeper)
			deeper = c28uniq(deeper)
			walked, visited := false, false
			for _, s := range e.sinks {
				if s.path == lf {
					walked = true
				}
			}
			for _, s := range e.visits {
				if s.path == lf {
					visited = true
				}
			}
			switch {
			case walked:
				bad = append(bad, "n."+lf+" is handed to "+walkName+" and the clause also walks what is below it ("+strings.Join(deeper, ", ")+"): when both happen for one node these are visited twice, and on the paths where n."+lf+" is followed by the clause instead of being handed to "+walkName+", n."+lf+" itself is never visited")
			case visited:
				inlined = append(inlined, "n."+lf)
			default:
				// neither walked nor visited: R-2w reports "only what is below it"
				if _, listed := c28ExceptWalkField[name+"."+lf]; !listed {
					inlined = append(inlined, "n."+lf+" (not visited: see R-2w)")
				}
			}
		}
		switch {
		case len(bad) > 0:
			o.Bad("%s", strings.Join(bad, "; "))
		case len(inlined) > 0:
			o.OK("the clause walks below %s by itself and does not hand it to %s as well", strings.Join(inlined, ", "), walkName)
		default:
			o.OK("every position handed to %s is a child position of *%s (%d), none lies below one", walkName, name, len(leaves))
		}
	}
	r.Require(R, 40)
}

// runClause2 is runClause with the bodies of for statements evaluated twice.
func (x *c28) runClause2(h *c28hit, nt *types.Named) *c28eval {
	e := &c28eval{x: x, info: h.fi.Pkg.TypesInfo, fi: h.fi, sw: h.sw, clause: h.clause, self: nt, env: map[types.Object]*c28var{}, loops2: true}
	sig := h.fi.Obj.Type().(*types.Signature)
	np := x.nodeParam(h.fi)
	for i := 0; i < sig.Params().Len(); i++ {
		p := sig.Params().At(i)
		if p == np {
			e.bind(p, c28val{srcs: []c28src{{"", false}}})
		} else {
			e.bind(p, c28val{})
		}
	}
	e.stmts(h.fi.Decl.Body.List)
	return e
}

func c28uniq(s []string) []string {
	var out []string
	for i, v := range s {
		if i == 0 || v != s[i-1] {
			out = append(out, v)
		}
	}
	return out
}
