package main

// C25 R-7 (added after a defect reported on the unmodified tree: Sort(x, nil) panicked on slices of
// slices of different lengths, of maps, of functions).
//   R-7a  the reflect kind discipline of C04 R-5 / C05 R-6 on packages builtin and internal/thirdparties
//         (the natural-order comparison used by Sort): a kind-restricted reflect method called in a clause
//         `case reflect.K1, reflect.K2:` is defined for every kind listed.
//   R-7b  an element is read only below the length of the value it is read from: in a loop whose bound is
//         A.Len(), a call B.Index(i) on another reflect.Value B needs i < B.Len() in the loop condition too.

import (
	"go/ast"
	"go/token"
	"go/types"
)

func init() {
	p := registry["C25"]
	if p == nil {
		return
	}
	run := p.run
	p.run = func(r *Run) {
		run(r)
		reflectKindRule(r, "R-7", "internal/thirdparties")
		c25PairedIndex(r)
	}
	p.explain += " R-7: reflect kind discipline in the natural-order comparison used by Sort, and Value.Index only below the length of the value indexed."
}

func c25PairedIndex(r *Run) {
	const R = "R-7"
	n := 0
	for _, rel := range []string{"internal/thirdparties", "builtin"} {
		for _, fi := range r.P.Funcs(rel) {
			if r.P.isTestFile(fi.File) {
				continue
			}
			info := fi.Pkg.TypesInfo
			ast.Inspect(fi.Decl.Body, func(m ast.Node) bool {
				fs, ok := m.(*ast.ForStmt)
				if !ok || fs.Cond == nil {
					return true
				}
				// loop variable and the receivers whose Len() bounds it
				bounds := map[string]bool{}
				var iv types.Object
				for _, cj := range splitAnd(fs.Cond) {
					be, ok := ast.Unparen(cj).(*ast.BinaryExpr)
					if !ok || be.Op != token.LSS {
						continue
					}
					o := objOfIdent(info, be.X)
					if o == nil {
						continue
					}
					rhs := ast.Unparen(be.Y)
					if id, ok := rhs.(*ast.Ident); ok {
						// a local defined as X.Len()
						ast.Inspect(fi.Decl.Body, func(q ast.Node) bool {
							if as, ok := q.(*ast.AssignStmt); ok && len(as.Lhs) == len(as.Rhs) {
								for i, l := range as.Lhs {
									if objOfIdent(info, l) == info.Uses[id] && info.Uses[id] != nil {
										rhs2 := ast.Unparen(as.Rhs[i])
										if c, ok := rhs2.(*ast.CallExpr); ok {
											if s, ok := c.Fun.(*ast.SelectorExpr); ok && s.Sel.Name == "Len" && typeStr(info.TypeOf(s.X)) == "reflect.Value" {
												bounds[exprStr(s.X)] = true
												iv = o
											}
										}
									}
								}
							}
							return true
						})
					}
					if c, ok := rhs.(*ast.CallExpr); ok {
						if s, ok := c.Fun.(*ast.SelectorExpr); ok && s.Sel.Name == "Len" && typeStr(info.TypeOf(s.X)) == "reflect.Value" {
							bounds[exprStr(s.X)] = true
							iv = o
						}
					}
				}
				if iv == nil {
					return true
				}
				for _, c := range calls(fs.Body, false) {
					s, ok := c.Fun.(*ast.SelectorExpr)
					if !ok || s.Sel.Name != "Index" || typeStr(info.TypeOf(s.X)) != "reflect.Value" || len(c.Args) != 1 {
						continue
					}
					if objOfIdent(info, c.Args[0]) != iv {
						continue
					}
					n++
					o := r.Ob(R, fi.Name()+"#"+exprStr(c), c.Pos())
					if c25InArrayClause(r, fi, info, c) {
						o.OK("in a clause for reflect.Array only, after the two values were found to have the same type: arrays of one type have one length")
						continue
					}
					if bounds[exprStr(s.X)] {
						o.OK("%s is below %s.Len() by the loop condition", iv.Name(), exprStr(s.X))
					} else {
						o.Bad("%s.Index(%s) is read in a loop bounded by the length of another value only: when %s is shorter the call panics with 'reflect: slice index out of range' instead of the documented behaviour", exprStr(s.X), iv.Name(), exprStr(s.X))
					}
				}
				return true
			})
		}
	}
	r.Require(R, 2)
}

// c25InArrayClause reports whether n lies in a `case reflect.Array:` clause (Array only) of a function
// that returns early when the types of its two reflect.Value parameters differ.
func c25InArrayClause(r *Run, fi *FuncInfo, info *types.Info, n ast.Node) bool {
	par := r.P.Parents(fi.File)
	inArray := false
	for p := par[n]; p != nil; p = par[p] {
		if cc, ok := p.(*ast.CaseClause); ok && len(cc.List) == 1 {
			if k := constOf(info, cc.List[0]); k != nil && k.Name() == "Array" && k.Pkg() != nil && k.Pkg().Path() == "reflect" {
				inArray = true
			}
		}
	}
	if !inArray {
		return false
	}
	// an `if <x> != <y> { return … }` comparing two reflect.Type values
	sameType := false
	ast.Inspect(fi.Decl.Body, func(m ast.Node) bool {
		is, ok := m.(*ast.IfStmt)
		if !ok {
			return true
		}
		be, ok := ast.Unparen(is.Cond).(*ast.BinaryExpr)
		if !ok || be.Op != token.NEQ || typeStr(info.TypeOf(be.X)) != "reflect.Type" || typeStr(info.TypeOf(be.Y)) != "reflect.Type" {
			return true
		}
		for _, s := range is.Body.List {
			if _, ok := s.(*ast.ReturnStmt); ok {
				sameType = true
			}
		}
		return true
	})
	return sameType
}
