package main

// C27 R-7 — the parentheses around a callee agree with the printed form of the callee.
//
// A String method that prints an expression field and then an argument list "(" … ")" (ast.Call: a call
// or a conversion) must wrap the callee in parentheses whenever its printed form ends with a function
// type that prints no result: in "func(int)(f)", "[]func()(x)", "map[k]func()(x)" the parser reads the
// "(" that follows as the start of the result list of the function type (Go grammar: Signature =
// Parameters [ Result ]), so the printed form parses to a function type, not to a call.
//
// Whether the printed form of a callee ends that way is computed here, independently of how the method
// decides (inline test or helper): the callee is evaluated symbolically over the type-constructor nodes
// of package ast (the exported Expression nodes named …Type, and the unary operator spelled "*"), its own
// String method gives the last piece it prints, a reference to a child is followed into that child, and
// the chain ends either in literal text of a node that is not a function type (no parentheses needed),
// or in the literal text of a function type: parentheses are needed iff no part of its result list was
// printed. The rule then requires "needed => wrapped" for every shape (wrapping more is harmless).

import (
	"fmt"
	"go/types"
	"strings"
)

func init() {
	p := registry["C27"]
	if p == nil {
		return
	}
	c27more = append(c27more, c27CalleeParens)
	p.explain += " R-7: a String method that prints an expression followed by an argument list wraps the expression in parentheses whenever its printed form ends with a function type whose result list is not printed (the following \"(\" would be read as that result list); decided for every nesting of the type-constructor nodes of package ast (…Type nodes and the pointer operator) up to three levels."
}

func c27aroundRef(ps []c27piece, path string) (before, after string, found bool) {
	for i, p := range ps {
		if p.ref == nil || p.ref.path != path || p.ref.how != "String" {
			continue
		}
		for j := i - 1; j >= 0 && ps[j].ref == nil; j-- {
			before = ps[j].lit + before
		}
		for j := i + 1; j < len(ps) && ps[j].ref == nil; j++ {
			after += ps[j].lit
		}
		return before, after, true
	}
	return "", "", false
}

func c27CalleeParens(c *c27, ms []*FuncInfo) {
	r := c.r
	const R = "R-7"
	// callee positions: an interface-typed field whose printed form is followed by "(" (or ")(" when wrapped)
	type pos struct {
		fi *FuncInfo
		F  string
	}
	var sites []pos
	for _, fi := range ms {
		runs, inc := c.runsOf(fi)
		if c27unreadable(runs, inc) != "" {
			continue
		}
		nt := c.recvNamed(fi)
		st := nt.Underlying().(*types.Struct)
		for i := 0; i < st.NumFields(); i++ {
			f := st.Field(i)
			if _, ok := f.Type().Underlying().(*types.Interface); !ok || f.Embedded() {
				continue
			}
			is := false
			for _, rn := range runs {
				if rn.halted {
					continue
				}
				if _, after, ok := c27aroundRef(rn.pieces(), "n."+f.Name()); ok {
					a := strings.TrimLeft(after, " ")
					if strings.HasPrefix(a, "(") || strings.HasPrefix(a, ")(") {
						is = true
					}
				}
			}
			if is {
				sites = append(sites, pos{fi, f.Name()})
			}
		}
	}
	if !r.Anchor(R, "a String method printing an expression field followed by an argument list (ast.Call)", len(sites) >= 1) {
		return
	}
	funcT := r.P.Named("ast", "FuncType")
	resultF := ""
	if funcT != nil {
		if st, ok := funcT.Underlying().(*types.Struct); ok {
			for i := 0; i < st.NumFields(); i++ {
				if _, isSl := st.Field(i).Type().Underlying().(*types.Slice); isSl && st.Field(i).Name() == "Result" {
					resultF = "Result"
				}
			}
		}
	}
	if !r.Anchor(R, "ast.FuncType with its result list", funcT != nil && resultF != "") {
		return
	}
	ev := c27newEv(c)
	// type-constructor nodes
	exprT := r.P.Named("ast", "Expression")
	if !r.Anchor(R, "ast.Expression", exprT != nil) {
		return
	}
	exprI, _ := exprT.Underlying().(*types.Interface)
	dom := map[*types.Named]bool{}
	var unaryT *types.Named
	var ptrOps []int64
	for _, nt := range ev.implementers(exprI) {
		if nt.Obj().Exported() && strings.HasSuffix(nt.Obj().Name(), "Type") {
			dom[nt] = true
		}
	}
	// the unary operator node and its operator spelled "*" (pointer type)
	strOf := map[*types.Named]*FuncInfo{}
	for _, fi := range ms {
		strOf[c.recvNamed(fi)] = fi
	}
	for k, p := range c.prod {
		parts := strings.SplitN(k, ".", 2)
		nt := r.P.Named("ast", parts[0])
		if nt == nil || strOf[nt] == nil {
			continue
		}
		st, ok := nt.Underlying().(*types.Struct)
		if !ok {
			continue
		}
		nExpr := 0
		var et *types.Named
		for i := 0; i < st.NumFields(); i++ {
			if _, isI := st.Field(i).Type().Underlying().(*types.Interface); isI && !st.Field(i).Embedded() {
				nExpr++
			}
			if st.Field(i).Name() == parts[1] {
				et = c.enumOf(st.Field(i).Type())
			}
		}
		if nExpr != 1 || et == nil {
			continue
		}
		var spell *FuncInfo
		for _, fi := range r.P.Funcs("ast") {
			if fi.Obj != nil && fi.Decl.Recv != nil && fi.Decl.Name.Name == "String" && !r.P.isTestFile(fi.File) {
				if rt, ok := fi.Obj.Type().(*types.Signature).Recv().Type().(*types.Named); ok && rt == et {
					spell = fi
				}
			}
		}
		if spell == nil {
			continue
		}
		for _, cst := range c.enums[et] {
			v, _ := constantInt64(cst)
			if !p.all && !p.vals[v] {
				continue
			}
			runs, _ := ev.explore(4, func() (c27v, *c27node) { return ev.invoke(spell, c27int{v}, nil, "n"), nil })
			if len(runs) == 1 && !runs[0].halted && runs[0].fail == "" && c27render(runs[0].pieces()) == "*" {
				unaryT = nt
				ptrOps = append(ptrOps, v)
			}
		}
	}
	if unaryT != nil {
		dom[unaryT] = true
	}
	if !r.Anchor(R, "type-constructor nodes of package ast (exported Expression nodes named …Type)", len(dom) >= 5) {
		return
	}
	var domTypes []types.Type
	for _, nt := range ev.implementers(exprI) { // sorted by name
		if dom[nt] {
			domTypes = append(domTypes, types.NewPointer(nt))
		}
	}

	for _, site := range sites {
		fi, F := site.fi, site.F
		nt := c.recvNamed(fi)
		root := "n." + F
		ev := c27newEv(c)
		ev.typeDepth = 3
		ev.lensFor = func(path string) []int {
			if c27under(path, root) {
				return []int{0, 1, 2}
			}
			return []int{0}
		}
		ev.typeDom = func(n *c27node, cands []*types.Named) []*types.Named {
			if !c27under(n.path, root) {
				return nil
			}
			var out []*types.Named
			for _, t := range cands {
				if dom[t] {
					out = append(out, t)
				}
			}
			return out
		}
		ev.boolDom = func(path string) []bool {
			if c27under(path, root) {
				return []bool{false} // flags of the callee's own nodes (variadic, macro) do not change how it ends
			}
			return nil
		}
		ev.enumDom = func(path, key string, vals []int64) []int64 {
			if unaryT != nil && c27under(path, root) && strings.HasPrefix(key, unaryT.Obj().Name()+".") {
				return ptrOps
			}
			return vals
		}
		type res struct {
			need bool
			tail string
		}
		runs, inc := ev.explore(300000, func() (c27v, *c27node) {
			recv := ev.newNode("n", nt)
			out := ev.invoke(fi, recv, nil, "n")
			// the tail of the printed form of the callee
			rs := res{}
			node := ev.nodes[root]
			var chain []string
			for step := 0; node != nil && step < 8; step++ {
				if !ev.present(node) {
					break
				}
				if node.lazy {
					ev.refine(node, domTypes)
				}
				if node.dyn == nil {
					chain = append(chain, "another expression")
					break
				}
				chain = append(chain, node.dyn.Obj().Name())
				sfi := strOf[node.dyn]
				if sfi == nil {
					break
				}
				s, ok := ev.invoke(sfi, node, nil, node.path).(c27str)
				if !ok || len(s.ps) == 0 {
					break
				}
				last := s.ps[len(s.ps)-1]
				if last.ref == nil {
					if node.dyn == funcT {
						printed := false
						for _, p := range s.ps {
							if p.ref != nil && c27under(p.ref.path, node.path+"."+resultF) {
								printed = true
							}
						}
						rs.need = !printed
						chain = append(chain, fmt.Sprintf("printed %q", c27render(s.ps)))
					}
					break
				}
				if last.ref.how != "String" {
					break
				}
				node = ev.nodes[last.ref.path]
			}
			rs.tail = strings.Join(chain, " > ")
			ev.extra = rs
			return out, recv
		})
		if why := c27unreadable(runs, inc); why != "" {
			r.Ob(R, fi.Name()+"#callee:"+F, fi.Decl.Pos()).Unknown("%s could not be evaluated symbolically (%s)", fi.Name(), why)
			continue
		}
		bad := map[string]string{}
		shapes := map[string]int{}
		needed := map[string]int{}
		for _, rn := range runs {
			rs, ok := rn.extra.(res)
			if rn.halted || !ok {
				continue
			}
			top, _ := rn.con(root + "#type")
			if top == "" || strings.HasPrefix(top, "none of") {
				continue
			}
			before, after, found := c27aroundRef(rn.pieces(), root)
			if !found {
				continue
			}
			shapes[top]++
			if !rs.need {
				continue
			}
			needed[top]++
			wrapped := strings.HasSuffix(strings.TrimRight(before, " "), "(") && strings.HasPrefix(strings.TrimLeft(after, " "), ")")
			if !wrapped && bad[top] == "" {
				bad[top] = fmt.Sprintf("%s prints the shape [%s] as %q: the printed form of %s ends with a function type without result (%s) and is not wrapped in parentheses, so the \"(\" of the argument list is read as the result list of the function type and the printed form parses to a function type instead of a call", fi.Name(), rn.shape(), c27render(rn.pieces()), F, rs.tail)
			}
		}
		for _, top := range sortedKeys(shapes) {
			o := r.Ob(R, fi.Name()+"#callee:"+F+":"+top, fi.Decl.Pos())
			switch {
			case bad[top] != "":
				o.Bad("%s", bad[top])
			case needed[top] == 0:
				o.Trivial("none of the %d evaluated shapes of a %s callee ends with a function type without result", shapes[top], top)
			default:
				o.OK("each of the %d evaluated %s callees (of %d) whose printed form ends with a function type without result is wrapped in parentheses", needed[top], top, shapes[top])
			}
		}
	}
	r.Require(R, 5)
}
