package main

// C25 R-8: the purity rule of c24r5.go on every exported function and method of package builtin.

func init() {
	if p := registry["C25"]; p != nil {
		run := p.run
		p.run = func(r *Run) {
			run(r)
			purityRule(r, "R-8", "builtin", func(fi *FuncInfo) bool { return fi.Decl.Name.IsExported() })
		}
		p.explain += " R-8: the builtins write no package-level variable and use no package-level cache or lock: each result depends on the arguments only."
	}
}
