package main

// C08 R-9 (sibling of C09 R-7, added with it after seeded change C09-9): the JS and JSON serialisers decide
// on the kind of the UNWRAPPED value.
//
// A value of a type declared in the template ({% type ID int %}) that is held in an interface (an element
// of a []any, a map value, a struct field of type any) reaches the serialiser as a proxy of kind Struct;
// only ScriggoType.Unwrap gives back the value of the underlying kind. Every switch on the reflect.Kind of
// the shown value in the functions renderer.Show dispatches ContextJS and ContextJSON to obtains the
// reflect.Value through the unwrapping helper (valueOf), never through a bare reflect.ValueOf: otherwise
// ID(7) is written as the object of the proxy ("{}") instead of 7 — valid text, not the same data.
// The kind reads are collected by c09KindReads (c09r7.go).

func init() {
	p := registry["C08"]
	if p == nil {
		return
	}
	run := p.run
	p.run = func(r *Run) { run(r); c08KindOnUnwrapped(r) }
	p.explain += " R-9: the kind switches of the JS and JSON serialisers read the kind of the value obtained through the unwrapping helper (ScriggoType.Unwrap), never of a bare reflect.ValueOf."
}

func c08KindOnUnwrapped(r *Run) {
	const R = "R-9"
	x := c06ShowTable(r, R)
	if x == nil {
		return
	}
	ser := map[*FuncInfo]string{}
	for name, ctxs := range x.ctxFuncs {
		for _, c := range ctxs {
			if c == "ContextJS" || c == "ContextJSON" {
				if fi := x.funcs[name]; fi != nil {
					ser[fi] = c
				}
			}
		}
	}
	if !r.Anchor(R, "the functions renderer.Show dispatches ContextJS and ContextJSON to", len(ser) == 2) {
		return
	}
	seen := map[string]bool{}
	for _, kr := range c09KindReads(r) {
		ctx := ""
		for fi, c := range ser {
			if fi.Obj == kr.fi.Obj {
				ctx = c
			}
		}
		if ctx == "" {
			continue
		}
		seen[ctx] = true
		o := r.Ob(R, kr.fi.Name()+"#switch "+exprStr(kr.sw.Tag), kr.sw.Pos())
		switch kr.origin {
		case "unwrap":
			o.OK("the kind is read from the unwrapped value (%s)", kr.how)
		case "raw":
			o.Bad("the kind switch of %s reads the kind from %s, which does not unwrap the value: a value of a type declared in the template and held in an interface is a proxy of kind Struct there, so it is written as the proxy's object instead of the literal of its underlying value", kr.fi.Name(), kr.how)
		default:
			o.Unknown("the reflect.Value whose kind is switched on comes from %s, which is neither the unwrapping helper nor reflect.ValueOf", kr.how)
		}
	}
	r.Anchor(R, "a kind switch over the shown value in the JS serialiser", seen["ContextJS"])
	r.Anchor(R, "a kind switch over the shown value in the JSON serialiser", seen["ContextJSON"])
	r.Require(R, 2)
}
