package main

// C12 R-6 (added after a defect reported on the unmodified tree: every PanicError had path "" and position
// 0:0). The interpreter loop increments vm.pc right after fetching the instruction, so while a handler —
// or anything it calls — runs, the running instruction is at vm.pc-1. Every read of the per-instruction
// information table (Function.InstructionInfo) indexed relative to vm.pc in package runtime uses vm.pc-1:
// the path and position of a PanicError and the call path given to native functions are then those of the
// instruction that panicked / called. Siblings must agree (the contradiction found: newPanic read
// InstructionInfo[vm.pc], callNative InstructionInfo[vm.pc-1]).

import (
	"go/ast"
	"go/token"
	"go/types"
	"strings"
)

func init() {
	p := registry["C12"]
	if p == nil {
		return
	}
	run := p.run
	p.run = func(r *Run) { run(r); c12InfoIndex(r) }
	p.explain += " R-6: every read of Function.InstructionInfo indexed relative to vm.pc uses vm.pc-1, the running instruction (the loop increments pc right after the fetch)."
}

func c12InfoIndex(r *Run) {
	const R = "R-6"
	n := 0
	for _, fi := range r.P.Funcs("internal/runtime") {
		if r.P.isTestFile(fi.File) {
			continue
		}
		info := fi.Pkg.TypesInfo
		isPC := func(e ast.Expr) bool {
			sel, ok := ast.Unparen(e).(*ast.SelectorExpr)
			if !ok || sel.Sel.Name != "pc" {
				return false
			}
			s, ok := info.Selections[sel]
			if !ok {
				return false
			}
			v, ok := s.Obj().(*types.Var)
			return ok && v.IsField() && typeStr(s.Recv()) != "" && strings.Contains(typeStr(s.Recv()), "VM")
		}
		k := 0
		ast.Inspect(fi.Decl.Body, func(m ast.Node) bool {
			ix, ok := m.(*ast.IndexExpr)
			if !ok {
				return true
			}
			sel, ok := ast.Unparen(ix.X).(*ast.SelectorExpr)
			if !ok || sel.Sel.Name != "InstructionInfo" {
				return true
			}
			if _, isMap := info.TypeOf(ix.X).Underlying().(*types.Map); !isMap {
				return true
			}
			mentionsPC := false
			ast.Inspect(ix.Index, func(q ast.Node) bool {
				if e, ok := q.(ast.Expr); ok && isPC(e) {
					mentionsPC = true
				}
				return true
			})
			if !mentionsPC {
				return true
			}
			n++
			k++
			key := fi.Name() + "#InstructionInfo[" + strings.ReplaceAll(exprStr(ix.Index), " ", "") + "]"
			if k > 1 {
				key += "~" + itoa(k)
			}
			o := r.Ob(R, key, ix.Pos())
			be, ok := ast.Unparen(ix.Index).(*ast.BinaryExpr)
			if ok && be.Op == token.SUB && isPC(be.X) {
				if v, ok := intValue(info, be.Y); ok && v == 1 {
					o.OK("reads the information of the running instruction (vm.pc-1)")
					return true
				}
			}
			o.Bad("the instruction information is read at %s: the loop has already incremented vm.pc, so the running instruction is vm.pc-1 and this is the information (path, position) of the NEXT instruction — usually none, giving an empty path and position 0:0", exprStr(ix.Index))
			return true
		})
	}
	r.Require(R, 2)
}
