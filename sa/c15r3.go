package main

// C15 R-3 (added after seeded change C15-3): one notion of "blank" on both sides of a statement.
//
// A line made only of statements and blanks is removed: the function that writes the Cut of the text
// before and after the statement gives up (returns without cutting) as soon as it meets a non-blank byte
// on either side. The two give-up predicates must denote the same byte class, otherwise a line whose
// indentation contains a byte that only one side accepts (a '\r', say) is treated as content on one side
// and as blank on the other. Classes are computed from the syntax over all 256 byte values (E2); a call of a
// one-byte predicate of the package written as a single returned expression (isLineSpace(c)) is evaluated.

import (
	"go/ast"
	"go/token"
	"go/types"
	"sort"
	"strings"
)

func init() {
	p := registry["C15"]
	if p == nil {
		return
	}
	run := p.run
	p.run = func(r *Run) { run(r); c15BlankClasses(r) }
	p.explain += " R-3: in the function that writes Text.Cut, the give-up predicates of the scan before the statement and of the scan after it denote the same byte class."
}

func c15BlankClasses(r *Run) {
	const R = "R-3"
	// by role: functions of package compiler that assign to a field named Left/Right of an ast.Cut
	var writers []*FuncInfo
	for _, fi := range r.P.Funcs("internal/compiler") {
		if r.P.isTestFile(fi.File) {
			continue
		}
		info := fi.Pkg.TypesInfo
		w := false
		ast.Inspect(fi.Decl.Body, func(n ast.Node) bool {
			if as, ok := n.(*ast.AssignStmt); ok {
				for _, l := range as.Lhs {
					if sel, ok := ast.Unparen(l).(*ast.SelectorExpr); ok {
						if t := info.TypeOf(sel.X); t != nil && strings.HasSuffix(typeStr(t), "ast.Cut") {
							w = true
						}
					}
				}
			}
			return true
		})
		if w {
			writers = append(writers, fi)
		}
	}
	if !r.Anchor(R, "the function writing ast.Text.Cut (cutSpaces)", len(writers) >= 1) {
		return
	}
	for _, fi := range writers {
		info := fi.Pkg.TypesInfo
		type cls struct {
			set  map[int64]bool
			cond ast.Expr
		}
		var classes []cls
		ast.Inspect(fi.Decl.Body, func(n ast.Node) bool {
			is, ok := n.(*ast.IfStmt)
			if !ok || is.Else != nil || len(is.Body.List) != 1 {
				return true
			}
			if rs, ok := is.Body.List[0].(*ast.ReturnStmt); !ok || len(rs.Results) != 0 {
				return true
			}
			// `if !onlyBlanks(x) { return }`: the class is the byte predicate under which the helper
			// returns false (the predicate extracted into a function of the package)
			if u, ok := ast.Unparen(is.Cond).(*ast.UnaryExpr); ok && u.Op == token.NOT {
				if hc, ok := ast.Unparen(u.X).(*ast.CallExpr); ok {
					if hf := callee(info, hc); hf != nil {
						for _, h := range r.P.Funcs("internal/compiler") {
							if h.Obj != hf || r.P.isTestFile(h.File) {
								continue
							}
							hinfo := h.Pkg.TypesInfo
							ast.Inspect(h.Decl.Body, func(q ast.Node) bool {
								his, ok := q.(*ast.IfStmt)
								if !ok || len(his.Body.List) != 1 {
									return true
								}
								rs, ok := his.Body.List[0].(*ast.ReturnStmt)
								if !ok || len(rs.Results) != 1 {
									return true
								}
								if tv, ok := hinfo.Types[rs.Results[0]]; !ok || tv.Value == nil || tv.Value.String() != "false" {
									return true
								}
								var hv types.Object
								ast.Inspect(his.Cond, func(z ast.Node) bool {
									if id, ok := z.(*ast.Ident); ok {
										if o, ok := hinfo.Uses[id].(*types.Var); ok {
											if b, ok := o.Type().Underlying().(*types.Basic); ok && b.Kind() == types.Uint8 {
												hv = o
											}
										}
									}
									return true
								})
								if hv != nil {
									if set, ok := c15PredSet(r, hinfo, his.Cond, hv); ok {
										classes = append(classes, cls{set, his.Cond})
									}
								}
								return true
							})
						}
					}
				}
				return true
			}
			// a pure predicate over one byte-typed local
			var v types.Object
			pure := true
			ast.Inspect(is.Cond, func(m ast.Node) bool {
				if id, ok := m.(*ast.Ident); ok {
					if o, ok := info.Uses[id].(*types.Var); ok {
						if b, ok := o.Type().Underlying().(*types.Basic); ok && b.Kind() == types.Uint8 {
							if v != nil && v != o {
								pure = false
							}
							v = o
						} else {
							pure = false
						}
					}
				}
				return true
			})
			if v == nil || !pure {
				return true
			}
			set, ok := c15PredSet(r, info, is.Cond, v)
			if !ok {
				return true
			}
			classes = append(classes, cls{set, is.Cond})
			return true
		})
		o := r.Ob(R, fi.Name()+"#give-up-classes-agree", fi.Decl.Pos())
		if len(classes) < 2 {
			o.Unknown("expected the two give-up predicates (before and after the statement) as `if <byte predicate> { return }`, found %d: shape not recognised", len(classes))
			continue
		}
		same := true
		var diff []string
		for i := 1; i < len(classes); i++ {
			for b := int64(0); b < 256; b++ {
				if classes[0].set[b] != classes[i].set[b] {
					same = false
					diff = append(diff, strings.Trim(strings.Replace(strings.Replace(string(rune(b)), "\r", "\\r", 1), "\n", "\\n", 1), ""))
				}
			}
		}
		if same {
			var blanks []string
			for b := int64(0); b < 256; b++ {
				if !classes[0].set[b] {
					blanks = append(blanks, strings.Trim(strings.Replace(strings.Replace(strings.Replace(string(rune(b)), "\r", "\\r", 1), "\n", "\\n", 1), "\t", "\\t", 1), ""))
				}
			}
			sort.Strings(blanks)
			o.OK("%d give-up predicates denote the same class; bytes not giving up: %q", len(classes), blanks)
		} else {
			o.Bad("the give-up predicates `%s` and `%s` differ on byte(s) %q: a statement-only line containing such a byte is removed on one side and kept on the other", exprStr(classes[0].cond), exprStr(classes[1].cond), diff)
		}
	}
	r.Require(R, 1)
}
