package main

// C21 R-3 … R-5 — three structural necessary conditions of "line and column are those of the start offset in the
// file that was read", all on the position bookkeeping of the lexer. The lexer is resolved by role: the struct of
// package compiler that computes an offset as len(x.G) - len(x.F) (G: the text that is lexed, F: the cursor), and
// whose fields are copied into the Line and Column of an ast.Position (the line and column counters).
//
// R-3 (offsets are offsets in the file that was read). The bytes given to the lexer are the bytes returned by the
//      read of the file: followed backwards through parameters, call sites and results (go/ssa), the value stored
//      in G comes from a call that reads (no byte-content argument of the result's type), never from a re-slice
//      or from a function that takes bytes and returns bytes. Inside the lexer G is only set at construction
//      (together with F, to the same value) and the cursor F is only ever replaced by a suffix of itself, so that
//      len(G) - len(F) is the offset of the cursor in the file.
// R-4 (a column counts characters). No value added to a column (the lexer's column counter, the Column of an
//      ast.Position, directly or through a parameter of a helper) derives from the byte size of a decoded rune
//      (second result of utf8.DecodeRune…, utf8.RuneLen): a character of n bytes advances the column by one.
// R-5 (a column restarts at a line break). Whatever is added to the lexer's column counter after the line counter
//      has been incremented was computed after that increment: every local variable that enters the added value
//      is (re)defined on every path from the increment to the addition.

import (
	"fmt"
	"go/ast"
	"go/token"
	"go/types"
	"sort"
	"strings"

	"golang.org/x/tools/go/cfg"
	"golang.org/x/tools/go/ssa"
	"golang.org/x/tools/go/ssa/ssautil"
)

func init() {
	p := registry["C21"]
	if p == nil {
		return
	}
	run := p.run
	p.run = func(r *Run) {
		run(r)
		lx := c21ResolveLexer(r)
		if lx == nil {
			return
		}
		c21R3(r, lx)
		c21R4(r, lx)
		c21R5(r, lx)
	}
	p.explain += " R-3: the bytes stored in the lexer's text field are, followed backwards through parameters, call sites and results, the result of the call that reads the file (never a re-slice, never the result of a function taking bytes and returning bytes); the text field is set only at construction, to the same value as the cursor, and the cursor is only replaced by a suffix of itself (offsets are len(text)-len(cursor))." +
		" R-4: no value added to a column (lexer column counter, ast.Position.Column, or a helper parameter flowing into them) derives from the byte size of a decoded rune." +
		" R-5: every local variable entering a value added to the lexer's column counter is redefined on every path from an increment of the line counter to that addition."
	p.notCov = append(p.notCov,
		"that every byte passed by the cursor is matched by a column or line update (only: the unit of what is added, and that nothing computed before a line break is added after it)",
		"positions recomputed by the parser from a token position (firstNonSpacePosition) beyond the unit of what is added to Column")
}

// ---------------------------------------------------------------------------
// the lexer, by role

type c21Lexer struct {
	funcs  []*FuncInfo
	info   *types.Info
	T      *types.Named
	text   *types.Var // the bytes that are lexed (offset base)
	cursor *types.Var // what remains to be lexed
	line   *types.Var
	column *types.Var
	posT   *types.Named
	posCol *types.Var
	posLin *types.Var
	ssaFns map[*ssa.Function]*FuncInfo // declared functions of package compiler
}

func c21StructOf(t types.Type) (*types.Named, *types.Struct) {
	if t == nil {
		return nil, nil
	}
	if p, ok := t.Underlying().(*types.Pointer); ok {
		t = p.Elem()
	}
	n, _ := t.(*types.Named)
	if n == nil {
		return nil, nil
	}
	st, _ := n.Underlying().(*types.Struct)
	return n, st
}

// c21FieldSel resolves e to (struct type, field) when e is x.f with f a field.
func c21FieldSel(info *types.Info, e ast.Expr) (*types.Named, *types.Var) {
	sel, ok := ast.Unparen(e).(*ast.SelectorExpr)
	if !ok {
		return nil, nil
	}
	v, ok := info.Uses[sel.Sel].(*types.Var)
	if !ok || !v.IsField() {
		return nil, nil
	}
	n, _ := c21StructOf(info.TypeOf(sel.X))
	return n, v
}

func c21IsByteSlice(t types.Type) bool {
	s, ok := t.Underlying().(*types.Slice)
	if !ok {
		return false
	}
	b, ok := s.Elem().Underlying().(*types.Basic)
	return ok && b.Kind() == types.Uint8
}

func c21ResolveLexer(r *Run) *c21Lexer {
	const R = "R-3"
	pk := r.P.Pkg(c03Compiler)
	if !r.Anchor(R, "package internal/compiler", pk != nil) {
		return nil
	}
	lx := &c21Lexer{info: pk.TypesInfo, ssaFns: map[*ssa.Function]*FuncInfo{}}
	for _, fi := range r.P.Funcs(c03Compiler) {
		if fi.Obj != nil && !r.P.isTestFile(fi.File) {
			lx.funcs = append(lx.funcs, fi)
		}
	}
	sort.Slice(lx.funcs, func(i, j int) bool { return lx.funcs[i].Decl.Pos() < lx.funcs[j].Decl.Pos() })
	lx.posT = r.P.Named("ast", "Position")
	if !r.Anchor(R, "ast.Position", lx.posT != nil) {
		return nil
	}
	if st, ok := lx.posT.Underlying().(*types.Struct); ok {
		for i := 0; i < st.NumFields(); i++ {
			switch st.Field(i).Name() {
			case "Column":
				lx.posCol = st.Field(i)
			case "Line":
				lx.posLin = st.Field(i)
			}
		}
	}
	if !r.Anchor(R, "ast.Position.Line and .Column", lx.posCol != nil && lx.posLin != nil) {
		return nil
	}
	info := lx.info
	lenOfField := func(e ast.Expr) (*types.Named, *types.Var) {
		call, ok := ast.Unparen(e).(*ast.CallExpr)
		if !ok || !isBuiltinCall(info, call, "len") || len(call.Args) != 1 {
			return nil, nil
		}
		n, f := c21FieldSel(info, call.Args[0])
		if f == nil || !c21IsByteSlice(f.Type()) {
			return nil, nil
		}
		return n, f
	}
	ambiguous := false
	for _, fi := range lx.funcs {
		ast.Inspect(fi.Decl.Body, func(n ast.Node) bool {
			switch x := n.(type) {
			case *ast.BinaryExpr:
				if x.Op != token.SUB {
					return true
				}
				tn, g := lenOfField(x.X)
				tn2, f := lenOfField(x.Y)
				if g == nil || f == nil || tn == nil || tn != tn2 || g == f || tn.Obj().Pkg() != pk.Types {
					return true
				}
				if lx.T != nil && (lx.T != tn || lx.text != g || lx.cursor != f) {
					ambiguous = true
				}
				lx.T, lx.text, lx.cursor = tn, g, f
			}
			return true
		})
	}
	if !r.Anchor(R, "the struct of package compiler computing an offset as len(x.text)-len(x.cursor)", lx.T != nil && !ambiguous) {
		return nil
	}
	// line and column counters: the fields of T copied into Line / Column of an ast.Position literal
	for _, fi := range lx.funcs {
		ast.Inspect(fi.Decl.Body, func(n ast.Node) bool {
			cl, ok := n.(*ast.CompositeLit)
			if !ok {
				return true
			}
			if nt, _ := c21StructOf(info.TypeOf(cl)); nt != lx.posT {
				return true
			}
			for _, el := range cl.Elts {
				kv, ok := el.(*ast.KeyValueExpr)
				if !ok {
					continue
				}
				id, ok := kv.Key.(*ast.Ident)
				if !ok {
					continue
				}
				tn, f := c21FieldSel(info, kv.Value)
				if tn != lx.T || f == nil {
					continue
				}
				switch info.Uses[id] {
				case types.Object(lx.posLin):
					lx.line = f
				case types.Object(lx.posCol):
					lx.column = f
				}
			}
			return true
		})
	}
	// by name as a fallback
	if st, ok := lx.T.Underlying().(*types.Struct); ok {
		for i := 0; i < st.NumFields(); i++ {
			f := st.Field(i)
			if lx.line == nil && f.Name() == "line" {
				lx.line = f
			}
			if lx.column == nil && f.Name() == "column" {
				lx.column = f
			}
		}
	}
	if !r.Anchor(R, "the line and column counters of the lexer (fields copied into ast.Position.Line/.Column)", lx.line != nil && lx.column != nil && lx.line != lx.column) {
		return nil
	}
	for _, fi := range lx.funcs {
		if f := r.P.SSAFunc(fi); f != nil {
			lx.ssaFns[f] = fi
		}
	}
	return lx
}

// c21IsField reports whether the address a is the address of field f (of the struct the field belongs to).
func c21IsFieldAddr(a ssa.Value, f *types.Var) bool {
	fa, ok := a.(*ssa.FieldAddr)
	if !ok {
		return false
	}
	pt, ok := fa.X.Type().Underlying().(*types.Pointer)
	if !ok {
		return false
	}
	st, ok := pt.Elem().Underlying().(*types.Struct)
	return ok && fa.Field < st.NumFields() && st.Field(fa.Field) == f
}

// c21ReachingStores returns the values that a load of a local cell may read: the stores that reach it inside
// its function (flow-sensitive), plus, when the cell is shared with function literals, every store made by them
// on a path crossing a call. A load inside a literal sees every store.
func c21ReachingStores(load *ssa.UnOp) (vals []ssa.Value, ok bool) {
	cell := cgxCell(load.X)
	if cell == nil {
		return nil, false
	}
	alloc, _ := cell.(*ssa.Alloc)
	if alloc == nil {
		return nil, false
	}
	root := alloc.Parent()
	for root.Parent() != nil {
		root = root.Parent()
	}
	fns := cgxFns(root)
	if load.Parent() != alloc.Parent() {
		return cgxStoresTo(fns, cell), true
	}
	shared := false
	for _, ref := range *alloc.Referrers() {
		if _, ok := ref.(*ssa.MakeClosure); ok {
			shared = true
		}
	}
	crossedCall := false
	seen := map[*ssa.BasicBlock]bool{}
	var walk func(b *ssa.BasicBlock, from int)
	walk = func(b *ssa.BasicBlock, from int) {
		for i := from - 1; i >= 0; i-- {
			switch in := b.Instrs[i].(type) {
			case *ssa.Store:
				if cgxCell(in.Addr) == cell {
					vals = append(vals, in.Val)
					return
				}
			case ssa.CallInstruction:
				crossedCall = true
			}
		}
		for _, p := range b.Preds {
			if !seen[p] {
				seen[p] = true
				walk(p, len(p.Instrs))
			}
		}
	}
	idx := -1
	for i, in := range load.Block().Instrs {
		if in == ssa.Instruction(load) {
			idx = i
		}
	}
	walk(load.Block(), idx)
	if shared && crossedCall {
		for _, fn := range fns {
			if fn == alloc.Parent() {
				continue
			}
			for _, b := range fn.Blocks {
				for _, in := range b.Instrs {
					if st, ok := in.(*ssa.Store); ok && cgxCell(st.Addr) == cell {
						vals = append(vals, st.Val)
					}
				}
			}
		}
	}
	return vals, true
}

// ---------------------------------------------------------------------------
// R-3

func c21R3(r *Run, lx *c21Lexer) {
	const R = "R-3"
	info := lx.info
	isNil := func(e ast.Expr) bool {
		tv, ok := info.Types[e]
		return ok && tv.IsNil()
	}
	// (a)+(b): who writes the text and the cursor
	nCtor := 0
	var ctors []*FuncInfo
	for _, fi := range lx.funcs {
		var bad []string
		writes := 0
		ast.Inspect(fi.Decl.Body, func(n ast.Node) bool {
			switch x := n.(type) {
			case *ast.CompositeLit:
				if nt, st := c21StructOf(info.TypeOf(x)); nt == lx.T && st != nil {
					tx := c21LitField(info, x, st, lx.text)
					cu := c21LitField(info, x, st, lx.cursor)
					if tx == nil && cu == nil {
						return true
					}
					writes++
					nCtor++
					ctors = append(ctors, fi)
					to, co := c03ObjOf(info, tx), c03ObjOf(info, cu)
					if tx == nil || cu == nil || to == nil || to != co {
						bad = append(bad, "the literal does not start the cursor on the whole text (text and cursor must be the same variable)")
					}
				}
			case *ast.AssignStmt:
				for i, l := range x.Lhs {
					tn, f := c21FieldSel(info, l)
					if tn != lx.T || (f != lx.text && f != lx.cursor) {
						continue
					}
					writes++
					if len(x.Rhs) != len(x.Lhs) || x.Tok != token.ASSIGN {
						bad = append(bad, "assignment to "+f.Name()+" of a shape that is not understood")
						continue
					}
					rhs := ast.Unparen(x.Rhs[i])
					if isNil(rhs) {
						continue
					}
					if f == lx.text {
						bad = append(bad, "the text is replaced after construction: offsets are computed as len(text)-len(cursor)")
						continue
					}
					se, ok := rhs.(*ast.SliceExpr)
					if !ok || se.High != nil || se.Max != nil {
						bad = append(bad, fmt.Sprintf("the cursor is set to %s, which is not a suffix cursor[k:] of itself", exprStr(rhs)))
						continue
					}
					tn2, f2 := c21FieldSel(info, se.X)
					lsel, _ := ast.Unparen(l).(*ast.SelectorExpr)
					xsel, _ := ast.Unparen(se.X).(*ast.SelectorExpr)
					if tn2 != lx.T || f2 != lx.cursor || lsel == nil || xsel == nil || c03ObjOf(info, lsel.X) == nil || c03ObjOf(info, lsel.X) != c03ObjOf(info, xsel.X) {
						bad = append(bad, fmt.Sprintf("the cursor is set to %s, which is not a suffix of the cursor of the same lexer", exprStr(rhs)))
					}
				}
			}
			return true
		})
		if writes == 0 {
			continue
		}
		o := r.Ob(R, fi.Name()+"#text-and-cursor", fi.Decl.Pos())
		if len(bad) > 0 {
			o.Bad("%s: %s — the Start/End offsets of tokens and errors are no longer offsets in the lexed text", fi.Name(), strings.Join(bad, "; "))
		} else {
			o.OK("%d writes: the text is set only at construction (same value as the cursor) or to nil, the cursor only to a suffix of itself or nil", writes)
		}
	}
	if !r.Anchor(R, "functions building the lexer with its text", nCtor > 0) {
		return
	}

	// (c): where the text comes from
	prog := r.P.SSA().prog
	all := ssautil.AllFunctions(prog)
	callSites := map[*ssa.Function][]ssa.CallInstruction{}
	usedAsValue := map[*ssa.Function]bool{}
	for fn := range all {
		if !inModule(fn) {
			continue
		}
		if fn.Pkg != nil && fn.Pkg.Pkg != nil && strings.HasSuffix(fn.Pkg.Pkg.Path(), "_test") {
			continue
		}
		for _, b := range fn.Blocks {
			for _, in := range b.Instrs {
				if ci, ok := in.(ssa.CallInstruction); ok {
					if g := ci.Common().StaticCallee(); g != nil {
						callSites[g] = append(callSites[g], ci)
					}
				}
				for _, op := range in.Operands(nil) {
					if g, ok := (*op).(*ssa.Function); ok {
						if ci, isCall := in.(ssa.CallInstruction); !isCall || ci.Common().Value != ssa.Value(g) {
							usedAsValue[g] = true
						}
					}
				}
			}
		}
	}
	type origin struct {
		fn      *ssa.Function
		pos     token.Pos
		what    string
		verdict string // ok | bad | unknown
		fact    string
	}
	var origins []origin
	seenV := map[ssa.Value]bool{}
	sameContent := func(a, b types.Type) bool {
		isStr := func(t types.Type) bool {
			bt, ok := t.Underlying().(*types.Basic)
			return ok && bt.Info()&types.IsString != 0
		}
		return (c21IsByteSlice(a) && c21IsByteSlice(b)) || (isStr(a) && isStr(b))
	}
	var trace func(v ssa.Value, fn *ssa.Function, depth int)
	add := func(fn *ssa.Function, pos token.Pos, what, verdict, fact string) {
		origins = append(origins, origin{fn, pos, what, verdict, fact})
	}
	traceCall := func(c *ssa.Call, idx int, fn *ssa.Function, depth int) {
		com := c.Common()
		if b, ok := com.Value.(*ssa.Builtin); ok {
			add(fn, c.Pos(), "builtin:"+b.Name(), "unknown", "the lexed bytes are the result of the builtin "+b.Name()+": not understood")
			return
		}
		g := com.StaticCallee()
		if g != nil && inModule(g) && len(g.Blocks) > 0 {
			n := 0
			for _, b := range g.Blocks {
				for _, in := range b.Instrs {
					if ret, ok := in.(*ssa.Return); ok && idx < len(ret.Results) {
						n++
						trace(ret.Results[idx], g, depth+1)
					}
				}
			}
			if n == 0 {
				add(fn, c.Pos(), "call:"+ssaFuncName(g), "unknown", "no return found in "+ssaFuncName(g))
			}
			return
		}
		name := "dynamic call"
		if g != nil {
			name = g.String()
		} else if com.IsInvoke() {
			name = "method " + com.Method.Name()
		}
		// identity copies
		if g != nil && g.Pkg != nil && (g.Pkg.Pkg.Path() == "bytes" || g.Pkg.Pkg.Path() == "slices") && g.Name() == "Clone" && len(com.Args) == 1 {
			trace(com.Args[0], fn, depth+1)
			return
		}
		var resT types.Type = c.Type()
		if tup, ok := resT.(*types.Tuple); ok && idx < tup.Len() {
			resT = tup.At(idx).Type()
		}
		for _, a := range com.Args {
			if sameContent(a.Type(), resT) {
				add(fn, c.Pos(), "call:"+name, "bad", fmt.Sprintf("the bytes given to the lexer are the result of %s applied to bytes (%s): positions are computed on the transformed content, not on the file that was read", name, cgxDescribe(a)))
				return
			}
		}
		add(fn, c.Pos(), "call:"+name, "ok", "the lexed bytes are, unchanged, the result of "+name+", which takes no bytes: it reads the file")
	}
	trace = func(v ssa.Value, fn *ssa.Function, depth int) {
		if seenV[v] {
			return
		}
		seenV[v] = true
		if depth > 40 {
			add(fn, v.Pos(), "depth", "unknown", "value chain too long")
			return
		}
		switch x := v.(type) {
		case *ssa.Parameter:
			pf := x.Parent()
			idx := -1
			for i, p := range pf.Params {
				if p == x {
					idx = i
				}
			}
			if usedAsValue[pf] {
				add(pf, x.Pos(), "param:"+x.Name(), "unknown", ssaFuncName(pf)+" is used as a function value: its callers are not enumerated")
				return
			}
			sites := callSites[pf]
			if len(sites) == 0 {
				if pf.Object() != nil && pf.Object().Exported() {
					add(pf, x.Pos(), "param:"+x.Name(), "ok", "parameter of the exported "+ssaFuncName(pf)+", which has no caller in the module: the caller's bytes are the file")
				}
				return
			}
			for _, s := range sites {
				args := s.Common().Args
				if idx < 0 || idx >= len(args) {
					add(pf, x.Pos(), "param:"+x.Name(), "unknown", "argument not located at a call of "+ssaFuncName(pf))
					continue
				}
				trace(args[idx], s.Parent(), depth+1)
			}
		case *ssa.Phi:
			for _, e := range x.Edges {
				trace(e, fn, depth+1)
			}
		case *ssa.Extract:
			if c, ok := x.Tuple.(*ssa.Call); ok {
				traceCall(c, x.Index, fn, depth)
				return
			}
			add(fn, x.Pos(), "extract", "unknown", "the lexed bytes come from "+cgxDescribe(x)+": not understood")
		case *ssa.Call:
			traceCall(x, 0, fn, depth)
		case *ssa.Slice:
			zero := func(v ssa.Value) bool {
				if v == nil {
					return true
				}
				c, ok := v.(*ssa.Const)
				return ok && c.Value != nil && c.Int64() == 0
			}
			if zero(x.Low) && x.High == nil && x.Max == nil && c21IsByteSlice(x.X.Type()) {
				trace(x.X, fn, depth+1)
				return
			}
			add(fn, x.Pos(), "reslice", "bad", "the bytes given to the lexer are a re-slice of the bytes that were read: offsets, line and column are computed on a part of the file, not on the file")
		case *ssa.Convert:
			trace(x.X, fn, depth+1)
		case *ssa.ChangeType:
			trace(x.X, fn, depth+1)
		case *ssa.UnOp:
			if x.Op == token.MUL {
				if vals, ok := c21ReachingStores(x); ok && len(vals) > 0 {
					for _, s := range vals {
						trace(s, fn, depth+1)
					}
					return
				}
			}
			add(fn, x.Pos(), "load", "unknown", "the lexed bytes are loaded from "+cgxDescribe(x)+": not followed")
		case *ssa.Const:
			if x.IsNil() {
				return
			}
			add(fn, x.Pos(), "const", "unknown", "constant source")
		default:
			add(fn, v.Pos(), "value", "unknown", "the lexed bytes come from "+cgxDescribe(v)+": not understood")
		}
	}
	seenCtor := map[*FuncInfo]bool{}
	for _, fi := range ctors {
		if seenCtor[fi] {
			continue
		}
		seenCtor[fi] = true
		f := r.P.SSAFunc(fi)
		if f == nil {
			r.Ob(R, fi.Name()+"#lexed-bytes", fi.Decl.Pos()).Unknown("no SSA function")
			continue
		}
		found := false
		for _, fn := range cgxFns(f) {
			for _, b := range fn.Blocks {
				for _, in := range b.Instrs {
					if st, ok := in.(*ssa.Store); ok && c21IsFieldAddr(st.Addr, lx.text) {
						if c, isC := st.Val.(*ssa.Const); isC && c.IsNil() {
							continue
						}
						found = true
						trace(st.Val, fn, 0)
					}
				}
			}
		}
		if !found {
			r.Ob(R, fi.Name()+"#lexed-bytes", fi.Decl.Pos()).Unknown("the store of the text field is not found in SSA")
		}
	}
	for _, og := range origins {
		o := r.Ob(R, ssaFuncName(og.fn)+"#lexed-bytes<-"+og.what, og.pos)
		switch og.verdict {
		case "ok":
			o.OK("%s", og.fact)
		case "bad":
			o.Bad("%s", og.fact)
		default:
			o.Unknown("%s", og.fact)
		}
	}
	r.Stats["lexed_bytes_origins"] = len(origins)
	r.Require(R, 6)
}

// ---------------------------------------------------------------------------
// R-4

// c21Cols is the result of the backward slices from the column sinks.
type c21Cols struct {
	counterParams map[*types.Var]bool // parameters that flow into the lexer's column counter
	anyParams     map[*types.Var]bool // parameters that flow into the counter or into an ast.Position.Column
}

func c21IsRuneSize(v ssa.Value) (string, bool) {
	switch x := v.(type) {
	case *ssa.Extract:
		c, ok := x.Tuple.(*ssa.Call)
		if !ok || x.Index != 1 {
			return "", false
		}
		g := c.Common().StaticCallee()
		if g != nil && g.Pkg != nil && g.Pkg.Pkg.Path() == "unicode/utf8" && strings.HasPrefix(g.Name(), "Decode") {
			return "the size returned by utf8." + g.Name(), true
		}
	case *ssa.Call:
		g := x.Common().StaticCallee()
		if g != nil && g.Pkg != nil && g.Pkg.Pkg.Path() == "unicode/utf8" && (g.Name() == "RuneLen" || g.Name() == "AppendRune" || g.Name() == "EncodeRune") {
			return "the byte length returned by utf8." + g.Name(), true
		}
	}
	return "", false
}

func c21Slices(r *Run, lx *c21Lexer) (*c21Cols, map[*ssa.Function][]string, map[*ssa.Function]int) {
	cols := &c21Cols{counterParams: map[*types.Var]bool{}, anyParams: map[*types.Var]bool{}}
	viol := map[*ssa.Function][]string{}
	nSinks := map[*ssa.Function]int{}
	type paramKey struct {
		fn  *ssa.Function
		idx int
	}
	counterP := map[paramKey]bool{}
	anyP := map[paramKey]bool{}
	var roots []*ssa.Function
	for f := range lx.ssaFns {
		roots = append(roots, f)
	}
	sort.Slice(roots, func(i, j int) bool { return roots[i].Pos() < roots[j].Pos() })
	for changed, round := true, 0; changed && round < 10; round++ {
		changed = false
		viol = map[*ssa.Function][]string{}
		nSinks = map[*ssa.Function]int{}
		for _, root := range roots {
			for _, fn := range cgxFns(root) {
				// sinks of fn
				type sink struct {
					v       ssa.Value
					counter bool
					pos     token.Pos
				}
				var sinks []sink
				for _, b := range fn.Blocks {
					for _, in := range b.Instrs {
						switch x := in.(type) {
						case *ssa.Store:
							if c21IsFieldAddr(x.Addr, lx.column) {
								sinks = append(sinks, sink{x.Val, true, x.Pos()})
							} else if c21IsFieldAddr(x.Addr, lx.posCol) {
								sinks = append(sinks, sink{x.Val, false, x.Pos()})
							}
						case ssa.CallInstruction:
							g := x.Common().StaticCallee()
							if g == nil {
								continue
							}
							args := x.Common().Args
							for i, a := range args {
								if counterP[paramKey{g, i}] {
									sinks = append(sinks, sink{a, true, x.Pos()})
								} else if anyP[paramKey{g, i}] {
									sinks = append(sinks, sink{a, false, x.Pos()})
								}
							}
						}
					}
				}
				nSinks[root] += len(sinks)
				for _, s := range sinks {
					seen := map[ssa.Value]bool{}
					stack := []ssa.Value{s.v}
					for len(stack) > 0 {
						v := stack[len(stack)-1]
						stack = stack[:len(stack)-1]
						if v == nil || seen[v] {
							continue
						}
						seen[v] = true
						if why, ok := c21IsRuneSize(v); ok {
							viol[root] = append(viol[root], fmt.Sprintf("%s enters the column at %s", why, r.P.Pos(s.pos)))
							continue
						}
						switch x := v.(type) {
						case *ssa.BinOp:
							if x.Op == token.ADD || x.Op == token.SUB {
								stack = append(stack, x.X, x.Y)
							}
						case *ssa.Phi:
							stack = append(stack, x.Edges...)
						case *ssa.Convert:
							stack = append(stack, x.X)
						case *ssa.ChangeType:
							stack = append(stack, x.X)
						case *ssa.UnOp:
							if x.Op == token.MUL {
								if vals, ok := c21ReachingStores(x); ok {
									stack = append(stack, vals...)
								}
							}
						case *ssa.Call:
							if b, ok := x.Common().Value.(*ssa.Builtin); ok && (b.Name() == "min" || b.Name() == "max") {
								stack = append(stack, x.Common().Args...)
							}
						case *ssa.Parameter:
							pf := x.Parent()
							for i, p := range pf.Params {
								if p != x {
									continue
								}
								k := paramKey{pf, i}
								if !anyP[k] {
									anyP[k] = true
									changed = true
								}
								if s.counter && !counterP[k] {
									counterP[k] = true
									changed = true
								}
							}
						}
					}
				}
			}
		}
	}
	for k := range anyP {
		if v, ok := k.fn.Params[k.idx].Object().(*types.Var); ok {
			cols.anyParams[v] = true
			if counterP[k] {
				cols.counterParams[v] = true
			}
		}
	}
	return cols, viol, nSinks
}

func c21R4(r *Run, lx *c21Lexer) {
	const R = "R-4"
	_, viol, nSinks := c21Slices(r, lx)
	var roots []*ssa.Function
	for f := range nSinks {
		roots = append(roots, f)
	}
	sort.Slice(roots, func(i, j int) bool { return roots[i].Pos() < roots[j].Pos() })
	n := 0
	for _, f := range roots {
		if nSinks[f] == 0 {
			continue
		}
		n++
		fi := lx.ssaFns[f]
		o := r.Ob(R, fi.Name()+"#column-unit", fi.Decl.Pos())
		if vs := viol[f]; len(vs) > 0 {
			sort.Strings(vs)
			o.Bad("%s: %s — a column counts characters, so after a character of n>1 bytes every later token of the line is reported n-1 columns too far", fi.Name(), strings.Join(c21Uniq(vs), "; "))
		} else {
			o.OK("%d values stored in a column (or passed to a helper that stores them): none derives from the byte size of a rune", nSinks[f])
		}
	}
	r.Stats["functions_writing_columns"] = n
	r.Require(R, 8)
}

func c21Uniq(xs []string) []string {
	var out []string
	for i, x := range xs {
		if i == 0 || xs[i-1] != x {
			out = append(out, x)
		}
	}
	return out
}

// ---------------------------------------------------------------------------
// R-5

func c21R5(r *Run, lx *c21Lexer) {
	const R = "R-5"
	info := lx.info
	cols, _, _ := c21Slices(r, lx)
	decls := map[*types.Func]*FuncInfo{}
	for _, fi := range lx.funcs {
		decls[fi.Obj] = fi
	}
	isFieldOf := func(e ast.Expr, f *types.Var) bool {
		tn, g := c21FieldSel(info, e)
		return tn == lx.T && g == f
	}
	// functions that increment the line counter, directly or through static calls
	writesLine := func(n ast.Node) bool {
		switch x := n.(type) {
		case *ast.IncDecStmt:
			return isFieldOf(x.X, lx.line)
		case *ast.AssignStmt:
			for _, l := range x.Lhs {
				if isFieldOf(l, lx.line) {
					return true
				}
			}
		}
		return false
	}
	lineInc := map[*types.Func]bool{}
	for _, fi := range lx.funcs {
		ast.Inspect(fi.Decl.Body, func(n ast.Node) bool {
			if n != nil && writesLine(n) {
				lineInc[fi.Obj] = true
			}
			return true
		})
	}
	for changed := true; changed; {
		changed = false
		for _, fi := range lx.funcs {
			if lineInc[fi.Obj] {
				continue
			}
			for _, c := range calls(fi.Decl.Body, true) {
				if g := callee(info, c); g != nil && lineInc[g.Origin()] {
					lineInc[fi.Obj] = true
					changed = true
					break
				}
			}
		}
	}
	if !r.Anchor(R, "a function incrementing the line counter", len(lineInc) > 0) {
		return
	}
	r.Stats["functions_incrementing_the_line"] = len(lineInc)

	n := 0
	for _, fi := range lx.funcs {
		par := r.P.Parents(fi.File)
		inLit := func(n ast.Node) bool {
			for p := par[n]; p != nil && p != ast.Node(fi.Decl); p = par[p] {
				if _, ok := p.(*ast.FuncLit); ok {
					return true
				}
			}
			return false
		}
		intVar := func(id *ast.Ident) *types.Var {
			v, ok := info.Uses[id].(*types.Var)
			if !ok || v.IsField() || v.Pos() < fi.Decl.Pos() || v.Pos() > fi.Decl.End() {
				return nil
			}
			b, ok := v.Type().Underlying().(*types.Basic)
			if !ok || b.Info()&types.IsInteger == 0 {
				return nil
			}
			return v
		}
		varsOf := func(e ast.Expr) []*types.Var {
			var out []*types.Var
			seen := map[*types.Var]bool{}
			ast.Inspect(e, func(n ast.Node) bool {
				if _, ok := n.(*ast.FuncLit); ok {
					return false
				}
				if id, ok := n.(*ast.Ident); ok {
					if v := intVar(id); v != nil && !seen[v] {
						seen[v] = true
						out = append(out, v)
					}
				}
				return true
			})
			return out
		}
		// additions to the column counter
		type commit struct {
			node ast.Node
			vars []*types.Var
			lit  bool
		}
		var commits []commit
		ast.Inspect(fi.Decl.Body, func(n ast.Node) bool {
			switch x := n.(type) {
			case *ast.AssignStmt:
				for i, l := range x.Lhs {
					if !isFieldOf(l, lx.column) {
						continue
					}
					var rhs ast.Expr
					if len(x.Rhs) == len(x.Lhs) {
						rhs = x.Rhs[i]
					} else if len(x.Rhs) > 0 {
						rhs = x.Rhs[0]
					}
					if rhs != nil {
						commits = append(commits, commit{x, varsOf(rhs), inLit(x)})
					}
				}
			case *ast.CallExpr:
				g := callee(info, x)
				if g == nil {
					return true
				}
				sig := g.Origin().Type().(*types.Signature)
				for i, a := range x.Args {
					if i < sig.Params().Len() && cols.counterParams[sig.Params().At(i)] {
						commits = append(commits, commit{x, varsOf(a), inLit(x)})
					}
				}
			}
			return true
		})
		var withVars []commit
		for _, c := range commits {
			if len(c.vars) > 0 {
				withVars = append(withVars, c)
			}
		}
		if len(withVars) == 0 {
			continue
		}
		n++
		o := r.Ob(R, fi.Name()+"#column-after-line-break", fi.Decl.Pos())
		// line increments of this function
		var breaks []ast.Node
		ast.Inspect(fi.Decl.Body, func(n ast.Node) bool {
			if n == nil {
				return true
			}
			if writesLine(n) {
				breaks = append(breaks, n)
			}
			if c, ok := n.(*ast.CallExpr); ok {
				if g := callee(info, c); g != nil && lineInc[g.Origin()] {
					breaks = append(breaks, c)
				}
			}
			return true
		})
		if len(breaks) == 0 {
			o.OK("%d additions to the column counter use local variables; %s never increments the line counter", len(withVars), fi.Name())
			continue
		}
		unknown := ""
		for _, c := range withVars {
			if c.lit {
				unknown = "an addition to the column counter inside a function literal uses local variables"
			}
		}
		for _, b := range breaks {
			if inLit(b) {
				unknown = "the line counter is incremented inside a function literal"
			}
		}
		if unknown != "" {
			o.Unknown("%s: shape not understood", unknown)
			continue
		}
		g := r.P.CFGOf(fi)
		// base definitions of a variable: assignments whose right-hand side does not mention it
		baseDefRHS := func(n ast.Node, v *types.Var) (ast.Expr, bool) {
			switch x := n.(type) {
			case *ast.AssignStmt:
				if x.Tok != token.ASSIGN && x.Tok != token.DEFINE {
					return nil, false
				}
				for i, l := range x.Lhs {
					id, ok := ast.Unparen(l).(*ast.Ident)
					if !ok || (info.Defs[id] != types.Object(v) && info.Uses[id] != types.Object(v)) {
						continue
					}
					var rhs ast.Expr
					if len(x.Rhs) == len(x.Lhs) {
						rhs = x.Rhs[i]
					} else if len(x.Rhs) > 0 {
						rhs = x.Rhs[0]
					}
					if rhs != nil && cgxMentions(info, rhs, v) {
						return nil, false
					}
					return rhs, true
				}
			case *ast.DeclStmt, *ast.ValueSpec:
				found := false
				var rhs ast.Expr
				ast.Inspect(x, func(m ast.Node) bool {
					if vs, ok := m.(*ast.ValueSpec); ok {
						for i, id := range vs.Names {
							if info.Defs[id] == types.Object(v) {
								found = true
								if i < len(vs.Values) {
									rhs = vs.Values[i]
								}
							}
						}
					}
					return true
				})
				return rhs, found
			}
			return nil, false
		}
		var stale func(v *types.Var, tb *cfg.Block, ti int, brk ast.Node, depth int) bool
		stale = func(v *types.Var, tb *cfg.Block, ti int, brk ast.Node, depth int) bool {
			bb, bi := g.Locate(brk)
			if bb == nil {
				return true
			}
			reached := false
			var defs []ast.Node
			cgxWalk(g, bb, bi+1, func(b *cfg.Block, i int, n ast.Node) bool {
				if b == tb && i == ti {
					reached = true
					return true
				}
				if _, ok := baseDefRHS(n, v); ok {
					defs = append(defs, n)
					return true
				}
				return false
			}, nil)
			if reached {
				return true
			}
			if depth >= 3 {
				return false
			}
			for _, d := range defs {
				rhs, _ := baseDefRHS(d, v)
				if rhs == nil {
					continue
				}
				db, di := g.Locate(d)
				if db == nil {
					continue
				}
				// d matters only if it is a definition that reaches the target: no other definition of v in between
				live := false
				cgxWalk(g, db, di+1, func(b *cfg.Block, i int, n ast.Node) bool {
					if b == tb && i == ti {
						live = true
						return true
					}
					_, redefined := baseDefRHS(n, v)
					return redefined
				}, nil)
				if !live {
					continue
				}
				for _, w := range varsOf(rhs) {
					if w != v && stale(w, db, di, brk, depth+1) {
						return true
					}
				}
			}
			return false
		}
		var bad []string
		for _, c := range withVars {
			cb, ci := g.Locate(c.node)
			if cb == nil {
				unknown = "addition not located in the control-flow graph"
				continue
			}
			for _, v := range c.vars {
				for _, b := range breaks {
					if stale(v, cb, ci, b, 0) {
						bad = append(bad, fmt.Sprintf("%s, added to the column counter at %s, still holds what was counted before the line counter is incremented at %s", v.Name(), r.P.Pos(c.node.Pos()), r.P.Pos(b.Pos())))
						break
					}
				}
			}
		}
		switch {
		case len(bad) > 0:
			sort.Strings(bad)
			o.Bad("%s: %s — after a line break inside the token the column counts characters of the previous lines", fi.Name(), strings.Join(c21Uniq(bad), "; "))
		case unknown != "":
			o.Unknown("%s", unknown)
		default:
			o.OK("%d additions to the column counter use local variables, %d line increments: every variable is redefined between an increment and a later addition", len(withVars), len(breaks))
		}
	}
	r.Stats["functions_adding_locals_to_the_column"] = n
	r.Require(R, 3)
}
