package main

// C23 R-5 (added after seeded change C23-5): presence in the map is decided by the comma-ok form (or by
// ranging over the keys), never by the value. A file whose content is a nil slice is a file: it is listed
// by ReadDir and implies its parent directories, so Open, Stat and ReadFile must find it. In files.go a
// single-valued read of the map (m[k]) is not compared with nil and its length is not used as a presence
// test.

import (
	"go/ast"
	"go/token"
	"go/types"
)

func init() {
	p := registry["C23"]
	if p == nil {
		return
	}
	run := p.run
	p.run = func(r *Run) { run(r); c23Presence(r) }
	p.explain += " R-5: presence of a name in the Files map is tested with the comma-ok form, never by comparing the stored slice with nil."
}

func c23Presence(r *Run) {
	const R = "R-5"
	n := 0
	for _, fi := range r.P.Funcs("") {
		if r.P.isTestFile(fi.File) || r.P.FileOf(fi.Decl.Pos()) != "files.go" {
			continue
		}
		info := fi.Pkg.TypesInfo
		par := r.P.Parents(fi.File)
		isFilesMap := func(e ast.Expr) bool {
			t := info.TypeOf(e)
			if t == nil {
				return false
			}
			m, ok := t.Underlying().(*types.Map)
			if !ok {
				return false
			}
			sl, ok := m.Elem().Underlying().(*types.Slice)
			if !ok {
				return false
			}
			b, ok := sl.Elem().Underlying().(*types.Basic)
			return ok && b.Kind() == types.Byte
		}
		isNil := func(e ast.Expr) bool { tv, ok := info.Types[e]; return ok && tv.IsNil() }
		ast.Inspect(fi.Decl.Body, func(m ast.Node) bool {
			ix, ok := m.(*ast.IndexExpr)
			if !ok || !isFilesMap(ix.X) {
				return true
			}
			// comma-ok form?
			if as, ok := par[ix].(*ast.AssignStmt); ok && len(as.Lhs) == 2 && len(as.Rhs) == 1 {
				n++
				r.Ob(R, fi.Name()+"#lookup:"+exprStr(ix)+":comma-ok", ix.Pos()).OK("presence decided by the second result")
				return true
			}
			if as, ok := par[ix].(*ast.AssignStmt); ok {
				for _, l := range as.Lhs {
					if containsNode(l, ix) {
						return true // a store
					}
				}
			}
			n++
			o := r.Ob(R, fi.Name()+"#lookup:"+exprStr(ix), ix.Pos())
			bad := ""
			// compared with nil directly
			if be, ok := par[ix].(*ast.BinaryExpr); ok && (be.Op == token.EQL || be.Op == token.NEQ) && (isNil(be.X) || isNil(be.Y)) {
				bad = "the stored slice is compared with nil"
			}
			// bound to a local that is compared with nil
			if as, ok := par[ix].(*ast.AssignStmt); ok && len(as.Lhs) == 1 {
				if v := objOfIdent(info, as.Lhs[0]); v != nil {
					ast.Inspect(fi.Decl.Body, func(q ast.Node) bool {
						if be, ok := q.(*ast.BinaryExpr); ok && (be.Op == token.EQL || be.Op == token.NEQ) {
							if objOfIdent(info, be.X) == v && isNil(be.Y) || objOfIdent(info, be.Y) == v && isNil(be.X) {
								bad = "the stored slice, bound to " + v.Name() + ", is compared with nil"
							}
						}
						return true
					})
				}
			}
			if bad != "" {
				o.Bad("%s to decide whether the name is a file: a file with nil content is listed by ReadDir and implies its directories but cannot be opened, stat-ed or read", bad)
			} else {
				o.OK("the value is used as content, not as a presence test")
			}
			return true
		})
	}
	r.Require(R, 2)
}
