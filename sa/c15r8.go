package main

// C15 R-8: the text loop never steps blindly over a byte — steps of several bytes.
//
// Same necessary condition as R-6, for the clauses of the context state machine that advance the cursor by a
// constant k after a helper recognised a fixed prefix at the cursor (`isEndStyle(l.src[p:])` then `p += 7`)
// and then fall through to the loop's own increment: the bytes at cursor+1 … cursor+k are passed without being
// examined, so the helper must pin each of them to values that are neither a newline (it would not be
// counted: the line stamp of every later token is one too small and the statement-only-line rule misfires
// next to it) nor an opening brace.
//
// When the clause reloads the examined-byte variable from the cursor right after the step (`c = l.src[p]`),
// the last of those bytes is examined after all (line-break handling at the bottom of the loop): only a '{'
// has to be excluded for it.
//
// Decided only when the helper is written as one returned boolean expression over indexed bytes of its
// parameter (comparisons with constants, one-byte class predicates such as isSpace, &&, ||, !): each stepped
// position is bound in turn to '\n' and to '{' and the expression is evaluated in three-valued logic, every
// other atom being "maybe". A helper in another form (a loop, a call taking the whole slice) is listed in a
// note and not judged.

import (
	"go/ast"
	"go/types"
	"strings"
)

func init() {
	p := registry["C15"]
	if p == nil {
		return
	}
	run := p.run
	p.run = func(r *Run) { run(r); c15PrefixSteps(r) }
	p.explain += " R-8: the same for a step of k bytes taken after a helper matched a prefix at the cursor: the helper's expression excludes a newline and an opening brace at each of the k stepped positions."
}

func c15PrefixSteps(r *Run) {
	const R = "R-8"
	tl := c15TextLoopModel(r, R)
	if tl == nil {
		return
	}
	info, par := tl.info, tl.par
	perClause := map[string]int{}
	n := 0
	var skipped []string
	for _, wr := range tl.writes {
		if wr.node == tl.own || tl.innerLoop(wr.node) || wr.by < 2 || !tl.reaches(wr.node, tl.own) {
			continue
		}
		name := tl.clauseName(wr.node)
		// the prefix helper: a conjunct, on the way to the step, of the form H(src[cursor:])
		var helper *FuncInfo
		for _, pc := range c15PathConds(par, wr.node, tl.loop.Body) {
			if pc.cond == nil || !pc.truth {
				continue
			}
			for _, cj := range splitAnd(pc.cond) {
				c, ok := ast.Unparen(cj).(*ast.CallExpr)
				if !ok || len(c.Args) != 1 {
					continue
				}
				sl, ok := ast.Unparen(c.Args[0]).(*ast.SliceExpr)
				if !ok || !tl.isSrc(sl.X) || sl.Low == nil || !tl.isCursor(sl.Low) || sl.High != nil {
					continue
				}
				if fn := callee(info, c); fn != nil && tl.funcs[fn] != nil {
					helper = tl.funcs[fn]
				}
			}
		}
		if helper == nil {
			skipped = append(skipped, name+": no prefix helper on the way to the step")
			continue
		}
		sig := helper.Obj.Type().(*types.Signature)
		var expr ast.Expr
		if len(helper.Decl.Body.List) == 1 && sig.Params().Len() == 1 {
			if rs, ok := helper.Decl.Body.List[0].(*ast.ReturnStmt); ok && len(rs.Results) == 1 {
				expr = rs.Results[0]
			}
		}
		if expr == nil {
			skipped = append(skipped, name+": "+helper.Name()+" is not a single returned expression")
			continue
		}
		hinfo := helper.Pkg.TypesInfo
		pv := sig.Params().At(0)
		isParamIndex := func(e ast.Expr) (int64, bool) {
			ix, ok := ast.Unparen(e).(*ast.IndexExpr)
			if !ok {
				return 0, false
			}
			id, ok := ast.Unparen(ix.X).(*ast.Ident)
			if !ok || hinfo.Uses[id] != pv {
				return 0, false
			}
			return intValue(hinfo, ix.Index)
		}
		// the expression must not use the parameter other than through constant indexes and len
		opaque := false
		ast.Inspect(expr, func(m ast.Node) bool {
			switch x := m.(type) {
			case *ast.IndexExpr:
				if _, ok := isParamIndex(x); ok {
					return false
				}
			case *ast.CallExpr:
				if isBuiltinCall(hinfo, x, "len") {
					return false
				}
			case *ast.Ident:
				if hinfo.Uses[x] == pv {
					opaque = true
				}
			}
			return true
		})
		if opaque {
			skipped = append(skipped, name+": "+helper.Name()+" passes its parameter on (not an expression over indexed bytes)")
			continue
		}
		perClause[name]++
		key := tl.scan.Name() + "#prefix-step:" + name
		if perClause[name] > 1 {
			key += "-" + string(rune('0'+perClause[name]))
		}
		n++
		o := r.Ob(R, key, wr.node.Pos())
		// after the step the clause may load the byte now under the cursor into the examined-byte variable
		// (`c = l.src[p]`): that byte then goes through the loop's line-break handling like any examined
		// byte, so only a '{' must be excluded for it
		reexamined := false
		if tl.curVar != nil {
			ast.Inspect(tl.loop.Body, func(m ast.Node) bool {
				as, ok := m.(*ast.AssignStmt)
				if !ok || len(as.Lhs) != 1 || len(as.Rhs) != 1 || as.Pos() < wr.node.End() {
					return true
				}
				if id, ok := ast.Unparen(as.Lhs[0]).(*ast.Ident); ok && info.Uses[id] == tl.curVar && tl.isCurByteExpr(as.Rhs[0]) {
					// every way from the step to the own increment passes the reload: the reload follows the
					// step in the same block
					if par[as] == par[wr.node] {
						reexamined = true
					}
				}
				return true
			})
		}
		var bad []string
		for k := int64(1); k <= wr.by; k++ {
			for _, nb := range []int64{'\n', '{'} {
				if reexamined && k == wr.by && nb == '\n' {
					continue
				}
				ev := &c15r6Eval{info: hinfo, funcs: tl.funcs, bind: func(e ast.Expr) (int64, bool) {
					if i, ok := isParamIndex(e); ok && i == k {
						return nb, true
					}
					return 0, false
				}}
				if ev.eval(expr) != c15F {
					what := "a newline"
					if nb == '{' {
						what = "a '{'"
					}
					bad = append(bad, what+" at offset "+string(rune('0'+k)))
				}
			}
		}
		if len(bad) == 0 {
			if reexamined {
				o.OK("%s pins the %d bytes stepped over to values other than a newline and '{'; the byte at offset %d is loaded into the examined-byte variable and goes through the line-break handling (and cannot be '{')", helper.Name(), wr.by-1, wr.by)
			} else {
				o.OK("%s pins each of the %d stepped bytes to values other than a newline and '{'", helper.Name(), wr.by)
			}
		} else {
			o.Bad("in %s the cursor steps %d bytes after %s matched, then the loop's own increment adds one, and %s does not exclude %s (a newline stepped over is never counted: the line stamps of all later tokens are one too small and a statement-only line on the following line is not removed; a '{' stepped over hides the template syntax it starts)", name, wr.by, helper.Name(), helper.Name(), strings.Join(bad, ", "))
		}
	}
	if len(skipped) > 0 {
		r.Note("R-8: steps not judged: %s", strings.Join(skipped, "; "))
	}
	r.Stats["r8_sites"] = n
}
