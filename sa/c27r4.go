package main

// C27 — symbolic evaluation of the printing code of package ast (used by R-4 … R-7).
//
// The String methods of package ast (and the helpers they call) are read as a program over an abstract
// tree: a node is a record of fields that are materialised on demand. Each time the code asks something
// the tree shape decides (is this field nil, how long is this list, what is the dynamic type of this
// expression, what is the value of this flag or operator) the evaluator forks over the finite set of
// answers. The result of one fork ("run") is the list of decisions taken and the printed form as a sequence
// of pieces: literal text (with the node whose code wrote it) and references to the printed form of a
// child that was not expanded. Nothing of /repo is executed: the evaluator walks the typed syntax.
//
// Shapes the evaluator cannot read abort the run; the rule that asked reports the method as undecided.

import (
	"fmt"
	"go/ast"
	"go/constant"
	"go/token"
	"go/types"
	"sort"
	"strconv"
	"strings"
)

var c27state *c27 // set by runC27

type c27v interface{}

type c27ref struct {
	path string // n.Rhs[0], n.Ident.Name
	how  string // String | field | conv | quote
}

type c27piece struct {
	lit   string
	ref   *c27ref
	owner string // path of the node whose code wrote the literal
}

type c27str struct{ ps []c27piece }
type c27int struct{ v int64 }
type c27bool struct{ v bool }
type c27nil struct{}
type c27unk struct {
	path  string
	lenOf string // the length of the string with this reference path
}
type c27tuple []c27v
type c27builder struct{ ps []c27piece }
type c27closure struct {
	lit *ast.FuncLit
	f   *c27frame
}

type c27node struct {
	path   string
	dyn    *types.Named // struct type, when determined
	lazy   bool         // dynamic type not determined yet
	nilSt  int          // 0 undecided, 1 nil, 2 present
	not    map[*types.Named]bool
	fields map[string]c27v
	expand bool // String() of this node is evaluated, not referenced
	leaf   bool // no type of the package: every assertion fails
	level  int  // nesting below the receiver (list elements are at the level of their list)
}

type c27slice struct {
	path  string
	elemT types.Type
	lenSt int // -1 undecided
	elems []c27v
	fixed bool // elements given (literal, append)
	level int
}

type c27con struct{ key, val string }

type c27run struct {
	cons     []c27con
	out      c27v
	halted   bool // the evaluated code panics on this shape
	fail     string
	calls    []c27callRec
	recv     *c27node
	truncate bool
	extra    any // set by the body of the exploration
}

type c27callRec struct {
	fn   *types.Func
	args []c27v
	res  c27v
}

func (r *c27run) con(key string) (string, bool) {
	v, ok := "", false
	for _, c := range r.cons {
		if c.key == key {
			v, ok = c.val, true
		}
	}
	return v, ok
}

func (r *c27run) pieces() []c27piece {
	if s, ok := r.out.(c27str); ok {
		return s.ps
	}
	return nil
}

func (r *c27run) shape() string {
	var parts []string
	for _, c := range r.cons {
		parts = append(parts, c.key+"="+c.val)
	}
	return strings.Join(parts, " ")
}

func c27render(ps []c27piece) string {
	var b strings.Builder
	for _, p := range ps {
		if p.ref != nil {
			b.WriteString("‹" + p.ref.path + "›")
		} else {
			b.WriteString(p.lit)
		}
	}
	return b.String()
}

type c27abort struct{ why string }
type c27halt struct{}

type c27ev struct {
	r     *Run
	c     *c27
	decls map[*types.Func]*FuncInfo
	// configuration
	lens      []int // lengths tried for a list
	lensFor   func(path string) []int
	typeDepth int // how deep (in levels below the receiver) an undetermined expression may be given a type of the package
	nodes     map[string]*c27node
	logCalls  map[*types.Func]bool
	typeDom   func(n *c27node, cands []*types.Named) []*types.Named // restricts the types tried for a node
	enumDom   func(path string, key string, all []int64) []int64
	boolDom   func(path string) []bool // nil: both
	// per run
	oracle   []int
	arity    []int
	used     int
	cons     []c27con
	steps    int
	depth    int
	globals  map[*types.Var]c27v
	strEmpty map[string]int
	calls    []c27callRec
	trunc    bool
	extra    any
}

func c27newEv(c *c27) *c27ev {
	return &c27ev{r: c.r, c: c, decls: c.x.decls, lens: []int{1, 0, 3}, typeDepth: 2}
}

func (ev *c27ev) failf(format string, a ...any) { panic(c27abort{fmt.Sprintf(format, a...)}) }
func (ev *c27ev) halt()                         { panic(c27halt{}) }

func (ev *c27ev) choose(n int) int {
	if n <= 1 {
		return 0
	}
	k := 0
	if ev.used < len(ev.oracle) {
		k = ev.oracle[ev.used]
	} else {
		ev.oracle = append(ev.oracle, 0)
	}
	ev.arity = append(ev.arity, n)
	ev.used++
	if k >= n {
		k = n - 1
	}
	return k
}

func (ev *c27ev) record(key, val string) { ev.cons = append(ev.cons, c27con{key, val}) }

// explore runs body once per combination of decisions.
func (ev *c27ev) explore(maxRuns int, body func() (c27v, *c27node)) (runs []*c27run, incomplete string) {
	ev.oracle = nil
	for n := 0; ; n++ {
		if n >= maxRuns {
			return runs, fmt.Sprintf("more than %d shapes", maxRuns)
		}
		ev.arity, ev.used, ev.cons, ev.steps, ev.depth = ev.arity[:0], 0, nil, 0, 0
		ev.globals, ev.strEmpty, ev.calls, ev.trunc = map[*types.Var]c27v{}, map[string]int{}, nil, false
		ev.nodes, ev.extra = map[string]*c27node{}, nil
		run := &c27run{}
		func() {
			defer func() {
				if x := recover(); x != nil {
					switch x := x.(type) {
					case c27abort:
						run.fail = x.why
					case c27halt:
						run.halted = true
					default:
						run.fail = fmt.Sprintf("internal error of the evaluator: %v", x)
					}
				}
			}()
			run.out, run.recv = body()
		}()
		run.cons, run.calls, run.truncate, run.extra = ev.cons, ev.calls, ev.trunc, ev.extra
		runs = append(runs, run)
		// next combination
		ev.oracle = ev.oracle[:ev.used]
		i := ev.used - 1
		for i >= 0 && ev.oracle[i]+1 >= ev.arity[i] {
			i--
		}
		if i < 0 {
			return runs, ""
		}
		ev.oracle = append(ev.oracle[:i], ev.oracle[i]+1)
	}
}

// ---------------------------------------------------------------------------
// The abstract tree.

func (ev *c27ev) astNamed(t types.Type) *types.Named {
	if p, ok := t.(*types.Pointer); ok {
		t = p.Elem()
	}
	nt, _ := t.(*types.Named)
	if nt == nil || nt.Obj().Pkg() != ev.c.astPk.Types {
		return nil
	}
	return nt
}

func (ev *c27ev) newNode(path string, dyn *types.Named) *c27node {
	n := &c27node{path: path, dyn: dyn, nilSt: 2, fields: map[string]c27v{}}
	ev.nodes[path] = n
	return n
}

// fresh makes the value of a slot of static type t about which nothing is known yet.
func (ev *c27ev) fresh(path string, t types.Type, fieldKey string, level int) c27v {
	v := ev.fresh0(path, t, fieldKey)
	switch v := v.(type) {
	case *c27node:
		v.level = level
		ev.nodes[path] = v
	case *c27slice:
		v.level = level - 1
	}
	return v
}

func (ev *c27ev) fresh0(path string, t types.Type, fieldKey string) c27v {
	switch u := t.Underlying().(type) {
	case *types.Basic:
		switch {
		case u.Info()&types.IsBoolean != 0:
			dom := []bool{false, true}
			if ev.boolDom != nil {
				if d := ev.boolDom(path); d != nil {
					dom = d
				}
			}
			b := dom[ev.choose(len(dom))]
			ev.record(path, strconv.FormatBool(b))
			return c27bool{b}
		case u.Info()&types.IsString != 0:
			return c27str{[]c27piece{{ref: &c27ref{path, "field"}}}}
		case u.Info()&types.IsInteger != 0:
			if nt, ok := t.(*types.Named); ok && ev.c.enums[nt] != nil {
				var all []int64
				for _, cst := range ev.c.enums[nt] {
					v, _ := constantInt64(cst)
					all = append(all, v)
				}
				vals := all
				if p := ev.c.prod[fieldKey]; p != nil && !p.all && len(p.vals) > 0 {
					vals = nil
					for _, v := range all {
						if p.vals[v] {
							vals = append(vals, v)
						}
					}
				}
				if ev.enumDom != nil {
					vals = ev.enumDom(path, fieldKey, vals)
				}
				if len(vals) == 0 {
					ev.halt()
				}
				v := vals[ev.choose(len(vals))]
				ev.record(path, ev.enumName(nt, v))
				return c27int{v}
			}
			return c27unk{path: path}
		}
		return c27unk{path: path}
	case *types.Pointer:
		if nt := ev.astNamed(t); nt != nil {
			if _, ok := nt.Underlying().(*types.Struct); ok {
				return &c27node{path: path, dyn: nt, fields: map[string]c27v{}}
			}
		}
		return c27unk{path: path}
	case *types.Interface:
		return &c27node{path: path, lazy: true, fields: map[string]c27v{}}
	case *types.Slice:
		if b, ok := u.Elem().Underlying().(*types.Basic); ok && b.Kind() == types.Byte {
			return c27unk{path: path}
		}
		return &c27slice{path: path, elemT: u.Elem(), lenSt: -1}
	case *types.Struct:
		if nt := ev.astNamed(t); nt != nil {
			return ev.newNode(path, nt)
		}
		return c27unk{path: path}
	}
	return c27unk{path: path}
}

func (ev *c27ev) enumName(nt *types.Named, v int64) string {
	for _, cst := range ev.c.enums[nt] {
		if w, _ := constantInt64(cst); w == v {
			return cst.Name()
		}
	}
	return strconv.FormatInt(v, 10)
}

func (ev *c27ev) present(n *c27node) bool {
	if n.nilSt == 0 {
		if ev.choose(2) == 0 {
			n.nilSt = 2
			ev.record(n.path, "present")
		} else {
			n.nilSt = 1
			ev.record(n.path, "nil")
		}
	}
	return n.nilSt == 2
}

func (ev *c27ev) length(s *c27slice) int {
	if s.lenSt < 0 {
		lens := ev.lens
		if ev.lensFor != nil {
			lens = ev.lensFor(s.path)
		}
		s.lenSt = lens[ev.choose(len(lens))]
		ev.record(s.path, "len="+strconv.Itoa(s.lenSt))
	}
	return s.lenSt
}

func (ev *c27ev) elem(s *c27slice, i int) c27v {
	n := ev.length(s)
	if i < 0 || i >= n {
		ev.halt()
	}
	for len(s.elems) <= i {
		if s.fixed {
			ev.halt()
		}
		k := len(s.elems)
		v := ev.fresh(s.path+"["+strconv.Itoa(k)+"]", s.elemT, "", s.level+1)
		if nd, ok := v.(*c27node); ok {
			nd.level = s.level
		}
		if nd, ok := v.(*c27node); ok && !nd.lazy {
			nd.nilSt = 2 // the parser stores no nil element in a list
		}
		s.elems = append(s.elems, v)
	}
	return s.elems[i]
}

func (ev *c27ev) field(n *c27node, name string) c27v {
	if v, ok := n.fields[name]; ok {
		return v
	}
	if n.dyn == nil {
		ev.failf("field %s of a node of undetermined type at %s", name, n.path)
	}
	st, ok := n.dyn.Underlying().(*types.Struct)
	if !ok {
		ev.failf("field %s of non-struct %s", name, n.dyn.Obj().Name())
	}
	for i := 0; i < st.NumFields(); i++ {
		if st.Field(i).Name() == name {
			v := ev.fresh(n.path+"."+name, st.Field(i).Type(), n.dyn.Obj().Name()+"."+name, n.level+1)
			n.fields[name] = v
			return v
		}
	}
	ev.failf("no field %s in %s", name, n.dyn.Obj().Name())
	return nil
}

// deref returns the node behind v, ending the run when the evaluated code would dereference nil.
func (ev *c27ev) deref(v c27v) *c27node {
	switch v := v.(type) {
	case *c27node:
		if !ev.present(v) {
			ev.halt()
		}
		return v
	case c27nil:
		ev.halt()
	}
	ev.failf("dereference of %T", v)
	return nil
}

func (ev *c27ev) implementers(it *types.Interface) []*types.Named {
	var out []*types.Named
	sc := ev.c.astPk.Types.Scope()
	for _, nm := range sc.Names() {
		tn, ok := sc.Lookup(nm).(*types.TypeName)
		if !ok || tn.IsAlias() {
			continue
		}
		nt, ok := tn.Type().(*types.Named)
		if !ok {
			continue
		}
		if _, isS := nt.Underlying().(*types.Struct); !isS {
			continue
		}
		if types.Implements(types.NewPointer(nt), it) || types.Implements(nt, it) {
			out = append(out, nt)
		}
	}
	return out
}

func (ev *c27ev) matches(n *c27node, t types.Type) bool {
	if n.nilSt == 1 || n.dyn == nil {
		return false
	}
	if it, ok := t.Underlying().(*types.Interface); ok {
		return types.Implements(types.NewPointer(n.dyn), it) || types.Implements(n.dyn, it)
	}
	return ev.astNamed(t) == n.dyn
}

// refine decides the dynamic type of an undetermined node among the types the code asks about.
func (ev *c27ev) refine(n *c27node, asked []types.Type) {
	if !n.lazy || n.leaf || n.nilSt == 1 {
		return
	}
	var cands []*types.Named
	seen := map[*types.Named]bool{}
	add := func(nt *types.Named) {
		if nt != nil && !seen[nt] && !n.not[nt] {
			seen[nt] = true
			cands = append(cands, nt)
		}
	}
	for _, t := range asked {
		if it, ok := t.Underlying().(*types.Interface); ok {
			for _, nt := range ev.implementers(it) {
				add(nt)
			}
		} else {
			add(ev.astNamed(t))
		}
	}
	if len(cands) == 0 {
		return
	}
	all := cands
	if n.level > ev.typeDepth {
		cands = nil
		ev.trunc = true
	} else if ev.typeDom != nil {
		cands = ev.typeDom(n, cands)
	}
	k := ev.choose(len(cands) + 1)
	if k < len(cands) {
		n.dyn, n.lazy = cands[k], false
		ev.record(n.path+"#type", cands[k].Obj().Name())
		return
	}
	if n.not == nil {
		n.not = map[*types.Named]bool{}
	}
	var names []string
	for _, nt := range all {
		n.not[nt] = true
		names = append(names, nt.Obj().Name())
	}
	ev.record(n.path+"#type", "none of "+strings.Join(names, ","))
}

// ---------------------------------------------------------------------------
// Interpreter.

type c27frame struct {
	vars  map[types.Object]c27v
	info  *types.Info
	fi    *FuncInfo
	owner string
	ret   c27v
}

type c27ctl int

const (
	c27next c27ctl = iota
	c27ret
	c27brk
	c27cont
)

func (ev *c27ev) tick() {
	ev.steps++
	if ev.steps > 200000 {
		ev.failf("step budget exhausted")
	}
}

func (ev *c27ev) zero(t types.Type) c27v {
	if c27isBuilder(t) {
		return &c27builder{}
	}
	switch u := t.Underlying().(type) {
	case *types.Basic:
		switch {
		case u.Info()&types.IsBoolean != 0:
			return c27bool{false}
		case u.Info()&types.IsString != 0:
			return c27str{}
		case u.Info()&types.IsNumeric != 0:
			return c27int{0}
		}
	case *types.Slice:
		return &c27slice{path: "", elemT: u.Elem(), lenSt: 0, fixed: true}
	case *types.Pointer, *types.Interface, *types.Map:
		return c27nil{}
	}
	return c27unk{}
}

func c27isBuilder(t types.Type) bool {
	if p, ok := t.(*types.Pointer); ok {
		t = p.Elem()
	}
	nt, ok := t.(*types.Named)
	if !ok || nt.Obj().Pkg() == nil {
		return false
	}
	return nt.Obj().Pkg().Path() == "strings" && nt.Obj().Name() == "Builder" || nt.Obj().Pkg().Path() == "bytes" && nt.Obj().Name() == "Buffer"
}

// callClosure runs a function literal bound to a local variable; it shares the variables of its frame.
func (ev *c27ev) callClosure(cl *c27closure, args []c27v) c27v {
	ev.depth++
	defer func() { ev.depth-- }()
	if ev.depth > 24 {
		ev.failf("call depth")
	}
	f := &c27frame{vars: cl.f.vars, info: cl.f.info, fi: cl.f.fi, owner: cl.f.owner}
	i := 0
	for _, fld := range cl.lit.Type.Params.List {
		if len(fld.Names) == 0 {
			i++
			continue
		}
		if _, isVar := fld.Type.(*ast.Ellipsis); isVar {
			ev.failf("variadic function literal")
		}
		for _, nm := range fld.Names {
			if i < len(args) {
				f.vars[f.info.Defs[nm]] = args[i]
			}
			i++
		}
	}
	if cl.lit.Type.Results != nil {
		for _, fld := range cl.lit.Type.Results.List {
			if len(fld.Names) > 0 {
				ev.failf("function literal with named results")
			}
		}
	}
	if ev.block(f, cl.lit.Body.List) == c27ret {
		return f.ret
	}
	return nil
}

func (ev *c27ev) invoke(fi *FuncInfo, recv c27v, args []c27v, owner string) c27v {
	ev.depth++
	defer func() { ev.depth-- }()
	if ev.depth > 24 {
		ev.failf("call depth")
	}
	info := fi.Pkg.TypesInfo
	f := &c27frame{vars: map[types.Object]c27v{}, info: info, fi: fi, owner: owner}
	if fi.Decl.Recv != nil && len(fi.Decl.Recv.List) == 1 && len(fi.Decl.Recv.List[0].Names) == 1 {
		f.vars[info.Defs[fi.Decl.Recv.List[0].Names[0]]] = recv
	}
	i := 0
	for _, fld := range fi.Decl.Type.Params.List {
		if len(fld.Names) == 0 {
			i++
			continue
		}
		for _, nm := range fld.Names {
			if i < len(args) {
				f.vars[info.Defs[nm]] = args[i]
			}
			i++
		}
	}
	var named []types.Object
	if fi.Decl.Type.Results != nil {
		for _, fld := range fi.Decl.Type.Results.List {
			for _, nm := range fld.Names {
				obj := info.Defs[nm]
				f.vars[obj] = ev.zero(obj.Type())
				named = append(named, obj)
			}
		}
	}
	ctl := ev.block(f, fi.Decl.Body.List)
	var res c27v
	if ctl == c27ret {
		res = f.ret
		if res == nil && len(named) > 0 {
			if len(named) == 1 {
				res = f.vars[named[0]]
			} else {
				var t c27tuple
				for _, o := range named {
					t = append(t, f.vars[o])
				}
				res = t
			}
		}
	}
	if ev.logCalls[fi.Obj] {
		ev.calls = append(ev.calls, c27callRec{fi.Obj, args, res})
	}
	return res
}

func (ev *c27ev) block(f *c27frame, list []ast.Stmt) c27ctl {
	for _, s := range list {
		if ctl := ev.stmt(f, s); ctl != c27next {
			return ctl
		}
	}
	return c27next
}

func (ev *c27ev) setVar(f *c27frame, e ast.Expr, v c27v) {
	if ix, ok := ast.Unparen(e).(*ast.IndexExpr); ok {
		// element of a list built locally (make, literal, append)
		sl, ok := ev.eval(f, ix.X).(*c27slice)
		i, iok := ev.eval(f, ix.Index).(c27int)
		if !ok || !iok || !sl.fixed {
			ev.failf("assignment to %s", exprStr(e))
		}
		if i.v < 0 || int(i.v) >= len(sl.elems) {
			ev.halt()
		}
		sl.elems[i.v] = v
		return
	}
	id, ok := ast.Unparen(e).(*ast.Ident)
	if !ok {
		ev.failf("assignment to %s", exprStr(e))
	}
	if id.Name == "_" {
		return
	}
	obj := f.info.Defs[id]
	if obj == nil {
		obj = f.info.Uses[id]
	}
	if obj == nil {
		ev.failf("unresolved %s", id.Name)
	}
	if vr, ok := obj.(*types.Var); ok && vr.Pkg() != nil && vr.Parent() == vr.Pkg().Scope() {
		ev.failf("assignment to the package variable %s", id.Name)
	}
	f.vars[obj] = v
}

func (ev *c27ev) stmt(f *c27frame, s ast.Stmt) c27ctl {
	ev.tick()
	switch s := s.(type) {
	case *ast.EmptyStmt:
		return c27next
	case *ast.BlockStmt:
		return ev.block(f, s.List)
	case *ast.ExprStmt:
		ev.eval(f, s.X)
		return c27next
	case *ast.DeclStmt:
		gd, ok := s.Decl.(*ast.GenDecl)
		if !ok || gd.Tok != token.VAR {
			if ok && (gd.Tok == token.CONST || gd.Tok == token.TYPE) {
				return c27next
			}
			ev.failf("declaration statement")
		}
		for _, sp := range gd.Specs {
			vs := sp.(*ast.ValueSpec)
			if len(vs.Values) == 0 {
				for _, nm := range vs.Names {
					if obj := f.info.Defs[nm]; obj != nil {
						f.vars[obj] = ev.zero(obj.Type())
					}
				}
				continue
			}
			if len(vs.Values) != len(vs.Names) {
				ev.failf("multi-value var declaration")
			}
			for i, nm := range vs.Names {
				ev.setVar(f, nm, ev.eval(f, vs.Values[i]))
			}
		}
		return c27next
	case *ast.AssignStmt:
		ev.assign(f, s)
		return c27next
	case *ast.IncDecStmt:
		v, ok := ev.eval(f, s.X).(c27int)
		if !ok {
			ev.failf("++ on a non-integer")
		}
		if s.Tok == token.INC {
			v.v++
		} else {
			v.v--
		}
		ev.setVar(f, s.X, v)
		return c27next
	case *ast.ReturnStmt:
		switch len(s.Results) {
		case 0:
			f.ret = nil
		case 1:
			f.ret = ev.eval(f, s.Results[0])
		default:
			var t c27tuple
			for _, e := range s.Results {
				t = append(t, ev.eval(f, e))
			}
			f.ret = t
		}
		return c27ret
	case *ast.IfStmt:
		if s.Init != nil {
			if ctl := ev.stmt(f, s.Init); ctl != c27next {
				return ctl
			}
		}
		if ev.truth(f, ev.eval(f, s.Cond), s.Cond) {
			return ev.block(f, s.Body.List)
		}
		if s.Else != nil {
			return ev.stmt(f, s.Else)
		}
		return c27next
	case *ast.BranchStmt:
		if s.Label != nil {
			ev.failf("labelled %s", s.Tok)
		}
		switch s.Tok {
		case token.BREAK:
			return c27brk
		case token.CONTINUE:
			return c27cont
		}
		ev.failf("%s statement", s.Tok)
	case *ast.ForStmt:
		if s.Init != nil {
			ev.stmt(f, s.Init)
		}
		for n := 0; ; n++ {
			if n > 64 {
				ev.trunc = true
				ev.halt()
			}
			if s.Cond != nil && !ev.truth(f, ev.eval(f, s.Cond), s.Cond) {
				break
			}
			ctl := ev.block(f, s.Body.List)
			if ctl == c27ret {
				return ctl
			}
			if ctl == c27brk {
				break
			}
			if s.Post != nil {
				ev.stmt(f, s.Post)
			}
		}
		return c27next
	case *ast.RangeStmt:
		x := ev.eval(f, s.X)
		sl, ok := x.(*c27slice)
		if !ok {
			if _, isNil := x.(c27nil); isNil {
				return c27next
			}
			ev.failf("range over %s", exprStr(s.X))
		}
		n := ev.length(sl)
		for i := 0; i < n; i++ {
			if s.Key != nil {
				ev.setVar(f, s.Key, c27int{int64(i)})
			}
			if s.Value != nil {
				ev.setVar(f, s.Value, ev.elem(sl, i))
			}
			ctl := ev.block(f, s.Body.List)
			if ctl == c27ret {
				return ctl
			}
			if ctl == c27brk {
				break
			}
		}
		return c27next
	case *ast.SwitchStmt:
		return ev.switchStmt(f, s)
	case *ast.TypeSwitchStmt:
		return ev.typeSwitch(f, s)
	case *ast.LabeledStmt:
		return ev.stmt(f, s.Stmt)
	}
	ev.failf("statement %T in %s", s, f.fi.Name())
	return c27next
}

func (ev *c27ev) assign(f *c27frame, s *ast.AssignStmt) {
	switch s.Tok {
	case token.ASSIGN, token.DEFINE:
		if len(s.Lhs) == len(s.Rhs) {
			vals := make([]c27v, len(s.Rhs))
			for i, e := range s.Rhs {
				vals[i] = ev.eval(f, e)
			}
			for i, l := range s.Lhs {
				ev.setVar(f, l, vals[i])
			}
			return
		}
		if len(s.Rhs) != 1 {
			ev.failf("assignment shape")
		}
		if ta, ok := ast.Unparen(s.Rhs[0]).(*ast.TypeAssertExpr); ok && len(s.Lhs) == 2 && ta.Type != nil {
			v, ok := ev.assert(f, ta)
			ev.setVar(f, s.Lhs[0], v)
			ev.setVar(f, s.Lhs[1], c27bool{ok})
			return
		}
		t, ok := ev.eval(f, s.Rhs[0]).(c27tuple)
		if !ok || len(t) != len(s.Lhs) {
			ev.failf("multi-value assignment from %s", exprStr(s.Rhs[0]))
		}
		for i, l := range s.Lhs {
			ev.setVar(f, l, t[i])
		}
	default:
		if len(s.Lhs) != 1 || len(s.Rhs) != 1 {
			ev.failf("compound assignment shape")
		}
		op := map[token.Token]token.Token{token.ADD_ASSIGN: token.ADD, token.SUB_ASSIGN: token.SUB, token.MUL_ASSIGN: token.MUL}[s.Tok]
		if op == token.ILLEGAL {
			ev.failf("assignment operator %s", s.Tok)
		}
		ev.setVar(f, s.Lhs[0], ev.arith(f, op, ev.eval(f, s.Lhs[0]), ev.eval(f, s.Rhs[0])))
	}
}

func (ev *c27ev) switchStmt(f *c27frame, s *ast.SwitchStmt) c27ctl {
	if s.Init != nil {
		ev.stmt(f, s.Init)
	}
	var tag c27v
	if s.Tag != nil {
		tag = ev.eval(f, s.Tag)
	}
	var def *ast.CaseClause
	var hit *ast.CaseClause
clauses:
	for _, st := range s.Body.List {
		cc := st.(*ast.CaseClause)
		if cc.List == nil {
			def = cc
			continue
		}
		for _, ce := range cc.List {
			v := ev.eval(f, ce)
			var ok bool
			if s.Tag == nil {
				ok = ev.truth(f, v, ce)
			} else {
				ok = ev.truth(f, ev.compare(f, token.EQL, tag, v, ce), ce)
			}
			if ok {
				hit = cc
				break clauses
			}
		}
	}
	if hit == nil {
		hit = def
	}
	if hit == nil {
		return c27next
	}
	for _, b := range hit.Body {
		if bs, ok := b.(*ast.BranchStmt); ok && bs.Tok == token.FALLTHROUGH {
			ev.failf("fallthrough")
		}
	}
	ctl := ev.block(f, hit.Body)
	if ctl == c27brk {
		return c27next
	}
	return ctl
}

func (ev *c27ev) typeSwitch(f *c27frame, s *ast.TypeSwitchStmt) c27ctl {
	if s.Init != nil {
		ev.stmt(f, s.Init)
	}
	var x ast.Expr
	bind := false
	switch a := s.Assign.(type) {
	case *ast.ExprStmt:
		x = a.X
	case *ast.AssignStmt:
		x, bind = a.Rhs[0], true
	}
	ta, ok := ast.Unparen(x).(*ast.TypeAssertExpr)
	if !ok {
		ev.failf("type switch guard")
	}
	v := ev.eval(f, ta.X)
	var asked []types.Type
	for _, st := range s.Body.List {
		for _, ce := range st.(*ast.CaseClause).List {
			if tv, ok := f.info.Types[ce]; ok && tv.IsType() {
				asked = append(asked, tv.Type)
			}
		}
	}
	nd, isNode := v.(*c27node)
	isNil := false
	switch v.(type) {
	case c27nil:
		isNil = true
	case *c27node:
		if !ev.present(nd) {
			isNil = true
		} else {
			ev.refine(nd, asked)
		}
	default:
		ev.failf("type switch on %T (%s)", v, exprStr(ta.X))
	}
	var hit, def *ast.CaseClause
clauses:
	for _, st := range s.Body.List {
		cc := st.(*ast.CaseClause)
		if cc.List == nil {
			def = cc
			continue
		}
		for _, ce := range cc.List {
			tv := f.info.Types[ce]
			if tv.IsNil() {
				if isNil {
					hit = cc
					break clauses
				}
				continue
			}
			if !isNil && isNode && ev.matches(nd, tv.Type) {
				hit = cc
				break clauses
			}
		}
	}
	if hit == nil {
		hit = def
	}
	if hit == nil {
		return c27next
	}
	if bind {
		if obj := f.info.Implicits[hit]; obj != nil {
			f.vars[obj] = v
		}
	}
	ctl := ev.block(f, hit.Body)
	if ctl == c27brk {
		return c27next
	}
	return ctl
}

// assert evaluates x.(T) and reports whether it holds.
func (ev *c27ev) assert(f *c27frame, ta *ast.TypeAssertExpr) (c27v, bool) {
	v := ev.eval(f, ta.X)
	t := f.info.TypeOf(ta.Type)
	switch v := v.(type) {
	case c27nil:
		return c27nil{}, false
	case *c27node:
		if !ev.present(v) {
			return c27nil{}, false
		}
		ev.refine(v, []types.Type{t})
		if ev.matches(v, t) {
			return v, true
		}
		return c27nil{}, false
	}
	ev.failf("type assertion on %T (%s)", v, exprStr(ta.X))
	return nil, false
}

func (ev *c27ev) truth(f *c27frame, v c27v, at ast.Expr) bool {
	switch v := v.(type) {
	case c27bool:
		return v.v
	case c27unk:
		key := v.path
		if key == "" {
			key = "cond:" + exprStr(at)
		}
		k := ev.choose(2)
		ev.record(key, strconv.FormatBool(k == 0))
		return k == 0
	}
	ev.failf("condition %s is %T", exprStr(at), v)
	return false
}

func (ev *c27ev) lit(f *c27frame, s string) c27str {
	if s == "" {
		return c27str{}
	}
	return c27str{[]c27piece{{lit: s, owner: f.owner}}}
}

func (ev *c27ev) asStr(f *c27frame, v c27v) c27str {
	switch v := v.(type) {
	case c27str:
		return v
	case c27unk:
		return c27str{[]c27piece{{ref: &c27ref{v.path, "conv"}}}}
	case c27int:
		return ev.lit(f, strconv.FormatInt(v.v, 10))
	case c27bool:
		return ev.lit(f, strconv.FormatBool(v.v))
	case *c27node:
		return c27str{[]c27piece{{ref: &c27ref{v.path, "String"}}}}
	case c27nil:
		return ev.lit(f, "<nil>")
	}
	ev.failf("%T used as a string", v)
	return c27str{}
}

func c27concat(a, b c27str) c27str {
	ps := make([]c27piece, 0, len(a.ps)+len(b.ps))
	ps = append(ps, a.ps...)
	ps = append(ps, b.ps...)
	return c27str{ps}
}

func c27allLit(s c27str) (string, bool) {
	var b strings.Builder
	for _, p := range s.ps {
		if p.ref != nil {
			return "", false
		}
		b.WriteString(p.lit)
	}
	return b.String(), true
}

func (ev *c27ev) arith(f *c27frame, op token.Token, l, r c27v) c27v {
	if ls, ok := l.(c27str); ok {
		if op != token.ADD {
			ev.failf("string operator %s", op)
		}
		return c27concat(ls, ev.asStr(f, r))
	}
	if rs, ok := r.(c27str); ok && op == token.ADD {
		return c27concat(ev.asStr(f, l), rs)
	}
	li, lok := l.(c27int)
	ri, rok := r.(c27int)
	if lok && rok {
		switch op {
		case token.ADD:
			return c27int{li.v + ri.v}
		case token.SUB:
			return c27int{li.v - ri.v}
		case token.MUL:
			return c27int{li.v * ri.v}
		case token.QUO:
			if ri.v == 0 {
				ev.halt()
			}
			return c27int{li.v / ri.v}
		case token.REM:
			if ri.v == 0 {
				ev.halt()
			}
			return c27int{li.v % ri.v}
		}
	}
	return c27unk{}
}

func c27cmpInt(op token.Token, a, b int64) bool {
	switch op {
	case token.EQL:
		return a == b
	case token.NEQ:
		return a != b
	case token.LSS:
		return a < b
	case token.LEQ:
		return a <= b
	case token.GTR:
		return a > b
	case token.GEQ:
		return a >= b
	}
	return false
}

func c27flip(op token.Token) token.Token {
	switch op {
	case token.LSS:
		return token.GTR
	case token.LEQ:
		return token.GEQ
	case token.GTR:
		return token.LSS
	case token.GEQ:
		return token.LEQ
	}
	return op
}

func (ev *c27ev) emptiness(path string) bool {
	if ev.strEmpty[path] == 0 {
		if ev.choose(2) == 0 {
			ev.strEmpty[path] = 2
			ev.record(path, "present")
		} else {
			ev.strEmpty[path] = 1
			ev.record(path, "empty")
		}
	}
	return ev.strEmpty[path] == 1
}

// fieldRef returns the path when s is exactly the value of a string field.
func c27fieldRef(s c27str) (string, bool) {
	if len(s.ps) == 1 && s.ps[0].ref != nil && s.ps[0].ref.how == "field" {
		return s.ps[0].ref.path, true
	}
	return "", false
}

func (ev *c27ev) compare(f *c27frame, op token.Token, l, r c27v, at ast.Expr) c27v {
	eq := func(b bool) c27v {
		if op == token.NEQ {
			return c27bool{!b}
		}
		return c27bool{b}
	}
	unknown := c27unk{path: "cond:" + exprStr(at)}
	if _, ok := r.(c27nil); !ok {
		if _, ok := l.(c27nil); ok {
			l, r = r, l
		}
	}
	if _, ok := r.(c27nil); ok && (op == token.EQL || op == token.NEQ) {
		switch l := l.(type) {
		case c27nil:
			return eq(true)
		case *c27node:
			return eq(!ev.present(l))
		case *c27slice:
			return eq(ev.length(l) == 0)
		}
		return unknown
	}
	switch lv := l.(type) {
	case c27int:
		switch rv := r.(type) {
		case c27int:
			return c27bool{c27cmpInt(op, lv.v, rv.v)}
		case c27unk:
			return ev.compare(f, c27flip(op), r, l, at)
		}
	case c27bool:
		if rv, ok := r.(c27bool); ok && (op == token.EQL || op == token.NEQ) {
			return eq(lv.v == rv.v)
		}
	case c27unk:
		if rv, ok := r.(c27int); ok && lv.lenOf != "" {
			if ev.emptiness(lv.lenOf) {
				return c27bool{c27cmpInt(op, 0, rv.v)}
			}
			if a, b := c27cmpInt(op, 1, rv.v), c27cmpInt(op, 1<<40, rv.v); a == b {
				return c27bool{a}
			}
		}
	case c27str:
		rv, ok := r.(c27str)
		if !ok {
			break
		}
		ls, lok := c27allLit(lv)
		rs, rok := c27allLit(rv)
		if lok && rok {
			switch op {
			case token.EQL:
				return c27bool{ls == rs}
			case token.NEQ:
				return c27bool{ls != rs}
			}
			break
		}
		if lok && !rok {
			lv, rv, ls, rs, lok, rok = rv, lv, rs, ls, rok, lok
		}
		if p, isF := c27fieldRef(lv); isF && rok && rs == "" && (op == token.EQL || op == token.NEQ) {
			return eq(ev.emptiness(p))
		}
	case *c27node:
		if rv, ok := r.(*c27node); ok && lv == rv && (op == token.EQL || op == token.NEQ) {
			return eq(true)
		}
	}
	return unknown
}

func (ev *c27ev) constVal(f *c27frame, e ast.Expr) (c27v, bool) {
	tv, ok := f.info.Types[e]
	if !ok {
		return nil, false
	}
	if tv.IsNil() {
		return c27nil{}, true
	}
	if tv.Value == nil {
		return nil, false
	}
	switch tv.Value.Kind() {
	case constant.Bool:
		return c27bool{constant.BoolVal(tv.Value)}, true
	case constant.String:
		return ev.lit(f, constant.StringVal(tv.Value)), true
	case constant.Int:
		if v, ok := constant.Int64Val(tv.Value); ok {
			return c27int{v}, true
		}
	}
	return c27unk{}, true
}

func (ev *c27ev) global(f *c27frame, v *types.Var) c27v {
	if x, ok := ev.globals[v]; ok {
		return x
	}
	var x c27v
	if init, _, pk := ev.r.P.pkgVarInit("ast", v.Name()); init != nil && pk != nil {
		if _, isLit := ast.Unparen(init).(*ast.CompositeLit); isLit {
			x = ev.eval(&c27frame{vars: map[types.Object]c27v{}, info: pk.TypesInfo, fi: f.fi, owner: f.owner}, init)
		} else if cv, ok := ev.constVal(&c27frame{info: pk.TypesInfo, owner: f.owner}, init); ok {
			// a flag of the package: both settings are modes of the printer
			if b, isB := cv.(c27bool); isB {
				_ = b
				k := ev.choose(2)
				ev.record("global:"+v.Name(), strconv.FormatBool(k == 1))
				x = c27bool{k == 1}
			} else {
				x = cv
			}
		}
	}
	if x == nil {
		x = ev.fresh("global:"+v.Name(), v.Type(), "", 0)
	}
	ev.globals[v] = x
	return x
}

func (ev *c27ev) eval(f *c27frame, e ast.Expr) c27v {
	ev.tick()
	e = ast.Unparen(e)
	if v, ok := ev.constVal(f, e); ok {
		return v
	}
	switch e := e.(type) {
	case *ast.Ident:
		obj := f.info.Uses[e]
		if obj == nil {
			obj = f.info.Defs[e]
		}
		if v, ok := f.vars[obj]; ok {
			return v
		}
		if vr, ok := obj.(*types.Var); ok && vr.Pkg() != nil && vr.Parent() == vr.Pkg().Scope() {
			return ev.global(f, vr)
		}
		ev.failf("identifier %s", e.Name)
	case *ast.SelectorExpr:
		sel := f.info.Selections[e]
		if sel == nil || sel.Kind() != types.FieldVal {
			ev.failf("selector %s", exprStr(e))
		}
		v := ev.eval(f, e.X)
		if u, ok := v.(c27unk); ok {
			return c27unk{path: u.path + "." + e.Sel.Name}
		}
		nd := ev.deref(v)
		t := sel.Recv()
		idx := sel.Index()
		for k, i := range idx {
			if p, ok := t.Underlying().(*types.Pointer); ok {
				t = p.Elem()
			}
			st, ok := t.Underlying().(*types.Struct)
			if !ok {
				ev.failf("selector %s through %s", exprStr(e), typeStr(t))
			}
			fv := ev.field(nd, st.Field(i).Name())
			if k == len(idx)-1 {
				if s, ok := fv.(c27str); ok {
					if p, isF := c27fieldRef(s); isF && ev.strEmpty[p] == 1 {
						return c27str{}
					}
				}
				return fv
			}
			if u, ok := fv.(c27unk); ok {
				return c27unk{path: u.path + "." + e.Sel.Name}
			}
			nd = ev.deref(fv)
			t = st.Field(i).Type()
		}
	case *ast.StarExpr:
		return ev.eval(f, e.X)
	case *ast.CallExpr:
		return ev.call(f, e)
	case *ast.UnaryExpr:
		v := ev.eval(f, e.X)
		switch e.Op {
		case token.NOT:
			if b, ok := v.(c27bool); ok {
				return c27bool{!b.v}
			}
			return c27bool{!ev.truth(f, v, e.X)}
		case token.SUB:
			if i, ok := v.(c27int); ok {
				return c27int{-i.v}
			}
			return c27unk{}
		case token.AND:
			return v
		}
		ev.failf("unary %s", e.Op)
	case *ast.BinaryExpr:
		switch e.Op {
		case token.LAND:
			if !ev.truth(f, ev.eval(f, e.X), e.X) {
				return c27bool{false}
			}
			return c27bool{ev.truth(f, ev.eval(f, e.Y), e.Y)}
		case token.LOR:
			if ev.truth(f, ev.eval(f, e.X), e.X) {
				return c27bool{true}
			}
			return c27bool{ev.truth(f, ev.eval(f, e.Y), e.Y)}
		case token.EQL, token.NEQ, token.LSS, token.LEQ, token.GTR, token.GEQ:
			return ev.compare(f, e.Op, ev.eval(f, e.X), ev.eval(f, e.Y), e)
		case token.ADD, token.SUB, token.MUL, token.QUO, token.REM:
			return ev.arith(f, e.Op, ev.eval(f, e.X), ev.eval(f, e.Y))
		}
		ev.failf("binary %s", e.Op)
	case *ast.IndexExpr:
		x := ev.eval(f, e.X)
		i, ok := ev.eval(f, e.Index).(c27int)
		switch x := x.(type) {
		case *c27slice:
			if !ok {
				ev.failf("index %s is not known", exprStr(e.Index))
			}
			return ev.elem(x, int(i.v))
		case c27str, c27unk:
			return c27unk{}
		}
		ev.failf("index of %T", x)
	case *ast.SliceExpr:
		x, ok := ev.eval(f, e.X).(*c27slice)
		if !ok || e.Slice3 {
			ev.failf("slice expression %s", exprStr(e))
		}
		n := ev.length(x)
		lo, hi := 0, n
		if e.Low != nil {
			v, ok := ev.eval(f, e.Low).(c27int)
			if !ok {
				ev.failf("slice bound")
			}
			lo = int(v.v)
		}
		if e.High != nil {
			v, ok := ev.eval(f, e.High).(c27int)
			if !ok {
				ev.failf("slice bound")
			}
			hi = int(v.v)
		}
		if lo < 0 || hi > n || lo > hi {
			ev.halt()
		}
		out := &c27slice{path: x.path, elemT: x.elemT, lenSt: hi - lo, fixed: true}
		for i := lo; i < hi; i++ {
			out.elems = append(out.elems, ev.elem(x, i))
		}
		return out
	case *ast.TypeAssertExpr:
		v, ok := ev.assert(f, e)
		if !ok {
			ev.halt()
		}
		return v
	case *ast.FuncLit:
		return &c27closure{e, f}
	case *ast.CompositeLit:
		t := f.info.TypeOf(e)
		var elemT types.Type
		switch u := t.Underlying().(type) {
		case *types.Slice:
			elemT = u.Elem()
		case *types.Array:
			elemT = u.Elem()
		default:
			ev.failf("composite literal of %s", typeStr(t))
		}
		out := &c27slice{elemT: elemT, fixed: true}
		next := 0
		for _, el := range e.Elts {
			val := el
			if kv, ok := el.(*ast.KeyValueExpr); ok {
				k, ok := ev.eval(f, kv.Key).(c27int)
				if !ok {
					ev.failf("literal key")
				}
				next, val = int(k.v), kv.Value
			}
			for len(out.elems) <= next {
				out.elems = append(out.elems, ev.zero(elemT))
			}
			out.elems[next] = ev.eval(f, val)
			next++
		}
		if a, ok := t.Underlying().(*types.Array); ok {
			for int64(len(out.elems)) < a.Len() {
				out.elems = append(out.elems, ev.zero(elemT))
			}
		}
		out.lenSt = len(out.elems)
		return out
	}
	ev.failf("expression %s (%T) in %s", exprStr(e), e, f.fi.Name())
	return nil
}

func (ev *c27ev) refsOf(f *c27frame, v c27v, how string) c27str {
	s := ev.asStr(f, v)
	var out []c27piece
	for _, p := range s.ps {
		if p.ref != nil {
			out = append(out, c27piece{ref: &c27ref{p.ref.path, how}})
		}
	}
	return c27str{out}
}

func (ev *c27ev) sprintf(f *c27frame, format string, args []c27v) c27str {
	var out c27str
	var lit strings.Builder
	flush := func() {
		if lit.Len() > 0 {
			out = c27concat(out, ev.lit(f, lit.String()))
			lit.Reset()
		}
	}
	ai := 0
	for i := 0; i < len(format); i++ {
		ch := format[i]
		if ch != '%' {
			lit.WriteByte(ch)
			continue
		}
		i++
		for i < len(format) && strings.IndexByte("+-# 0123456789.", format[i]) >= 0 {
			i++
		}
		if i >= len(format) {
			break
		}
		if format[i] == '%' {
			lit.WriteByte('%')
			continue
		}
		flush()
		if ai >= len(args) {
			ev.failf("format %q has too few arguments", format)
		}
		a := args[ai]
		ai++
		if format[i] == 'q' {
			if s, ok := a.(c27str); ok {
				if l, ok := c27allLit(s); ok {
					out = c27concat(out, ev.lit(f, strconv.Quote(l)))
					continue
				}
			}
			out = c27concat(out, ev.refsOf(f, a, "quote"))
			continue
		}
		out = c27concat(out, ev.asStr(f, a))
	}
	flush()
	return out
}

func (ev *c27ev) call(f *c27frame, e *ast.CallExpr) c27v {
	// conversion
	if tv, ok := f.info.Types[e.Fun]; ok && tv.IsType() {
		if len(e.Args) != 1 {
			ev.failf("conversion %s", exprStr(e))
		}
		v := ev.eval(f, e.Args[0])
		if b, ok := tv.Type.Underlying().(*types.Basic); ok && b.Info()&types.IsString != 0 {
			if _, isInt := v.(c27int); isInt {
				return c27unk{}
			}
			return ev.asStr(f, v)
		}
		return v
	}
	if id, ok := ast.Unparen(e.Fun).(*ast.Ident); ok {
		if _, isB := f.info.Uses[id].(*types.Builtin); isB {
			switch id.Name {
			case "panic":
				ev.halt()
			case "len":
				switch v := ev.eval(f, e.Args[0]).(type) {
				case *c27slice:
					return c27int{int64(ev.length(v))}
				case c27str:
					if l, ok := c27allLit(v); ok {
						return c27int{int64(len(l))}
					}
					if p, ok := c27fieldRef(v); ok {
						return c27unk{path: p + "#len", lenOf: p}
					}
					return c27unk{}
				case c27nil:
					return c27int{0}
				}
				return c27unk{}
			case "append":
				base, ok := ev.eval(f, e.Args[0]).(*c27slice)
				if !ok || e.Ellipsis.IsValid() {
					if _, isNil := ev.eval(f, e.Args[0]).(c27nil); !isNil || e.Ellipsis.IsValid() {
						ev.failf("append shape")
					}
					base = &c27slice{lenSt: 0, fixed: true}
				}
				out := &c27slice{path: base.path, elemT: base.elemT, fixed: true}
				for i := 0; i < ev.length(base); i++ {
					out.elems = append(out.elems, ev.elem(base, i))
				}
				for _, a := range e.Args[1:] {
					out.elems = append(out.elems, ev.eval(f, a))
				}
				out.lenSt = len(out.elems)
				return out
			case "make":
				t := f.info.TypeOf(e)
				if sl, ok := t.Underlying().(*types.Slice); ok {
					n := 0
					if len(e.Args) > 1 {
						v, ok := ev.eval(f, e.Args[1]).(c27int)
						if !ok {
							ev.failf("make with unknown length")
						}
						n = int(v.v)
					}
					out := &c27slice{elemT: sl.Elem(), fixed: true, lenSt: n}
					for i := 0; i < n; i++ {
						out.elems = append(out.elems, ev.zero(sl.Elem()))
					}
					return out
				}
			}
			ev.failf("builtin %s", id.Name)
		}
	}
	fn := callee(f.info, e)
	if fn == nil {
		if id, ok := ast.Unparen(e.Fun).(*ast.Ident); ok {
			if cl, ok := f.vars[f.info.Uses[id]].(*c27closure); ok {
				var as []c27v
				for _, a := range e.Args {
					as = append(as, ev.eval(f, a))
				}
				return ev.callClosure(cl, as)
			}
		}
		ev.failf("call of %s", exprStr(e.Fun))
	}
	sig := fn.Type().(*types.Signature)
	var args []c27v
	evalArgs := func() []c27v {
		if args == nil {
			args = []c27v{}
			for _, a := range e.Args {
				args = append(args, ev.eval(f, a))
			}
			// a variadic function of the package receives its extra arguments as a list
			if sig.Variadic() && !e.Ellipsis.IsValid() && ev.decls[fn] != nil {
				k := sig.Params().Len() - 1
				if len(args) >= k {
					rest := &c27slice{fixed: true, lenSt: len(args) - k, elems: append([]c27v(nil), args[k:]...)}
					if sl, ok := sig.Params().At(k).Type().(*types.Slice); ok {
						rest.elemT = sl.Elem()
					}
					args = append(args[:k:k], rest)
				}
			}
		}
		return args
	}
	byResult := func(paths string) c27v {
		if sig.Results().Len() != 1 {
			return nil
		}
		if b, ok := sig.Results().At(0).Type().Underlying().(*types.Basic); ok {
			switch {
			case b.Info()&types.IsString != 0:
				var out c27str
				for _, a := range evalArgs() {
					if _, isS := a.(c27str); isS {
						out = c27concat(out, ev.refsOf(f, a, "call"))
					}
				}
				return out
			case b.Info()&types.IsBoolean != 0:
				return c27unk{path: "call:" + exprStr(e)}
			}
		}
		return c27unk{}
	}
	// method call
	if se, ok := ast.Unparen(e.Fun).(*ast.SelectorExpr); ok {
		if sel := f.info.Selections[se]; sel != nil && sel.Kind() == types.MethodVal {
			recv := ev.eval(f, se.X)
			switch rv := recv.(type) {
			case *c27builder:
				switch fn.Name() {
				case "WriteString":
					rv.ps = append(rv.ps, ev.asStr(f, evalArgs()[0]).ps...)
					return c27tuple{c27unk{}, c27nil{}}
				case "WriteByte", "WriteRune":
					if c, ok := evalArgs()[0].(c27int); ok {
						rv.ps = append(rv.ps, ev.lit(f, string(rune(c.v))).ps...)
						return c27nil{}
					}
					ev.failf("%s of a non-constant", fn.Name())
				case "String":
					return c27str{append([]c27piece(nil), rv.ps...)}
				case "Len":
					return c27unk{}
				case "Grow":
					return nil
				case "Reset":
					rv.ps = nil
					return nil
				}
				ev.failf("strings.Builder.%s", fn.Name())
			case c27int:
				if fi := ev.decls[fn]; fi != nil {
					return ev.invoke(fi, rv, evalArgs(), f.owner)
				}
				return byResult("")
			case *c27node:
				isString := fn.Name() == "String" && sig.Params().Len() == 0 && sig.Results().Len() == 1
				if !ev.present(rv) {
					ev.halt()
				}
				if isString && !rv.expand {
					return c27str{[]c27piece{{ref: &c27ref{rv.path, "String"}}}}
				}
				target := fn
				if _, isI := sig.Recv().Type().Underlying().(*types.Interface); isI {
					if rv.dyn == nil {
						if isString {
							return c27str{[]c27piece{{ref: &c27ref{rv.path, "String"}}}}
						}
						ev.failf("method %s of a node of undetermined type", fn.Name())
					}
					ms := types.NewMethodSet(types.NewPointer(rv.dyn))
					m := ms.Lookup(fn.Pkg(), fn.Name())
					if m == nil {
						ev.failf("no method %s on %s", fn.Name(), rv.dyn.Obj().Name())
					}
					if len(m.Index()) != 1 {
						return byResult("")
					}
					target = m.Obj().(*types.Func)
				} else if len(sel.Index()) != 1 {
					return byResult("")
				}
				fi := ev.decls[target]
				if fi == nil {
					return byResult("")
				}
				return ev.invoke(fi, rv, evalArgs(), rv.path)
			case c27nil:
				ev.halt()
			case c27unk, c27str:
				if fn.Name() == "String" && sig.Params().Len() == 0 {
					return ev.asStr(f, recv)
				}
				return byResult("")
			}
			ev.failf("method call on %T (%s)", recv, exprStr(e))
		}
	}
	// function of the package
	if fi := ev.decls[fn]; fi != nil && fi.Decl.Recv == nil {
		return ev.invoke(fi, nil, evalArgs(), f.owner)
	}
	full := ""
	if fn.Pkg() != nil {
		full = fn.Pkg().Path() + "." + fn.Name()
	}
	a := evalArgs()
	if strings.HasPrefix(full, "fmt.") {
		// fmt prints a value with a String method through that method
		a = append([]c27v(nil), a...)
		for i, x := range a {
			iv, ok := x.(c27int)
			if !ok || i >= len(e.Args) {
				continue
			}
			if nt, ok := f.info.TypeOf(e.Args[i]).(*types.Named); ok {
				for k := 0; k < nt.NumMethods(); k++ {
					if m := nt.Method(k); m.Name() == "String" && ev.decls[m] != nil {
						a[i] = ev.invoke(ev.decls[m], iv, nil, f.owner)
					}
				}
			}
		}
	}
	switch full {
	case "fmt.Fprintf", "fmt.Fprint", "io.WriteString":
		b, ok := a[0].(*c27builder)
		if !ok {
			ev.failf("%s to %T", full, a[0])
		}
		switch full {
		case "fmt.Fprintf":
			if s, ok := a[1].(c27str); ok {
				if l, ok := c27allLit(s); ok {
					b.ps = append(b.ps, ev.sprintf(f, l, a[2:]).ps...)
					return c27tuple{c27unk{}, c27nil{}}
				}
			}
			ev.failf("Fprintf with a non-constant format")
		default:
			for _, x := range a[1:] {
				b.ps = append(b.ps, ev.asStr(f, x).ps...)
			}
		}
		return c27tuple{c27unk{}, c27nil{}}
	case "fmt.Sprintf":
		if s, ok := a[0].(c27str); ok {
			if l, ok := c27allLit(s); ok {
				return ev.sprintf(f, l, a[1:])
			}
		}
		ev.failf("Sprintf with a non-constant format")
	case "fmt.Sprint":
		var out c27str
		for _, x := range a {
			out = c27concat(out, ev.asStr(f, x))
		}
		return out
	case "strconv.Quote":
		if s, ok := a[0].(c27str); ok {
			if l, ok := c27allLit(s); ok {
				return ev.lit(f, strconv.Quote(l))
			}
		}
		return ev.refsOf(f, a[0], "quote")
	case "strconv.Itoa":
		return ev.asStr(f, a[0])
	case "strings.Repeat":
		s, sok := a[0].(c27str)
		n, nok := a[1].(c27int)
		if sok && nok {
			if l, ok := c27allLit(s); ok && n.v >= 0 && n.v < 64 {
				return ev.lit(f, strings.Repeat(l, int(n.v)))
			}
		}
		return c27str{[]c27piece{{ref: &c27ref{"repeat:" + exprStr(e), "call"}}}}
	case "strings.Join":
		sl, ok := a[0].(*c27slice)
		if !ok {
			ev.failf("strings.Join of %T", a[0])
		}
		var out c27str
		for i := 0; i < ev.length(sl); i++ {
			if i > 0 {
				out = c27concat(out, ev.asStr(f, a[1]))
			}
			out = c27concat(out, ev.asStr(f, ev.elem(sl, i)))
		}
		return out
	case "strings.HasPrefix", "strings.HasSuffix", "strings.Contains":
		ls, lok := a[0].(c27str)
		rs, rok := a[1].(c27str)
		if lok && rok {
			l, lk := c27allLit(ls)
			r, rk := c27allLit(rs)
			if lk && rk {
				switch fn.Name() {
				case "HasPrefix":
					return c27bool{strings.HasPrefix(l, r)}
				case "HasSuffix":
					return c27bool{strings.HasSuffix(l, r)}
				}
				return c27bool{strings.Contains(l, r)}
			}
		}
	}
	return byResult("")
}

// ---------------------------------------------------------------------------
// Helpers shared by the rules.

// c27stringMethods lists the String methods of the struct types of package ast.
func (c *c27) stringMethods() []*FuncInfo {
	var out []*FuncInfo
	for _, fi := range c.r.P.Funcs("ast") {
		if fi.Obj == nil || c.r.P.isTestFile(fi.File) || fi.Decl.Recv == nil || fi.Decl.Name.Name != "String" {
			continue
		}
		sig := fi.Obj.Type().(*types.Signature)
		if sig.Params().Len() != 0 || sig.Results().Len() != 1 {
			continue
		}
		if b, ok := sig.Results().At(0).Type().Underlying().(*types.Basic); !ok || b.Info()&types.IsString == 0 {
			continue
		}
		nt := c.x.inAst(sig.Recv().Type())
		if nt == nil {
			continue
		}
		if _, ok := nt.Underlying().(*types.Struct); !ok {
			continue
		}
		out = append(out, fi)
	}
	sort.Slice(out, func(i, j int) bool { return out[i].Name() < out[j].Name() })
	return out
}

func (c *c27) recvNamed(fi *FuncInfo) *types.Named {
	return c.x.inAst(fi.Obj.Type().(*types.Signature).Recv().Type())
}

// c27runsOf evaluates method fi on an unconstrained receiver (cached).
func (c *c27) runsOf(fi *FuncInfo) ([]*c27run, string) {
	if c27cache == nil {
		c27cache = map[*types.Func]*c27cached{}
	}
	if x := c27cache[fi.Obj]; x != nil {
		return x.runs, x.inc
	}
	ev := c27newEv(c)
	nt := c.recvNamed(fi)
	runs, inc := ev.explore(60000, func() (c27v, *c27node) {
		recv := ev.newNode("n", nt)
		return ev.invoke(fi, recv, nil, "n"), recv
	})
	c27cache[fi.Obj] = &c27cached{runs, inc}
	return runs, inc
}

type c27cached struct {
	runs []*c27run
	inc  string
}

var c27cache map[*types.Func]*c27cached

// c27unreadable reports the first reason a set of runs cannot be used, "" when all were read.
func c27unreadable(runs []*c27run, inc string) string {
	if inc != "" {
		return inc
	}
	for _, r := range runs {
		if r.fail != "" {
			return r.fail
		}
	}
	return ""
}
