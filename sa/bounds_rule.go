package main

// Driver of engine E6: turns the sites of a set of functions into obligations, lifting unproved
// goals to preconditions checked at every static call site (DESIGN.md §5 C04 R-2, C05 R-4).

import (
	"fmt"
	"go/ast"
	"go/token"
	"go/types"
	"os"
	"sort"
	"strings"

	"golang.org/x/tools/go/cfg"
)

type boundsException struct {
	construct string // fn#expr  or  caller#call:expr (a call site whose precondition holds by a non-local invariant)
	reason    string
}

type boundsConfig struct {
	rule       string
	funcs      []*FuncInfo       // functions whose sites are obligations
	allFuncs   []*FuncInfo       // functions that may contain call sites (the package)
	exceptions []boundsException // reviewed sites safe by a non-local invariant
	maxDepth   int
	exc        map[string]string
	usedExc    map[string]bool
	noLift     map[*types.Func]bool // entry points: an unproved goal there cannot be lifted
	liftCache  map[string]liftResult
}

// excFor looks an exception up by the α-renamed key of the site; a listed key may end its index part with
// '*' (see constructMatches) so that b[j], b[j+1], b[j+2] of one counting argument are one exception.
func (cfg *boundsConfig) excFor(ekey string) (string, bool) {
	if why, ok := cfg.exc[ekey]; ok {
		return why, true
	}
	for pat, why := range cfg.exc {
		if strings.Contains(pat, "*") && constructMatches(pat, ekey) {
			return why, true
		}
	}
	return "", false
}

func (cfg *boundsConfig) markUsed(ekey string) {
	if _, ok := cfg.exc[ekey]; ok {
		cfg.usedExc[ekey] = true
		return
	}
	for pat := range cfg.exc {
		if strings.Contains(pat, "*") && constructMatches(pat, ekey) {
			cfg.usedExc[pat] = true
		}
	}
}

func runBounds(r *Run, cfg boundsConfig) {
	if cfg.maxDepth == 0 {
		cfg.maxDepth = 3
	}
	ba := newBoundsAnalysis(r.P, cfg.allFuncs)
	cfg.exc = map[string]string{}
	for _, e := range cfg.exceptions {
		cfg.exc[e.construct] = e.reason
	}
	cfg.usedExc = map[string]bool{}
	cfg.liftCache = map[string]liftResult{}
	if cfg.noLift == nil {
		cfg.noLift = map[*types.Func]bool{}
	}
	sort.Slice(cfg.funcs, func(i, j int) bool { return cfg.funcs[i].Name() < cfg.funcs[j].Name() })
	nsites := 0
	for _, fi := range cfg.funcs {
		sites := ba.analyse(fi, nil)
		for _, st := range sites {
			nsites++
			construct := fi.Name() + "#" + st.Desc
			ekey := fi.Name() + "#" + alphaStr(fi.Pkg.TypesInfo, st.Node) // exception key: locals α-renamed
			if len(st.Goals) == 0 {
				// not linear
				if why, ok := cfg.excFor(ekey); ok {
					cfg.markUsed(ekey)
					r.Ob(cfg.rule, construct, st.Node.Pos()).OK("reviewed exception: %s", why)
				} else {
					r.Ob(cfg.rule, construct, st.Node.Pos()).Unknown("index expression is not linear in tracked terms (%s); needs review", strings.Join(st.GoalDs, "; "))
				}
				continue
			}
			allProved := true
			var facts []string
			var missing []int
			for i := range st.Goals {
				if st.Proved[i] {
					facts = append(facts, st.GoalDs[i]+" ⇐ "+st.Facts[i])
				} else {
					allProved = false
					missing = append(missing, i)
				}
			}
			if allProved {
				r.Ob(cfg.rule, construct, st.Node.Pos()).OK("%s", strings.Join(facts, "; "))
				continue
			}
			if why, ok := cfg.excFor(ekey); ok {
				cfg.markUsed(ekey)
				r.Ob(cfg.rule, construct, st.Node.Pos()).OK("reviewed exception: %s", why)
				continue
			}
			// try to lift every missing goal to the callers
			var liftNotes []string
			lifted := true
			for _, gi := range missing {
				note, ok := ba.lift(r, &cfg, fi, st.Node, st.Goals[gi], 1, map[string]bool{})
				liftNotes = append(liftNotes, note)
				if !ok {
					lifted = false
				}
			}
			if lifted {
				r.Ob(cfg.rule, construct, st.Node.Pos()).OK("%s; by precondition checked at every call site: %s", strings.Join(facts, "; "), strings.Join(liftNotes, " | "))
				continue
			}
			if st.TwoSym {
				r.Stats["two_symbolic_bound_slices"]++
			}
			var miss []string
			for _, gi := range missing {
				miss = append(miss, st.GoalDs[gi])
			}
			o := r.Ob(cfg.rule, construct, st.Node.Pos())
			o.Bad("no guard on every path implies %s (facts at the site: %s) %s [key %s]", strings.Join(miss, " and "), factList(st.state), strings.Join(liftNotes, " | "), ekey)
		}
	}
	for _, e := range cfg.exceptions {
		if !cfg.usedExc[e.construct] {
			r.Note("exception not needed any more (site proved, lifted or gone): %s", e.construct)
		}
	}
	r.Stats[cfg.rule+"_sites"] = nsites
	r.Stats[cfg.rule+"_functions"] = len(cfg.funcs)
	r.Stats[cfg.rule+"_exceptions_used"] = len(cfg.usedExc)
}

func factList(s *bstate) string {
	if s == nil {
		return "none"
	}
	var fs []string
	for _, f := range s.le {
		fs = append(fs, prettyLin(f)+" ≤ 0")
	}
	sort.Strings(fs)
	if len(fs) > 8 {
		fs = append(fs[:8], "…")
	}
	return strings.Join(fs, ", ")
}

func prettyLin(l lin) string { return stripPos(l.String()) }

func factListAll(s *bstate) string {
	var fs []string
	for _, f := range s.le {
		fs = append(fs, prettyLin(f)+" ≤ 0")
	}
	for _, f := range s.ne {
		fs = append(fs, prettyLin(f)+" ≠ 0")
	}
	sort.Strings(fs)
	return strings.Join(fs, ", ")
}

// preCandidates lists the entry assumptions tried for an unproved goal, weakest first: the goal itself
// (weakened by 2, 1, 0) when it only mentions parameters / receiver fields, then templates relating an
// integer parameter to the length of a slice the goal mentions, then small constant lower bounds of it.
func (bf *boundsFunc) preCandidates(goal lin) []lin {
	var out []lin
	if bf.rootsUnmodified(goal) {
		for w := int64(2); w >= 0; w-- {
			c := goal.clone()
			c.c -= w
			out = append(out, c)
		}
	}
	roots := bf.paramRoots()
	var lens []string
	for t := range goal.t {
		kind, root, _ := termRoot(t)
		if _, ok := roots[root]; ok && kind == "len" {
			lens = append(lens, t)
		}
	}
	sort.Strings(lens)
	sig := bf.fi.Obj.Type().(*types.Signature)
	for _, ln := range lens {
		for i := 0; i < sig.Params().Len(); i++ {
			p := sig.Params().At(i)
			if !isIntType(p.Type()) {
				continue
			}
			for _, k := range []int64{0, 1} {
				c := newLin()
				c.t["v:"+objKey(p)] = 1
				c.t[ln] = -1
				c.c = k
				out = append(out, c)
			}
		}
		for k := int64(1); k <= 4; k++ {
			c := newLin()
			c.t[ln] = -1
			c.c = k
			out = append(out, c)
		}
	}
	return out
}

// lift looks for an entry assumption that proves goal at site; the assumption then becomes an
// obligation at every static call site of fi (recursively, up to maxDepth).
func (ba *boundsAnalysis) lift(r *Run, cfg *boundsConfig, fi *FuncInfo, site ast.Node, goal lin, depth int, active map[string]bool) (string, bool) {
	if depth > cfg.maxDepth {
		return "lifting depth exceeded", false
	}
	if cfg.noLift[fi.Obj] {
		return fi.Name() + " is an entry point (goroutine entry / no caller establishes anything): nothing to lift to", false
	}
	ckey0 := fmt.Sprintf("%s|%d|%s", fi.Name(), site.Pos(), goal.String())
	if res, ok := cfg.liftCache[ckey0]; ok {
		return res.note, res.ok
	}
	note, ok := ba.lift1(r, cfg, fi, site, goal, depth, active)
	if note != "recursive precondition" {
		cfg.liftCache[ckey0] = liftResult{note, ok}
	}
	return note, ok
}

type liftResult struct {
	note string
	ok   bool
}

func (ba *boundsAnalysis) lift1(r *Run, cfg *boundsConfig, fi *FuncInfo, site ast.Node, goal lin, depth int, active map[string]bool) (string, bool) {
	bf := ba.results[fi.Obj]
	if bf == nil {
		ba.analyse(fi, nil)
		bf = ba.results[fi.Obj]
	}
	var pre lin
	found := false
	for _, cand := range bf.preCandidates(goal) {
		bf2 := &boundsFunc{ba: ba, fi: fi, info: fi.Pkg.TypesInfo, cfg: ba.p.CFGOf(fi), pre: []lin{cand}}
		bf2.run()
		s := bf2.stateAt(site)
		if s == nil {
			continue
		}
		ok, _ := s.proves(goal)
		if os.Getenv("BOUNDS_DEBUG") == fi.Decl.Name.Name {
			fmt.Fprintf(os.Stderr, "lift %s goal %s cand %s -> %v; facts at site: %s\n", fi.Decl.Name.Name, prettyLin(goal), prettyLin(cand), ok, factListAll(s))
		}
		if ok {
			pre, found = cand, true
			break
		}
	}
	if !found {
		return "no precondition over the parameters proves the site", false
	}
	key := fi.Name() + "|" + pre.String()
	if active[key] {
		return "recursive precondition", false
	}
	active[key] = true
	defer delete(active, key)
	var notes []string
	ncalls := 0
	okAll := true
	for _, caller := range cfg.allFuncs {
		info := caller.Pkg.TypesInfo
		var callSites []*ast.CallExpr
		escapes := false
		ast.Inspect(caller.Decl.Body, func(n ast.Node) bool {
			switch x := n.(type) {
			case *ast.CallExpr:
				if callee(info, x) == fi.Obj {
					callSites = append(callSites, x)
				}
			}
			return true
		})
		// function / method values: call sites unknowable
		ast.Inspect(caller.Decl.Body, func(n ast.Node) bool {
			var id *ast.Ident
			switch x := n.(type) {
			case *ast.Ident:
				id = x
			case *ast.SelectorExpr:
				id = x.Sel
			}
			if id != nil && info.Uses[id] == fi.Obj {
				par := r.P.Parents(caller.File)[n]
				if sel, ok := par.(*ast.SelectorExpr); ok && sel.Sel == id {
					par = r.P.Parents(caller.File)[par]
					n = sel
				}
				if c, ok := par.(*ast.CallExpr); !ok || ast.Unparen(c.Fun) != n {
					escapes = true
				}
			}
			return true
		})
		if escapes {
			okAll = false
			notes = append(notes, fmt.Sprintf("%s uses %s as a value: call sites unknown", caller.Name(), fi.Decl.Name.Name))
		}
		if len(callSites) == 0 {
			continue
		}
		cbf := ba.results[caller.Obj]
		if cbf == nil {
			ba.analyse(caller, nil)
			cbf = ba.results[caller.Obj]
		}
		ord := map[string]int{}
		for _, c := range callSites {
			ncalls++
			ckey := caller.Name() + "#call:" + exprStr(c)
			ekey := caller.Name() + "#call:" + alphaStr(info, c)
			ord[ekey]++
			if ord[ekey] > 1 {
				ckey = fmt.Sprintf("%s~%d", ckey, ord[ekey])
				ekey = fmt.Sprintf("%s~%d", ekey, ord[ekey])
			}
			inst, ok := cbf.instantiate(bf, pre, c)
			if !ok {
				if why, has := cfg.excFor(ekey); has {
					cfg.markUsed(ekey)
					notes = append(notes, fmt.Sprintf("%s: reviewed exception: %s", ckey, why))
					continue
				}
				okAll = false
				notes = append(notes, fmt.Sprintf("%s: cannot express the precondition at the call", ckey))
				continue
			}
			s := cbf.stateAt(c)
			if s == nil {
				continue // unreachable call
			}
			if ok, fact := s.proves(inst); ok {
				notes = append(notes, fmt.Sprintf("%s ⊢ %s ≤ 0 ⇐ %s", ckey, prettyLin(inst), fact))
				continue
			}
			if why, has := cfg.excFor(ekey); has {
				cfg.markUsed(ekey)
				notes = append(notes, fmt.Sprintf("%s: reviewed exception: %s", ckey, why))
				continue
			}
			note, ok := ba.lift(r, cfg, caller, c, inst, depth+1, active)
			if !ok {
				okAll = false
				notes = append(notes, fmt.Sprintf("%s does not establish %s ≤ 0 (facts: %s; %s)", ckey, prettyLin(inst), factList(s), note))
			} else {
				notes = append(notes, fmt.Sprintf("%s lifts it further: %s", ckey, note))
			}
		}
	}
	if ncalls == 0 {
		return "no static call site found for " + fi.Name(), false
	}
	return fmt.Sprintf("pre(%s): %s ≤ 0 [%s]", fi.Decl.Name.Name, prettyLin(pre), strings.Join(notes, "; ")), okAll
}

// instantiate rewrites a precondition of callee (terms rooted at its parameters / receiver) into the
// caller's terms at call c.
func (cbf *boundsFunc) instantiate(callee *boundsFunc, pre lin, c *ast.CallExpr) (lin, bool) {
	roots := callee.paramRoots()
	out := newLin()
	out.c = pre.c
	for t, co := range pre.t {
		kind, root, rest := termRoot(t)
		idx, ok := roots[root]
		if !ok {
			return lin{}, false
		}
		var argExpr ast.Expr
		if idx == -1 {
			sel, ok := c.Fun.(*ast.SelectorExpr)
			if !ok {
				return lin{}, false
			}
			argExpr = sel.X
		} else {
			if idx >= len(c.Args) || c.Ellipsis.IsValid() {
				return lin{}, false
			}
			argExpr = c.Args[idx]
		}
		var repl lin
		switch {
		case rest == "" && kind == "v":
			repl, ok = cbf.linOf(argExpr)
		case rest == "" && kind == "len":
			repl, ok = cbf.lenOf(argExpr)
		default:
			var pk string
			pk, ok = cbf.pathKey(argExpr)
			if ok {
				repl = newLin()
				switch kind {
				case "len":
					repl.t["len("+pk+rest+")"] = 1
				case "f", "v":
					repl.t["f:"+pk+rest] = 1
				}
			}
		}
		if !ok {
			return lin{}, false
		}
		out = out.add(repl, co)
	}
	return out, true
}

// funcsReachableInPkg returns the functions of the package statically reachable from roots (callees
// resolved by type information; function literals belong to their enclosing declaration).
func funcsReachableInPkg(p *Prog, all []*FuncInfo, roots ...*FuncInfo) []*FuncInfo {
	byObj := map[*types.Func]*FuncInfo{}
	for _, f := range all {
		byObj[f.Obj] = f
	}
	seen := map[*types.Func]bool{}
	var out []*FuncInfo
	var walk func(f *FuncInfo)
	walk = func(f *FuncInfo) {
		if f == nil || seen[f.Obj] {
			return
		}
		seen[f.Obj] = true
		out = append(out, f)
		info := f.Pkg.TypesInfo
		ast.Inspect(f.Decl.Body, func(n ast.Node) bool {
			switch x := n.(type) {
			case *ast.CallExpr:
				if c := callee(info, x); c != nil {
					walk(byObj[c])
				}
			case *ast.Ident:
				if fn, ok := info.Uses[x].(*types.Func); ok {
					walk(byObj[fn])
				}
			case *ast.SelectorExpr:
				if fn, ok := info.Uses[x.Sel].(*types.Func); ok {
					walk(byObj[fn])
				}
			}
			return true
		})
	}
	for _, r := range roots {
		walk(r)
	}
	return out
}

func blockPos(b *cfg.Block) token.Pos {
	if len(b.Nodes) > 0 {
		return b.Nodes[0].Pos()
	}
	if b.Stmt != nil {
		return b.Stmt.Pos()
	}
	return token.NoPos
}

func succIdx(b *cfg.Block) []int32 {
	var out []int32
	for _, s := range b.Succs {
		out = append(out, s.Index)
	}
	return out
}
