package main

// C17 R-6 (added after seeded changes C17-1 and C17-9): a variable referred to inside nested functions
// is recorded as an up value of EVERY enclosing function, whatever the kind of reference.
//
// A function literal (every macro declared in the body of a template is one) reaches a template global
// through its own slice of captured variables; the emitter allocates one slot of that slice for each
// entry of ast.Func.Upvars and, when an entry is missing, falls back to the variable's index in the
// globals, which at run time indexes the literal's own slice: the reference reads or writes another
// captured variable, or Run panics in the host. So, wherever the type checker appends to Func.Upvars:
//
//	(a) the append is made to the value variable of a range over the whole list of enclosing functions
//	    (the result of a call, not a slice or an element of it);
//	(b) the membership test that guards it reads the Upvars of that same function, not of another one
//	    (a function can already have the variable while a function nested in it has not);
//	(c) it does not depend on the parameter that says whether the reference counts as a "use" (the
//	    target of a plain assignment is checked with used=false and still needs the slot);
//	(d) the range is not left early (break out of it, return).

import (
	"go/ast"
	"go/token"
	"go/types"
)

func init() {
	p := registry["C17"]
	if p == nil {
		return
	}
	run := p.run
	p.run = func(r *Run) { run(r); c17Upvars(r) }
	p.explain += " R-6: every append to ast.Func.Upvars in the type checker is made to the value variable of a range over the whole list of enclosing functions (a call result, not a sub-slice), every other read of Upvars in that function has the same base as an append (the membership test is made on the function the up value is added to), the append is not guarded by the bool parameter that decides whether the identifier is marked as used, and the range is not left by break or return."
}

type c17upSite struct {
	as   *ast.AssignStmt
	base types.Object
	rng  *ast.RangeStmt
}

func c17Upvars(r *Run) {
	const R = "R-6"
	r.Require(R, 3)
	upF := c17structField(r.P.Named("ast", "Func"), "Upvars")
	scopesT := r.P.Named("internal/compiler", "scopes")
	if !r.Anchor(R, "ast.Func.Upvars and compiler.scopes", upF != nil && scopesT != nil) {
		return
	}
	fns := map[*types.Func]*FuncInfo{}
	for _, fi := range r.P.Funcs("internal/compiler") {
		if fi.Obj != nil && !r.P.isTestFile(fi.File) {
			fns[fi.Obj] = fi
		}
	}
	isScopesMethod := func(f *types.Func) bool {
		if f == nil {
			return false
		}
		sig, _ := f.Type().(*types.Signature)
		if sig == nil || sig.Recv() == nil {
			return false
		}
		t := sig.Recv().Type()
		if p, ok := t.(*types.Pointer); ok {
			t = p.Elem()
		}
		return types.Identical(t, scopesT)
	}
	// usedParams: the bool parameters of fi that guard a call, made for its effect, of a method of scopes
	// (scopes.Use: "mark the identifier as used"), and the locals computed from them.
	usedParams := func(fi *FuncInfo) map[types.Object]bool {
		info := fi.Pkg.TypesInfo
		c := r.P.CFGOf(fi)
		sig := fi.Obj.Type().(*types.Signature)
		out := map[types.Object]bool{}
		for i := 0; i < sig.Params().Len(); i++ {
			p := sig.Params().At(i)
			if b, ok := p.Type().Underlying().(*types.Basic); !ok || b.Kind() != types.Bool {
				continue
			}
			par := r.P.Parents(fi.File)
			for _, call := range calls(fi.Decl.Body, false) {
				// a method of scopes called for its effect (its result, if any, is discarded)
				if _, isStmt := par[ast.Node(call)].(*ast.ExprStmt); !isStmt || !isScopesMethod(callee(info, call)) {
					continue
				}
				if c.GuardedBy(call, func(l Lit) bool { return l.Tag == nil && l.Truth && cgxObj(info, l.Expr) == types.Object(p) }) {
					out[p] = true
				}
			}
		}
		if len(out) == 0 {
			return out
		}
		// locals assigned from an expression mentioning a tainted object
		for changed := true; changed; {
			changed = false
			ast.Inspect(fi.Decl.Body, func(n ast.Node) bool {
				as, ok := n.(*ast.AssignStmt)
				if !ok || len(as.Lhs) != len(as.Rhs) {
					return true
				}
				for i, l := range as.Lhs {
					o := cgxObj(info, l)
					if o == nil || out[o] {
						continue
					}
					for t := range out {
						if cgxMentions(info, as.Rhs[i], t) {
							out[o] = true
							changed = true
							break
						}
					}
				}
				return true
			})
		}
		return out
	}
	nsites := 0
	for _, fi := range c17sortedFuncs(fns) {
		info := fi.Pkg.TypesInfo
		par := r.P.Parents(fi.File)
		var sites []*c17upSite
		ast.Inspect(fi.Decl.Body, func(n ast.Node) bool {
			as, ok := n.(*ast.AssignStmt)
			if !ok || len(as.Lhs) != 1 || len(as.Rhs) != 1 || c17fieldOf(info, as.Lhs[0]) != upF {
				return true
			}
			call, ok := ast.Unparen(as.Rhs[0]).(*ast.CallExpr)
			if !ok || !isBuiltinCall(info, call, "append") || len(call.Args) < 2 {
				return true
			}
			sites = append(sites, &c17upSite{as: as})
			return true
		})
		if len(sites) == 0 {
			continue
		}
		key := funcKey(fi.Obj)
		c := r.P.CFGOf(fi)
		// resolve base and range of each site
		for _, s := range sites {
			sel := ast.Unparen(s.as.Lhs[0]).(*ast.SelectorExpr)
			s.base = cgxObj(info, sel.X)
			if s.base == nil {
				continue
			}
			for m := par[ast.Node(s.as)]; m != nil && m != ast.Node(fi.Decl); m = par[m] {
				if rs, ok := m.(*ast.RangeStmt); ok && rs.Value != nil && cgxObj(info, rs.Value) == s.base {
					s.rng = rs
					break
				}
				if _, ok := m.(*ast.FuncLit); ok {
					break
				}
			}
		}
		// (b) every other read of Upvars in the function
		strayFor := map[*c17upSite]ast.Expr{}
		ast.Inspect(fi.Decl.Body, func(n ast.Node) bool {
			sel, ok := n.(*ast.SelectorExpr)
			if !ok || c17fieldOf(info, sel) != upF {
				return true
			}
			base := cgxObj(info, sel.X)
			okRead := false
			for _, s := range sites {
				if s.base != nil && base == s.base && s.rng != nil && containsNode(s.rng, sel) {
					okRead = true
				}
			}
			if okRead {
				return true
			}
			// attribute it to the first site after it, else to the last one
			var tgt *c17upSite
			for _, s := range sites {
				if s.as.Pos() > sel.Pos() {
					tgt = s
					break
				}
			}
			if tgt == nil {
				tgt = sites[len(sites)-1]
			}
			if strayFor[tgt] == nil {
				strayFor[tgt] = sel
			}
			return true
		})
		used := usedParams(fi)
		for _, s := range sites {
			nsites++
			o := r.Ob(R, key+"#upvar-added-to-every-enclosing-function", s.as.Pos())
			switch {
			case s.base == nil || s.rng == nil:
				o.Bad("the up value is appended to %s, which is not the value variable of a range over the enclosing functions: a function nested in (or enclosing) that one gets no slot for the variable and its references index the closure's variables with the variable's global index", exprStr(s.as.Lhs[0]))
				continue
			}
			// (a) what is ranged over
			what, verdict := c17rangedOverAll(info, fi, s.rng.X)
			if verdict == "bad" {
				o.Bad("the up value is appended only to the functions of %s: an enclosing function left out has no slot for the variable, so a reference made from it (or the load of the nested literal) uses the global index as an index into the closure's own variables", what)
				continue
			}
			if verdict == "unknown" {
				o.Unknown("cannot tell what %s ranges over", what)
				continue
			}
			// (b)
			if e := strayFor[s]; e != nil {
				o.Bad("whether the variable is already captured is read from %s, not from the Upvars of the function it is appended to (%s): when an enclosing function has referred to the variable before a function nested in it does, the nested function gets no slot and reads or writes another captured variable (or Run panics with index out of range)", exprStr(e), s.base.Name())
				continue
			}
			// (c)
			var dep types.Object
			if len(used) > 0 {
				dep = c17guardDependsOn(c, info, s.as, used)
			}
			if dep != nil {
				o.Bad("the append is guarded by %s, which decides whether the identifier is marked as used: the target of a plain assignment is checked with it false, so a function literal (a macro declared in a body) that only assigns to the global gets no slot for it and the assignment lands in another captured variable", dep.Name())
				continue
			}
			// (d)
			if why := c17leavesLoop(par, s.rng); why != "" {
				o.Bad("the range over the enclosing functions is left early (%s): the functions after that point do not get the up value", why)
				continue
			}
			o.OK("appended to the value variable %s of a range over %s; the membership test reads %s.Upvars; no dependence on a 'used' parameter; the range is not left early", s.base.Name(), what, s.base.Name())
		}
		// one level up: a function holding a site, called under a 'used' guard
		for _, g := range c17sortedFuncs(fns) {
			gu := usedParams(g)
			if len(gu) == 0 || g == fi {
				continue
			}
			gi := g.Pkg.TypesInfo
			gc := r.P.CFGOf(g)
			for _, call := range calls(g.Decl.Body, false) {
				if callee(gi, call) != fi.Obj {
					continue
				}
				var dep types.Object
				dep = c17guardDependsOn(gc, gi, call, gu)
				o := r.Ob(R, funcKey(g.Obj)+"#calls:"+key+":independent-of-used", call.Pos())
				if dep != nil {
					o.Bad("%s, which records the up values, is called only when %s holds: an identifier that is only assigned is not recorded", key, dep.Name())
				} else {
					o.OK("the call does not depend on the 'used' parameter")
				}
			}
		}
	}
	if nsites == 0 {
		r.Ob(R, "anchor:append-to-Func.Upvars", token.NoPos).Unknown("no append to ast.Func.Upvars found in the compiler")
	}
}

func c17sortedFuncs(m map[*types.Func]*FuncInfo) []*FuncInfo {
	var out []*FuncInfo
	for _, fi := range m {
		out = append(out, fi)
	}
	for i := 1; i < len(out); i++ {
		for j := i; j > 0 && c17less(out[j], out[j-1]); j-- {
			out[j], out[j-1] = out[j-1], out[j]
		}
	}
	return out
}

func c17less(a, b *FuncInfo) bool {
	ka, kb := funcKey(a.Obj), funcKey(b.Obj)
	if ka != kb {
		return ka < kb
	}
	return a.Decl.Pos() < b.Decl.Pos()
}

// c17rangedOverAll classifies the expression of a range over functions: a call result, or a local
// assigned only from call results, is "all"; a slice expression or an element is a part of the list.
func c17rangedOverAll(info *types.Info, fi *FuncInfo, e ast.Expr) (string, string) {
	e = ast.Unparen(e)
	switch x := e.(type) {
	case *ast.CallExpr:
		if _, isConv := info.Types[x.Fun]; isConv && info.Types[x.Fun].IsType() {
			return exprStr(e), "unknown"
		}
		return "the result of " + exprStr(x.Fun), "ok"
	case *ast.SliceExpr:
		return exprStr(e) + " (a part of the list)", "bad"
	case *ast.CompositeLit:
		return exprStr(e) + " (a fixed list)", "bad"
	case *ast.Ident:
		v := cgxObj(info, x)
		if v == nil {
			return exprStr(e), "unknown"
		}
		as := cgxAssignsTo(info, fi.Decl.Body, v)
		if len(as) == 0 {
			return exprStr(e), "unknown"
		}
		what := ""
		for _, a := range as {
			if a.Rhs == nil {
				return exprStr(e), "unknown"
			}
			w, verdict := c17rangedOverAll(info, fi, a.Rhs)
			if verdict != "ok" {
				return w, verdict
			}
			what = w
		}
		return what, "ok"
	}
	return exprStr(e), "unknown"
}

// c17leavesLoop reports a statement of the body of rs that leaves rs before its last iteration.
func c17leavesLoop(par map[ast.Node]ast.Node, rs *ast.RangeStmt) string {
	why := ""
	ast.Inspect(rs.Body, func(n ast.Node) bool {
		if why != "" {
			return false
		}
		switch s := n.(type) {
		case *ast.FuncLit:
			return false
		case *ast.ReturnStmt:
			why = "return"
		case *ast.BranchStmt:
			switch s.Tok {
			case token.GOTO:
				why = "goto"
			case token.BREAK:
				if s.Label != nil {
					why = "break " + s.Label.Name
					return false
				}
				// the innermost breakable statement enclosing s
				for m := par[ast.Node(s)]; m != nil; m = par[m] {
					brk := false
					switch m.(type) {
					case *ast.ForStmt, *ast.RangeStmt, *ast.SwitchStmt, *ast.TypeSwitchStmt, *ast.SelectStmt:
						brk = true
					}
					if brk {
						if m == ast.Node(rs) {
							why = "break"
						}
						break
					}
				}
			}
		}
		return true
	})
	return why
}

// c17guardDependsOn returns an object of set such that site is executed only when a condition mentioning it
// has one given truth value (every path to site crosses an edge on which such a condition is true, or every
// path crosses one on which it is false). A branch on the object that rejoins before site is not a guard.
func c17guardDependsOn(c *CFGInfo, info *types.Info, site ast.Node, set map[types.Object]bool) types.Object {
	var objs []types.Object
	for o := range set {
		objs = append(objs, o)
	}
	for i := 1; i < len(objs); i++ {
		for j := i; j > 0 && objs[j].Pos() < objs[j-1].Pos(); j-- {
			objs[j], objs[j-1] = objs[j-1], objs[j]
		}
	}
	for _, truth := range []bool{true, false} {
		for _, o := range objs {
			if c.GuardedBy(site, func(l Lit) bool { return l.Tag == nil && l.Truth == truth && cgxMentions(info, l.Expr, o) }) {
				return o
			}
		}
	}
	return nil
}
