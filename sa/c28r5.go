package main

// C28 R-4 (added after seeded change C28-6): what the parser builds is a tree — a loop that builds one node
// per iteration never gives the node of this iteration a child of the node of an earlier iteration.
//
// Clone, Walk and Inspect promise what they promise for trees: "every node exactly once", "the copy shares
// no node with the original and is equal to it" are false, whatever astutil does, for a structure in which
// one node hangs below two parents (Walk visits it once per parent, the clone has more distinct nodes than
// the original, a change made through one parent shows through the other). The place where sharing is
// tempting is a construct that repeats implicitly what an earlier item of a list said (the type and the
// values of a constant specification, …): the code keeps, in a variable that lives across the iterations of
// the loop, a child of the node it built before (V = prev.F) and uses it for the node it builds now. The
// rule: in the package that builds the trees, a variable declared outside a loop and assigned, inside it,
// a child of a syntax node (a field of a node struct of package ast holding a node, nodes or records of
// nodes; elements and sub-slices of it included) reaches a child position of a node inside that loop — a
// field store, an element store, an argument of a constructor of package ast, an element of a node literal,
// an append to a node's slice — only as the operand of a copy function of astutil (the functions T -> T
// over the types of package ast). Both nodes are in the tree whenever the loop adds a node per iteration;
// the rule does not try to prove that the earlier parent is dropped (it fails closed: none is, today).

import (
	"go/ast"
	"go/token"
	"go/types"
	"sort"
	"strings"
)

func init() {
	p := registry["C28"]
	if p == nil {
		return
	}
	run := p.run
	p.run = func(r *Run) { run(r); c28CarriedChildren(r) }
	p.explain += " R-4: in package compiler (where the trees are built), a variable that lives across the iterations of a loop and is assigned inside it a child of a syntax node (a node-valued field of an ast node struct) is stored as a child of a node inside that loop (field or element store, ast constructor argument, node literal element, append to a node's slice) only through a copy function of astutil: otherwise one node has two parents and the tree handed to Clone/Walk is not a tree."
}

func c28CarriedChildren(r *Run) {
	const R = "R-4"
	x := c28cur
	if x == nil || x.r != r {
		return
	}
	nodeI := x.nodeT.Underlying().(*types.Interface)
	// types whose values are (lists of) nodes
	var nodeish func(t types.Type, depth int) bool
	nodeish = func(t types.Type, depth int) bool {
		if t == nil || depth > 3 {
			return false
		}
		if _, isI := t.Underlying().(*types.Interface); isI {
			nt, ok := t.(*types.Named)
			return ok && nt.Obj().Pkg() == x.astPk.Types && types.Implements(t, nodeI)
		}
		if p, ok := t.(*types.Pointer); ok {
			nt, ok := p.Elem().(*types.Named)
			return ok && nt.Obj().Pkg() == x.astPk.Types && (x.isNode[nt] || len(x.walkLeaves(nt, false)) > 0)
		}
		if s, ok := t.Underlying().(*types.Slice); ok {
			return nodeish(s.Elem(), depth+1)
		}
		if nt, ok := t.(*types.Named); ok && nt.Obj().Pkg() == x.astPk.Types {
			if _, isS := nt.Underlying().(*types.Struct); isS {
				return len(x.walkLeaves(nt, false)) > 0 // a record of nodes (KeyValue, Parameter, Field)
			}
		}
		return false
	}
	isNodeStruct := func(t types.Type) *types.Named { // *T / T with T a struct of package ast that is a node or a record of nodes
		if p, ok := t.(*types.Pointer); ok {
			t = p.Elem()
		}
		nt, ok := t.(*types.Named)
		if !ok || nt.Obj().Pkg() != x.astPk.Types {
			return nil
		}
		if _, isS := nt.Underlying().(*types.Struct); !isS {
			return nil
		}
		if x.isNode[nt] || len(x.walkLeaves(nt, false)) > 0 {
			return nt
		}
		return nil
	}
	total := 0
	for _, fi := range r.P.Funcs("internal/compiler") {
		if r.P.isTestFile(fi.File) || fi.Obj == nil {
			continue
		}
		info := fi.Pkg.TypesInfo
		par := r.P.Parents(fi.File)
		// childOf: e reads a child position of a node: X.F…, with X a node struct and F node-valued
		var childOf func(e ast.Expr) (string, bool)
		childOf = func(e ast.Expr) (string, bool) {
			switch v := ast.Unparen(e).(type) {
			case *ast.SelectorExpr:
				sel := info.Selections[v]
				if sel == nil || sel.Kind() != types.FieldVal {
					return "", false
				}
				if nt := isNodeStruct(info.TypeOf(v.X)); nt != nil && nodeish(sel.Type(), 0) {
					return nt.Obj().Name() + "." + v.Sel.Name, true
				}
			case *ast.IndexExpr:
				return childOf(v.X)
			case *ast.SliceExpr:
				return childOf(v.X)
			case *ast.TypeAssertExpr:
				return childOf(v.X)
			}
			return "", false
		}
		var loops []ast.Stmt
		ast.Inspect(fi.Decl.Body, func(n ast.Node) bool {
			switch n.(type) {
			case *ast.ForStmt, *ast.RangeStmt:
				loops = append(loops, n.(ast.Stmt))
			}
			return true
		})
		done := map[types.Object]bool{}
		for _, loop := range loops { // outermost first (Inspect is pre-order)
			// carried variables: declared outside the loop, assigned a child of a node inside it
			type carried struct {
				from []string
				pos  token.Pos
			}
			cs := map[types.Object]*carried{}
			ast.Inspect(loop, func(n ast.Node) bool {
				as, ok := n.(*ast.AssignStmt)
				if !ok || as.Tok != token.ASSIGN || len(as.Lhs) != len(as.Rhs) {
					return true
				}
				for i, lh := range as.Lhs {
					id, ok := ast.Unparen(lh).(*ast.Ident)
					if !ok {
						continue
					}
					v, ok := info.Uses[id].(*types.Var)
					if !ok || v.IsField() || v.Pkg() == nil || v.Parent() == v.Pkg().Scope() || !nodeish(v.Type(), 0) {
						continue
					}
					if loop.Pos() <= v.Pos() && v.Pos() < loop.End() {
						continue // a variable of the iteration
					}
					if from, ok := childOf(as.Rhs[i]); ok {
						if cs[v] == nil {
							cs[v] = &carried{pos: as.Pos()}
						}
						cs[v].from = append(cs[v].from, from)
					}
				}
				return true
			})
			var vars []types.Object
			for v := range cs {
				if !done[v] {
					vars = append(vars, v)
				}
			}
			sort.Slice(vars, func(i, j int) bool { return vars[i].Pos() < vars[j].Pos() })
			for _, v := range vars {
				done[v] = true
				total++
				c := cs[v]
				sort.Strings(c.from)
				o := r.Ob(R, fi.Name()+"#carried:"+v.Name(), c.pos)
				var bad, unk []string
				copied, other := 0, 0
				// v and the locals of the loop that receive (an element of) what v holds
				names := []types.Object{v}
				isName := map[types.Object]bool{v: true}
				addName := func(id *ast.Ident) bool {
					lv, _ := info.ObjectOf(id).(*types.Var)
					if lv == nil || id.Name == "_" || !nodeish(lv.Type(), 0) {
						return false
					}
					if !isName[lv] {
						isName[lv] = true
						names = append(names, lv)
					}
					return true
				}
				for k := 0; k < len(names); k++ {
					cur := names[k]
					ast.Inspect(loop, func(n ast.Node) bool {
						id, ok := n.(*ast.Ident)
						if !ok || info.Uses[id] != cur {
							return true
						}
						// climb through the expressions that still denote the node(s) held by v
						var e ast.Node = id
						for {
							up := par[e]
							switch u := up.(type) {
							case *ast.ParenExpr:
								e = u
								continue
							case *ast.IndexExpr:
								if u.X == e {
									e = u
									continue
								}
							case *ast.SliceExpr:
								if u.X == e {
									e = u
									continue
								}
							case *ast.TypeAssertExpr:
								if u.X == e {
									e = u
									continue
								}
							}
							break
						}
						at := r.P.Pos(id.Pos())
						switch u := par[e].(type) {
						case *ast.CallExpr:
							if u.Fun == e {
								return true
							}
							fn := callee(info, u)
							switch {
							case fn != nil && x.copyFns[fn] != nil:
								copied++
							case isBuiltinCall(info, u, "len"), isBuiltinCall(info, u, "cap"):
								other++
							case isBuiltinCall(info, u, "append"):
								// append(dst, v...) / append(dst, v): decided by where the result goes
								if dst := c28storeTarget(par, u); dst != nil {
									if where, ok := childOf(dst); ok {
										bad = append(bad, "appended to "+where+" at "+at)
									} else if _, isID := ast.Unparen(dst).(*ast.Ident); isID {
										unk = append(unk, "appended to the local "+exprStr(dst)+" at "+at+" (where that slice ends is not followed)")
									} else {
										other++
									}
								} else {
									other++
								}
							case fn != nil && fn.Pkg() == x.astPk.Types && c28returnsNode(fn, isNodeStruct):
								bad = append(bad, "given to the constructor "+fn.Name()+" at "+at)
							case fn != nil && fn.Pkg() != nil && strings.HasPrefix(fn.Pkg().Path(), modulePath) && fn.Pkg() != x.utilPk.Types:
								unk = append(unk, "passed to "+funcKey(fn)+" at "+at+" (what the callee does with the node is not followed)")
							default:
								other++
							}
						case *ast.AssignStmt:
							for i, rh := range u.Rhs {
								if rh != e || len(u.Lhs) != len(u.Rhs) {
									continue
								}
								if where, ok := childOf(u.Lhs[i]); ok {
									bad = append(bad, "stored into "+where+" at "+at)
								} else if lid, isID := ast.Unparen(u.Lhs[i]).(*ast.Ident); isID && lid.Name != "_" {
									if lv, _ := info.ObjectOf(lid).(*types.Var); lv != nil && lv.Pkg() != nil && lv.Parent() == lv.Pkg().Scope() {
										unk = append(unk, "stored into the package-level variable "+lid.Name+" at "+at)
									} else {
										addName(lid) // followed as another name of the same node(s)
										other++
									}
								} else {
									other++
								}
							}
							for _, lh := range u.Lhs {
								if lh == e {
									other++ // the assignment of v itself
								}
							}
						case *ast.KeyValueExpr, *ast.CompositeLit:
							var lit *ast.CompositeLit
							if kv, ok := u.(*ast.KeyValueExpr); ok {
								if kv.Value != e {
									return true
								}
								lit, _ = par[kv].(*ast.CompositeLit)
							} else {
								lit = u.(*ast.CompositeLit)
							}
							if lit != nil && isNodeStruct(info.TypeOf(lit)) != nil {
								bad = append(bad, "made an element of a "+typeStr(info.TypeOf(lit))+" literal at "+at)
							} else if lit != nil && nodeish(info.TypeOf(lit), 0) {
								unk = append(unk, "made an element of a "+typeStr(info.TypeOf(lit))+" literal at "+at+" (where that slice ends is not followed)")
							} else {
								other++
							}
						case *ast.ValueSpec:
							for i, val := range u.Values {
								if val == e && i < len(u.Names) {
									addName(u.Names[i])
								}
							}
							other++
						case *ast.RangeStmt:
							if u.X == e {
								if vid, ok := u.Value.(*ast.Ident); ok {
									addName(vid) // the elements of what v holds
								}
							}
							other++
						case *ast.ReturnStmt:
							other++ // leaves the loop
						default:
							other++ // comparisons, conditions, selectors reading below the node
						}
						return true
					})
				}
				switch {
				case len(bad) > 0:
					o.Bad("%s lives across the iterations of the loop and is assigned a child of a node inside it (%s); in the same loop it is %s without going through a copy function: the node built by one iteration and the node built by a later one then share that child, the result is not a tree (Walk and Inspect visit the shared node once per parent, a clone has more distinct nodes than its original, a change made through one parent shows through the other)", v.Name(), strings.Join(c28uniq(c.from), ", "), strings.Join(bad, "; "))
				case len(unk) > 0:
					o.Unknown("%s lives across the iterations of the loop and is assigned a child of a node inside it (%s); a use is not followed: %s", v.Name(), strings.Join(c28uniq(c.from), ", "), strings.Join(unk, "; "))
				default:
					o.OK("%s carries a child of a node (%s) from one iteration to the next; it reaches a child position of another node only through a copy function (%d copies, %d other uses)", v.Name(), strings.Join(c28uniq(c.from), ", "), copied, other)
				}
			}
		}
	}
	r.Ob(R, "compiler#loops-scanned", 0).OK("%d variables carry a child of a node across the iterations of a loop in package compiler", total)
	r.Require(R, 3)
}

// c28storeTarget: the l-value that receives the result of call (x = call, x := call), if any.
func c28storeTarget(par map[ast.Node]ast.Node, call *ast.CallExpr) ast.Expr {
	var e ast.Node = call
	for {
		if p, ok := par[e].(*ast.ParenExpr); ok {
			e = p
			continue
		}
		break
	}
	as, ok := par[e].(*ast.AssignStmt)
	if !ok || len(as.Lhs) != len(as.Rhs) {
		return nil
	}
	for i, rh := range as.Rhs {
		if rh == e {
			return as.Lhs[i]
		}
	}
	return nil
}

func c28returnsNode(fn *types.Func, isNodeStruct func(types.Type) *types.Named) bool {
	sig := fn.Type().(*types.Signature)
	return sig.Recv() == nil && sig.Results().Len() == 1 && isNodeStruct(sig.Results().At(0).Type()) != nil
}
