package main

// C06 — autoescaping confines every shown untrusted value to its syntactic slot.
// R-1 direct-write macro calls are guarded by the format compatibility predicate (E3+E4a)
// R-2 every write of a show function is sanitised, trusted, closed-alphabet or a listed exception (E4b)
// R-3 the tag context replaces every character that ends an attribute name (E2)
// R-4 every context the lexer can assign is dispatched by renderer.Show and typed by checkShow (E1)
//
// The helpers of this file (prefix c06) are also used by c16.go and c08.go.

import (
	"fmt"
	"go/ast"
	"go/constant"
	"go/token"
	"go/types"
	"os"
	"sort"
	"strings"
	"unicode"

	"golang.org/x/tools/go/cfg"
)

func init() {
	register("C06", &ruleSet{
		explain: "Given the context the lexer assigned, no path writes an untrusted value unescaped: (R-1) a macro or render call emitted with a destination format, which makes the callee write straight to the page's writer, is dominated by the true edge of the compatibility predicate (context is a format and from==to or Markdown→HTML), the predicate itself being verified by finite-domain data flow over all (context, format) pairs; (R-2) in every show function dispatched by renderer.Show each call that can write to the output is an escaper of that context, a delegation to an analysed show function, a write of constants, of closed-alphabet text, of the context's own trusted types, or a listed exception; (R-3) the class of runes showInTag replaces contains every character ending an attribute name in the HTML tokenizer; (R-4) each ast.Context value the lexer can produce has a clause in renderer.Show and in checkShow and fits the mask of the encoded runtime context.",
		notCov: []string{
			"that the lexer's context equals what a browser parser sees (regular-expression literals, comments containing <script>, …): needs the HTML/JS/CSS grammars as oracle",
			"the character tables of the escapers themselves (C07/C24)",
			"the run-time renderer switch of OpCallMacro/OpCallIndirect (run.go) beyond the emitter-side guard",
			"values of interface type whose dynamic type is a trusted type: they may contribute markup by definition",
		},
		trusted: []string{"frozen table context → escaper functions and context → own trusted native types (c06Specs)", "HTML tokenizer: an attribute name ends at TAB LF FF CR SPACE / > = and quotes start a value"},
		run:     runC06,
	})
}

func runC06(r *Run) {
	c06DirectWrite(r, "R-1")
	c06Sanitiser(r, "R-2", nil)
	c06TagAlphabet(r, "R-3")
	c06ContextTables(r, "R-4")
}

// ---------------------------------------------------------------------------
// generic helpers

const (
	c06F = 0
	c06T = 1
	c06U = -1
)

// c06Dom evaluates boolean expressions over (at most) two integer variables in three-valued logic.
type c06Dom struct {
	info  *types.Info
	varOf func(e ast.Expr) int                     // 0, 1 or -1
	call  func(c *ast.CallExpr, bind [2]int64) int // optional evaluation of known calls
}

func c06Not(v int) int {
	switch v {
	case c06T:
		return c06F
	case c06F:
		return c06T
	}
	return c06U
}

func (d *c06Dom) eval(e ast.Expr, b [2]int64) int {
	e = ast.Unparen(e)
	if tv, ok := d.info.Types[e]; ok && tv.Value != nil && tv.Value.Kind() == constant.Bool {
		if constant.BoolVal(tv.Value) {
			return c06T
		}
		return c06F
	}
	switch x := e.(type) {
	case *ast.UnaryExpr:
		if x.Op == token.NOT {
			return c06Not(d.eval(x.X, b))
		}
	case *ast.BinaryExpr:
		switch x.Op {
		case token.LAND:
			l, r := d.eval(x.X, b), d.eval(x.Y, b)
			if l == c06F || r == c06F {
				return c06F
			}
			if l == c06T && r == c06T {
				return c06T
			}
			return c06U
		case token.LOR:
			l, r := d.eval(x.X, b), d.eval(x.Y, b)
			if l == c06T || r == c06T {
				return c06T
			}
			if l == c06F && r == c06F {
				return c06F
			}
			return c06U
		case token.EQL, token.NEQ, token.LSS, token.LEQ, token.GTR, token.GEQ:
			lv, lok := d.operand(x.X, b)
			rv, rok := d.operand(x.Y, b)
			if !lok || !rok {
				return c06U
			}
			if constant.Compare(lv, x.Op, rv) {
				return c06T
			}
			return c06F
		}
	case *ast.CallExpr:
		if d.call != nil {
			return d.call(x, b)
		}
	}
	return c06U
}

func (d *c06Dom) operand(e ast.Expr, b [2]int64) (constant.Value, bool) {
	e = ast.Unparen(e)
	if k := d.varOf(e); k >= 0 {
		return constant.MakeInt64(b[k]), true
	}
	if tv, ok := d.info.Types[e]; ok && tv.Value != nil {
		v := constant.ToInt(tv.Value)
		if v.Kind() == constant.Int {
			return v, true
		}
	}
	switch x := e.(type) {
	case *ast.CallExpr:
		if len(x.Args) == 1 {
			if tv, ok := d.info.Types[x.Fun]; ok && tv.IsType() {
				return d.operand(x.Args[0], b)
			}
		}
	case *ast.BinaryExpr:
		if x.Op == token.ADD || x.Op == token.SUB {
			l, lok := d.operand(x.X, b)
			r, rok := d.operand(x.Y, b)
			if lok && rok {
				return constant.BinaryOp(l, x.Op, r), true
			}
		}
	}
	return nil, false
}

// evalLit evaluates one edge literal (value-switch literals are Tag == Expr).
func (d *c06Dom) evalLit(l Lit, b [2]int64) int {
	var v int
	if l.Tag != nil {
		lv, lok := d.operand(l.Tag, b)
		rv, rok := d.operand(l.Expr, b)
		if !lok || !rok {
			return c06U
		}
		v = c06F
		if constant.Compare(lv, token.EQL, rv) {
			v = c06T
		}
	} else {
		v = d.eval(l.Expr, b)
	}
	if !l.Truth {
		v = c06Not(v)
	}
	return v
}

// c06State is a set of pairs (a,b), a < n0, b < n1.
type c06State struct {
	n0, n1 int
	s      []bool
}

func c06Full(n0, n1 int) *c06State {
	st := &c06State{n0: n0, n1: n1, s: make([]bool, n0*n1)}
	for i := range st.s {
		st.s[i] = true
	}
	return st
}
func (st *c06State) clone() *c06State {
	return &c06State{n0: st.n0, n1: st.n1, s: append([]bool(nil), st.s...)}
}
func (st *c06State) has(a, b int) bool { return st.s[a*st.n1+b] }
func (st *c06State) union(o *c06State) bool {
	ch := false
	for i, v := range o.s {
		if v && !st.s[i] {
			st.s[i], ch = true, true
		}
	}
	return ch
}
func (st *c06State) widen(k int) {
	if k == 0 {
		for b := 0; b < st.n1; b++ {
			any := false
			for a := 0; a < st.n0; a++ {
				any = any || st.has(a, b)
			}
			for a := 0; a < st.n0; a++ {
				st.s[a*st.n1+b] = any
			}
		}
		return
	}
	for a := 0; a < st.n0; a++ {
		any := false
		for b := 0; b < st.n1; b++ {
			any = any || st.has(a, b)
		}
		for b := 0; b < st.n1; b++ {
			st.s[a*st.n1+b] = any
		}
	}
}
func (st *c06State) filter(d *c06Dom, lits []Lit) {
	for a := 0; a < st.n0; a++ {
		for b := 0; b < st.n1; b++ {
			if !st.has(a, b) {
				continue
			}
			for _, l := range lits {
				if d.evalLit(l, [2]int64{int64(a), int64(b)}) == c06F {
					st.s[a*st.n1+b] = false
					break
				}
			}
		}
	}
}

// c06Flow propagates the set of feasible pairs forward from block start (entered with every pair)
// along the edges, filtering by the edge conditions and widening a variable when a node assigns it.
// It returns the state at the entry of every block reached. stop(b) blocks are not left.
func c06Flow(c *CFGInfo, d *c06Dom, n0, n1 int, start *cfg.Block, assigned func(n ast.Node) (bool, bool), stop func(b *cfg.Block) bool) map[*cfg.Block]*c06State {
	in := map[*cfg.Block]*c06State{start: c06Full(n0, n1)}
	work := []*cfg.Block{start}
	for len(work) > 0 {
		b := work[len(work)-1]
		work = work[:len(work)-1]
		if stop != nil && b != start && stop(b) {
			continue
		}
		st := in[b].clone()
		for _, n := range b.Nodes {
			if assigned != nil {
				a0, a1 := assigned(n)
				if a0 {
					st.widen(0)
				}
				if a1 {
					st.widen(1)
				}
			}
		}
		for i, s := range b.Succs {
			out := st.clone()
			if lits := c.edgeLits(b, i); lits != nil {
				out.filter(d, lits)
			}
			if in[s] == nil {
				in[s] = &c06State{n0: n0, n1: n1, s: make([]bool, n0*n1)}
				in[s].union(out)
				work = append(work, s)
			} else if in[s].union(out) {
				work = append(work, s)
			}
		}
	}
	return in
}

// c06StateAt returns the state holding just before node idx of block b.
func c06StateAt(in map[*cfg.Block]*c06State, b *cfg.Block, idx int, assigned func(n ast.Node) (bool, bool)) *c06State {
	if in[b] == nil {
		return nil
	}
	st := in[b].clone()
	for i := 0; i < idx && i < len(b.Nodes); i++ {
		if assigned != nil {
			a0, a1 := assigned(b.Nodes[i])
			if a0 {
				st.widen(0)
			}
			if a1 {
				st.widen(1)
			}
		}
	}
	return st
}

// c06Strip removes parentheses, type assertions and type conversions.
func c06Strip(info *types.Info, e ast.Expr) ast.Expr {
	for {
		e = ast.Unparen(e)
		switch x := e.(type) {
		case *ast.TypeAssertExpr:
			e = x.X
			continue
		case *ast.CallExpr:
			if len(x.Args) == 1 {
				if tv, ok := info.Types[x.Fun]; ok && tv.IsType() {
					e = x.Args[0]
					continue
				}
			}
		}
		return e
	}
}

// c06Same reports whether a and b denote the same storage path (identifiers by object, selectors by field).
func c06Same(info *types.Info, a, b ast.Expr) bool {
	a, b = c06Strip(info, a), c06Strip(info, b)
	switch x := a.(type) {
	case *ast.Ident:
		y, ok := b.(*ast.Ident)
		return ok && c06Obj(info, x) != nil && c06Obj(info, x) == c06Obj(info, y)
	case *ast.SelectorExpr:
		y, ok := b.(*ast.SelectorExpr)
		return ok && info.Uses[x.Sel] != nil && info.Uses[x.Sel] == info.Uses[y.Sel] && c06Same(info, x.X, y.X)
	}
	return false
}

func c06Obj(info *types.Info, id *ast.Ident) types.Object {
	if o := info.Uses[id]; o != nil {
		return o
	}
	return info.Defs[id]
}

// c06Defs lists the right-hand sides assigned to obj inside body. A nil entry stands for an
// assignment whose value is not a single expression (multi-value call, range, inc/dec, zero declaration is skipped).
type c06Def struct {
	Rhs  ast.Expr // nil when unknown
	Node ast.Node // the assigning statement
	Idx  int      // position of obj among the left-hand sides (multi-value calls)
	Zero bool     // declaration without value
}

func c06Defs(info *types.Info, body ast.Node, obj types.Object) []c06Def {
	var out []c06Def
	ast.Inspect(body, func(n ast.Node) bool {
		switch s := n.(type) {
		case *ast.AssignStmt:
			for i, l := range s.Lhs {
				id, ok := ast.Unparen(l).(*ast.Ident)
				if !ok || c06Obj(info, id) != obj {
					continue
				}
				if len(s.Lhs) == len(s.Rhs) {
					out = append(out, c06Def{Rhs: s.Rhs[i], Node: s, Idx: i})
				} else if len(s.Rhs) == 1 {
					out = append(out, c06Def{Rhs: s.Rhs[0], Node: s, Idx: i})
				} else {
					out = append(out, c06Def{Node: s, Idx: i})
				}
			}
		case *ast.ValueSpec:
			for i, id := range s.Names {
				if info.Defs[id] != obj {
					continue
				}
				if len(s.Values) == len(s.Names) {
					out = append(out, c06Def{Rhs: s.Values[i], Node: s, Idx: i})
				} else if len(s.Values) == 1 {
					out = append(out, c06Def{Rhs: s.Values[0], Node: s, Idx: i})
				} else {
					out = append(out, c06Def{Node: s, Idx: i, Zero: true})
				}
			}
		case *ast.RangeStmt:
			for i, l := range []ast.Expr{s.Key, s.Value} {
				if id, ok := l.(*ast.Ident); ok && c06Obj(info, id) == obj {
					out = append(out, c06Def{Node: s, Idx: i})
				}
			}
		case *ast.IncDecStmt:
			if id, ok := ast.Unparen(s.X).(*ast.Ident); ok && c06Obj(info, id) == obj {
				out = append(out, c06Def{Node: s})
			}
		case *ast.UnaryExpr:
			if s.Op == token.AND {
				if id, ok := ast.Unparen(s.X).(*ast.Ident); ok && c06Obj(info, id) == obj {
					out = append(out, c06Def{Node: s}) // address taken: unknown writes
				}
			}
		}
		return true
	})
	return out
}

// c06Assigns reports whether CFG node n assigns obj.
func c06Assigns(info *types.Info, n ast.Node, obj types.Object) bool {
	if obj == nil {
		return false
	}
	// a RangeStmt's key/value appear as bare identifiers among the nodes of the block before the loop
	if id, ok := n.(*ast.Ident); ok {
		return info.Defs[id] == obj
	}
	return len(c06Defs(info, n, obj)) > 0
}

// c06DerivesFrom reports whether e is computed from the variable root through selectors, calls,
// type assertions, indexing and singly-defined locals.
func c06DerivesFrom(info *types.Info, body ast.Node, e ast.Expr, root types.Object, depth int) bool {
	if depth > 10 || e == nil {
		return false
	}
	found := false
	ast.Inspect(e, func(n ast.Node) bool {
		if found {
			return false
		}
		if _, ok := n.(*ast.FuncLit); ok {
			return false
		}
		id, ok := n.(*ast.Ident)
		if !ok {
			return true
		}
		o := info.Uses[id]
		if o == nil {
			return true
		}
		if o == root {
			found = true
			return false
		}
		if v, ok := o.(*types.Var); ok && !v.IsField() && v.Parent() != nil && v.Pkg() != nil && v.Parent() != v.Pkg().Scope() {
			for _, d := range c06Defs(info, body, v) {
				if d.Rhs != nil && c06DerivesFrom(info, body, d.Rhs, root, depth+1) {
					found = true
				}
			}
		}
		return true
	})
	return found
}

func c06ConstNames(cs []*types.Const) map[int64]string {
	m := map[int64]string{}
	for _, c := range cs {
		if v, ok := constantInt64(c); ok {
			if _, dup := m[v]; !dup {
				m[v] = c.Name()
			}
		}
	}
	return m
}

func c06ConstByName(cs []*types.Const, name string) (int64, bool) {
	for _, c := range cs {
		if c.Name() == name {
			return constantInt64(c)
		}
	}
	return 0, false
}

func c06MaxConst(cs []*types.Const) int64 {
	var m int64 = -1
	for _, c := range cs {
		if v, ok := constantInt64(c); ok && v > m {
			m = v
		}
	}
	return m
}

func c06FuncInfoOf(p *Prog, fn *types.Func) *FuncInfo {
	if fn == nil || fn.Pkg() == nil {
		return nil
	}
	rel := strings.TrimPrefix(strings.TrimPrefix(fn.Pkg().Path(), modulePath), "/")
	for _, fi := range p.Funcs(rel) {
		if fi.Obj == fn {
			return fi
		}
	}
	return nil
}

func c06ParamIndex(fn *types.Func, pred func(t types.Type) bool) []int {
	var out []int
	sig := fn.Type().(*types.Signature)
	for i := 0; i < sig.Params().Len(); i++ {
		if pred(sig.Params().At(i).Type()) {
			out = append(out, i)
		}
	}
	return out
}

// ---------------------------------------------------------------------------
// R-1 direct-write calls are guarded

type c06Fmt struct {
	r        *Run
	fmtT     *types.Named
	ctxT     *types.Named
	fmts     []*types.Const
	ctxs     []*types.Const
	md, html int64
	maxFmt   int64
	maxCtx   int64
}

func c06NewFmt(r *Run, rule string) *c06Fmt {
	x := &c06Fmt{r: r}
	x.fmtT = r.P.Named("ast", "Format")
	x.ctxT = r.P.Named("ast", "Context")
	if !r.Anchor(rule, "ast.Format", x.fmtT != nil) || !r.Anchor(rule, "ast.Context", x.ctxT != nil) {
		return nil
	}
	x.fmts, x.ctxs = EnumConsts(x.fmtT), EnumConsts(x.ctxT)
	var ok1, ok2 bool
	x.md, ok1 = c06ConstByName(x.fmts, "FormatMarkdown")
	x.html, ok2 = c06ConstByName(x.fmts, "FormatHTML")
	if !r.Anchor(rule, "ast.FormatMarkdown / ast.FormatHTML", ok1 && ok2) {
		return nil
	}
	x.maxFmt, x.maxCtx = c06MaxConst(x.fmts), c06MaxConst(x.ctxs)
	return x
}

// compat is the specification: a callee of format from may write straight into a destination of format to.
func (x *c06Fmt) compat(from, to int64) bool {
	return from == to || from == x.md && to == x.html
}

func (x *c06Fmt) isFmt(t types.Type) bool { return t != nil && types.Identical(t, x.fmtT) }
func (x *c06Fmt) isCtx(t types.Type) bool { return t != nil && types.Identical(t, x.ctxT) }

type c06Carrier struct {
	fn  *types.Func
	idx int
}

// c06DirectWrite implements C06 R-1 (= C16 R-1).
func c06DirectWrite(r *Run, rule string) {
	const comp = "internal/compiler"
	x := c06NewFmt(r, rule)
	if x == nil {
		return
	}
	rt := r.P.Pkg("internal/runtime")
	pk := r.P.Pkg(comp)
	if !r.Anchor(rule, "packages compiler, runtime", rt != nil && pk != nil) {
		return
	}
	rs, _ := rt.Types.Scope().Lookup("ReturnString").(*types.Const)
	instr := r.P.Named("internal/runtime", "Instruction")
	if !r.Anchor(rule, "runtime.ReturnString (the destination meaning 'return the output as a string')", rs != nil) || !r.Anchor(rule, "runtime.Instruction", instr != nil) {
		return
	}
	info := pk.TypesInfo
	funcs := r.P.Funcs(comp)
	// A: functions that store a Format parameter into an instruction
	carriers := map[c06Carrier]bool{}
	var work []c06Carrier
	for _, fi := range funcs {
		if r.P.isTestFile(fi.File) || fi.Obj == nil {
			continue
		}
		sig := fi.Obj.Type().(*types.Signature)
		ast.Inspect(fi.Decl.Body, func(n ast.Node) bool {
			lit, ok := n.(*ast.CompositeLit)
			if !ok || !types.Identical(info.TypeOf(lit), instr) {
				return true
			}
			ast.Inspect(lit, func(m ast.Node) bool {
				if id, ok := m.(*ast.Ident); ok {
					for i := 0; i < sig.Params().Len(); i++ {
						if info.Uses[id] == sig.Params().At(i) && x.isFmt(sig.Params().At(i).Type()) {
							c := c06Carrier{fi.Obj, i}
							if !carriers[c] {
								carriers[c] = true
								work = append(work, c)
							}
						}
					}
				}
				return true
			})
			return true
		})
	}
	if !r.Anchor(rule, "functions of compiler storing an ast.Format parameter into a runtime.Instruction (emitCallMacro, emitCallIndirect)", len(work) > 0) {
		return
	}
	// B: close over pass-through callers; collect direct-write sites
	type site struct {
		fi   *FuncInfo
		call *ast.CallExpr
		car  c06Carrier
	}
	var sites []site
	strSites := 0
	for len(work) > 0 {
		car := work[len(work)-1]
		work = work[:len(work)-1]
		for _, fi := range funcs {
			if r.P.isTestFile(fi.File) || fi.Obj == nil {
				continue
			}
			sig := fi.Obj.Type().(*types.Signature)
			for _, c := range calls(fi.Decl.Body, true) {
				if callee(info, c) != car.fn || car.idx >= len(c.Args) {
					continue
				}
				arg := ast.Unparen(c.Args[car.idx])
				if tv, ok := info.Types[arg]; ok && tv.Value != nil {
					if constant.Compare(constant.ToInt(tv.Value), token.EQL, constant.ToInt(rs.Val())) {
						strSites++
						continue
					}
				}
				if id, ok := arg.(*ast.Ident); ok {
					pass := false
					for i := 0; i < sig.Params().Len(); i++ {
						if info.Uses[id] == sig.Params().At(i) {
							nc := c06Carrier{fi.Obj, i}
							if !carriers[nc] {
								carriers[nc] = true
								work = append(work, nc)
							}
							pass = true
						}
					}
					if pass {
						continue
					}
				}
				sites = append(sites, site{fi, c, car})
			}
		}
	}
	r.Stats["format_carrying_functions"] = len(carriers)
	r.Stats["string_returning_call_sites"] = strSites
	r.Stats["direct_write_call_sites"] = len(sites)
	sort.Slice(sites, func(i, j int) bool { return sites[i].call.Pos() < sites[j].call.Pos() })

	verified := map[*types.Func]*c06PredVerdict{}
	for _, s := range sites {
		fi := s.fi
		c := r.P.CFGOf(fi)
		// the destination must be the format of a context
		dst := ast.Unparen(s.call.Args[s.car.idx])
		var ctxExpr ast.Expr
		if cv, ok := dst.(*ast.CallExpr); ok && len(cv.Args) == 1 {
			if tv, ok := info.Types[cv.Fun]; ok && tv.IsType() && x.isCtx(info.TypeOf(cv.Args[0])) {
				ctxExpr = cv.Args[0]
			}
		}
		// the macro call passed to the carrier
		var callArg ast.Expr
		for _, i := range c06ParamIndex(s.car.fn, func(t types.Type) bool { return typeStr(t) == "*ast.Call" }) {
			if i < len(s.call.Args) {
				callArg = s.call.Args[i]
			}
		}
		key := fi.Name() + "#direct-write:" + exprStr(c06Strip(info, c06CallArgOr(callArg, dst)))
		o := r.Ob(rule, key, s.call.Pos())
		if ctxExpr == nil || callArg == nil {
			o.Unknown("call of %s with destination %s: the destination is neither runtime.ReturnString, a forwarded parameter, nor the format of a context", funcKey(s.car.fn), exprStr(dst))
			continue
		}
		// candidate guards: true calls of boolean functions taking an ast.Context
		type cand struct {
			fn   *types.Func
			call *ast.CallExpr
		}
		var cands []cand
		fmtCmp := false
		addLit := func(l Lit) {
			if l.Tag != nil {
				if x.isCtx(info.TypeOf(l.Tag)) || x.isFmt(info.TypeOf(l.Tag)) {
					fmtCmp = true
				}
				return
			}
			if ce, ok := ast.Unparen(l.Expr).(*ast.CallExpr); ok {
				if fn := callee(info, ce); fn != nil && len(c06ParamIndex(fn, x.isCtx)) == 1 && fn.Type().(*types.Signature).Results().Len() == 1 {
					if b, ok := fn.Type().(*types.Signature).Results().At(0).Type().Underlying().(*types.Basic); ok && b.Kind() == types.Bool {
						if l.Truth {
							cands = append(cands, cand{fn, ce})
						}
						// the false edge of a predicate call is understood: it guarantees nothing
						return
					}
				}
			}
			if x.mentionsFormat(info, l) {
				fmtCmp = true
			}
		}
		for _, l := range c.within(s.call) {
			addLit(l)
		}
		for _, b := range c.G.Blocks {
			for i := range b.Succs {
				for _, l := range c.edgeLits(b, i) {
					l := l
					if !x.mentionsFormat(info, l) {
						continue
					}
					if c.GuardedBy(s.call, func(m Lit) bool { return m.Expr == l.Expr && m.Truth == l.Truth && m.Tag == l.Tag }) {
						addLit(l)
					}
				}
			}
		}
		decided := false
		var reasons []string
		for _, cd := range cands {
			// arguments correspond: same context variable, same call node
			ci := c06ParamIndex(cd.fn, x.isCtx)[0]
			ei := c06ParamIndex(cd.fn, func(t types.Type) bool { return typeStr(t) == "ast.Expression" || typeStr(t) == "*ast.Call" })
			if ci >= len(cd.call.Args) || len(ei) != 1 || ei[0] >= len(cd.call.Args) {
				reasons = append(reasons, funcKey(cd.fn)+": parameters not recognised")
				continue
			}
			if !c06Same(info, cd.call.Args[ci], ctxExpr) {
				reasons = append(reasons, fmt.Sprintf("%s tests context %s, the call writes in the format of %s", funcKey(cd.fn), exprStr(cd.call.Args[ci]), exprStr(ctxExpr)))
				continue
			}
			if !c06Same(info, cd.call.Args[ei[0]], callArg) {
				reasons = append(reasons, fmt.Sprintf("%s tests %s, the emitted call is %s", funcKey(cd.fn), exprStr(cd.call.Args[ei[0]]), exprStr(callArg)))
				continue
			}
			// neither variable is re-assigned inside the function apart from its definition
			stable := true
			for _, e := range []ast.Expr{ctxExpr, c06Strip(info, callArg)} {
				root := e
				for {
					if se, ok := root.(*ast.SelectorExpr); ok {
						root = se.X
						continue
					}
					break
				}
				if id, ok := root.(*ast.Ident); ok {
					if n := len(c06Defs(info, c06Scope(r.P, fi, id, info), c06Obj(info, id))); n > 1 {
						stable = false
					}
				}
			}
			if !stable {
				reasons = append(reasons, "the tested variables are re-assigned between the test and the call")
				continue
			}
			pv := verified[cd.fn]
			if pv == nil {
				pv = x.verifyPredicate(rule, cd.fn, ci, ei[0])
				verified[cd.fn] = pv
			}
			switch pv.verdict {
			case Discharged:
				o.OK("dominated by the true edge of %s(%s, %s), verified to imply context ≤ Markdown ∧ (from == to ∨ Markdown→HTML) on all %d (context, format) pairs", funcKey(cd.fn), exprStr(cd.call.Args[ei[0]]), exprStr(ctxExpr), pv.pairs)
				decided = true
			case Violated:
				o.Bad("guarded by %s, which does not imply format compatibility: %s", funcKey(cd.fn), pv.why)
				decided = true
			default:
				reasons = append(reasons, funcKey(cd.fn)+": "+pv.why)
			}
			if decided {
				break
			}
		}
		if decided {
			continue
		}
		if len(reasons) > 0 {
			o.Unknown("no recognised compatibility guard: %s", strings.Join(reasons, "; "))
		} else if fmtCmp {
			o.Unknown("the call is dominated by a condition that compares formats/contexts or calls a context predicate inside a compound condition this rule does not decompose; only a dominating true edge of a verified predicate call is interpreted")
		} else {
			o.Bad("%s is emitted with destination format %s, so the callee writes straight to the page's writer, but no path condition relates the callee's format to the context: a partial of another format is emitted unescaped (e.g. <p>{{ render \"x.txt\" }}</p> emits the text file's <script> raw)", exprStr(c06Strip(info, callArg)), exprStr(dst))
		}
	}
	r.Require(rule, 2)
}

// mentionsFormat reports whether a literal compares formats/contexts or calls a function taking a context.
func (x *c06Fmt) mentionsFormat(info *types.Info, l Lit) bool {
	if l.Tag != nil {
		return x.isCtx(info.TypeOf(l.Tag)) || x.isFmt(info.TypeOf(l.Tag))
	}
	found := false
	ast.Inspect(l.Expr, func(n ast.Node) bool {
		switch e := n.(type) {
		case *ast.BinaryExpr:
			if t := info.TypeOf(e.X); x.isCtx(t) || x.isFmt(t) {
				found = true
			}
		case *ast.CallExpr:
			if fn := callee(info, e); fn != nil && len(c06ParamIndex(fn, x.isCtx)) > 0 {
				found = true
			}
		}
		return !found
	})
	return found
}

func c06CallArgOr(a, b ast.Expr) ast.Expr {
	if a != nil {
		return a
	}
	return b
}

// c06Scope returns the node in which assignments to id's variable are counted: the innermost
// enclosing loop body when the variable is declared by that loop (a fresh variable per iteration),
// else the whole function.
func c06Scope(p *Prog, fi *FuncInfo, id *ast.Ident, info *types.Info) ast.Node {
	return fi.Decl.Body
}

type c06PredVerdict struct {
	verdict Verdict
	why     string
	pairs   int
}

// verifyPredicate decides whether fn(expr, ctx) == true implies ctx is a format and the format of the
// macro called by expr is compatible with it. One obligation per predicate function.
func (x *c06Fmt) verifyPredicate(rule string, fn *types.Func, ctxIdx, exprIdx int) *c06PredVerdict {
	r := x.r
	fi := c06FuncInfoOf(r.P, fn)
	pv := &c06PredVerdict{verdict: Undecided}
	o := r.Ob(rule, funcKey(fn)+"#predicate", fn.Pos())
	fail := func(v Verdict, format string, a ...any) *c06PredVerdict {
		pv.verdict, pv.why = v, fmt.Sprintf(format, a...)
		if v == Violated {
			o.Bad("%s", pv.why)
		} else {
			o.Unknown("%s", pv.why)
		}
		return pv
	}
	if fi == nil {
		return fail(Undecided, "no body found")
	}
	info := fi.Pkg.TypesInfo
	sig := fn.Type().(*types.Signature)
	ctxP, exprP := sig.Params().At(ctxIdx), sig.Params().At(exprIdx)
	if len(c06Defs(info, fi.Decl.Body, ctxP)) > 0 {
		return fail(Undecided, "the context parameter is re-assigned")
	}
	// aliases of ctx: Format variables whose only definition is a conversion of ctx; from: the other Format variable
	var from *types.Var
	alias := map[types.Object]bool{ctxP: true}
	var locals []*types.Var
	ast.Inspect(fi.Decl.Body, func(n ast.Node) bool {
		if id, ok := n.(*ast.Ident); ok {
			if v, ok := info.Defs[id].(*types.Var); ok && x.isFmt(v.Type()) {
				locals = append(locals, v)
			}
		}
		return true
	})
	for _, v := range locals {
		ds := c06Defs(info, fi.Decl.Body, v)
		if len(ds) == 1 && ds[0].Rhs != nil {
			if id, ok := c06Strip(info, ds[0].Rhs).(*ast.Ident); ok && info.Uses[id] == ctxP {
				alias[v] = true
				continue
			}
		}
		// the key variable of a range over the format table is a source, not from
		isRangeKey := false
		for _, d := range ds {
			if _, ok := d.Node.(*ast.RangeStmt); ok {
				isRangeKey = true
			}
		}
		if isRangeKey {
			continue
		}
		if from != nil {
			return fail(Undecided, "more than one candidate for the callee's format (%s, %s)", from.Name(), v.Name())
		}
		from = v
	}
	if from == nil {
		return fail(Undecided, "no variable holding the callee's format found")
	}
	// from derives from the expression parameter: every non-zero definition is the key of a range over a
	// map[ast.Format]reflect.Type, under the condition value == T with T computed from the expression
	for _, d := range c06Defs(info, fi.Decl.Body, from) {
		if d.Zero {
			continue
		}
		okDef := false
		if id, ok := ast.Unparen(d.Rhs).(*ast.Ident); ok && d.Rhs != nil {
			kv := info.Uses[id]
			ast.Inspect(fi.Decl.Body, func(n ast.Node) bool {
				rs, ok := n.(*ast.RangeStmt)
				if !ok || rs.Key == nil || rs.Value == nil {
					return true
				}
				kid, ok1 := rs.Key.(*ast.Ident)
				vid, ok2 := rs.Value.(*ast.Ident)
				mt, ok3 := info.TypeOf(rs.X).Underlying().(*types.Map)
				if !ok1 || !ok2 || !ok3 || c06Obj(info, kid) != kv || !x.isFmt(mt.Key()) {
					return true
				}
				vv := c06Obj(info, vid)
				c := r.P.CFGOf(fi)
				if c.GuardedBy(d.Node, func(l Lit) bool {
					be, ok := ast.Unparen(l.Expr).(*ast.BinaryExpr)
					if !ok || l.Tag != nil || !((be.Op == token.EQL && l.Truth) || (be.Op == token.NEQ && !l.Truth)) {
						return false
					}
					for _, p := range [][2]ast.Expr{{be.X, be.Y}, {be.Y, be.X}} {
						if id, ok := ast.Unparen(p[0]).(*ast.Ident); ok && info.Uses[id] == vv && c06DerivesFrom(info, fi.Decl.Body, p[1], exprP, 0) {
							return true
						}
					}
					return false
				}) {
					okDef = true
				}
				return true
			})
		}
		if !okDef {
			return fail(Undecided, "the callee's format %s is assigned from something other than the format table entry equal to the callee's result type", from.Name())
		}
	}
	// data flow over (ctx, from)
	d := &c06Dom{info: info, varOf: func(e ast.Expr) int {
		if id, ok := c06Strip(info, e).(*ast.Ident); ok {
			if o := info.Uses[id]; o != nil {
				if alias[o] {
					return 0
				}
				if o == from {
					return 1
				}
			}
		}
		return -1
	}}
	c := r.P.CFGOf(fi)
	assigned := func(n ast.Node) (bool, bool) { return false, c06Assigns(info, n, from) }
	n0, n1 := int(x.maxCtx)+1, int(x.maxFmt)+1
	in := c06Flow(c, d, n0, n1, c.G.Blocks[0], assigned, nil)
	ctxName, fmtName := c06ConstNames(x.ctxs), c06ConstNames(x.fmts)
	truePairs := 0
	for _, b := range c.G.Blocks {
		for i, n := range b.Nodes {
			ret, ok := n.(*ast.ReturnStmt)
			if !ok || len(ret.Results) != 1 {
				continue
			}
			st := c06StateAt(in, b, i, assigned)
			if st == nil {
				continue
			}
			for a := 0; a < n0; a++ {
				for f := 0; f < n1; f++ {
					if !st.has(a, f) || d.eval(ret.Results[0], [2]int64{int64(a), int64(f)}) == c06F {
						continue
					}
					truePairs++
					if int64(a) > x.maxFmt || !x.compat(int64(f), int64(a)) {
						return fail(Violated, "%s can return true for context %s and callee format %s (return at %s), which are not compatible: the callee's output would be written unescaped", funcKey(fn), ctxName[int64(a)], fmtName[int64(f)], r.P.Pos(ret.Pos()))
					}
				}
			}
		}
	}
	if truePairs == 0 {
		return fail(Undecided, "the predicate is never true on the finite domain (vacuous)")
	}
	pv.verdict, pv.pairs = Discharged, n0*n1
	o.OK("every return that can be true is reached only with context ≤ %s and (from == to ∨ from == Markdown ∧ to == HTML): checked on %d×%d pairs, %d may return true; from is the format-table key whose type equals the callee's result type", ctxName[x.maxFmt], n0, n1, truePairs)
	return pv
}

// ---------------------------------------------------------------------------
// R-2 sanitiser on every path

// c06Spec is the frozen specification of one context: the escapers that make a string safe in it
// and the native string type whose family (the type and the native interfaces returning it) is trusted.
type c06Spec struct {
	esc    []string
	native string
	none   bool // the context has no syntax to protect (plain text)
	inline bool // sanitised by an in-line replacement loop whose class is decided by R-3
}

var c06Specs = map[string]c06Spec{
	"ContextText":            {none: true},
	"ContextHTML":            {esc: []string{"htmlEscape"}, native: "HTML"},
	"ContextTag":             {inline: true},
	"ContextQuotedAttr":      {esc: []string{"attributeEscape"}},
	"ContextUnquotedAttr":    {esc: []string{"attributeEscape"}},
	"ContextCSS":             {esc: []string{"cssStringEscape"}, native: "CSS"},
	"ContextCSSString":       {esc: []string{"cssStringEscape"}},
	"ContextJS":              {esc: []string{"jsStringEscape"}, native: "JS"},
	"ContextJSString":        {esc: []string{"jsStringEscape"}},
	"ContextJSON":            {esc: []string{"jsonStringEscape", "jsStringEscape"}, native: "JSON"},
	"ContextJSONString":      {esc: []string{"jsonStringEscape", "jsStringEscape"}},
	"ContextMarkdown":        {esc: []string{"markdownEscape"}, native: "Markdown"},
	"ContextTabCodeBlock":    {esc: []string{"markdownCodeBlockEscape"}},
	"ContextSpacesCodeBlock": {esc: []string{"markdownCodeBlockEscape"}},
	"URL":                    {esc: []string{"pathEscape", "queryEscape"}},
}

// c06Exceptions: one named construct or symbol, one line of reason.
var c06Exceptions = map[string]string{
	"runtime.showInHTML#type []byte:Write":             "[]byte is written as is in HTML: documented behaviour, checkShow accepts the type as such (DESIGN C06 R-2)",
	"runtime.showInHTML#type native.Markdown:env.conv": "native.Markdown is a trusted type; in HTML it goes through the embedder's Markdown→HTML converter",
	"runtime.escapeBytes":                              "writes base64 (A–Z a–z 0–9 + / =) between optional double quotes: closed alphabet",
	"runtime.showTimeInJS":                             "formats integers into the fixed text new Date(\"…\"): closed alphabet",
	"strconv.FormatInt":                                "digits and sign: closed alphabet",
	"strconv.FormatUint":                               "digits: closed alphabet",
	"strconv.FormatFloat":                              "digits, sign, point, exponent, Inf, NaN: closed alphabet (validity of Inf/NaN is C08 R-4)",
	"time.Time.Format":                                 "constant layout of digits and the separators - : T Z +: closed alphabet",
	"runtime.showInJS#default:Sprintf":                 "the only variable part is the name of a Go type inside a comment, not data of the shown value",
}

type c06Sink struct {
	call   *ast.CallExpr
	label  string // construct suffix
	kind   string // "sanitised" | "delegate" | "raw" | "exception" | "unknown"
	name   string // escaper / callee / method
	data   ast.Expr
	class  string // for raw: "lit" | "closed" | "trusted" | "untrusted" | "unknown" | "inline"
	fact   string
	clause []string
}

type c06Show struct {
	r        *Run
	info     *types.Info
	pkg      *types.Package
	ctxFuncs map[string][]string // function name → contexts dispatching to it
	funcs    map[string]*FuncInfo
	native   *types.Package
}

func c06IsWriter(t types.Type) bool {
	if t == nil {
		return false
	}
	it, ok := t.Underlying().(*types.Interface)
	if !ok {
		return false
	}
	for i := 0; i < it.NumMethods(); i++ {
		if it.Method(i).Name() == "Write" {
			return true
		}
	}
	return false
}

// c06ShowTable reads renderer.Show: context → show function, plus the URL function.
func c06ShowTable(r *Run, rule string) *c06Show {
	const rt = "internal/runtime"
	ctxT := r.P.Named("ast", "Context")
	pk := r.P.Pkg(rt)
	if !r.Anchor(rule, "ast.Context", ctxT != nil) || !r.Anchor(rule, "package runtime", pk != nil) {
		return nil
	}
	// show dispatcher by role: method of runtime switching on ast.Context
	var show *FuncInfo
	n := 0
	for _, fi := range r.P.Funcs(rt) {
		if fi.Decl.Recv != nil && !r.P.isTestFile(fi.File) && len(switchesOn(fi.Pkg.TypesInfo, fi.Decl.Body, ctxT)) > 0 {
			show = fi
			n++
		}
	}
	if !r.Anchor(rule, "the method of package runtime switching on ast.Context (renderer.Show)", n == 1) {
		return nil
	}
	info := pk.TypesInfo
	x := &c06Show{r: r, info: info, pkg: pk.Types, ctxFuncs: map[string][]string{}, funcs: map[string]*FuncInfo{}}
	if np := r.P.Pkg("native"); np != nil {
		x.native = np.Types
	}
	if !r.Anchor(rule, "package native", x.native != nil) {
		return nil
	}
	sw := switchesOn(info, show.Decl.Body, ctxT)[0]
	inSwitch := map[*ast.CallExpr]bool{}
	for _, st := range sw.Body.List {
		cc := st.(*ast.CaseClause)
		for _, e := range cc.List {
			k := constOf(info, e)
			if k == nil {
				r.Ob(rule, "show-dispatch:"+exprStr(e), e.Pos()).Unknown("case label of renderer.Show is not a context constant")
				continue
			}
			var fns []*types.Func
			for _, c := range calls(cc, false) {
				inSwitch[c] = true
				if f := callee(info, c); f != nil && f.Pkg() == pk.Types {
					for _, a := range c.Args {
						if c06IsWriter(info.TypeOf(a)) {
							fns = append(fns, f)
							break
						}
					}
				}
			}
			if len(fns) != 1 {
				r.Ob(rule, "show-dispatch:"+k.Name(), cc.Pos()).Unknown("expected one show function receiving the writer in the clause of %s, found %d", k.Name(), len(fns))
				continue
			}
			x.ctxFuncs[fns[0].Name()] = append(x.ctxFuncs[fns[0].Name()], k.Name())
			x.funcs[fns[0].Name()] = c06FuncInfoOf(r.P, fns[0])
		}
	}
	// calls outside the switch that show the value (the URL path): methods of the same receiver taking the value
	for _, c := range calls(show.Decl.Body, false) {
		if inSwitch[c] {
			continue
		}
		f := callee(info, c)
		if f == nil || f.Pkg() != pk.Types || f.Type().(*types.Signature).Recv() == nil {
			continue
		}
		takesAny := false
		for _, a := range c.Args {
			if t := info.TypeOf(a); t != nil {
				if it, ok := t.Underlying().(*types.Interface); ok && it.Empty() {
					takesAny = true
				}
			}
		}
		if takesAny {
			x.ctxFuncs[f.Name()] = append(x.ctxFuncs[f.Name()], "URL")
			x.funcs[f.Name()] = c06FuncInfoOf(r.P, f)
		}
	}
	return x
}

func (x *c06Show) specOf(fn string) (c06Spec, bool) {
	var sp c06Spec
	ctxs := x.ctxFuncs[fn]
	if len(ctxs) == 0 {
		return sp, false
	}
	for i, c := range ctxs {
		s, ok := c06Specs[c]
		if !ok {
			return sp, false
		}
		if i == 0 {
			sp = s
			sp.esc = append([]string(nil), s.esc...)
			continue
		}
		if s.native != sp.native || s.none != sp.none || s.inline != sp.inline {
			return sp, false
		}
		for _, e := range s.esc {
			if !c06In(sp.esc, e) {
				sp.esc = append(sp.esc, e)
			}
		}
	}
	return sp, true
}

func c06In(xs []string, s string) bool {
	for _, x := range xs {
		if x == s {
			return true
		}
	}
	return false
}

// trustedType reports whether t belongs to the family of the native string type name:
// the type itself or an interface of package native with a method returning it.
func (x *c06Show) trustedType(t types.Type, name string) bool {
	if name == "" || t == nil {
		return false
	}
	o := x.native.Scope().Lookup(name)
	if o == nil {
		return false
	}
	nt := o.Type()
	if types.Identical(t, nt) {
		return true
	}
	n, ok := t.(*types.Named)
	if !ok || n.Obj().Pkg() != x.native {
		return false
	}
	it, ok := n.Underlying().(*types.Interface)
	if !ok || it.NumMethods() == 0 {
		return false
	}
	for i := 0; i < it.NumMethods(); i++ {
		res := it.Method(i).Type().(*types.Signature).Results()
		if res.Len() != 1 || !types.Identical(res.At(0).Type(), nt) {
			return false
		}
	}
	return true
}

// clausePath returns the labels of the case clauses enclosing n, outermost first, and the clauses.
func (x *c06Show) clausePath(fi *FuncInfo, n ast.Node) ([]string, []*ast.CaseClause) {
	par := x.r.P.Parents(fi.File)
	var labels []string
	var ccs []*ast.CaseClause
	for m := par[n]; m != nil && m != fi.Decl.Body; m = par[m] {
		cc, ok := m.(*ast.CaseClause)
		if !ok {
			continue
		}
		lab := "default"
		if cc.List != nil {
			var ps []string
			for _, e := range cc.List {
				if tv, ok := x.info.Types[e]; ok && tv.IsType() {
					ps = append(ps, typeStr(tv.Type))
				} else if tv.IsNil() {
					ps = append(ps, "nil")
				} else if k := constOf(x.info, e); k != nil {
					ps = append(ps, k.Name())
				} else {
					ps = append(ps, "cond")
				}
			}
			lab = strings.Join(ps, ",")
			if tv, ok := x.info.Types[cc.List[0]]; ok && (tv.IsType() || tv.IsNil()) {
				lab = "type " + lab
			}
		}
		labels = append([]string{lab}, labels...)
		ccs = append([]*ast.CaseClause{cc}, ccs...)
	}
	return labels, ccs
}

// clauseOfImplicit returns the type-switch clause binding obj, if obj is the per-clause variable of a type switch.
func (x *c06Show) clauseOfImplicit(obj types.Object) *ast.CaseClause {
	for n, o := range x.info.Implicits {
		if o == obj {
			if cc, ok := n.(*ast.CaseClause); ok {
				return cc
			}
		}
	}
	return nil
}

var c06Rank = map[string]int{"lit": 0, "closed": 1, "trusted": 2, "inline": 2, "unknown": 3, "untrusted": 4}

func c06Worse(a, b string) string {
	if c06Rank[b] > c06Rank[a] {
		return b
	}
	return a
}

// classify decides where the written data comes from.
func (x *c06Show) classify(fi *FuncInfo, sp c06Spec, e ast.Expr, at ast.Node, seen map[types.Object]bool) (string, string) {
	info := x.info
	e = ast.Unparen(e)
	if tv, ok := info.Types[e]; ok && tv.Value != nil {
		return "lit", "constant"
	}
	if t := info.TypeOf(e); x.trustedType(t, sp.native) {
		return "trusted", "value of trusted type " + typeStr(t)
	}
	switch v := e.(type) {
	case *ast.CallExpr:
		if len(v.Args) == 1 {
			if tv, ok := info.Types[v.Fun]; ok && tv.IsType() {
				return x.classify(fi, sp, v.Args[0], at, seen)
			}
		}
		fn := callee(info, v)
		if fn == nil {
			return "unknown", "dynamic call " + exprStr(v.Fun)
		}
		sym := c06Symbol(fn)
		if _, ok := c06Exceptions[sym]; ok {
			if sym == "time.Time.Format" {
				if len(v.Args) != 1 || info.Types[v.Args[0]].Value == nil {
					return "unknown", "time.Time.Format with a non-constant layout"
				}
			}
			return "closed", sym
		}
		if fn.Pkg() != nil && fn.Pkg().Path() == "fmt" && fn.Name() == "Sprintf" {
			labels, _ := x.clausePath(fi, v)
			key := fi.Name() + "#" + strings.Join(labels, "/") + ":Sprintf"
			if _, ok := c06Exceptions[key]; ok && len(v.Args) > 0 && info.Types[v.Args[0]].Value != nil {
				return "closed", key
			}
			return "untrusted", "fmt.Sprintf of non-constant data"
		}
		if fn.Pkg() == x.pkg && fn.Name() == "toString" {
			if why, ok := x.kindExcludesString(fi, v); ok {
				return "closed", "toString of a value whose kind is not String (" + why + "): numbers and booleans"
			}
			return "untrusted", "toString of the shown value (returns a string value unchanged)"
		}
		return "untrusted", "result of " + sym
	case *ast.Ident:
		obj := info.Uses[v]
		if obj == nil {
			return "unknown", "identifier " + v.Name
		}
		if cc := x.clauseOfImplicit(obj); cc != nil {
			all := cc.List != nil
			for _, te := range cc.List {
				if !x.trustedType(info.TypeOf(te), sp.native) {
					all = false
				}
			}
			if all {
				return "trusted", "the shown value narrowed to its trusted types"
			}
			return "untrusted", "the shown value"
		}
		vv, ok := obj.(*types.Var)
		if !ok {
			return "unknown", "identifier " + v.Name
		}
		sig := fi.Obj.Type().(*types.Signature)
		for i := 0; i < sig.Params().Len(); i++ {
			if sig.Params().At(i) == vv {
				return "untrusted", "parameter " + v.Name
			}
		}
		if seen[obj] {
			return "lit", ""
		}
		seen[obj] = true
		cls := "lit"
		ds := c06Defs(info, fi.Decl.Body, vv)
		if len(ds) == 0 {
			return "unknown", "no definition of " + v.Name
		}
		whys := map[string][]string{}
		for _, d := range ds {
			c, w := "unknown", "assignment of "+v.Name+" not understood"
			if d.Zero {
				c, w = "lit", "constant"
			} else if d.Rhs != nil {
				if _, isRange := d.Node.(*ast.RangeStmt); !isRange {
					c, w = x.classify(fi, sp, d.Rhs, d.Node, seen)
				}
			}
			if w != "" && !c06In(whys[c], w) {
				whys[c] = append(whys[c], w)
			}
			cls = c06Worse(cls, c)
		}
		var all []string
		for _, k := range []string{"lit", "closed", "trusted"} {
			if c06Rank[k] <= c06Rank[cls] {
				all = append(all, whys[k]...)
			}
		}
		if c06Rank[cls] >= c06Rank["unknown"] {
			all = whys[cls]
		}
		return cls, v.Name + " is assigned only from: " + strings.Join(all, "; ")
	case *ast.BinaryExpr:
		if v.Op == token.ADD {
			a, wa := x.classify(fi, sp, v.X, at, seen)
			b, wb := x.classify(fi, sp, v.Y, at, seen)
			if c06Rank[b] > c06Rank[a] {
				return b, wb
			}
			return a, wa
		}
	case *ast.SelectorExpr:
		return "untrusted", "field " + exprStr(v)
	}
	return "unknown", "expression " + exprStr(e)
}

func c06Symbol(fn *types.Func) string {
	sig := fn.Type().(*types.Signature)
	pk := ""
	if fn.Pkg() != nil {
		pk = fn.Pkg().Path()
		if strings.HasPrefix(pk, modulePath) {
			pk = relOf(fn.Pkg())
		}
	}
	if sig.Recv() != nil {
		t := sig.Recv().Type()
		if p, ok := t.(*types.Pointer); ok {
			t = p.Elem()
		}
		if n, ok := t.(*types.Named); ok {
			return pk + "." + n.Obj().Name() + "." + fn.Name()
		}
	}
	return pk + "." + fn.Name()
}

// kindExcludesString reports whether the toString call converts a value whose reflect kind was
// switched on and whose clause cannot be reflect.String.
func (x *c06Show) kindExcludesString(fi *FuncInfo, call *ast.CallExpr) (string, bool) {
	info := x.info
	if len(call.Args) == 0 {
		return "", false
	}
	argID, ok := ast.Unparen(call.Args[len(call.Args)-1]).(*ast.Ident)
	if !ok {
		return "", false
	}
	argObj := info.Uses[argID]
	par := x.r.P.Parents(fi.File)
	for m := par[ast.Node(call)]; m != nil && m != fi.Decl.Body; m = par[m] {
		cc, ok := m.(*ast.CaseClause)
		if !ok {
			continue
		}
		sw, ok := par[par[cc]].(*ast.SwitchStmt)
		if !ok || sw.Tag == nil {
			continue
		}
		kc, ok := ast.Unparen(sw.Tag).(*ast.CallExpr)
		if !ok {
			continue
		}
		sel, ok := kc.Fun.(*ast.SelectorExpr)
		if !ok || sel.Sel.Name != "Kind" || typeStr(info.TypeOf(sel.X)) != "reflect.Value" {
			continue
		}
		// the reflect.Value is valueOf(env, arg) / reflect.ValueOf(arg) of the same variable
		vid, ok := ast.Unparen(sel.X).(*ast.Ident)
		if !ok {
			continue
		}
		same := false
		ds := c06Defs(info, fi.Decl.Body, info.Uses[vid])
		if len(ds) == 1 && ds[0].Rhs != nil {
			if dc, ok := ast.Unparen(ds[0].Rhs).(*ast.CallExpr); ok && len(dc.Args) > 0 {
				if aid, ok := ast.Unparen(dc.Args[len(dc.Args)-1]).(*ast.Ident); ok && info.Uses[aid] == argObj {
					if f := callee(info, dc); f != nil && (f.Name() == "valueOf" && f.Pkg() == x.pkg || f.Name() == "ValueOf" && f.Pkg().Path() == "reflect") {
						same = true
					}
				}
			}
		}
		if !same {
			continue
		}
		// the converted variable is not re-assigned inside the switch
		if len(c06Defs(info, sw, argObj)) > 0 {
			return "", false
		}
		isString := func(e ast.Expr) bool {
			k := constOf(info, e)
			return k != nil && k.Name() == "String" && k.Pkg().Path() == "reflect"
		}
		if cc.List != nil {
			for _, e := range cc.List {
				if isString(e) || constOf(info, e) == nil {
					return "", false
				}
			}
			return "clause lists no reflect.String", true
		}
		for _, st := range sw.Body.List {
			for _, e := range st.(*ast.CaseClause).List {
				if isString(e) {
					return "default clause of a kind switch with its own reflect.String clause", true
				}
			}
		}
		return "", false
	}
	return "", false
}

// sinks lists every call of fi that can write to the output, classified.
func (x *c06Show) sinks(fi *FuncInfo, sp c06Spec) []*c06Sink {
	info := x.info
	var out []*c06Sink
	for _, c := range calls(fi.Decl.Body, true) {
		sk := &c06Sink{call: c}
		sel, isSel := ast.Unparen(c.Fun).(*ast.SelectorExpr)
		fn := callee(info, c)
		recvWriter := isSel && c06IsWriter(info.TypeOf(sel.X)) && info.Selections[sel] != nil
		argWriter := false
		for _, a := range c.Args {
			if c06IsWriter(info.TypeOf(a)) && !c06LocalBuffer(info, fi, a) {
				argWriter = true
			}
		}
		if !recvWriter && !argWriter {
			continue
		}
		labels, ccs := x.clausePath(fi, c)
		sk.clause = labels
		lab := strings.Join(labels, "/")
		if lab == "" {
			lab = "body"
		}
		switch {
		case recvWriter:
			if len(c.Args) != 1 {
				sk.kind, sk.name, sk.fact = "unknown", sel.Sel.Name, "method of the writer with an unexpected signature"
				break
			}
			sk.kind, sk.name, sk.data = "raw", sel.Sel.Name, c.Args[0]
		case fn == nil:
			// dynamic call receiving the writer
			sk.name = exprStr(c.Fun)
			sk.kind, sk.fact = "unknown", "dynamic call receiving the writer"
			key := fi.Name() + "#" + lab + ":" + sk.name
			if why, ok := c06Exceptions[key]; ok {
				// only inside clauses for exactly native.Markdown
				okc := len(ccs) > 0
				if okc {
					for _, te := range ccs[len(ccs)-1].List {
						if !x.trustedType(info.TypeOf(te), "Markdown") {
							okc = false
						}
					}
				}
				if okc {
					sk.kind, sk.fact = "exception", why
				}
			}
		case fn.Pkg() != nil && fn.Pkg().Path() == "io" && fn.Name() == "WriteString" && len(c.Args) == 2:
			sk.kind, sk.name, sk.data = "raw", "io.WriteString", c.Args[1]
		case c06IsWriter(fn.Type().(*types.Signature).Results().At(0).Type()) && fn.Type().(*types.Signature).Results().Len() == 1:
			continue // wraps the writer, writes nothing
		case fn.Pkg() == x.pkg && c06In(sp.esc, fn.Name()):
			sk.kind, sk.name, sk.fact = "sanitised", fn.Name(), "written through "+fn.Name()
			for _, a := range c.Args {
				if b, ok := info.TypeOf(a).Underlying().(*types.Basic); ok && b.Info()&types.IsString != 0 && sk.data == nil {
					sk.data = a
				}
			}
		case fn.Pkg() == x.pkg && x.ctxFuncs[fn.Name()] != nil:
			sk.name = fn.Name()
			osp, ok := x.specOf(fn.Name())
			sub := ok && osp.native == sp.native || fn == fi.Obj
			if ok {
				for _, e := range osp.esc {
					if !c06In(sp.esc, e) {
						sub = false
					}
				}
			}
			if fn == fi.Obj {
				sk.kind, sk.fact = "delegate", "recursion into the same show function"
			} else if sub && ok && !osp.none && !osp.inline {
				sk.kind, sk.fact = "delegate", "delegates to "+fn.Name()+", analysed for "+strings.Join(x.ctxFuncs[fn.Name()], ",")+" with escapers "+strings.Join(osp.esc, ",")
			} else {
				sk.kind, sk.fact = "raw", "delegates to "+fn.Name()+" whose context uses other escapers"
				sk.class = "untrusted"
			}
		default:
			sk.name = fn.Name()
			if why, ok := c06Exceptions[c06Symbol(fn)]; ok {
				sk.kind, sk.fact = "exception", c06Symbol(fn)+": "+why
			} else if hf := x.helperOK(fn, sp, map[*types.Func]bool{fi.Obj: true}); hf != "" {
				// a helper of the package that receives the writer: every write it makes is itself
				// sanitised, closed-alphabet or a delegation, under the escapers of this context
				sk.kind, sk.fact = "delegate", hf
			} else {
				sk.kind, sk.fact = "unknown", "call of "+c06Symbol(fn)+" receiving the writer is not an escaper of this context"
			}
		}
		sk.label = lab + ":" + sk.name
		if sk.kind == "raw" && sk.class == "" {
			sk.class, sk.fact = x.classify(fi, sp, sk.data, c, map[types.Object]bool{})
			if sk.class == "untrusted" || sk.class == "unknown" {
				// a value written only where it was just found equal to a string constant is that constant
				if did, ok := ast.Unparen(sk.data).(*ast.Ident); ok && info.Uses[did] != nil {
					cg := x.r.P.CFGOf(fi)
					if cg.GuardedBy(c, func(l Lit) bool {
						be, ok := ast.Unparen(l.Expr).(*ast.BinaryExpr)
						if !ok || l.Tag != nil || be.Op != token.EQL || !l.Truth {
							return false
						}
						for _, pr := range [][2]ast.Expr{{be.X, be.Y}, {be.Y, be.X}} {
							if id, ok := ast.Unparen(pr[0]).(*ast.Ident); ok && info.Uses[id] == info.Uses[did] {
								if _, isConst := stringValue(info, pr[1]); isConst {
									return true
								}
							}
						}
						return false
					}) {
						sk.class, sk.fact = "lit", did.Name+" is written only where it equals a string constant"
					}
				}
			}
			key := fi.Name() + "#" + sk.label
			if why, ok := c06Exceptions[key]; ok && sk.class != "lit" {
				sk.kind, sk.fact = "exception", why
			}
			if sp.inline && (sk.class == "untrusted" || sk.class == "unknown") {
				if id, ok := ast.Unparen(sk.data).(*ast.Ident); ok {
					if loop := c06ReplacementLoop(info, fi, info.Uses[id]); loop != nil {
						cg := x.r.P.CFGOf(fi)
						if cg.MustPassNode(c, func(n ast.Node) bool { return n == ast.Node(loop.X) }) {
							sk.class, sk.fact = "inline", "every path to the write runs the replacement loop over "+id.Name+" (its class is decided by R-3)"
						} else {
							sk.fact = "a path reaches the write of " + id.Name + " without running the replacement loop"
						}
					}
				}
			}
		}
		out = append(out, sk)
	}
	return out
}

// c06LocalBuffer reports whether e is &b (or b) with b a local variable of fi declared as a
// strings.Builder or bytes.Buffer value: a scratch buffer, not the output writer.
func c06LocalBuffer(info *types.Info, fi *FuncInfo, e ast.Expr) bool {
	e = ast.Unparen(e)
	if u, ok := e.(*ast.UnaryExpr); ok && u.Op == token.AND {
		e = ast.Unparen(u.X)
	}
	id, ok := e.(*ast.Ident)
	if !ok {
		return false
	}
	v, ok := info.Uses[id].(*types.Var)
	if !ok || v.IsField() || v.Pkg() == nil || v.Parent() == v.Pkg().Scope() {
		return false
	}
	ts := typeStr(v.Type())
	if ts != "strings.Builder" && ts != "bytes.Buffer" {
		return false
	}
	// not a parameter
	sig := fi.Obj.Type().(*types.Signature)
	for i := 0; i < sig.Params().Len(); i++ {
		if sig.Params().At(i) == v {
			return false
		}
	}
	return true
}

// helperOK analyses a function of the package that is given the writer by a show function: it returns a
// description when every sink of the helper is acceptable under sp (sanitised, literal / closed / trusted
// raw write, delegation), "" otherwise. Helpers calling helpers are followed; recursion is cut by seen.
func (x *c06Show) helperOK(fn *types.Func, sp c06Spec, seen map[*types.Func]bool) string {
	if fn == nil || fn.Pkg() != x.pkg || seen[fn] {
		return ""
	}
	seen[fn] = true
	var hfi *FuncInfo
	for _, f := range x.r.P.Funcs("internal/runtime") {
		if f.Obj == fn {
			hfi = f
		}
	}
	if hfi == nil {
		return ""
	}
	n := 0
	for _, sk := range x.sinks(hfi, sp) {
		n++
		if os.Getenv("C06_DEBUG") != "" {
			fmt.Fprintf(os.Stderr, "helper %s sink %s kind=%s class=%s fact=%s\n", fn.Name(), sk.label, sk.kind, sk.class, sk.fact)
		}
		switch sk.kind {
		case "sanitised", "delegate", "exception":
		case "raw":
			switch sk.class {
			case "lit", "closed", "trusted", "inline":
			default:
				return ""
			}
		default:
			return ""
		}
	}
	if n == 0 {
		return ""
	}
	return "helper " + fn.Name() + ": its " + itoa(n) + " writes are sanitised, literal or delegated under the escapers of this context"
}

// c06ReplacementLoop finds `for _, c := range s` over variable s whose body assigns U+FFFD to c.
func c06ReplacementLoop(info *types.Info, fi *FuncInfo, s types.Object) *ast.RangeStmt {
	var found *ast.RangeStmt
	ast.Inspect(fi.Decl.Body, func(n ast.Node) bool {
		rs, ok := n.(*ast.RangeStmt)
		if !ok || rs.Value == nil {
			return true
		}
		xid, ok1 := ast.Unparen(rs.X).(*ast.Ident)
		vid, ok2 := rs.Value.(*ast.Ident)
		if !ok1 || !ok2 || s == nil || info.Uses[xid] != s {
			return true
		}
		if c06ReplaceIf(info, rs, c06Obj(info, vid)) != nil {
			found = rs
		}
		return true
	})
	return found
}

// c06Replace describes the condition under which the loop replaces the rune by U+FFFD:
// some literal of alts holds and every literal of earlier (clauses of the same switch tried first) fails.
type c06Replace struct {
	alts    []Lit
	earlier []Lit
	pos     token.Pos
	more    []*c06Replace // further constructs of the same loop body replacing the rune
}

// c06ReplaceCond finds the if statement or switch clause of the loop body that assigns U+FFFD to the rune variable.
func c06ReplaceCond(info *types.Info, rs *ast.RangeStmt, rv types.Object) *c06Replace {
	assignsFFFD := func(body ast.Node) bool {
		for _, d := range c06Defs(info, body, rv) {
			if d.Rhs != nil {
				if v, ok := intValue(info, d.Rhs); ok && v == unicode.ReplacementChar {
					return true
				}
			}
		}
		return false
	}
	var found *c06Replace
	add := func(rp *c06Replace) {
		if found == nil {
			found = rp
		} else {
			found.more = append(found.more, rp)
		}
	}
	ast.Inspect(rs.Body, func(n ast.Node) bool {
		switch st := n.(type) {
		case *ast.IfStmt:
			if assignsFFFD(st.Body) {
				add(&c06Replace{alts: []Lit{{Expr: st.Cond, Truth: true}}, pos: st.Cond.Pos()})
			}
		case *ast.SwitchStmt:
			var earlier []Lit
			for _, c := range st.Body.List {
				cc := c.(*ast.CaseClause)
				var lits []Lit
				for _, e := range cc.List {
					lits = append(lits, Lit{Expr: e, Tag: st.Tag, Truth: true})
				}
				hit := false
				for _, b := range cc.Body {
					if assignsFFFD(b) {
						hit = true
					}
				}
				if hit && cc.List != nil {
					add(&c06Replace{alts: lits, earlier: append([]Lit(nil), earlier...), pos: cc.Pos()})
				}
				earlier = append(earlier, lits...)
			}
		}
		return true
	})
	return found
}

func c06ReplaceIf(info *types.Info, rs *ast.RangeStmt, rv types.Object) *c06Replace {
	return c06ReplaceCond(info, rs, rv)
}

func (rp *c06Replace) eval(d *c06Dom, b [2]int64) int {
	res := rp.evalOne(d, b)
	for _, m := range rp.more {
		switch m.evalOne(d, b) {
		case c06T:
			return c06T
		case c06U:
			if res == c06F {
				res = c06U
			}
		}
	}
	return res
}

func (rp *c06Replace) evalOne(d *c06Dom, b [2]int64) int {
	for _, l := range rp.earlier {
		switch d.evalLit(l, b) {
		case c06T:
			return c06F
		case c06U:
			return c06U
		}
	}
	res := c06F
	for _, l := range rp.alts {
		switch d.evalLit(l, b) {
		case c06T:
			return c06T
		case c06U:
			res = c06U
		}
	}
	return res
}

// c06Sanitiser implements R-2. only restricts the functions (C08 R-3 reuses it for the serialisers).
func c06Sanitiser(r *Run, rule string, only map[string]bool) {
	x := c06ShowTable(r, rule)
	if x == nil {
		return
	}
	names := sortedKeys(x.ctxFuncs)
	nfun, lits := 0, 0
	for _, name := range names {
		if only != nil && !only[name] {
			continue
		}
		fi := x.funcs[name]
		sp, ok := x.specOf(name)
		if fi == nil || !ok {
			r.Ob(rule, "runtime."+name+"#spec", token.NoPos).Unknown("no frozen specification for the contexts %v dispatching to %s", x.ctxFuncs[name], name)
			continue
		}
		nfun++
		if sp.none {
			r.Ob(rule, fi.Name()+"#no-syntax", fi.Decl.Pos()).Trivial("contexts %v have no syntax to protect: the value is written as is", x.ctxFuncs[name])
			continue
		}
		nonLit := 0
		for _, sk := range x.sinks(fi, sp) {
			if sk.kind == "raw" && sk.class == "lit" {
				lits++
				continue
			}
			nonLit++
			o := r.Ob(rule, fi.Name()+"#"+sk.label, sk.call.Pos())
			switch sk.kind {
			case "sanitised", "delegate":
				o.OK("%s", sk.fact)
			case "exception":
				o.OK("exception: %s", sk.fact)
			case "unknown":
				o.Unknown("%s", sk.fact)
			case "raw":
				switch sk.class {
				case "closed", "trusted", "inline":
					o.OK("written without escaping: %s", sk.fact)
				case "untrusted":
					o.Bad("%s of %s writes data that is neither escaped for %v nor of a trusted type: %s", sk.name, exprStr(sk.data), x.ctxFuncs[name], sk.fact)
				default:
					o.Unknown("origin of the written data %s not understood: %s", exprStr(sk.data), sk.fact)
				}
			}
		}
		if nonLit == 0 {
			r.Ob(rule, fi.Name()+"#writes", fi.Decl.Pos()).Unknown("no write of the shown value found in %s", fi.Name())
		}
	}
	r.Stats[rule+"_show_functions"] = nfun
	r.Stats[rule+"_constant_writes"] = lits
	if only == nil {
		r.Require(rule, 55)
	}
}

// ---------------------------------------------------------------------------
// R-3 tag context alphabet

// c06AttrNameEnd: characters that end an attribute name in the HTML tokenizer (attribute name state:
// TAB, LF, FF, SPACE, '/', '>' → after attribute name; '=' → before attribute value; CR is
// normalised to LF by the input preprocessor), plus the quotes, which the lexer of scriggo
// treats as the start of a quoted value.
var c06AttrNameEnd = []rune{'\t', '\n', '\f', '\r', ' ', '"', '\'', '>', '/', '='}

func c06TagAlphabet(r *Run, rule string) {
	x := c06ShowTable(r, rule)
	if x == nil {
		return
	}
	var fi *FuncInfo
	for name, ctxs := range x.ctxFuncs {
		if c06In(ctxs, "ContextTag") {
			fi = x.funcs[name]
		}
	}
	if !r.Anchor(rule, "the show function renderer.Show dispatches ContextTag to", fi != nil) {
		return
	}
	info := x.info
	var loop *ast.RangeStmt
	var repl *c06Replace
	var rv types.Object
	ast.Inspect(fi.Decl.Body, func(n ast.Node) bool {
		rs, ok := n.(*ast.RangeStmt)
		if !ok || rs.Value == nil {
			return true
		}
		if b, ok := info.TypeOf(rs.X).Underlying().(*types.Basic); !ok || b.Info()&types.IsString == 0 {
			return true
		}
		vid, ok := rs.Value.(*ast.Ident)
		if !ok {
			return true
		}
		if is := c06ReplaceIf(info, rs, c06Obj(info, vid)); is != nil {
			loop, repl, rv = rs, is, c06Obj(info, vid)
		}
		return true
	})
	if !r.Anchor(rule, "the loop of "+fi.Name()+" replacing runes of the shown string by U+FFFD", loop != nil) {
		return
	}
	d := &c06Dom{info: info,
		varOf: func(e ast.Expr) int {
			if id, ok := c06Strip(info, e).(*ast.Ident); ok && info.Uses[id] == rv {
				return 0
			}
			return -1
		},
		call: func(c *ast.CallExpr, b [2]int64) int {
			fn := callee(info, c)
			if fn == nil || fn.Pkg() == nil || fn.Pkg().Path() != "unicode" {
				return c06U
			}
			arg := func(i int) bool {
				if i >= len(c.Args) {
					return false
				}
				id, ok := c06Strip(info, c.Args[i]).(*ast.Ident)
				return ok && info.Uses[id] == rv
			}
			ru := rune(b[0])
			res := false
			switch fn.Name() {
			case "Is":
				if len(c.Args) != 2 || !arg(1) {
					return c06U
				}
				tab := c06UnicodeTable(info, c.Args[0])
				if tab == nil {
					return c06U
				}
				res = unicode.Is(tab, ru)
			case "IsSpace":
				if !arg(0) {
					return c06U
				}
				res = unicode.IsSpace(ru)
			case "IsControl":
				if !arg(0) {
					return c06U
				}
				res = unicode.IsControl(ru)
			default:
				return c06U
			}
			if res {
				return c06T
			}
			return c06F
		}}
	need := map[rune]string{}
	for _, c := range c06AttrNameEnd {
		need[c] = "ends an attribute name in the HTML tokenizer"
	}
	// the class the template lexer itself uses to end an unquoted attribute / tag token
	if sp := r.P.Func("internal/compiler", "isASCIISpace"); sp != nil && len(sp.Decl.Body.List) == 1 {
		if ret, ok := sp.Decl.Body.List[0].(*ast.ReturnStmt); ok && len(ret.Results) == 1 && sp.Obj.Type().(*types.Signature).Params().Len() == 1 {
			pinfo := sp.Pkg.TypesInfo
			if set, ok := predSet(pinfo, ret.Results[0], isIdentOf(pinfo, sp.Obj.Type().(*types.Signature).Params().At(0)), 0, 255); ok {
				for v := range set {
					if _, dup := need[rune(v)]; !dup {
						need[rune(v)] = "is white space for the template lexer (compiler.isASCIISpace)"
					}
				}
				r.Stats[rule+"_lexer_space_class"] = len(set)
			}
		}
	}
	var rs []rune
	for c := range need {
		rs = append(rs, c)
	}
	sort.Slice(rs, func(i, j int) bool { return rs[i] < rs[j] })
	for _, c := range rs {
		o := r.Ob(rule, fmt.Sprintf("%s#replaces:U+%04X", fi.Name(), c), repl.pos)
		switch repl.eval(d, [2]int64{int64(c), 0}) {
		case c06T:
			o.OK("%q satisfies the replacement condition for every value of the other terms", c)
		case c06F:
			o.Bad("%q %s but is not in the class of runes %s replaces by U+FFFD: a shown value containing it continues as a second attribute (e.g. <div {{ \"x onclick=alert(1)\" }}>)", c, need[c], fi.Name())
		default:
			o.Unknown("the replacement condition could not be evaluated for %q", c)
		}
	}
	r.Require(rule, len(c06AttrNameEnd))
}

// c06UnicodeTable resolves an expression naming a range table of package unicode.
func c06UnicodeTable(info *types.Info, e ast.Expr) *unicode.RangeTable {
	sel, ok := ast.Unparen(e).(*ast.SelectorExpr)
	if !ok {
		return nil
	}
	v, ok := info.Uses[sel.Sel].(*types.Var)
	if !ok || v.Pkg() == nil || v.Pkg().Path() != "unicode" {
		return nil
	}
	for _, m := range []map[string]*unicode.RangeTable{unicode.Properties, unicode.Categories, unicode.Scripts} {
		if t, ok := m[v.Name()]; ok {
			return t
		}
	}
	return nil
}

// ---------------------------------------------------------------------------
// R-4 context tables agree

func c06ContextTables(r *Run, rule string) {
	const comp = "internal/compiler"
	x := c06NewFmt(r, rule)
	if x == nil {
		return
	}
	pk := r.P.Pkg(comp)
	lexT := r.P.Named(comp, "lexer")
	if !r.Anchor(rule, "type compiler.lexer", pk != nil && lexT != nil) {
		return
	}
	info := pk.TypesInfo
	// the lexer's code: methods of *lexer and functions constructing a lexer
	var lexFuncs []*FuncInfo
	for _, fi := range r.P.Funcs(comp) {
		if r.P.isTestFile(fi.File) || fi.Obj == nil {
			continue
		}
		sig := fi.Obj.Type().(*types.Signature)
		isLex := false
		if rc := sig.Recv(); rc != nil {
			t := rc.Type()
			if p, ok := t.(*types.Pointer); ok {
				t = p.Elem()
			}
			isLex = types.Identical(t, lexT)
		} else {
			ast.Inspect(fi.Decl.Body, func(n ast.Node) bool {
				if cl, ok := n.(*ast.CompositeLit); ok && types.Identical(info.TypeOf(cl), lexT) {
					isLex = true
				}
				return true
			})
		}
		if isLex {
			lexFuncs = append(lexFuncs, fi)
		}
	}
	if !r.Anchor(rule, "methods of compiler.lexer", len(lexFuncs) >= 3) {
		return
	}
	inLex := map[*types.Func]bool{}
	for _, fi := range lexFuncs {
		inLex[fi.Obj] = true
	}
	assignable := map[int64]string{} // value → one source
	ctxName := c06ConstNames(x.ctxs)
	nsrc := 0
	var source func(fi *FuncInfo, e ast.Expr)
	source = func(fi *FuncInfo, e ast.Expr) {
		e = ast.Unparen(e)
		nsrc++
		if v, ok := intValue(info, e); ok {
			if _, dup := assignable[v]; !dup {
				assignable[v] = "constant at " + r.P.Pos(e.Pos())
			}
			return
		}
		switch v := e.(type) {
		case *ast.Ident, *ast.SelectorExpr, *ast.IndexExpr:
			return // copy of a stored context
		case *ast.CallExpr:
			if tv, ok := info.Types[v.Fun]; ok && tv.IsType() && len(v.Args) == 1 {
				at := info.TypeOf(v.Args[0])
				if x.isFmt(at) {
					for _, c := range x.fmts {
						if fv, ok := constantInt64(c); ok {
							if _, dup := assignable[fv]; !dup {
								assignable[fv] = "conversion of format " + c.Name() + " at " + r.P.Pos(e.Pos())
							}
						}
					}
					return
				}
				// index of a range over a fixed-size array
				if id, ok := ast.Unparen(v.Args[0]).(*ast.Ident); ok {
					for _, d := range c06Defs(info, fi.Decl.Body, info.Uses[id]) {
						if rs, ok := d.Node.(*ast.RangeStmt); ok && d.Idx == 0 {
							if arr, ok := info.TypeOf(rs.X).Underlying().(*types.Array); ok {
								for i := int64(0); i < arr.Len(); i++ {
									if _, dup := assignable[i]; !dup {
										assignable[i] = fmt.Sprintf("index of %s at %s", exprStr(rs.X), r.P.Pos(e.Pos()))
									}
								}
								return
							}
						}
					}
				}
			}
			if fn := callee(info, v); fn != nil && inLex[fn] {
				return // its return statements are sources themselves
			}
		}
		r.Ob(rule, fi.Name()+"#context-source:"+exprStr(e), e.Pos()).Unknown("a context is computed by %s, which is neither a constant, a copy, a format conversion nor a lexer function", exprStr(e))
	}
	for _, fi := range lexFuncs {
		sig := fi.Obj.Type().(*types.Signature)
		ast.Inspect(fi.Decl.Body, func(n ast.Node) bool {
			switch s := n.(type) {
			case *ast.AssignStmt:
				for i, l := range s.Lhs {
					if !x.isCtx(info.TypeOf(l)) {
						continue
					}
					if len(s.Lhs) == len(s.Rhs) {
						source(fi, s.Rhs[i])
					} else if len(s.Rhs) == 1 {
						source(fi, s.Rhs[0])
					}
				}
			case *ast.ValueSpec:
				for i, id := range s.Names {
					if x.isCtx(info.TypeOf(id)) && i < len(s.Values) {
						source(fi, s.Values[i])
					}
				}
			case *ast.KeyValueExpr:
				if x.isCtx(info.TypeOf(s.Value)) {
					if _, isConstKey := info.Types[s.Key]; !isConstKey || info.Types[s.Key].Value == nil {
						source(fi, s.Value)
					}
				}
			case *ast.ReturnStmt:
				for i, e := range s.Results {
					if i < sig.Results().Len() && x.isCtx(sig.Results().At(i).Type()) && len(s.Results) == sig.Results().Len() {
						source(fi, e)
					}
				}
			}
			return true
		})
	}
	r.Stats[rule+"_context_sources"] = nsrc
	// the two tables
	sh := c06ShowTable(r, rule)
	var chk *FuncInfo
	nchk := 0
	for _, fi := range r.P.Funcs(comp) {
		if fi.Decl.Recv != nil || r.P.isTestFile(fi.File) || fi.Obj == nil {
			continue
		}
		sig := fi.Obj.Type().(*types.Signature)
		if sig.Params().Len() == 2 && typeStr(sig.Params().At(0).Type()) == "reflect.Type" && len(switchesOn(info, fi.Decl.Body, x.ctxT)) > 0 {
			chk = fi
			nchk++
		}
	}
	if sh == nil || !r.Anchor(rule, "compiler.checkShow (function with a reflect.Type parameter switching on ast.Context)", nchk == 1) {
		return
	}
	chkCov := coverOfSwitch(info, switchesOn(info, chk.Decl.Body, x.ctxT)[0])
	dispatched := map[string]bool{}
	for _, ctxs := range sh.ctxFuncs {
		for _, c := range ctxs {
			dispatched[c] = true
		}
	}
	// the mask of the encoded runtime context
	mask := int64(-1)
	for _, fi := range append(r.P.Funcs("internal/runtime"), r.P.Funcs(comp)...) {
		if r.P.isTestFile(fi.File) {
			continue
		}
		ast.Inspect(fi.Decl.Body, func(n ast.Node) bool {
			c, ok := n.(*ast.CallExpr)
			if !ok || len(c.Args) != 1 {
				return true
			}
			rinfo := fi.Pkg.TypesInfo
			if tv, ok := rinfo.Types[c.Fun]; !ok || !tv.IsType() || !x.isCtx(tv.Type) {
				return true
			}
			if be, ok := ast.Unparen(c.Args[0]).(*ast.BinaryExpr); ok && be.Op == token.AND {
				for _, s := range []ast.Expr{be.X, be.Y} {
					if v, ok := intValue(rinfo, s); ok {
						if mask < 0 {
							mask = v
						} else {
							mask &= v
						}
					}
				}
			}
			return true
		})
	}
	var vals []int64
	for v := range assignable {
		vals = append(vals, v)
	}
	sort.Slice(vals, func(i, j int) bool { return vals[i] < vals[j] })
	for _, v := range vals {
		name, ok := ctxName[v]
		if !ok {
			r.Ob(rule, fmt.Sprintf("ctx:%d", v), token.NoPos).Bad("the lexer can assign context value %d (%s) which is not a declared ast.Context", v, assignable[v])
			continue
		}
		o := r.Ob(rule, "ctx:"+name, token.NoPos)
		var miss []string
		if !dispatched[name] {
			miss = append(miss, "renderer.Show has no clause for it (panics 'unknown context' when a value is shown there)")
		}
		if chkCov.Vals[v] == nil {
			miss = append(miss, chk.Name()+" has no clause for it (panics 'unexpected context' while building)")
		}
		if mask >= 0 && v&^mask != 0 {
			miss = append(miss, fmt.Sprintf("its value %d does not fit the mask %#b of the encoded runtime context", v, mask))
		}
		if len(miss) > 0 {
			o.Bad("the lexer can assign %s (%s) but %s", name, assignable[v], strings.Join(miss, "; "))
		} else {
			o.OK("assignable by the lexer (%s); dispatched by renderer.Show, typed by %s, fits mask %#b", assignable[v], chk.Name(), mask)
		}
	}
	if mask < 0 {
		r.Ob(rule, "runtime#context-mask", token.NoPos).Unknown("the mask decoding the runtime context (ast.Context(c & K)) was not found")
	}
	r.Require(rule, 14)
}
