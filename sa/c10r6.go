package main

// C10 R-6 (added after seeded change C10-4): the compiler gives storage only to predefined variables.
// At run time a Global whose Value is valid IS the variable (the embedder's storage, shared by design and
// documented); a Global with the zero Value gets a fresh cell in every run (R-4). So the compiler must
// leave Value zero for every variable the compiled code declares: a value built at compile time (a
// "static initialiser") would be one storage shared by all runs, never reset. In package compiler:
//   * a composite literal of Global sets Value to the zero literal or to a parameter of the enclosing
//     function, and then every call of that function passes the zero literal reflect.Value{};
//   * an assignment to the Value field of a Global stores the dereference of a *reflect.Value parameter
//     (the predefined variable handed in by the type checker) and nothing else.

import (
	"go/ast"
	"go/token"
	"go/types"
)

func init() {
	p := registry["C10"]
	if p == nil {
		return
	}
	run := p.run
	p.run = func(r *Run) { run(r); c10GlobalStorage(r) }
	p.explain += " R-6: in package compiler the Value of a Global is left zero except for predefined variables (a valid Value is the variable's storage, shared by every run)."
}

func c10GlobalStorage(r *Run) {
	const R = "R-6"
	const rel = "internal/compiler"
	gT := r.P.Named(rel, "Global")
	if !r.Anchor(R, "compiler.Global", gT != nil) {
		return
	}
	var fns []*FuncInfo
	for _, fi := range r.P.Funcs(rel) {
		if !r.P.isTestFile(fi.File) && fi.Obj != nil {
			fns = append(fns, fi)
		}
	}
	isZeroValue := func(info *types.Info, e ast.Expr) bool {
		cl, ok := ast.Unparen(e).(*ast.CompositeLit)
		return ok && len(cl.Elts) == 0 && typeStr(info.TypeOf(cl)) == "reflect.Value"
	}
	paramIndex := func(fi *FuncInfo, o types.Object) int {
		sig := fi.Obj.Type().(*types.Signature)
		for i := 0; i < sig.Params().Len(); i++ {
			if types.Object(sig.Params().At(i)) == o {
				return i
			}
		}
		return -1
	}
	n := 0
	for _, fi := range fns {
		info := fi.Pkg.TypesInfo
		ast.Inspect(fi.Decl.Body, func(m ast.Node) bool {
			switch x := m.(type) {
			case *ast.CompositeLit:
				if t := info.TypeOf(x); t == nil || !types.Identical(t, gT) {
					return true
				}
				for _, el := range x.Elts {
					kv, ok := el.(*ast.KeyValueExpr)
					if !ok {
						n++
						r.Ob(R, fi.Name()+"#Global{positional}", x.Pos()).Unknown("positional Global literal: cannot tell which element is Value")
						return true
					}
					if k, ok := kv.Key.(*ast.Ident); !ok || k.Name != "Value" {
						continue
					}
					n++
					o := r.Ob(R, fi.Name()+"#Global{Value:"+exprStr(kv.Value)+"}", kv.Pos())
					if isZeroValue(info, kv.Value) {
						o.OK("zero Value: a fresh cell per run")
						continue
					}
					po := objOfIdent(info, kv.Value)
					pi := -1
					if po != nil {
						pi = paramIndex(fi, po)
					}
					if pi < 0 {
						o.Bad("a Global is built with the value %s, which is not the zero Value nor a parameter: a valid Value is the variable's storage itself, shared by every run of the compiled code", exprStr(kv.Value))
						continue
					}
					// every call of fi passes reflect.Value{} there
					bad := ""
					ncalls := 0
					for _, caller := range fns {
						for _, c := range calls(caller.Decl.Body, true) {
							if callee(caller.Pkg.TypesInfo, c) != fi.Obj || pi >= len(c.Args) {
								continue
							}
							ncalls++
							if !isZeroValue(caller.Pkg.TypesInfo, c.Args[pi]) {
								bad = caller.Name() + " passes " + exprStr(c.Args[pi]) + " at " + r.P.Pos(c.Pos())
							}
						}
					}
					if bad == "" {
						o.OK("the value is parameter #%d and all %d callers pass the zero reflect.Value{}", pi, ncalls)
					} else {
						o.Bad("%s as the Value of a new Global: storage created at compile time is shared by every run (and by concurrent runs) of the compiled code and is never reset", bad)
					}
				}
			case *ast.AssignStmt:
				if x.Tok != token.ASSIGN || len(x.Lhs) != len(x.Rhs) {
					return true
				}
				for i, l := range x.Lhs {
					sel, ok := ast.Unparen(l).(*ast.SelectorExpr)
					if !ok || sel.Sel.Name != "Value" {
						continue
					}
					if t := info.TypeOf(sel.X); t == nil || !types.Identical(t, gT) {
						continue
					}
					n++
					o := r.Ob(R, fi.Name()+"#"+exprStr(l)+"="+exprStr(x.Rhs[i]), x.Pos())
					ok2 := false
					if st, ok := ast.Unparen(x.Rhs[i]).(*ast.StarExpr); ok {
						if po := objOfIdent(info, st.X); po != nil && paramIndex(fi, po) >= 0 && typeStr(po.Type()) == "*reflect.Value" {
							ok2 = true
						}
					}
					if ok2 {
						o.OK("the storage of a predefined variable, handed in by the caller as *reflect.Value")
					} else {
						o.Bad("the Value of a Global is assigned %s, which is not a predefined variable's storage: it becomes one storage shared by every run", exprStr(x.Rhs[i]))
					}
				}
			}
			return true
		})
	}
	r.Require(R, 2)
}
