package main

// C30 R-4 (added after seeded change C30-7): the big values shared by all builds are never a destination.
// math/big methods write their result into the receiver (z.Xor(x, y) sets z). The compiler keeps some big
// values in package-level variables (-1, the maxima of the unsigned types); if one of them is the receiver
// of such a method, the first build that folds the operation changes the value every later build in the
// process computes with: the same source then gives another constant, disassembly and output. In package
// compiler, the receiver of a math/big method that returns its receiver (the "z" methods: Set, Add, Xor,
// Neg, SetString, …) never originates from a package-level variable — directly, through an element of a
// package-level array, through a local assigned from one, or through a function of the package that
// returns one.

import (
	"go/ast"
	"go/types"
	"strings"
)

func init() {
	p := registry["C30"]
	if p == nil {
		return
	}
	run := p.run
	p.run = func(r *Run) { run(r); c30SharedBig(r) }
	p.explain += " R-4: no package-level math/big value (nor an alias of one) is the receiver of a method that writes its receiver."
}

func c30SharedBig(r *Run) {
	const R = "R-4"
	const rel = "internal/compiler"
	byObj := map[*types.Func]*FuncInfo{}
	var fns []*FuncInfo
	for _, fi := range r.P.Funcs(rel) {
		if r.P.isTestFile(fi.File) || fi.Obj == nil {
			continue
		}
		byObj[fi.Obj] = fi
		fns = append(fns, fi)
	}
	isBigPtr := func(t types.Type) bool {
		p, ok := t.(*types.Pointer)
		if !ok {
			return false
		}
		n, ok := p.Elem().(*types.Named)
		return ok && n.Obj().Pkg() != nil && n.Obj().Pkg().Path() == "math/big"
	}
	returnsShared := map[*types.Func]int{} // 1 yes, 2 no
	var shared func(fi *FuncInfo, e ast.Expr, depth int) bool
	shared = func(fi *FuncInfo, e ast.Expr, depth int) bool {
		info := fi.Pkg.TypesInfo
		switch x := ast.Unparen(e).(type) {
		case *ast.Ident:
			v, ok := info.Uses[x].(*types.Var)
			if !ok {
				return false
			}
			if v.Pkg() != nil && v.Parent() == v.Pkg().Scope() {
				return true
			}
			if depth <= 0 {
				return false
			}
			// a local: any definition from a shared expression
			res := false
			ast.Inspect(fi.Decl.Body, func(m ast.Node) bool {
				if as, ok := m.(*ast.AssignStmt); ok && len(as.Lhs) == len(as.Rhs) {
					for i, l := range as.Lhs {
						if objOfIdent(info, l) == types.Object(v) && shared(fi, as.Rhs[i], depth-1) {
							res = true
						}
					}
				}
				return true
			})
			return res
		case *ast.IndexExpr:
			return shared(fi, x.X, depth)
		case *ast.SelectorExpr:
			if _, isField := info.Selections[x]; !isField {
				if v, ok := info.Uses[x.Sel].(*types.Var); ok && v.Pkg() != nil && v.Parent() == v.Pkg().Scope() {
					return true
				}
			}
			return false
		case *ast.CallExpr:
			g := callee(info, x)
			gi := byObj[g]
			if gi == nil || depth <= 0 {
				return false
			}
			if v := returnsShared[g]; v != 0 {
				return v == 1
			}
			returnsShared[g] = 2
			res := false
			ast.Inspect(gi.Decl.Body, func(m ast.Node) bool {
				if _, ok := m.(*ast.FuncLit); ok {
					return false
				}
				if rs, ok := m.(*ast.ReturnStmt); ok {
					for _, re := range rs.Results {
						if isBigPtr(gi.Pkg.TypesInfo.TypeOf(re)) && shared(gi, re, depth-1) {
							res = true
						}
					}
				}
				return true
			})
			if res {
				returnsShared[g] = 1
			}
			return res
		}
		return false
	}
	nrecv, nshared := 0, 0
	for _, fi := range fns {
		info := fi.Pkg.TypesInfo
		for _, c := range calls(fi.Decl.Body, true) {
			sel, ok := c.Fun.(*ast.SelectorExpr)
			if !ok {
				continue
			}
			f := callee(info, c)
			if f == nil || f.Pkg() == nil || f.Pkg().Path() != "math/big" {
				continue
			}
			sig := f.Type().(*types.Signature)
			if sig.Recv() == nil || !isBigPtr(sig.Recv().Type()) || sig.Results().Len() == 0 || !types.Identical(sig.Results().At(0).Type(), sig.Recv().Type()) {
				continue
			}
			nrecv++
			if shared(fi, sel.X, 3) {
				nshared++
				r.Ob(R, fi.Name()+"#"+strings.ReplaceAll(exprStr(sel.X), " ", "")+"."+f.Name(), c.Pos()).Bad("%s is (an alias of) a package-level math/big value and %s writes its result into its receiver: the value shared by every build in the process is changed by the first build that gets here, and later builds of the same source compute another constant", exprStr(sel.X), f.Name())
			}
		}
	}
	r.Ob(R, "compiler#big-receivers-scanned", 0).OK("%d calls of receiver-writing math/big methods scanned, %d on a shared value", nrecv, nshared)
	r.Require(R, 1)
}
