package main

// C04 R-8 (added after a defect reported on the unmodified tree: `var a [1<<62]int` and `chan [1<<20]int`
// made Build panic). reflect.ArrayOf panics when the array would exceed the address space and
// reflect.ChanOf when the element is 64kB or larger; both conditions depend on the SIZE of the element
// type, which source code controls. Every call, in package compiler, of reflect.ArrayOf / reflect.ChanOf or
// of a function of the module that forwards to them (the wrappers of package types) is reached only
// through an edge of a condition that tests the size of the element type (a call of Size()).

import (
	"go/ast"
	"go/token"
	"go/types"
)

func init() {
	p := registry["C04"]
	if p == nil {
		return
	}
	run := p.run
	p.run = func(r *Run) { run(r); c04TypeConstructors(r) }
	p.explain += " R-8: every construction of an array or channel type from source (reflect.ArrayOf, reflect.ChanOf and their wrappers) is guarded by a test of the element type's size."
}

func c04TypeConstructors(r *Run) {
	const R = "R-8"
	// wrappers: module functions calling reflect.ArrayOf / reflect.ChanOf directly
	wrappers := map[*types.Func]string{}
	for _, rel := range []string{"internal/compiler/types", "internal/compiler"} {
		for _, fi := range r.P.Funcs(rel) {
			if r.P.isTestFile(fi.File) || fi.Obj == nil {
				continue
			}
			for _, c := range calls(fi.Decl.Body, true) {
				if f := callee(fi.Pkg.TypesInfo, c); f != nil && (isPkgFunc(f, "reflect", "", "ArrayOf") || isPkgFunc(f, "reflect", "", "ChanOf") || isPkgFunc(f, "reflect", "", "FuncOf")) {
					if rel == "internal/compiler/types" {
						wrappers[fi.Obj] = f.Name()
					}
				}
			}
		}
	}
	if !r.Anchor(R, "the wrappers of reflect.ArrayOf / reflect.ChanOf in package types", len(wrappers) >= 2) {
		return
	}
	n := 0
	for _, fi := range r.P.Funcs("internal/compiler") {
		if r.P.isTestFile(fi.File) {
			continue
		}
		info := fi.Pkg.TypesInfo
		var g *CFGInfo
		idx := map[string]int{}
		for _, c := range calls(fi.Decl.Body, false) {
			f := callee(info, c)
			if f == nil {
				continue
			}
			what := wrappers[f]
			if what == "" && (isPkgFunc(f, "reflect", "", "ArrayOf") || isPkgFunc(f, "reflect", "", "ChanOf")) {
				what = f.Name()
			}
			if what == "" {
				continue
			}
			n++
			if g == nil {
				g = r.P.CFGOf(fi)
			}
			key := fi.Name() + "#" + what
			idx[key]++
			if idx[key] > 1 {
				key += "~" + itoa(idx[key])
			}
			o := r.Ob(R, key, c.Pos())
			guarded := g.GuardedBy(c, func(l Lit) bool {
				found := false
				if what == "FuncOf" {
					// reflect.FuncOf panics above 128 parameters and results: a comparison with a
					// constant limit of the count must be on the way
					ast.Inspect(l.Expr, func(m ast.Node) bool {
						if be, ok := m.(*ast.BinaryExpr); ok {
							switch be.Op {
							case token.GTR, token.GEQ, token.LSS, token.LEQ:
								for _, side := range []ast.Expr{be.X, be.Y} {
									if v, ok := intValue(info, side); ok && v >= 2 && v <= 128 {
										found = true
									}
								}
							}
						}
						return true
					})
					return found
				}
				ast.Inspect(l.Expr, func(m ast.Node) bool {
					if ce, ok := m.(*ast.CallExpr); ok {
						if s, ok := ce.Fun.(*ast.SelectorExpr); ok && s.Sel.Name == "Size" && len(ce.Args) == 0 {
							found = true
						}
					}
					return true
				})
				// `if size := elem.Size(); size > 0 && …`: the condition mentions a local defined from Size()
				if !found {
					ast.Inspect(l.Expr, func(m ast.Node) bool {
						if id, ok := m.(*ast.Ident); ok {
							if obj := info.Uses[id]; obj != nil {
								ast.Inspect(fi.Decl.Body, func(q ast.Node) bool {
									if as, ok := q.(*ast.AssignStmt); ok && len(as.Lhs) == 1 && len(as.Rhs) == 1 && objOfIdent(info, as.Lhs[0]) == obj {
										if ce, ok := ast.Unparen(as.Rhs[0]).(*ast.CallExpr); ok {
											if s, ok := ce.Fun.(*ast.SelectorExpr); ok && s.Sel.Name == "Size" {
												found = true
											}
										}
									}
									return true
								})
							}
						}
						return true
					})
				}
				return found
			})
			if guarded {
				o.OK("reached only through a test of the element type's size")
			} else {
				o.Bad("%s is called with a length / element type that comes from the source and no test of the element's size on the way: reflect.%s panics for a type larger than the address space (ArrayOf) or an element of 64kB or more (ChanOf), and the panic leaves Build", what, what)
			}
		}
	}
	r.Require(R, 2)
}
