package main

// C04 R-10: every iteration of a loop changes some state.
//
// Build and BuildTemplate return within bounded time only if every `for` loop of the compiler ends. A
// necessary condition that can be read from the control-flow graph: no path leads from the head of a loop,
// through its body, back to the head without executing a single statement that can change state which
// survives the iteration. On such a path nothing was called, nothing was sent or received, and only
// variables declared inside the loop body were assigned: the next evaluation of the loop condition sees
// exactly the same values, takes exactly the same path again, and the build never returns.
//
// (Seeded change C04-5 removed the fallback `consts = nil` at the bottom of the constants sorting loop of
// sortDeclarations: when no constant has all its dependencies resolved — `var v int; const C = v` — the
// iteration falls out of the inner range loop without having touched anything.)
//
// What counts as "can change state" is deliberately generous, so that the rule alarms only on iteration
// paths that are pure beyond doubt: any call other than a conversion, len / cap / min / max / real / imag
// / complex / new / make, a one-line predicate of the module or a function of unicode, utf8, strings, bytes,
// path, math (which only compute a result), any assignment or ++/-- whose target is not a plain variable declared inside the
// loop body, a send, a receive, go, defer, select, ranging over a channel or a function. Edges of conditions
// with a constant value (`if true`) are followed only in the direction of the constant.

import (
	"go/ast"
	"go/token"
	"go/types"

	"golang.org/x/tools/go/cfg"
)

func init() {
	p := registry["C04"]
	if p == nil {
		return
	}
	run := p.run
	p.run = func(r *Run) { run(r); c04LoopProgress(r) }
	p.explain += " R-10: in every `for` loop of the packages that run during a build (compiler, types, ast, root) no path from the loop head through the body back to the head is free of state changes (no call, no channel operation, assignments to body-local variables only): such an iteration repeats forever."
}

var c04LoopPkgs = []string{"internal/compiler", "internal/compiler/types", "ast", "ast/astutil", ""}

func c04LoopProgress(r *Run) {
	const R = "R-10"
	n := 0
	for _, rel := range c04LoopPkgs {
		for _, fi := range r.P.Funcs(rel) {
			if r.P.isTestFile(fi.File) || fi.Obj == nil {
				continue
			}
			// function literals have graphs of their own: collect (body, loops) pairs
			type unit struct {
				body  *ast.BlockStmt
				loops []*ast.ForStmt
			}
			var units []*unit
			var collect func(body *ast.BlockStmt)
			collect = func(body *ast.BlockStmt) {
				u := &unit{body: body}
				units = append(units, u)
				ast.Inspect(body, func(m ast.Node) bool {
					switch x := m.(type) {
					case *ast.FuncLit:
						collect(x.Body)
						return false
					case *ast.ForStmt:
						u.loops = append(u.loops, x)
					}
					return true
				})
			}
			collect(fi.Decl.Body)
			for _, u := range units {
				if len(u.loops) == 0 {
					continue
				}
				g := r.P.CFG(fi.Pkg.TypesInfo, fi.File, u.body)
				for _, loop := range u.loops {
					n++
					what := "forever"
					if loop.Cond != nil {
						what = exprStr(loop.Cond)
					}
					o := r.Ob(R, fi.Name()+"#for:"+what, loop.Pos())
					c04CheckLoop(r, g, loop, o)
				}
			}
		}
	}
	r.Stats[R+"_loops"] = n
	r.Require(R, 98)
}

func c04CheckLoop(r *Run, g *CFGInfo, loop *ast.ForStmt, o *Obl) {
	// the head: the block evaluating the condition, or the first block of the body when there is none
	var head, done *cfg.Block
	for _, b := range g.G.Blocks {
		if b.Stmt != ast.Stmt(loop) {
			continue
		}
		switch b.Kind {
		case cfg.KindForLoop:
			head = b
		case cfg.KindForBody:
			if loop.Cond == nil {
				head = b
			}
		case cfg.KindForDone:
			done = b
		}
	}
	if head == nil {
		o.Unknown("the loop has no block in the control-flow graph")
		return
	}
	if !head.Live {
		o.Trivial("the loop is not reachable")
		return
	}
	inLoop := func(b *cfg.Block) bool {
		if b == done {
			return false
		}
		for _, nd := range b.Nodes {
			if nd.Pos() < loop.Pos() || nd.End() > loop.End() {
				return false
			}
		}
		if b.Stmt != nil && (b.Stmt.Pos() < loop.Pos() || b.Stmt.End() > loop.End()) {
			return false
		}
		return true
	}
	impure := func(b *cfg.Block) (ast.Node, bool) {
		for _, nd := range b.Nodes {
			if c04ChangesState(r.P, g, loop, nd) {
				return nd, true
			}
		}
		return nil, false
	}
	if _, imp := impure(head); imp {
		o.OK("the loop head itself calls or assigns")
		return
	}
	// depth-first search of a cycle head -> ... -> head through pure blocks and feasible edges
	seen := map[*cfg.Block]bool{}
	var trail []*cfg.Block
	var found []*cfg.Block
	var walk func(b *cfg.Block) bool
	walk = func(b *cfg.Block) bool {
		trail = append(trail, b)
		defer func() { trail = trail[:len(trail)-1] }()
		for i, s := range b.Succs {
			if !c04EdgeFeasible(g, b, i) {
				continue
			}
			if s == head {
				found = append([]*cfg.Block(nil), trail...)
				return true
			}
			if seen[s] || !inLoop(s) {
				continue
			}
			seen[s] = true
			if _, imp := impure(s); imp {
				continue
			}
			if walk(s) {
				return true
			}
		}
		return false
	}
	seen[head] = true
	if walk(head) {
		via := ""
		for _, b := range found {
			if len(b.Nodes) > 0 {
				via = r.P.Pos(b.Nodes[len(b.Nodes)-1].Pos())
			}
		}
		o.Bad("an iteration can return to the loop head (last step at %s) without a call, a channel operation or an assignment to anything declared outside the loop body: the condition is evaluated again on the same values and the loop never ends (Build / BuildTemplate hang)", via)
		return
	}
	o.OK("every path back to the loop head calls a function or assigns a variable that outlives the iteration")
}

// c04EdgeFeasible: an edge out of a condition with a constant value is taken only in that direction.
func c04EdgeFeasible(g *CFGInfo, b *cfg.Block, i int) bool {
	cd := g.CondOf(b)
	if cd == nil || cd.Tag != nil {
		return true
	}
	tv, ok := g.Info.Types[cd.Expr]
	if !ok || tv.Value == nil {
		return true
	}
	truth := tv.Value.String() == "true"
	return truth == (i == 0)
}

// c04ChangesState reports whether executing the CFG node nd can change state that survives the
// iteration of loop (see the list at the top of the file).
func c04ChangesState(p *Prog, g *CFGInfo, loop *ast.ForStmt, nd ast.Node) bool {
	info := g.Info
	local := func(e ast.Expr) bool {
		id, ok := ast.Unparen(e).(*ast.Ident)
		if !ok {
			return false
		}
		if id.Name == "_" {
			return true
		}
		obj := info.Defs[id]
		if obj == nil {
			obj = info.Uses[id]
		}
		v, ok := obj.(*types.Var)
		if !ok || v.IsField() {
			return false
		}
		return loop.Body.Pos() <= v.Pos() && v.Pos() < loop.Body.End()
	}
	// a bare expression node that is the key / value / operand of a range statement
	if e, ok := nd.(ast.Expr); ok {
		if rs, ok := p.Parents(g.File)[e].(*ast.RangeStmt); ok {
			switch {
			case rs.X == e:
				switch info.TypeOf(e).Underlying().(type) {
				case *types.Chan, *types.Signature:
					return true
				}
			case rs.Tok == token.ASSIGN && !local(e):
				return true
			}
		}
	}
	changes := false
	ast.Inspect(nd, func(m ast.Node) bool {
		if changes {
			return false
		}
		switch x := m.(type) {
		case *ast.FuncLit:
			return false // building a closure changes nothing; calling it is a call
		case *ast.CallExpr:
			if tv, ok := info.Types[x.Fun]; ok && tv.IsType() {
				return true // conversion
			}
			if id, ok := ast.Unparen(x.Fun).(*ast.Ident); ok {
				if _, isB := info.Uses[id].(*types.Builtin); isB {
					switch id.Name {
					case "len", "cap", "min", "max", "real", "imag", "complex", "new", "make":
						return true
					}
				}
			}
			if f := callee(info, x); f != nil && c04PureFunc(f) {
				return true
			}
			changes = true
		case *ast.AssignStmt:
			for _, l := range x.Lhs {
				if !local(l) {
					changes = true
				}
			}
		case *ast.IncDecStmt:
			if !local(x.X) {
				changes = true
			}
		case *ast.SendStmt, *ast.GoStmt, *ast.DeferStmt, *ast.SelectStmt, *ast.CommClause:
			changes = true
		case *ast.UnaryExpr:
			if x.Op == token.ARROW {
				changes = true
			}
		case *ast.RangeStmt:
			// (not a CFG node as a whole; kept for completeness)
			changes = true
		}
		return !changes
	})
	return changes
}

// c04PureFunc: package-level functions that are deterministic and change nothing: the one-line predicates
// of the module (`func isAlpha(c byte) bool { return … }`, the same set evalPred interprets) and the
// functions of a few standard packages that only compute a result from their arguments.
func c04PureFunc(f *types.Func) bool {
	if _, ok := predFuncs[f]; ok {
		return true
	}
	if f.Pkg() == nil || f.Type().(*types.Signature).Recv() != nil {
		return false
	}
	switch f.Pkg().Path() {
	case "unicode", "unicode/utf8", "unicode/utf16", "strings", "bytes", "path", "math", "math/bits":
		return true
	}
	return false
}
