package main

// C05 R-17 / C14 R-5 (added after seeded changes C05-4 and C14-4): a recycled select case is complete.
//
// The handler that collects the cases of a select statement re-uses the slots of a []reflect.SelectCase
// kept in the VM. reflect.Select panics ("RecvDir case has Send value", "default case has Chan value", …)
// when a case carries a field its direction does not allow, and that panic is unclassified: a host panic,
// or — in a goroutine — a dropped error and a deadlock. For each direction d the handler is evaluated with
// dir = d (conditions on dir are decided, the others followed on both sides and met): on every path the
// slot ends with
//      SelectDefault: Chan and Send zero        SelectRecv: Send zero        SelectSend: Chan assigned
// (a slot appended as a fresh composite literal has zero fields).

import (
	"go/ast"
	"go/types"
)

func init() {
	for _, reg := range []struct{ id, rule string }{{"C05", "R-17"}} { // C14 R-5 is chained in c14r5.go (init order)
		p := registry[reg.id]
		if p == nil {
			continue
		}
		run, rule := p.run, reg.rule
		p.run = func(r *Run) { run(r); selectSlotRule(r, rule) }
		p.explain += " " + reg.rule + ": the handler collecting select cases leaves every recycled reflect.SelectCase with exactly the fields its direction allows (evaluated for each of the three directions)."
	}
}

type slotState map[string]string // field -> "zero" | "set" | "maybe"

func (s slotState) clone() slotState {
	c := slotState{}
	for k, v := range s {
		c[k] = v
	}
	return c
}

func meetSlot(a, b slotState) slotState {
	out := slotState{}
	for _, f := range []string{"Chan", "Send"} {
		switch {
		case a[f] == b[f]:
			out[f] = a[f]
		default:
			out[f] = "maybe"
		}
	}
	return out
}

func selectSlotRule(r *Run, R string) {
	const rel = "internal/runtime"
	sub := NewRun("C01", r.Tier, r.P)
	x := &c01{r: sub, rt: rel, opName: map[int64]string{}, kinds: map[string]int64{}, kindName: map[int64]string{}}
	x.opT = r.P.Named(rel, "Operation")
	if !r.Anchor(R, "runtime.Operation", x.opT != nil) {
		return
	}
	x.ops = EnumConsts(x.opT)
	for _, c := range x.ops {
		v, _ := constantInt64(c)
		x.opName[v] = c.Name()
	}
	x.findLoop()
	if !r.Anchor(R, "interpreter loop", x.run != nil) {
		return
	}
	info := x.run.Pkg.TypesInfo
	dirT := r.P.ExtNamed("reflect", "SelectDir")
	if !r.Anchor(R, "reflect.SelectDir", dirT != nil) {
		return
	}
	dirs := map[string]int64{}
	for _, c := range EnumConsts(dirT) {
		v, _ := constantInt64(c)
		dirs[c.Name()] = v
	}
	isCaseT := func(t types.Type) bool {
		// a slot, or a pointer to it (cas := &vm.cases[i])
		return t != nil && (typeStr(t) == "reflect.SelectCase" || typeStr(t) == "*reflect.SelectCase")
	}
	found := 0
	for _, h := range x.handlers() {
		// the handler that defines a local of type reflect.SelectDir and stores into a SelectCase slot
		var dirObj types.Object
		for _, st := range h.clause.Body {
			ast.Inspect(st, func(m ast.Node) bool {
				if as, ok := m.(*ast.AssignStmt); ok && len(as.Lhs) == 1 {
					if o := objOfIdent(info, as.Lhs[0]); o != nil && types.Identical(o.Type(), dirT) {
						dirObj = o
					}
				}
				return true
			})
		}
		if dirObj == nil {
			continue
		}
		found++
		isDir := func(e ast.Expr) bool { return objOfIdent(info, e) == dirObj }
		// field of a slot: <…>[i].Chan / .Send with the indexed value of type SelectCase
		slotField := func(e ast.Expr) string {
			sel, ok := ast.Unparen(e).(*ast.SelectorExpr)
			if !ok || (sel.Sel.Name != "Chan" && sel.Sel.Name != "Send") {
				return ""
			}
			if isCaseT(info.TypeOf(sel.X)) {
				return sel.Sel.Name
			}
			return ""
		}
		isZeroValue := func(e ast.Expr) bool {
			cl, ok := ast.Unparen(e).(*ast.CompositeLit)
			return ok && len(cl.Elts) == 0 && typeStr(info.TypeOf(cl)) == "reflect.Value"
		}
		var walk func(list []ast.Stmt, st slotState, d int64) slotState
		walk = func(list []ast.Stmt, st slotState, d int64) slotState {
			for _, s := range list {
				switch s := s.(type) {
				case *ast.AssignStmt:
					for i, l := range s.Lhs {
						if f := slotField(l); f != "" && len(s.Lhs) == len(s.Rhs) {
							if isZeroValue(s.Rhs[i]) {
								st[f] = "zero"
							} else {
								st[f] = "set"
							}
						}
					}
					// append(cases, reflect.SelectCase{Dir: dir}): a fresh slot
					for _, rh := range s.Rhs {
						ast.Inspect(rh, func(m ast.Node) bool {
							if cl, ok := m.(*ast.CompositeLit); ok && isCaseT(info.TypeOf(cl)) {
								st["Chan"], st["Send"] = "zero", "zero"
								for _, el := range cl.Elts {
									if kv, ok := el.(*ast.KeyValueExpr); ok {
										if k, ok := kv.Key.(*ast.Ident); ok && (k.Name == "Chan" || k.Name == "Send") {
											st[k.Name] = "set"
										}
									}
								}
							}
							return true
						})
					}
				case *ast.BlockStmt:
					st = walk(s.List, st, d)
				case *ast.IfStmt:
					var elseList []ast.Stmt
					switch e := s.Else.(type) {
					case *ast.BlockStmt:
						elseList = e.List
					case *ast.IfStmt:
						elseList = []ast.Stmt{e}
					}
					if v, ok := evalPred(info, s.Cond, isDir, d); ok {
						if v {
							st = walk(s.Body.List, st, d)
						} else {
							st = walk(elseList, st, d)
						}
					} else {
						a := walk(s.Body.List, st.clone(), d)
						b := walk(elseList, st.clone(), d)
						st = meetSlot(a, b)
					}
				case *ast.SwitchStmt:
					if s.Tag != nil && isDir(s.Tag) {
						var def *ast.CaseClause
						taken := false
						for _, c := range s.Body.List {
							cc := c.(*ast.CaseClause)
							if cc.List == nil {
								def = cc
								continue
							}
							for _, e := range cc.List {
								if v, ok := intValue(info, e); ok && v == d {
									st = walk(cc.Body, st, d)
									taken = true
								}
							}
						}
						if !taken && def != nil {
							st = walk(def.Body, st, d)
						}
					} else {
						// unknown switch: any clause may run
						res := st.clone()
						for _, c := range s.Body.List {
							res = meetSlot(res, walk(c.(*ast.CaseClause).Body, st.clone(), d))
						}
						st = res
					}
				}
			}
			return st
		}
		for _, name := range []string{"SelectSend", "SelectRecv", "SelectDefault"} {
			d, ok := dirs[name]
			if !ok {
				continue
			}
			// a recycled slot holds anything an earlier select left
			st := walk(h.clause.Body, slotState{"Chan": "maybe", "Send": "maybe"}, d)
			o := r.Ob(R, x.key(x.label(h.first)+":slot-for-"+name), h.clause.Pos())
			var bad string
			switch name {
			case "SelectDefault":
				if st["Chan"] != "zero" {
					bad = "Chan may keep the channel of an earlier select (reflect.Select: \"default case has Chan value\")"
				} else if st["Send"] != "zero" {
					bad = "Send may keep the value of an earlier send case (reflect.Select: \"default case has Send value\")"
				}
			case "SelectRecv":
				if st["Send"] != "zero" {
					bad = "Send may keep the value of an earlier send case (reflect.Select: \"RecvDir case has Send value\")"
				} else if st["Chan"] != "set" {
					bad = "Chan is not assigned on every path"
				}
			case "SelectSend":
				if st["Chan"] != "set" {
					bad = "Chan is not assigned on every path"
				}
			}
			if bad == "" {
				o.OK("with dir = %s the slot ends with Chan %s, Send %s on every path", name, st["Chan"], st["Send"])
			} else {
				o.Bad("with dir = %s a recycled slot is left incomplete: %s — an unclassified panic of reflect.Select: a host panic, or a goroutine that dies silently and a deadlock", name, bad)
			}
		}
	}
	if found == 0 {
		r.Ob(R, x.key("select-case-handler"), x.run.Decl.Pos()).Unknown("no handler with a local of type reflect.SelectDir was found")
	}
	r.Require(R, 3)
}
