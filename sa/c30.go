package main

// C30 — building is deterministic (DESIGN.md §5 C30, engine E8).
//
//	R-1 map ranges     every `range` over a map in the compiler, its types package, templates.go and programs.go has a
//	                   body whose effects commute between iterations, or collects into a slice that is sorted before use
//	R-2 sort totality  a slice collected from a map and sorted with a comparator is ordered by the elements themselves
//	R-3 UsedVars       the slice returned by Template.UsedVars is sorted by natural order on every path
//
// The classifier interprets effects, it does not match statement shapes: an effect is a store (with the root object it
// reaches and the index path), a call (expanded through a summary of the callee, interfaces through their module
// implementers) or an exit (return / panic / break). Whether an effect commutes is decided from what the stored
// location and value depend on (the key injectively, the loop otherwise, or nothing).

import (
	"fmt"
	"go/ast"
	"go/token"
	"go/types"
	"path/filepath"
	"sort"
	"strings"
)

func init() {
	register("C30", &ruleSet{
		explain: "Every range statement over a map in internal/compiler, internal/compiler/types, templates.go and programs.go (enumerated with go/types) is classified from the effects of its body, calls being expanded through summaries of their callees (3 levels, interface calls through all module implementers): (insensitive) stores reach only locals, per-element state, or cells of maps/slices/arrays indexed by an injective function of the key; accumulations are commutative (+=, |=, ++, max/min of the compared value itself, arg-min/arg-max by a source offset ast.Position.Start of the chosen element, idempotent stores of loop-invariant values); exits (return, panic, break) carry a value that does not depend on the iteration or are guarded by equality on the key; (collected) appends to a local slice that is sorted, before any other use, by sort.Strings/Ints, slices.Sort or a comparator; (sensitive) anything that appends to non-local slices (instruction emission, register allocation), stores a loop-dependent value into a cell not chosen by the key, or exits with a loop-dependent value — a violation unless listed with a reason. (R-2) a comparator used to sort a slice collected from a map must end in a comparison of the elements themselves, otherwise ties keep map order. (R-3) Template.UsedVars sorts its result.",
		notCov: []string{
			"pointer-address dependent behaviour, reflect type identity, goroutine scheduling",
			"which of several errors a failing build reports (no artefact is produced; listed where it depends on map order)",
			"determinism of native code called during the build (importers, Markdown converter)",
			"map iteration hidden behind reflect.MapRange/MapKeys or maps.Keys (none in the scoped files; counted as an anchor)",
		},
		trusted: []string{
			"functions of strings, strconv, unicode, utf8, errors, math, reflect (except Set*/Append/Copy), fmt.Sprint*/Errorf, slices.Contains/Index/Equal are free of order-relevant effects",
			"two distinct syntax nodes of one file have different ast.Position.Start",
		},
		run: runC30,
	})
}

// exceptions of R-1: construct → reason (one symbol, one line)
var c30R1Exceptions = map[string]string{
	"compiler.depsOf#range:g,d:deps":                                       "unique-match search: the keys are the identifiers of the package-level declarations and at most one declaration per name survives (a redeclaration is rejected by the type checker, the build fails either way)",
	"compiler.(*deps).nodeDeps#range:k,v:d.itea":                           "unique-match search: analyzingVarExprWithItea is the Lhs identifier of exactly one 'using' declaration, so one entry of d.itea contains it",
	"compiler.(*scopes).UnusedImport#range:_,n:scopes.s[3].names":          "monotone: for an imported package there is one name; otherwise unused[impor] ends as 'no name of impor is used' whatever the order (a used name stores false and nothing stores true over it)",
	"compiler.(*scopes).Exit#range:name,lbl:scopes.s[c].fn.labels":         "which of several undefined labels is reported depends on map order; the build fails with a 'label not defined' error in every order and produces no artefact — outside C30's observables (reported in REPORT.md with an optional repair)",
	"compiler.Disassemble#range:path,funcs:functionsByPkg":                 "the shared bytes.Buffer is empty at the start of every iteration (Reset at its end) and the text is stored under assemblies[path]: per-key result",
	"compiler.(*emitter).canOptimizeShowMacro#range:f,t:em.formatTypes":    "unique-match search by value: the format types are distinct Go types (one per format; templates.go formatTypes)",
	"compiler/types.structType.FieldByName#range:_,field:*x.scriggoFields": "unique-match search: field names are unique within a struct type",
}

type c30 struct {
	r        *Run
	funcOf   map[*types.Func]*FuncInfo
	sums     map[*types.Func]*c30Sum
	busy     map[*types.Func]bool
	defs     map[types.Object][]ast.Expr // simple single definitions (x := e)
	defCount map[types.Object]int
	posStart map[*types.Var]bool // fields Start/End of ast.Position
	named    []*types.Named      // module named types (for interface expansion)
	sorted   []c30Sorted
	implMemo map[*types.Func][]*types.Func
}

type c30Sorted struct {
	fi    *FuncInfo
	slice types.Object
	call  *ast.CallExpr
	key   string
	elem  ast.Expr
}

// c30cur is the state of the current run, for the rules added in c30rN.go (they run after runC30).
var c30cur *c30

func runC30(r *Run) {
	x := &c30{r: r, funcOf: map[*types.Func]*FuncInfo{}, sums: map[*types.Func]*c30Sum{}, busy: map[*types.Func]bool{},
		defs: map[types.Object][]ast.Expr{}, defCount: map[types.Object]int{}, posStart: map[*types.Var]bool{}, implMemo: map[*types.Func][]*types.Func{}}
	for _, rel := range sortedKeys(r.P.byRel) {
		pk := r.P.Pkg(rel)
		for _, fi := range r.P.Funcs(rel) {
			if fi.Obj != nil && !r.P.isTestFile(fi.File) {
				x.funcOf[fi.Obj] = fi
				x.indexDefs(fi)
			}
		}
		sc := pk.Types.Scope()
		for _, n := range sc.Names() {
			if tn, ok := sc.Lookup(n).(*types.TypeName); ok && !tn.IsAlias() {
				if nt, ok := tn.Type().(*types.Named); ok {
					x.named = append(x.named, nt)
				}
			}
		}
	}
	if pos := r.P.Named("ast", "Position"); pos != nil {
		if st, ok := pos.Underlying().(*types.Struct); ok {
			for i := 0; i < st.NumFields(); i++ {
				if f := st.Field(i); f.Name() == "Start" || f.Name() == "End" {
					x.posStart[f] = true
				}
			}
		}
	}
	r.Anchor("R-1", "ast.Position with byte-offset fields", len(x.posStart) == 2)
	c30cur = x
	x.ruleR1()
	x.ruleR2()
	x.ruleR3()
}

// scope of R-1
func (x *c30) scoped() []*FuncInfo {
	var out []*FuncInfo
	for _, rel := range []string{"internal/compiler", "internal/compiler/types", ""} {
		for _, fi := range x.r.P.Funcs(rel) {
			if x.r.P.isTestFile(fi.File) {
				continue
			}
			if rel == "" {
				name := filepath.Base(x.r.P.Fset.Position(fi.File.Pos()).Filename)
				if name != "templates.go" && name != "programs.go" {
					continue
				}
			}
			out = append(out, fi)
		}
	}
	return out
}

// ---------------------------------------------------------------------------
// definitions index (for alias resolution)

func (x *c30) indexDefs(fi *FuncInfo) {
	info := fi.Pkg.TypesInfo
	ast.Inspect(fi.Decl.Body, func(n ast.Node) bool {
		switch s := n.(type) {
		case *ast.AssignStmt:
			for i, l := range s.Lhs {
				id, ok := l.(*ast.Ident)
				if !ok {
					continue
				}
				obj := info.ObjectOf(id)
				if obj == nil {
					continue
				}
				x.defCount[obj]++
				if len(s.Lhs) == len(s.Rhs) && (s.Tok == token.DEFINE || s.Tok == token.ASSIGN) {
					x.defs[obj] = append(x.defs[obj], s.Rhs[i])
				}
			}
		case *ast.IncDecStmt:
			if id, ok := s.X.(*ast.Ident); ok {
				if obj := info.ObjectOf(id); obj != nil {
					x.defCount[obj]++
				}
			}
		case *ast.RangeStmt:
			for _, e := range []ast.Expr{s.Key, s.Value} {
				if id, ok := e.(*ast.Ident); ok {
					if obj := info.ObjectOf(id); obj != nil {
						x.defCount[obj] += 2 // never an alias
					}
				}
			}
		case *ast.ValueSpec:
			for i, id := range s.Names {
				obj := info.Defs[id]
				if obj == nil {
					continue
				}
				x.defCount[obj]++
				if len(s.Values) == len(s.Names) {
					x.defs[obj] = append(x.defs[obj], s.Values[i])
				}
			}
		}
		return true
	})
}

// alias returns the defining expression of a local defined exactly once by a simple assignment.
func (x *c30) alias(obj types.Object) ast.Expr {
	if x.defCount[obj] == 1 && len(x.defs[obj]) == 1 {
		return x.defs[obj][0]
	}
	return nil
}

// ---------------------------------------------------------------------------
// access paths

type c30Path struct {
	root    types.Object // nil: not rooted at a variable (call result, literal …)
	idx     []ast.Expr   // index expressions met from the root outwards
	fields  []*types.Var
	viaCall bool
	text    string
}

// pathOf decomposes an lvalue / container expression, substituting reference-typed local aliases.
func (x *c30) pathOf(info *types.Info, e ast.Expr, depth int) c30Path {
	e = ast.Unparen(e)
	switch v := e.(type) {
	case *ast.Ident:
		obj := info.ObjectOf(v)
		if depth < 4 && obj != nil {
			if _, isVar := obj.(*types.Var); isVar && c30isRef(obj.Type()) {
				if d := x.alias(obj); d != nil {
					if p := x.pathOf(info, d, depth+1); p.root != nil && !p.viaCall {
						return p
					}
				}
			}
		}
		return c30Path{root: obj, text: v.Name}
	case *ast.SelectorExpr:
		if sel := info.Selections[v]; sel != nil {
			p := x.pathOf(info, v.X, depth)
			if f, ok := sel.Obj().(*types.Var); ok {
				p.fields = append(p.fields, f)
			}
			p.text += "." + v.Sel.Name
			return p
		}
		// package-qualified identifier
		return c30Path{root: info.ObjectOf(v.Sel), text: exprStr(v)}
	case *ast.IndexExpr:
		p := x.pathOf(info, v.X, depth)
		p.idx = append(p.idx, v.Index)
		p.text += "[" + exprStr(v.Index) + "]"
		return p
	case *ast.StarExpr:
		return x.pathOf(info, v.X, depth)
	case *ast.UnaryExpr:
		if v.Op == token.AND {
			return x.pathOf(info, v.X, depth)
		}
	case *ast.SliceExpr:
		return x.pathOf(info, v.X, depth)
	case *ast.CallExpr:
		p := c30Path{viaCall: true, text: exprStr(e)}
		return p
	case *ast.TypeAssertExpr:
		return x.pathOf(info, v.X, depth)
	}
	return c30Path{text: exprStr(e)}
}

func c30isRef(t types.Type) bool {
	switch t.Underlying().(type) {
	case *types.Pointer, *types.Map, *types.Slice, *types.Chan, *types.Interface, *types.Signature:
		return true
	}
	return false
}

// ---------------------------------------------------------------------------
// primitive effects of a piece of code

type c30Eff struct {
	kind   string // "store" | "call" | "exit" | "break" | "odd"
	pos    token.Pos
	lhs    ast.Expr
	rhs    ast.Expr // nil when not 1:1
	tok    token.Token
	call   *ast.CallExpr
	exit   []ast.Expr // results of a return / argument of panic
	what   string
	conds  []ast.Expr // enclosing conditions inside the analysed code
	assign *ast.AssignStmt
}

// effects lists the primitive effects of body in source order. decl receives every object declared inside.
func (x *c30) effects(info *types.Info, body ast.Node, decl map[types.Object]bool) []c30Eff {
	var out []c30Eff
	var conds []ast.Expr
	loopDepth := 0 // nesting inside for/switch/select below body: an unlabelled break there does not leave body
	cp := func() []ast.Expr { return append([]ast.Expr{}, conds...) }
	var exprCalls func(e ast.Node)
	exprCalls = func(e ast.Node) {
		if e == nil {
			return
		}
		ast.Inspect(e, func(n ast.Node) bool {
			switch c := n.(type) {
			case *ast.FuncLit:
				out = append(out, c30Eff{kind: "odd", pos: c.Pos(), what: "function literal", conds: cp()})
				return false
			case *ast.CallExpr:
				if isBuiltinCall(info, c, "panic") {
					out = append(out, c30Eff{kind: "exit", pos: c.Pos(), exit: c.Args, what: "panic", conds: cp()})
				} else if tv, ok := info.Types[c.Fun]; !ok || !tv.IsType() {
					out = append(out, c30Eff{kind: "call", pos: c.Pos(), call: c, conds: cp()})
				}
			case *ast.UnaryExpr:
				if c.Op == token.ARROW {
					out = append(out, c30Eff{kind: "odd", pos: c.Pos(), what: "channel receive", conds: cp()})
				}
			}
			return true
		})
	}
	var stmt func(s ast.Stmt)
	block := func(l []ast.Stmt) {
		for _, s := range l {
			stmt(s)
		}
	}
	stmt = func(s ast.Stmt) {
		switch s := s.(type) {
		case nil:
		case *ast.BlockStmt:
			block(s.List)
		case *ast.ExprStmt:
			exprCalls(s.X)
		case *ast.DeclStmt:
			if gd, ok := s.Decl.(*ast.GenDecl); ok {
				for _, sp := range gd.Specs {
					if vs, ok := sp.(*ast.ValueSpec); ok {
						for _, v := range vs.Values {
							exprCalls(v)
						}
						for i, id := range vs.Names {
							if obj := info.Defs[id]; obj != nil {
								decl[obj] = true
								var rhs ast.Expr
								if len(vs.Values) == len(vs.Names) {
									rhs = vs.Values[i]
								}
								out = append(out, c30Eff{kind: "store", pos: id.Pos(), lhs: id, rhs: rhs, tok: token.DEFINE, conds: cp()})
							}
						}
					}
				}
			}
		case *ast.AssignStmt:
			for _, r := range s.Rhs {
				exprCalls(r)
			}
			for i, l := range s.Lhs {
				if id, ok := l.(*ast.Ident); ok {
					if id.Name == "_" {
						continue
					}
					if obj := info.Defs[id]; obj != nil {
						decl[obj] = true
					}
				} else {
					exprCalls(l)
				}
				var rhs ast.Expr
				if len(s.Lhs) == len(s.Rhs) {
					rhs = s.Rhs[i]
				}
				out = append(out, c30Eff{kind: "store", pos: l.Pos(), lhs: l, rhs: rhs, tok: s.Tok, conds: cp(), assign: s})
			}
		case *ast.IncDecStmt:
			out = append(out, c30Eff{kind: "store", pos: s.Pos(), lhs: s.X, tok: s.Tok, conds: cp()})
		case *ast.IfStmt:
			stmt(s.Init)
			exprCalls(s.Cond)
			conds = append(conds, s.Cond)
			stmt(s.Body)
			stmt(s.Else)
			conds = conds[:len(conds)-1]
		case *ast.SwitchStmt:
			stmt(s.Init)
			exprCalls(s.Tag)
			loopDepth++
			for _, c := range s.Body.List {
				cc := c.(*ast.CaseClause)
				n := 0
				if s.Tag != nil {
					conds = append(conds, s.Tag)
					n++
				}
				for _, e := range cc.List {
					exprCalls(e)
					conds = append(conds, e)
					n++
				}
				block(cc.Body)
				conds = conds[:len(conds)-n]
			}
			loopDepth--
		case *ast.TypeSwitchStmt:
			stmt(s.Init)
			stmt(s.Assign)
			loopDepth++
			for _, c := range s.Body.List {
				cc := c.(*ast.CaseClause)
				if obj := info.Implicits[cc]; obj != nil {
					decl[obj] = true
				}
				block(cc.Body)
			}
			loopDepth--
		case *ast.ForStmt:
			stmt(s.Init)
			exprCalls(s.Cond)
			loopDepth++
			if s.Cond != nil {
				conds = append(conds, s.Cond)
			}
			stmt(s.Body)
			stmt(s.Post)
			if s.Cond != nil {
				conds = conds[:len(conds)-1]
			}
			loopDepth--
		case *ast.RangeStmt:
			exprCalls(s.X)
			for _, e := range []ast.Expr{s.Key, s.Value} {
				if id, ok := e.(*ast.Ident); ok {
					if obj := info.Defs[id]; obj != nil {
						decl[obj] = true
						out = append(out, c30Eff{kind: "store", pos: id.Pos(), lhs: id, rhs: s.X, tok: token.DEFINE, what: "range", conds: cp()})
					}
				}
			}
			loopDepth++
			stmt(s.Body)
			loopDepth--
		case *ast.ReturnStmt:
			for _, e := range s.Results {
				exprCalls(e)
			}
			out = append(out, c30Eff{kind: "exit", pos: s.Pos(), exit: s.Results, what: "return", conds: cp()})
		case *ast.BranchStmt:
			switch {
			case s.Tok == token.CONTINUE && s.Label == nil:
			case s.Tok == token.BREAK && s.Label == nil && loopDepth > 0:
			case s.Tok == token.BREAK && s.Label == nil:
				out = append(out, c30Eff{kind: "break", pos: s.Pos(), what: "break", conds: cp()})
			case s.Tok == token.CONTINUE || s.Tok == token.BREAK:
				out = append(out, c30Eff{kind: "break", pos: s.Pos(), what: s.Tok.String() + " " + s.Label.Name, conds: cp()})
			default:
				out = append(out, c30Eff{kind: "odd", pos: s.Pos(), what: s.Tok.String(), conds: cp()})
			}
		case *ast.LabeledStmt:
			stmt(s.Stmt)
		case *ast.EmptyStmt:
		default:
			out = append(out, c30Eff{kind: "odd", pos: s.Pos(), what: fmt.Sprintf("%T", s), conds: cp()})
		}
	}
	switch b := body.(type) {
	case *ast.BlockStmt:
		block(b.List)
	case ast.Stmt:
		stmt(b)
	}
	return out
}

// ---------------------------------------------------------------------------
// callee summaries

type c30SumEff struct {
	root   int    // parameter index (receiver = -1), -2 = package-level state
	kind   string // "mapset" | "lazyinit" | "append" | "assign" | "unknown"
	keyPar int    // for mapset: parameter used as the last index (-1 receiver never; -9 = not a parameter)
	desc   string
}

type c30Sum struct {
	effs []c30SumEff
}

const c30NoKey = -9

func (x *c30) paramIndexOf(fn *types.Func, obj types.Object) (int, bool) {
	sig := fn.Type().(*types.Signature)
	if sig.Recv() != nil && sig.Recv() == obj {
		return -1, true
	}
	for i := 0; i < sig.Params().Len(); i++ {
		if sig.Params().At(i) == obj {
			return i, true
		}
	}
	return 0, false
}

var c30PurePkgs = map[string]bool{"strings": true, "strconv": true, "unicode": true, "unicode/utf8": true, "errors": true, "math": true,
	"math/big": true, "path": true, "path/filepath": true, "cmp": true, "go/constant": true}

// externalEffect classifies a call to a function outside the module: "" pure, otherwise a description;
// mutArg >= 0 (or -1 for the receiver) names the argument that is modified.
func c30External(fn *types.Func) (mutArg int, kind string, desc string) {
	if fn.Pkg() == nil { // error.Error and friends
		return 0, "", ""
	}
	path := fn.Pkg().Path()
	name := fn.Name()
	sig := fn.Type().(*types.Signature)
	recv := ""
	if sig.Recv() != nil {
		t := sig.Recv().Type()
		if p, ok := t.(*types.Pointer); ok {
			t = p.Elem()
		}
		if n, ok := t.(*types.Named); ok {
			recv = n.Obj().Name()
		}
	}
	switch {
	case c30PurePkgs[path]:
		if path == "math/big" && recv != "" && (strings.HasPrefix(name, "Set") || name == "Add" || name == "Mul" || name == "Sub") {
			return -1, "assign", "modifies its receiver"
		}
		return 0, "", ""
	case path == "reflect":
		if strings.HasPrefix(name, "Set") || name == "Append" || name == "AppendSlice" || name == "Copy" || name == "Call" {
			return -1, "assign", "reflect." + name + " modifies or calls through its operand"
		}
		return 0, "", ""
	case path == "fmt":
		if strings.HasPrefix(name, "Sprint") || name == "Errorf" {
			return 0, "", ""
		}
		if strings.HasPrefix(name, "Fprint") {
			return 0, "append", "writes to its writer"
		}
	case path == "slices":
		switch name {
		case "Contains", "Index", "Equal", "IndexFunc", "ContainsFunc", "Max", "Min":
			return 0, "", ""
		case "Sort", "SortFunc", "SortStableFunc", "Reverse":
			return 0, "assign", "reorders its argument"
		}
	case path == "sort":
		switch name {
		case "Strings", "Ints", "Float64s", "Slice", "SliceStable", "Sort", "Stable":
			return 0, "assign", "reorders its argument"
		case "SearchStrings", "SearchInts", "Search":
			return 0, "", ""
		}
	case path == "maps":
		if name == "Copy" {
			return 0, "mapset-by-value", "maps.Copy writes the destination under the keys of the source"
		}
	case path == "bytes" || path == "strings":
	}
	if (path == "bytes" && recv == "Buffer") || (path == "strings" && recv == "Builder") {
		switch {
		case strings.HasPrefix(name, "Write"):
			return -1, "append", "appends to the " + recv
		case name == "Reset" || name == "Truncate" || name == "Grow":
			return -1, "assign", "resets the " + recv
		default:
			return 0, "", ""
		}
	}
	if path == "bytes" {
		return 0, "", ""
	}
	return 0, "unknown", "call of " + path + "." + name + " (effects not modelled)"
}

// implementers of an interface method among the module's named types.
func (x *c30) implsOf(m *types.Func) []*types.Func {
	if v, ok := x.implMemo[m]; ok {
		return v
	}
	var out []*types.Func
	sig := m.Type().(*types.Signature)
	if sig.Recv() != nil {
		if it, ok := sig.Recv().Type().Underlying().(*types.Interface); ok {
			for _, nt := range x.named {
				if _, isI := nt.Underlying().(*types.Interface); isI {
					continue
				}
				for _, t := range []types.Type{nt, types.NewPointer(nt)} {
					if types.Implements(t, it) {
						ms := types.NewMethodSet(t)
						if sel := ms.Lookup(m.Pkg(), m.Name()); sel != nil {
							if f, ok := sel.Obj().(*types.Func); ok {
								out = append(out, f)
							}
						}
						break
					}
				}
			}
		}
	}
	x.implMemo[m] = out
	return out
}

// summary of a module function relative to its parameters.
func (x *c30) summary(fn *types.Func, depth int) *c30Sum {
	if s, ok := x.sums[fn]; ok {
		return s
	}
	fi := x.funcOf[fn]
	if fi == nil {
		// interface method of the module: union over implementers
		if impls := x.implsOf(fn); len(impls) > 0 {
			s := &c30Sum{}
			for _, m := range impls {
				sub := x.summary(m, depth)
				for _, e := range sub.effs {
					if e.root == -2 || e.kind == "unknown" {
						s.effs = append(s.effs, e)
					} else {
						e.desc = funcKey(m) + ": " + e.desc
						s.effs = append(s.effs, e)
					}
				}
			}
			x.sums[fn] = s
			return s
		}
		return &c30Sum{effs: []c30SumEff{{root: -2, kind: "unknown", desc: "call of " + funcKey(fn) + " whose body is not available"}}}
	}
	if x.busy[fn] || depth > 4 {
		return &c30Sum{effs: []c30SumEff{{root: -2, kind: "unknown", desc: "recursive or too deep call chain through " + funcKey(fn)}}}
	}
	x.busy[fn] = true
	defer delete(x.busy, fn)
	info := fi.Pkg.TypesInfo
	decl := map[types.Object]bool{}
	effs := x.effects(info, fi.Decl.Body, decl)
	s := &c30Sum{}
	add := func(e c30SumEff) {
		for _, o := range s.effs {
			if o == e {
				return
			}
		}
		if len(s.effs) < 40 {
			s.effs = append(s.effs, e)
		}
	}
	rootClass := func(p c30Path) (int, bool) { // returns root index; ok=false → local / no state
		if p.root == nil {
			return 0, false
		}
		if i, ok := x.paramIndexOf(fn, p.root); ok {
			return i, true
		}
		if v, ok := p.root.(*types.Var); ok && v.Parent() == v.Pkg().Scope() {
			return -2, true
		}
		// named results and locals: no effect outside
		return 0, false
	}
	for _, e := range effs {
		switch e.kind {
		case "store":
			p := x.pathOf(info, e.lhs, 0)
			if id, ok := ast.Unparen(e.lhs).(*ast.Ident); ok {
				// assignment to a variable itself: parameters are copies, locals are local
				if obj := info.ObjectOf(id); obj != nil {
					if v, ok := obj.(*types.Var); !ok || v.Parent() != v.Pkg().Scope() {
						continue
					}
				}
			}
			root, ok := rootClass(p)
			if !ok {
				if p.viaCall {
					add(c30SumEff{root: -2, kind: "unknown", desc: "store through the result of a call: " + p.text})
				}
				continue
			}
			// value parameters of struct type are copies: stores into their fields stay local
			if root >= -1 && len(p.idx) == 0 {
				if pv, ok := p.root.(*types.Var); ok && !c30isRef(pv.Type()) {
					continue
				}
			}
			kind, keyPar, desc := "assign", c30NoKey, "assigns "+p.text
			if call, ok := ast.Unparen(e.rhs).(*ast.CallExpr); ok && e.rhs != nil && isBuiltinCall(info, call, "append") {
				kind, desc = "append", "appends to "+p.text
			} else if e.tok == token.INC || e.tok == token.DEC || (e.tok != token.ASSIGN && e.tok != token.DEFINE) {
				kind, desc = "accum", "accumulates into "+p.text
			} else if x.isLazyInit(info, e) {
				kind, desc = "lazyinit", "initialises "+p.text+" when nil"
			} else if len(p.idx) > 0 {
				last := ast.Unparen(p.idx[len(p.idx)-1])
				if id, ok := last.(*ast.Ident); ok {
					if i, ok := x.paramIndexOf(fn, info.ObjectOf(id)); ok && x.defCount[info.ObjectOf(id)] == 0 {
						kind, keyPar, desc = "mapset", i, "stores "+p.text
					}
				}
				if kind == "assign" {
					kind, desc = "cellset", "stores "+p.text
				}
			}
			add(c30SumEff{root: root, kind: kind, keyPar: keyPar, desc: desc})
		case "call":
			for _, se := range x.callEffects(info, e.call, depth+1) {
				// lift to this function's parameters
				var arg ast.Expr
				switch {
				case se.root == -2:
					add(se)
					continue
				case se.root == -1:
					if sel, ok := ast.Unparen(e.call.Fun).(*ast.SelectorExpr); ok {
						arg = sel.X
					}
				case se.root < len(e.call.Args):
					arg = e.call.Args[se.root]
				}
				if arg == nil {
					add(c30SumEff{root: -2, kind: "unknown", desc: se.desc + " (argument not resolved)"})
					continue
				}
				p := x.pathOf(info, arg, 0)
				root, ok := rootClass(p)
				if !ok {
					if p.viaCall || p.root == nil {
						// state reached through a call result or a literal: fresh unless proven otherwise
						if p.viaCall && se.kind != "mapset" && se.kind != "lazyinit" {
							add(c30SumEff{root: -2, kind: "unknown", desc: se.desc + " on " + p.text})
						}
					}
					continue
				}
				lifted := c30SumEff{root: root, kind: se.kind, keyPar: c30NoKey, desc: funcKey(c30calleeOf(info, e.call)) + " " + se.desc}
				if se.kind == "mapset" && se.keyPar >= 0 && se.keyPar < len(e.call.Args) {
					if id, ok := ast.Unparen(e.call.Args[se.keyPar]).(*ast.Ident); ok {
						if i, ok := x.paramIndexOf(fn, info.ObjectOf(id)); ok && x.defCount[info.ObjectOf(id)] == 0 {
							lifted.keyPar = i
						}
					}
					if lifted.keyPar == c30NoKey {
						lifted.kind = "cellset"
					}
				}
				add(lifted)
			}
		case "odd":
			if e.what != "function literal" {
				add(c30SumEff{root: -2, kind: "unknown", desc: e.what + " in " + fi.Name()})
			} else {
				add(c30SumEff{root: -2, kind: "unknown", desc: "function literal in " + fi.Name()})
			}
		}
	}
	x.sums[fn] = s
	return s
}

func c30calleeOf(info *types.Info, call *ast.CallExpr) *types.Func { return callee(info, call) }

// isLazyInit: a store of a fresh map/slice (make or composite literal) under a condition comparing something with nil.
func (x *c30) isLazyInit(info *types.Info, e c30Eff) bool {
	if e.rhs == nil {
		return false
	}
	fresh := false
	switch v := ast.Unparen(e.rhs).(type) {
	case *ast.CompositeLit:
		fresh = true
	case *ast.CallExpr:
		fresh = isBuiltinCall(info, v, "make")
	}
	if !fresh {
		return false
	}
	for _, c := range e.conds {
		for _, part := range append(splitAnd(c), splitOr(c)...) {
			if be, ok := ast.Unparen(part).(*ast.BinaryExpr); ok && be.Op == token.EQL {
				if tv := info.Types[be.Y]; tv.IsNil() {
					return true
				}
				if tv := info.Types[be.X]; tv.IsNil() {
					return true
				}
			}
		}
	}
	return false
}

// callEffects: the effects of one call, relative to the call's own receiver/arguments.
func (x *c30) callEffects(info *types.Info, call *ast.CallExpr, depth int) []c30SumEff {
	if id, ok := ast.Unparen(call.Fun).(*ast.Ident); ok {
		if _, isB := info.Uses[id].(*types.Builtin); isB {
			switch id.Name {
			case "delete":
				return nil // deletions commute
			case "copy":
				return []c30SumEff{{root: 0, kind: "assign", desc: "copy into its first argument"}}
			case "close":
				return []c30SumEff{{root: -2, kind: "unknown", desc: "close of a channel"}}
			}
			return nil // len cap make new append(handled at the store) min max print…
		}
	}
	fn := callee(info, call)
	if fn == nil {
		return []c30SumEff{{root: -2, kind: "unknown", desc: "dynamic call " + exprStr(call.Fun)}}
	}
	if fn.Pkg() == nil || !strings.HasPrefix(fn.Pkg().Path(), modulePath) {
		arg, kind, desc := c30External(fn)
		if kind == "" {
			return nil
		}
		if kind == "unknown" {
			return []c30SumEff{{root: -2, kind: "unknown", desc: desc}}
		}
		return []c30SumEff{{root: arg, kind: kind, keyPar: c30NoKey, desc: desc}}
	}
	return x.summary(fn, depth).effs
}

// ---------------------------------------------------------------------------
// R-1

type c30Issue struct {
	sensitive bool // false: not understood
	msg       string
}

type c30Loop struct {
	x        *c30
	fi       *FuncInfo
	info     *types.Info
	rs       *ast.RangeStmt
	key, val types.Object
	local    map[types.Object]bool
	loopDep  map[types.Object]bool
	keyInj   map[types.Object]bool
	issues   []c30Issue
	facts    map[string]int
	collect  map[types.Object]ast.Expr // local slice of the enclosing function → element expression
	outerSet map[string][]string       // outer location text → distinct RHS texts stored
}

func (x *c30) ruleR1() {
	const R = "R-1"
	r := x.r
	n := 0
	for _, fi := range x.scoped() {
		info := fi.Pkg.TypesInfo
		fi := fi
		ast.Inspect(fi.Decl.Body, func(m ast.Node) bool {
			rs, ok := m.(*ast.RangeStmt)
			if !ok {
				return true
			}
			t := info.TypeOf(rs.X)
			if t == nil {
				return true
			}
			if _, isMap := t.Underlying().(*types.Map); !isMap {
				return true
			}
			n++
			x.classify(R, fi, rs)
			return true
		})
		// hidden map iteration
		for _, c := range calls(fi.Decl.Body, true) {
			if fn := callee(info, c); fn != nil && fn.Pkg() != nil {
				p, nm := fn.Pkg().Path(), fn.Name()
				if (p == "maps" && (nm == "Keys" || nm == "Values" || nm == "All")) || (p == "reflect" && (nm == "MapRange" || nm == "MapKeys")) {
					r.Ob(R, fi.Name()+"#"+p+"."+nm, c.Pos()).Unknown("map iteration through %s.%s is not classified by this rule", p, nm)
				}
			}
		}
	}
	r.Stats["map ranges"] = n
	r.Require(R, 33)
}

func (x *c30) classify(R string, fi *FuncInfo, rs *ast.RangeStmt) {
	r := x.r
	info := fi.Pkg.TypesInfo
	key := fi.Name() + "#range:" + c30rangeName(rs)
	o := r.Ob(R, key, rs.Pos())
	l := &c30Loop{x: x, fi: fi, info: info, rs: rs, local: map[types.Object]bool{}, loopDep: map[types.Object]bool{}, keyInj: map[types.Object]bool{},
		facts: map[string]int{}, collect: map[types.Object]ast.Expr{}, outerSet: map[string][]string{}}
	if id, ok := rs.Key.(*ast.Ident); ok && id.Name != "_" {
		l.key = info.ObjectOf(id)
		if l.key != nil {
			l.local[l.key], l.loopDep[l.key], l.keyInj[l.key] = true, true, true
		}
	}
	if id, ok := rs.Value.(*ast.Ident); ok && id.Name != "_" {
		l.val = info.ObjectOf(id)
		if l.val != nil {
			l.local[l.val], l.loopDep[l.val] = true, true
		}
	}
	if (rs.Key != nil && l.key == nil && !c30blank(rs.Key)) || (rs.Value != nil && l.val == nil && !c30blank(rs.Value)) {
		o.Unknown("range assigns to something other than fresh identifiers")
		return
	}
	effs := x.effects(info, rs.Body, l.local)
	l.run(effs)
	// collected slices must be sorted before use
	var sortedFacts []string
	for obj, elem := range l.collect {
		call, why := x.sortedAfter(fi, rs, obj)
		if call == nil {
			l.issues = append(l.issues, c30Issue{sensitive: true, msg: fmt.Sprintf("appends to %s in map order and %s", obj.Name(), why)})
			continue
		}
		x.sorted = append(x.sorted, c30Sorted{fi: fi, slice: obj, call: call, key: fi.Name() + "#sort:" + obj.Name(), elem: elem})
		sortedFacts = append(sortedFacts, fmt.Sprintf("%s collected then sorted by %s", obj.Name(), exprStr(call.Fun)))
	}
	sort.Strings(sortedFacts)
	var sens, unk []string
	for _, is := range l.issues {
		if is.sensitive {
			sens = append(sens, is.msg)
		} else {
			unk = append(unk, is.msg)
		}
	}
	why, listed := c30R1Exceptions[o.Construct]
	switch {
	case len(sens)+len(unk) > 0 && listed:
		o.OK("listed exception: %s [the classifier says: %s]", why, strings.Join(c30dedup(append(sens, unk...)), "; "))
	case len(sens) > 0:
		o.Bad("order-sensitive body: %s", strings.Join(c30dedup(sens), "; "))
	case len(unk) > 0:
		o.Unknown("body not understood: %s", strings.Join(c30dedup(unk), "; "))
	default:
		if listed {
			r.Note("exception %s is no longer needed: the body is classified insensitive", o.Construct)
		}
		var fs []string
		for _, k := range sortedKeys(l.facts) {
			fs = append(fs, fmt.Sprintf("%s×%d", k, l.facts[k]))
		}
		fs = append(fs, sortedFacts...)
		if len(fs) == 0 {
			o.Trivial("body has no effect outside the iteration")
		} else if len(sortedFacts) > 0 {
			o.OK("collected-then-sorted: %s", strings.Join(fs, ", "))
		} else {
			o.OK("insensitive: %s", strings.Join(fs, ", "))
		}
	}
}

// c30rangeName: a stable name of a range statement — the iteration variables and the ranged map (calls by callee only).
func c30rangeName(rs *ast.RangeStmt) string {
	v := func(e ast.Expr) string {
		if e == nil {
			return "_"
		}
		return exprStr(e)
	}
	m := exprStr(rs.X)
	if c, ok := ast.Unparen(rs.X).(*ast.CallExpr); ok {
		m = exprStr(c.Fun) + "()"
	}
	return v(rs.Key) + "," + v(rs.Value) + ":" + m
}

func c30blank(e ast.Expr) bool {
	id, ok := e.(*ast.Ident)
	return ok && id.Name == "_"
}

func c30dedup(s []string) []string {
	seen := map[string]bool{}
	var out []string
	for _, v := range s {
		if !seen[v] {
			seen[v] = true
			out = append(out, v)
		}
	}
	return out
}

func (l *c30Loop) sens(format string, a ...any) {
	l.issues = append(l.issues, c30Issue{sensitive: true, msg: fmt.Sprintf(format, a...)})
}
func (l *c30Loop) unk(format string, a ...any) {
	l.issues = append(l.issues, c30Issue{msg: fmt.Sprintf(format, a...)})
}

// dep: does e depend on the iteration?
func (l *c30Loop) dep(e ast.Node) bool {
	if e == nil {
		return false
	}
	found := false
	ast.Inspect(e, func(n ast.Node) bool {
		if id, ok := n.(*ast.Ident); ok {
			if obj := l.info.ObjectOf(id); obj != nil && l.loopDep[obj] {
				found = true
			}
		}
		return !found
	})
	return found
}

// inj: is e an injective function of the key (and of loop-invariant values)?
func (l *c30Loop) inj(e ast.Expr) bool {
	e = ast.Unparen(e)
	switch v := e.(type) {
	case *ast.Ident:
		obj := l.info.ObjectOf(v)
		return obj != nil && l.keyInj[obj]
	case *ast.BinaryExpr:
		if v.Op == token.ADD {
			if b, ok := l.info.TypeOf(v).Underlying().(*types.Basic); ok && b.Info()&types.IsString != 0 {
				return (l.inj(v.X) && !l.dep(v.Y)) || (l.inj(v.Y) && !l.dep(v.X))
			}
		}
	case *ast.CallExpr:
		if tv, ok := l.info.Types[v.Fun]; ok && tv.IsType() && len(v.Args) == 1 {
			// conversions between integer types of non-decreasing width, or to string-like named types
			from, to := l.info.TypeOf(v.Args[0]), tv.Type
			if c30isInt(from) && c30isInt(to) && c30bits(to) >= c30bits(from) {
				return l.inj(v.Args[0])
			}
			if types.Identical(from.Underlying(), to.Underlying()) {
				return l.inj(v.Args[0])
			}
		}
	case *ast.IndexExpr:
		// lookup in a package-level array/slice literal of distinct constants
		if l.inj(v.Index) {
			if id, ok := ast.Unparen(v.X).(*ast.Ident); ok {
				if pv, ok := l.info.ObjectOf(id).(*types.Var); ok && pv.Parent() == pv.Pkg().Scope() {
					return l.x.distinctTable(pv)
				}
			}
		}
	case *ast.SelectorExpr:
		// a field of the key when the key is a struct value: not injective in general
	}
	return false
}

// distinctTable: package-level array/slice variable initialised with pairwise distinct constants and never assigned.
func (x *c30) distinctTable(v *types.Var) bool {
	for _, pk := range x.r.P.Pkgs {
		if pk.Types != v.Pkg() {
			continue
		}
		for _, f := range pk.Syntax {
			for _, d := range f.Decls {
				gd, ok := d.(*ast.GenDecl)
				if !ok || gd.Tok != token.VAR {
					continue
				}
				for _, sp := range gd.Specs {
					vs := sp.(*ast.ValueSpec)
					for i, id := range vs.Names {
						if pk.TypesInfo.Defs[id] != v || i >= len(vs.Values) {
							continue
						}
						cl, ok := vs.Values[i].(*ast.CompositeLit)
						if !ok {
							return false
						}
						seen := map[string]bool{}
						for _, el := range cl.Elts {
							if kv, ok := el.(*ast.KeyValueExpr); ok {
								el = kv.Value
							}
							tv := pk.TypesInfo.Types[el]
							if tv.Value == nil || seen[tv.Value.ExactString()] {
								return false
							}
							seen[tv.Value.ExactString()] = true
						}
						// never written elsewhere
						written := false
						for _, f2 := range pk.Syntax {
							ast.Inspect(f2, func(n ast.Node) bool {
								if as, ok := n.(*ast.AssignStmt); ok {
									for _, lh := range as.Lhs {
										if p := x.pathOf(pk.TypesInfo, lh, 0); p.root == v {
											written = true
										}
									}
								}
								return true
							})
						}
						return !written
					}
				}
			}
		}
	}
	return false
}

// condDep: is the effect executed under a condition that depends on the iteration?
func (l *c30Loop) condDep(e c30Eff) bool {
	for _, c := range e.conds {
		if l.dep(c) {
			return true
		}
	}
	return false
}

// keyEq: some enclosing condition compares the key itself with a loop-invariant value for equality.
func (l *c30Loop) keyEq(e c30Eff) bool {
	for _, c := range e.conds {
		for _, part := range splitAnd(c) {
			if be, ok := ast.Unparen(part).(*ast.BinaryExpr); ok && be.Op == token.EQL {
				if (l.inj(be.X) && !l.dep(be.Y)) || (l.inj(be.Y) && !l.dep(be.X)) {
					return true
				}
			}
		}
	}
	return false
}

func (l *c30Loop) rootKind(p c30Path) string {
	if p.root == nil {
		if p.viaCall {
			return "call"
		}
		return "none"
	}
	if l.local[p.root] {
		return "local"
	}
	return "outer"
}

func (l *c30Loop) run(effs []c30Eff) {
	for _, e := range effs {
		switch e.kind {
		case "store":
			l.store(e)
		case "call":
			l.call(e)
		case "exit":
			l.exit(e)
		case "break":
			// leaving the loop early makes what was stored so far the result: covered by the stores; a bare break
			// under a loop-dependent condition with no loop-dependent store is an existence test
			l.facts["early break"]++
		case "odd":
			l.unk("%s at %s", e.what, l.x.r.P.Pos(e.pos))
		}
	}
}

func (l *c30Loop) store(e c30Eff) {
	info := l.info
	// plain local identifier: track what it depends on
	if id, ok := ast.Unparen(e.lhs).(*ast.Ident); ok {
		obj := info.ObjectOf(id)
		if obj != nil && l.local[obj] {
			if e.what == "range" {
				l.loopDep[obj] = l.loopDep[obj] || l.dep(e.rhs)
				return
			}
			if e.rhs == nil {
				l.loopDep[obj] = true // tuple results: assume dependent
				l.keyInj[obj] = false
				return
			}
			wasKeyInj := l.keyInj[obj]
			newInj := l.inj(e.rhs) && !l.condDep(e)
			if e.tok == token.DEFINE && l.x.defCount[obj] <= 1 {
				l.keyInj[obj] = newInj
			} else if e.tok == token.ASSIGN || e.tok == token.DEFINE {
				// reassignment: injective only when both the old and the new value are (same function under an invariant condition)
				l.keyInj[obj] = newInj && (wasKeyInj || l.x.defCount[obj] <= 1)
			} else {
				l.keyInj[obj] = false
			}
			if l.dep(e.rhs) || l.condDep(e) || c30hasCall(e.rhs) {
				l.loopDep[obj] = true
			}
			return
		}
	}
	p := l.x.pathOf(info, e.lhs, 0)
	switch l.rootKind(p) {
	case "local":
		l.facts["store into per-iteration state"]++
		return
	case "call", "none":
		l.unk("store through %s", p.text)
		return
	}
	// outer root
	isAppend := false
	if call, ok := ast.Unparen(e.rhs).(*ast.CallExpr); ok && e.rhs != nil && isBuiltinCall(info, call, "append") {
		isAppend = true
		if id, ok := ast.Unparen(e.lhs).(*ast.Ident); ok && len(call.Args) >= 2 {
			if obj, ok := info.ObjectOf(id).(*types.Var); ok && obj.Parent() != obj.Pkg().Scope() && !obj.IsField() {
				if a0, ok := ast.Unparen(call.Args[0]).(*ast.Ident); ok && info.ObjectOf(a0) == obj {
					if _, isParam := l.x.paramIndexOf(l.fi.Obj, obj); !isParam {
						l.collect[obj] = call.Args[1]
						return
					}
				}
			}
		}
	}
	// indexed collection: S[i] = v; i++ with S a local slice of the function and i a counter outside the loop
	if len(p.idx) == 1 && len(p.fields) == 0 {
		if id, ok := ast.Unparen(p.idx[0]).(*ast.Ident); ok {
			if ctr := info.ObjectOf(id); ctr != nil && !l.local[ctr] && l.incremented(ctr) {
				if root, ok := p.root.(*types.Var); ok && root.Parent() != root.Pkg().Scope() {
					if _, isParam := l.x.paramIndexOf(l.fi.Obj, root); !isParam {
						l.collect[root] = e.rhs
						return
					}
				}
			}
		}
	}
	var anyInj, anyDep bool
	for _, ix := range p.idx {
		if l.inj(ix) {
			anyInj = true
		} else if l.dep(ix) {
			anyDep = true
		}
	}
	switch {
	case anyInj:
		if isAppend {
			l.facts["append to a per-key cell"]++
		} else {
			l.facts["store into a cell indexed by the key"]++
		}
		// the stored value must not read cells written by other iterations
		return
	case anyDep:
		l.sens("stores into %s, a cell chosen by a value of the entry (not by the key): entries mapping to the same cell overwrite each other in map order", p.text)
		return
	}
	// a fixed outer location
	if isAppend {
		l.sens("appends to %s, which is not a local slice sorted afterwards, in map order", p.text)
		return
	}
	switch e.tok {
	case token.INC, token.DEC, token.OR_ASSIGN, token.AND_ASSIGN, token.XOR_ASSIGN, token.MUL_ASSIGN:
		l.facts["commutative accumulation"]++
		return
	case token.ADD_ASSIGN, token.SUB_ASSIGN:
		if b, ok := info.TypeOf(e.lhs).Underlying().(*types.Basic); ok && b.Info()&types.IsNumeric != 0 {
			l.facts["commutative accumulation"]++
			return
		}
		l.sens("concatenates onto %s in map order", p.text)
		return
	case token.ASSIGN, token.DEFINE:
	default:
		l.sens("updates %s with a non-commutative operator in map order", p.text)
		return
	}
	if e.rhs == nil {
		l.unk("tuple assignment to outer %s", p.text)
		return
	}
	if !l.dep(e.rhs) && !c30hasCall(e.rhs) {
		// idempotent store of an invariant value: all stores to this location must store the same thing
		l.outerSet[p.text] = append(l.outerSet[p.text], exprStr(e.rhs))
		for _, other := range l.outerSet[p.text] {
			if other != exprStr(e.rhs) {
				l.sens("stores different loop-invariant values (%s, %s) into %s depending on the entry: the last one in map order wins", other, exprStr(e.rhs), p.text)
				return
			}
		}
		l.facts["idempotent store of an invariant"]++
		return
	}
	// loop-dependent value into a fixed outer location
	if l.keyEq(e) {
		l.facts["store guarded by equality on the key"]++
		return
	}
	switch l.extremum(e, p) {
	case "value":
		l.facts["max/min of the compared value"]++
		return
	case "arg":
		l.facts["arg-min/arg-max by source offset"]++
		return
	}
	l.sens("assigns %s = %s, a value chosen by map order when several entries qualify", p.text, exprStr(e.rhs))
}

// incremented: the loop body contains ctr++ (or ctr += 1) at its top level.
func (l *c30Loop) incremented(ctr types.Object) bool {
	for _, st := range l.rs.Body.List {
		switch s := st.(type) {
		case *ast.IncDecStmt:
			if id, ok := s.X.(*ast.Ident); ok && s.Tok == token.INC && l.info.ObjectOf(id) == ctr {
				return true
			}
		case *ast.AssignStmt:
			if s.Tok == token.ADD_ASSIGN && len(s.Lhs) == 1 {
				if id, ok := s.Lhs[0].(*ast.Ident); ok && l.info.ObjectOf(id) == ctr {
					if v, ok := intValue(l.info, s.Rhs[0]); ok && v == 1 {
						return true
					}
				}
			}
		}
	}
	return false
}

func c30hasCall(e ast.Expr) bool {
	if e == nil {
		return false
	}
	found := false
	ast.Inspect(e, func(n ast.Node) bool {
		if _, ok := n.(*ast.CallExpr); ok {
			found = true
		}
		return !found
	})
	return found
}

// extremum recognises `if E ⋚ F { X = W }` where F is rooted at X (or at an outer variable that receives E in the same
// assignment group): "value" when W is E itself, "arg" when E is the Start/End offset of W.
func (l *c30Loop) extremum(e c30Eff, p c30Path) string {
	info := l.info
	for _, c := range e.conds {
		for _, part := range c30leaves(c) {
			be, ok := ast.Unparen(part).(*ast.BinaryExpr)
			if !ok || (be.Op != token.LSS && be.Op != token.GTR) {
				continue
			}
			for _, pr := range [][2]ast.Expr{{be.X, be.Y}, {be.Y, be.X}} {
				E, F := pr[0], pr[1]
				if !l.dep(E) || l.dep(F) {
					continue
				}
				fp := l.x.pathOf(info, F, 0)
				if fp.root == nil || l.local[fp.root] {
					continue
				}
				// F must be (rooted at) the location assigned, or a location assigned E alongside
				sameLoc := fp.root == p.root
				if !sameLoc {
					continue
				}
				if exprStr(E) == exprStr(e.rhs) {
					return "value"
				}
				// arg: E = W.…Start with W = rhs
				ep := l.x.pathOf(info, E, 0)
				wp := l.x.pathOf(info, e.rhs, 0)
				if len(ep.fields) > 0 && l.x.posStart[ep.fields[len(ep.fields)-1]] && strings.HasPrefix(ep.text, wp.text) && wp.root == ep.root {
					return "arg"
				}
			}
			// co-selected form: `E ⋚ F { X = …; F' = E or W }` — E is a source offset (unique per entry), the block also
			// stores E (or the entry E is an offset of) into the location F is rooted at: every other loop-dependent
			// store of the block is selected together with that unique extremum
			for _, pr := range [][2]ast.Expr{{be.X, be.Y}, {be.Y, be.X}} {
				E, F := pr[0], pr[1]
				if !l.dep(E) || l.dep(F) {
					continue
				}
				ep := l.x.pathOf(info, E, 0)
				fp := l.x.pathOf(info, F, 0)
				if len(ep.fields) == 0 || !l.x.posStart[ep.fields[len(ep.fields)-1]] || fp.root == nil || l.local[fp.root] {
					continue
				}
				if l.companion(fp.root, E, ep) {
					return "arg"
				}
			}
		}
	}
	return ""
}

// c30leaves flattens a condition through &&, ||, ! and parentheses into its comparison leaves.
func c30leaves(e ast.Expr) []ast.Expr {
	e = ast.Unparen(e)
	switch v := e.(type) {
	case *ast.BinaryExpr:
		if v.Op == token.LAND || v.Op == token.LOR {
			return append(c30leaves(v.X), c30leaves(v.Y)...)
		}
	case *ast.UnaryExpr:
		if v.Op == token.NOT {
			return c30leaves(v.X)
		}
	}
	return []ast.Expr{e}
}

// companion: the loop body stores E itself, or the entry E is an offset of, into a location rooted at froot.
func (l *c30Loop) companion(froot types.Object, E ast.Expr, ep c30Path) bool {
	found := false
	ast.Inspect(l.rs.Body, func(n ast.Node) bool {
		if as, ok := n.(*ast.AssignStmt); ok && len(as.Lhs) == len(as.Rhs) {
			for i := range as.Lhs {
				lp := l.x.pathOf(l.info, as.Lhs[i], 0)
				if lp.root != froot {
					continue
				}
				if exprStr(as.Rhs[i]) == exprStr(E) {
					found = true
				}
				wp := l.x.pathOf(l.info, as.Rhs[i], 0)
				if wp.root != nil && wp.root == ep.root && strings.HasPrefix(ep.text, wp.text) {
					found = true
				}
			}
		}
		return !found
	})
	return found
}

func (l *c30Loop) call(e c30Eff) {
	info := l.info
	call := e.call
	if isBuiltinCall(info, call, "append") {
		return // handled at the store receiving the result
	}
	for _, se := range l.x.callEffects(info, call, 1) {
		name := exprStr(call.Fun)
		if se.kind == "unknown" {
			l.unk("%s: %s", name, se.desc)
			continue
		}
		var arg ast.Expr
		switch {
		case se.root == -2:
			l.sens("%s %s (package-level state) in map order", name, se.desc)
			continue
		case se.root == -1:
			if sel, ok := ast.Unparen(call.Fun).(*ast.SelectorExpr); ok {
				arg = sel.X
			}
		case se.root < len(call.Args):
			arg = call.Args[se.root]
		}
		if arg == nil {
			l.unk("%s: %s (argument not resolved)", name, se.desc)
			continue
		}
		p := l.x.pathOf(info, arg, 0)
		switch l.rootKind(p) {
		case "local":
			l.facts["call modifying per-iteration state"]++
			continue
		case "call", "none":
			if se.kind == "mapset-by-value" || se.kind == "append" || se.kind == "assign" || se.kind == "cellset" || se.kind == "accum" {
				l.unk("%s %s on %s", name, se.desc, p.text)
			}
			continue
		}
		// the state reached is outside the iteration
		injIdx := false
		for _, ix := range p.idx {
			if l.inj(ix) {
				injIdx = true
			}
		}
		if injIdx {
			l.facts["call modifying a cell indexed by the key"]++
			continue
		}
		switch se.kind {
		case "lazyinit":
			l.facts["lazy initialisation"]++
		case "mapset":
			if se.keyPar >= 0 && se.keyPar < len(call.Args) && l.inj(call.Args[se.keyPar]) {
				l.facts["call storing under the key"]++
			} else if se.keyPar >= 0 && se.keyPar < len(call.Args) && !l.dep(call.Args[se.keyPar]) {
				l.sens("%s %s under a loop-invariant key for every entry: the last entry in map order wins", name, se.desc)
			} else {
				l.sens("%s %s under a key computed from the entry's value, not from the map key: colliding entries are resolved by map order", name, se.desc)
			}
		case "append":
			l.sens("%s %s (state outside the loop: %s) once per entry, in map order", name, se.desc, p.text)
		case "accum":
			l.facts["commutative accumulation in a callee"]++
		case "mapset-by-value":
			// reviewed exception by role (was listed per function): a destination keyed by the identity of
			// syntax nodes — every node belongs to the tree of exactly one package, so no two iterations
			// write the same key
			if mt, ok := info.TypeOf(arg).Underlying().(*types.Map); ok && strings.HasSuffix(typeStr(mt.Key()), "ast.Node") {
				l.facts["maps.Copy into a map keyed by syntax-node identity (one tree per package)"]++
				continue
			}
			l.sens("%s: %s", name, se.desc)
		default:
			l.sens("%s %s (state outside the loop: %s) once per entry, in map order", name, se.desc, p.text)
		}
	}
}

func (l *c30Loop) exit(e c30Eff) {
	dep := false
	for _, r := range e.exit {
		if l.dep(r) {
			dep = true
		}
	}
	if e.what == "return" && len(e.exit) == 0 {
		// bare return: named results were stored before (covered by stores)
		l.facts["early return without value"]++
		return
	}
	if !dep {
		l.facts["exit with a loop-invariant value (existence test)"]++
		return
	}
	if l.keyEq(e) {
		l.facts["exit guarded by equality on the key"]++
		return
	}
	what := "returns"
	if e.what == "panic" {
		what = "panics with"
	}
	var rs []string
	for _, r := range e.exit {
		rs = append(rs, exprStr(r))
	}
	l.sens("%s a value that depends on the entry (%s): when several entries qualify the one met first in map order decides", what, strings.Join(rs, ", "))
}

// sortedAfter: the first statement after the range that mentions obj must sort it. Returns the sort call.
func (x *c30) sortedAfter(fi *FuncInfo, rs *ast.RangeStmt, obj types.Object) (*ast.CallExpr, string) {
	info := fi.Pkg.TypesInfo
	par := x.r.P.Parents(fi.File)
	var list []ast.Stmt
	var self ast.Node = rs
	for n := par[rs]; n != nil; n = par[n] {
		if b, ok := n.(*ast.BlockStmt); ok {
			list = b.List
			break
		}
		if cc, ok := n.(*ast.CaseClause); ok {
			list = cc.Body
			break
		}
		self = n
	}
	after := false
	mentions := func(n ast.Node) bool {
		f := false
		ast.Inspect(n, func(m ast.Node) bool {
			if id, ok := m.(*ast.Ident); ok && info.ObjectOf(id) == obj {
				f = true
			}
			return !f
		})
		return f
	}
	for _, s := range list {
		if s == self {
			after = true
			continue
		}
		if !after || !mentions(s) {
			continue
		}
		es, ok := s.(*ast.ExprStmt)
		if !ok {
			return nil, "it is used before being sorted"
		}
		call, ok := es.X.(*ast.CallExpr)
		if !ok || len(call.Args) == 0 {
			return nil, "it is used before being sorted"
		}
		fn := callee(info, call)
		if fn == nil || fn.Pkg() == nil {
			return nil, "it is used before being sorted"
		}
		a0, ok := ast.Unparen(call.Args[0]).(*ast.Ident)
		if !ok || info.ObjectOf(a0) != obj {
			return nil, "it is used before being sorted"
		}
		switch fn.Pkg().Path() + "." + fn.Name() {
		case "sort.Strings", "sort.Ints", "sort.Float64s", "slices.Sort", "sort.Slice", "sort.SliceStable", "slices.SortFunc", "slices.SortStableFunc":
			return call, ""
		}
		return nil, "it is used before being sorted"
	}
	return nil, "it is never sorted in the enclosing block"
}

// ---------------------------------------------------------------------------
// R-2

func (x *c30) ruleR2() {
	const R = "R-2"
	r := x.r
	sort.Slice(x.sorted, func(i, j int) bool { return x.sorted[i].key < x.sorted[j].key })
	for _, s := range x.sorted {
		info := s.fi.Pkg.TypesInfo
		o := r.Ob(R, s.key, s.call.Pos())
		fn := callee(info, s.call)
		name := fn.Pkg().Path() + "." + fn.Name()
		switch name {
		case "sort.Strings", "sort.Ints", "sort.Float64s", "slices.Sort":
			o.OK("%s orders the collected elements themselves: equal elements are indistinguishable, the result does not depend on the collection order", name)
			continue
		}
		if len(s.call.Args) != 2 {
			o.Unknown("%s with %d arguments", name, len(s.call.Args))
			continue
		}
		lit, ok := ast.Unparen(s.call.Args[1]).(*ast.FuncLit)
		if !ok {
			o.Unknown("comparator of %s is not a function literal", name)
			continue
		}
		total, why := x.comparatorTotal(info, lit, s.slice, strings.HasPrefix(name, "sort."))
		if total {
			o.OK("comparator of %s ends in a comparison of the elements themselves (%s)", name, why)
		} else {
			o.Bad("%s orders %s, collected from a map, by %s only: elements that tie keep the order in which the map was iterated (the stable variants do not help, the input order is already random)", name, s.slice.Name(), why)
		}
	}
	r.Require(R, 3)
}

// comparatorTotal: the last return of the comparator compares the two elements themselves.
func (x *c30) comparatorTotal(info *types.Info, lit *ast.FuncLit, slice types.Object, byIndex bool) (bool, string) {
	ps := lit.Type.Params.List
	var a, b types.Object
	var names []*ast.Ident
	for _, f := range ps {
		names = append(names, f.Names...)
	}
	if len(names) != 2 {
		return false, "a comparator of unexpected arity"
	}
	a, b = info.ObjectOf(names[0]), info.ObjectOf(names[1])
	isElem := func(e ast.Expr, p types.Object) bool {
		e = ast.Unparen(e)
		if byIndex {
			ix, ok := e.(*ast.IndexExpr)
			if !ok {
				return false
			}
			s, ok1 := ast.Unparen(ix.X).(*ast.Ident)
			i, ok2 := ast.Unparen(ix.Index).(*ast.Ident)
			return ok1 && ok2 && info.ObjectOf(s) == slice && info.ObjectOf(i) == p
		}
		id, ok := e.(*ast.Ident)
		return ok && info.ObjectOf(id) == p
	}
	var last *ast.ReturnStmt
	ast.Inspect(lit.Body, func(n ast.Node) bool {
		if r, ok := n.(*ast.ReturnStmt); ok {
			last = r
		}
		return true
	})
	if last == nil || len(last.Results) != 1 {
		return false, "a comparator without a final return"
	}
	res := ast.Unparen(last.Results[0])
	if be, ok := res.(*ast.BinaryExpr); ok && (be.Op == token.LSS || be.Op == token.GTR) {
		if (isElem(be.X, a) && isElem(be.Y, b)) || (isElem(be.X, b) && isElem(be.Y, a)) {
			return true, exprStr(res)
		}
		return false, "the projection " + exprStr(res)
	}
	if call, ok := res.(*ast.CallExpr); ok && len(call.Args) == 2 {
		if fn := callee(info, call); fn != nil && fn.Pkg() != nil && (fn.Pkg().Path() == "cmp" || fn.Pkg().Path() == "strings") && fn.Name() == "Compare" {
			if (isElem(call.Args[0], a) && isElem(call.Args[1], b)) || (isElem(call.Args[0], b) && isElem(call.Args[1], a)) {
				return true, exprStr(res)
			}
		}
	}
	return false, "the projection " + exprStr(res)
}

// ---------------------------------------------------------------------------
// R-3

func (x *c30) ruleR3() {
	const R = "R-3"
	r := x.r
	root := r.P.Pkg("")
	tmpl := r.P.Named("", "Template")
	if !r.Anchor(R, "scriggo.Template", root != nil && tmpl != nil) {
		return
	}
	// by role: the exported method of *Template returning []string (the names of the globals used)
	var cands []*FuncInfo
	for _, fi := range r.P.Funcs("") {
		if fi.Obj == nil || fi.Decl.Recv == nil || r.P.isTestFile(fi.File) || !fi.Obj.Exported() {
			continue
		}
		sig := fi.Obj.Type().(*types.Signature)
		rt := sig.Recv().Type()
		if p, ok := rt.(*types.Pointer); ok {
			rt = p.Elem()
		}
		if !types.Identical(rt, tmpl) || sig.Results().Len() != 1 {
			continue
		}
		if sl, ok := sig.Results().At(0).Type().Underlying().(*types.Slice); ok {
			if b, ok := sl.Elem().Underlying().(*types.Basic); ok && b.Kind() == types.String {
				cands = append(cands, fi)
			}
		}
	}
	if !r.Anchor(R, "the method of *Template returning []string (UsedVars)", len(cands) == 1) {
		return
	}
	fi := cands[0]
	info := fi.Pkg.TypesInfo
	c := r.P.CFGOf(fi)
	for _, ret := range c.Returns() {
		o := r.Ob(R, fi.Name()+"#return", ret.Pos())
		if len(ret.Results) != 1 {
			o.Unknown("return without an explicit result")
			continue
		}
		if tv := info.Types[ret.Results[0]]; tv.IsNil() {
			o.Trivial("returns nil")
			continue
		}
		id, ok := ast.Unparen(ret.Results[0]).(*ast.Ident)
		if !ok {
			o.Unknown("returns %s, not a local slice", exprStr(ret.Results[0]))
			continue
		}
		obj := info.ObjectOf(id)
		sorted := c.MustPassNode(ret, func(n ast.Node) bool {
			es, ok := n.(*ast.ExprStmt)
			if !ok {
				return false
			}
			call, ok := es.X.(*ast.CallExpr)
			if !ok || len(call.Args) != 1 {
				return false
			}
			fn := callee(info, call)
			if fn == nil || fn.Pkg() == nil {
				return false
			}
			a0, ok := ast.Unparen(call.Args[0]).(*ast.Ident)
			if !ok || info.ObjectOf(a0) != obj {
				return false
			}
			switch fn.Pkg().Path() + "." + fn.Name() {
			case "sort.Strings", "slices.Sort":
				return true
			}
			return false
		})
		if sorted {
			o.OK("every path to the return sorts %s by natural order: UsedVars does not depend on the order in which globals were registered", id.Name)
		} else {
			o.Unknown("%s is returned without being sorted on every path: UsedVars then mirrors the order in which the emitter registered the globals, which must be re-confirmed to be deterministic", id.Name)
		}
	}
	r.Require(R, 1)
}

func c30isInt(t types.Type) bool {
	b, ok := t.Underlying().(*types.Basic)
	return ok && b.Info()&types.IsInteger != 0
}

func c30bits(t types.Type) int {
	if b, ok := t.Underlying().(*types.Basic); ok {
		switch b.Kind() {
		case types.Int8, types.Uint8:
			return 8
		case types.Int16, types.Uint16:
			return 16
		case types.Int32, types.Uint32:
			return 32
		}
	}
	return 64
}
