package main

// C16 — render, import and extends compose like their documented expansions.
// R-1 = C06 R-1: the show fast path and the generic path may differ only where the format
//       compatibility predicate holds (implemented in c06.go, c06DirectWrite)
// R-2 format gate of extends: a tree attached to an Extends node survives only when the formats agree
// R-3 checkRender creates one macro per rendered tree and every render of the tree calls it

import (
	"go/ast"
	"go/token"
	"go/types"

	"golang.org/x/tools/go/cfg"
)

func init() {
	register("C16", &ruleSet{
		explain: "(R-1) showing `render \"f\"` or a macro call through the direct-write fast path differs from assigning it first and showing the variable only where the verified compatibility predicate holds (same format, or Markdown into HTML), so the two paths cannot disagree on escaping; (R-2) in the template expansion, after the tree of an extended file is attached to its Extends node, every path that does not return an error has passed the test 'format of the extending file == format of the extended file, or Markdown extending HTML', decided by finite-domain data flow over all 36 format pairs; (R-3) checkRender builds the dummy macro of a rendered tree only when the per-compilation cache keyed by the tree has no entry, stores it on every path, rewrites the tree only then, and builds the call from the cached macro.",
		notCov:  []string{"equality of the output with the documented expansions", "import resolution and the swap of extends into imports in the type checker", "the run-time renderer switch in run.go"},
		trusted: []string{"frozen specification: formats are compatible iff equal or Markdown→HTML"},
		run:     runC16,
	})
}

func runC16(r *Run) {
	c06DirectWrite(r, "R-1")
	c16FormatGate(r, "R-2")
	c16RenderCache(r, "R-3")
}

func c16IsPtrTo(t types.Type, named *types.Named) bool {
	p, ok := t.(*types.Pointer)
	return ok && named != nil && types.Identical(p.Elem(), named)
}

func c16FormatGate(r *Run, rule string) {
	const comp = "internal/compiler"
	x := c06NewFmt(r, rule)
	if x == nil {
		return
	}
	extT, treeT := r.P.Named("ast", "Extends"), r.P.Named("ast", "Tree")
	pk := r.P.Pkg(comp)
	if !r.Anchor(rule, "ast.Extends, ast.Tree", extT != nil && treeT != nil && pk != nil) {
		return
	}
	info := pk.TypesInfo
	n := 0
	for _, fi := range r.P.Funcs(comp) {
		if r.P.isTestFile(fi.File) {
			continue
		}
		fi := fi
		ast.Inspect(fi.Decl.Body, func(nd ast.Node) bool {
			as, ok := nd.(*ast.AssignStmt)
			if !ok {
				return true
			}
			for _, l := range as.Lhs {
				sel, ok := ast.Unparen(l).(*ast.SelectorExpr)
				if !ok || !c16IsPtrTo(info.TypeOf(sel.X), extT) || !c16IsPtrTo(info.TypeOf(sel), treeT) {
					continue
				}
				n++
				c16GateSite(r, rule, x, fi, as, sel, treeT)
			}
			return true
		})
	}
	r.Anchor(rule, "an assignment to the Tree field of an *ast.Extends in package compiler (templateExpansion.expand)", n > 0)
	r.Require(rule, 1)
}

func c16GateSite(r *Run, rule string, x *c06Fmt, fi *FuncInfo, as *ast.AssignStmt, attach *ast.SelectorExpr, treeT *types.Named) {
	info := fi.Pkg.TypesInfo
	o := r.Ob(rule, fi.Name()+"#attach-extended-tree", as.Pos())
	c := r.P.CFGOf(fi)
	par := r.P.Parents(fi.File)
	// region: the innermost case clause holding the assignment, else the function body
	var region ast.Node = fi.Decl.Body
	for m := par[ast.Node(as)]; m != nil; m = par[m] {
		if cc, ok := m.(*ast.CaseClause); ok {
			region = cc
			break
		}
	}
	varOf := func(e ast.Expr) int {
		sel, ok := ast.Unparen(e).(*ast.SelectorExpr)
		if !ok || !x.isFmt(info.TypeOf(sel)) {
			return -1
		}
		if c06Same(info, sel.X, attach.X) {
			return 0 // format of the extending file
		}
		if in, ok := ast.Unparen(sel.X).(*ast.SelectorExpr); ok && c16IsPtrTo(info.TypeOf(in), treeT) && c06Same(info, in.X, attach.X) {
			return 1 // format of the extended file
		}
		return -1
	}
	d := &c06Dom{info: info, varOf: varOf}
	assigned := func(n ast.Node) (bool, bool) {
		a0, a1 := false, false
		if s, ok := n.(*ast.AssignStmt); ok && s != as {
			for _, l := range s.Lhs {
				if le, ok := l.(ast.Expr); ok {
					switch varOf(le) {
					case 0:
						a0 = true
					case 1:
						a1 = true
					}
					if c06Same(info, le, attach) {
						a1 = true
					}
				}
			}
		}
		return a0, a1
	}
	inside := func(b *cfg.Block) bool {
		return b.Stmt != nil && region.Pos() <= b.Stmt.Pos() && b.Stmt.End() <= region.End() && ast.Node(b.Stmt) != par[region]
	}
	start, _ := c.Locate(as)
	if start == nil {
		o.Unknown("the assignment was not found in the control-flow graph")
		return
	}
	nf := int(x.maxFmt) + 1
	in := c06Flow(c, d, nf, nf, start, assigned, func(b *cfg.Block) bool { return !inside(b) })
	fmtName := c06ConstNames(x.fmts)
	exits, feasible := 0, 0
	bad := ""
	check := func(st *c06State, where string) {
		exits++
		for a := 0; a < nf; a++ {
			for b := 0; b < nf; b++ {
				if !st.has(a, b) {
					continue
				}
				feasible++
				if !x.compat(int64(a), int64(b)) && bad == "" {
					bad = "a file of format " + fmtName[int64(a)] + " extending a file of format " + fmtName[int64(b)] + " is accepted (" + where + ")"
				}
			}
		}
	}
	for b, st0 := range in {
		if b != start && !inside(b) {
			continue
		}
		st := st0.clone()
		returned := false
		for i, nd := range b.Nodes {
			a0, a1 := assigned(nd)
			if a0 {
				st.widen(0)
			}
			if a1 {
				st.widen(1)
			}
			if b == start && nd.Pos() < as.Pos() {
				continue
			}
			if ret, ok := nd.(*ast.ReturnStmt); ok {
				returned = true
				if !c16ErrorReturn(c, info, ret) {
					check(c06StateAt(in, b, i, assigned), "return at "+r.P.Pos(ret.Pos()))
				}
			}
		}
		if returned {
			continue
		}
		for i, s := range b.Succs {
			if inside(s) {
				continue
			}
			out := st.clone()
			if lits := c.edgeLits(b, i); lits != nil {
				out.filter(d, lits)
			}
			check(out, "leaving the clause after "+r.P.Pos(b.Stmt.Pos()))
		}
	}
	switch {
	case bad != "":
		o.Bad("after the extended tree is attached, a path continues without error although the formats are incompatible: %s; the layout would be rendered with the child's macros of another format, unescaped", bad)
	case exits == 0 || feasible == 0:
		o.Unknown("no non-error continuation found after the attachment (exits=%d, feasible pairs=%d)", exits, feasible)
	default:
		o.OK("every one of the %d non-error continuations is reached only with equal formats or Markdown extending HTML (flow over %d×%d format pairs, %d pair instances survive)", exits, nf, nf, feasible)
	}
}

// c16ErrorReturn reports whether ret returns a non-nil error: a constructed value or a variable tested non-nil.
func c16ErrorReturn(c *CFGInfo, info *types.Info, ret *ast.ReturnStmt) bool {
	if len(ret.Results) == 0 {
		return false
	}
	e := ast.Unparen(ret.Results[len(ret.Results)-1])
	if tv, ok := info.Types[e]; ok && tv.IsNil() {
		return false
	}
	switch v := e.(type) {
	case *ast.CallExpr, *ast.UnaryExpr, *ast.CompositeLit:
		return true
	case *ast.Ident:
		obj := info.Uses[v]
		return c.GuardedBy(ret, func(l Lit) bool {
			be, ok := ast.Unparen(l.Expr).(*ast.BinaryExpr)
			if !ok || l.Tag != nil {
				return false
			}
			if !((be.Op == token.NEQ && l.Truth) || (be.Op == token.EQL && !l.Truth)) {
				return false
			}
			for _, p := range [][2]ast.Expr{{be.X, be.Y}, {be.Y, be.X}} {
				if id, ok := ast.Unparen(p[0]).(*ast.Ident); ok && info.Uses[id] == obj && info.Types[p[1]].IsNil() {
					return true
				}
			}
			return false
		})
	}
	return false
}

// ---------------------------------------------------------------------------
// R-3

func c16RenderCache(r *Run, rule string) {
	const comp = "internal/compiler"
	renT, treeT, callT, funcT := r.P.Named("ast", "Render"), r.P.Named("ast", "Tree"), r.P.Named("ast", "Call"), r.P.Named("ast", "Func")
	pk := r.P.Pkg(comp)
	if !r.Anchor(rule, "ast.Render, ast.Tree, ast.Call, ast.Func", renT != nil && treeT != nil && callT != nil && funcT != nil && pk != nil) {
		return
	}
	info := pk.TypesInfo
	rootIsRender := func(e ast.Expr) *ast.Ident {
		for {
			e = ast.Unparen(e)
			if s, ok := e.(*ast.SelectorExpr); ok {
				e = s.X
				continue
			}
			break
		}
		if id, ok := e.(*ast.Ident); ok && c16IsPtrTo(info.TypeOf(id), renT) {
			return id
		}
		return nil
	}
	// by role: the function of the type checker assigning the lowered call of a Render node
	var fi *FuncInfo
	var callAssign *ast.AssignStmt
	nf := 0
	for _, f := range r.P.Funcs(comp) {
		if r.P.isTestFile(f.File) {
			continue
		}
		f := f
		ast.Inspect(f.Decl.Body, func(n ast.Node) bool {
			as, ok := n.(*ast.AssignStmt)
			if !ok || len(as.Lhs) != 1 || len(as.Rhs) != 1 {
				return true
			}
			sel, ok := ast.Unparen(as.Lhs[0]).(*ast.SelectorExpr)
			if ok && c16IsPtrTo(info.TypeOf(sel), callT) && rootIsRender(sel) != nil {
				fi, callAssign = f, as
				nf++
			}
			return true
		})
	}
	if !r.Anchor(rule, "the function assigning the lowered macro call of an *ast.Render (typechecker.checkRender)", nf == 1) {
		return
	}
	c := r.P.CFGOf(fi)
	render := info.Uses[rootIsRender(callAssign.Lhs[0])]
	// the cache lookup: v, ok := M[k] with k of type *ast.Tree
	var lookup *ast.AssignStmt
	ast.Inspect(fi.Decl.Body, func(n ast.Node) bool {
		as, ok := n.(*ast.AssignStmt)
		if !ok || len(as.Lhs) != 2 || len(as.Rhs) != 1 {
			return true
		}
		if ix, ok := ast.Unparen(as.Rhs[0]).(*ast.IndexExpr); ok {
			if mt, ok := info.TypeOf(ix.X).Underlying().(*types.Map); ok && c16IsPtrTo(mt.Key(), treeT) {
				lookup = as
			}
		}
		return true
	})
	name := fi.Name()
	if lookup == nil {
		r.Ob(rule, name+"#macro-created-once", fi.Decl.Pos()).Bad("%s has no lookup in a map keyed by *ast.Tree: every render of a file would build a new dummy macro over a tree already rewritten by the previous one", name)
		r.Require(rule, 4)
		return
	}
	ix := ast.Unparen(lookup.Rhs[0]).(*ast.IndexExpr)
	stored, _ := lookup.Lhs[0].(*ast.Ident)
	okID, _ := lookup.Lhs[1].(*ast.Ident)
	var storedObj, okObj types.Object
	if stored != nil {
		storedObj = c06Obj(info, stored)
	}
	if okID != nil {
		okObj = c06Obj(info, okID)
	}
	missGuard := func(site ast.Node) bool {
		return c.GuardedBy(site, func(l Lit) bool {
			if l.Tag != nil {
				return false
			}
			id, ok := ast.Unparen(l.Expr).(*ast.Ident)
			return ok && !l.Truth && okObj != nil && info.Uses[id] == okObj
		})
	}
	// key derives from the render node's tree
	oKey := r.Ob(rule, name+"#cache-key", ix.Pos())
	if c16IsPtrTo(info.TypeOf(ix.Index), treeT) && c06DerivesFrom(info, fi.Decl.Body, ix.Index, render, 0) {
		oKey.OK("the cache %s is indexed by %s, the tree of the render node", exprStr(ix.X), exprStr(ix.Index))
	} else {
		oKey.Bad("the cache key %s is not the tree of the render node", exprStr(ix.Index))
	}
	// (a) creation guarded by the miss
	var creations []*ast.CallExpr
	for _, ce := range calls(fi.Decl.Body, false) {
		if fn := callee(info, ce); fn != nil {
			res := fn.Type().(*types.Signature).Results()
			if res.Len() == 1 && c16IsPtrTo(res.At(0).Type(), funcT) {
				creations = append(creations, ce)
			}
		}
	}
	oC := r.Ob(rule, name+"#macro-created-once", lookup.Pos())
	if len(creations) == 0 {
		oC.Unknown("no construction of the dummy macro (*ast.Func) found in %s", name)
	} else {
		all := true
		for _, ce := range creations {
			if !missGuard(ce) {
				all = false
			}
		}
		if all {
			oC.OK("the dummy macro is constructed only on the false edge of the lookup %s[%s]", exprStr(ix.X), exprStr(ix.Index))
		} else {
			oC.Bad("the dummy macro is constructed also when the tree is already cached: the second render of a file wraps the already rewritten tree (its nodes are the first macro's declaration) and renders nothing")
		}
	}
	// (b) stored on every path from the creation to a return
	if len(creations) > 0 {
		oS := r.Ob(rule, name+"#macro-stored", creations[0].Pos())
		blk, idx := c.Locate(creations[0])
		isStore := func(n ast.Node) bool {
			as, ok := n.(*ast.AssignStmt)
			if !ok {
				return false
			}
			for _, l := range as.Lhs {
				if lx, ok := ast.Unparen(l).(*ast.IndexExpr); ok && c06Same(info, lx.X, ix.X) && c06Same(info, lx.Index, ix.Index) {
					return true
				}
			}
			return false
		}
		if blk == nil {
			oS.Unknown("construction not found in the control-flow graph")
		} else if rets := c.ExitsWithout(blk, idx, isStore); len(rets) == 0 {
			oS.OK("every path from the construction of the macro to a return stores it in %s[%s]", exprStr(ix.X), exprStr(ix.Index))
		} else {
			oS.Bad("a path from the construction of the macro returns (at %s) without storing it in %s[%s]: the next render of the same file builds another macro over the rewritten tree", r.P.Pos(rets[0].Pos()), exprStr(ix.X), exprStr(ix.Index))
		}
	}
	// (c) the emitted call is built from the cached entry
	oU := r.Ob(rule, name+"#call-uses-cached-macro", callAssign.Pos())
	if storedObj != nil && c06DerivesFrom(info, fi.Decl.Body, callAssign.Rhs[0], storedObj, 0) {
		oU.OK("the lowered call %s is built from the cache entry %s", exprStr(callAssign.Lhs[0]), stored.Name)
	} else {
		oU.Bad("the lowered call is not built from the cached macro: renders of the same file may call different macros")
	}
	// (d) the rendered tree is rewritten only on a miss
	nrw := 0
	ast.Inspect(fi.Decl.Body, func(n ast.Node) bool {
		as, ok := n.(*ast.AssignStmt)
		if !ok {
			return true
		}
		for _, l := range as.Lhs {
			sel, ok := ast.Unparen(l).(*ast.SelectorExpr)
			if !ok || !c16IsPtrTo(info.TypeOf(sel.X), treeT) {
				continue
			}
			nrw++
			o := r.Ob(rule, name+"#tree-rewritten-once:"+sel.Sel.Name, as.Pos())
			if missGuard(as) {
				o.OK("the field %s of the rendered tree is assigned only on the false edge of the cache lookup", sel.Sel.Name)
			} else {
				o.Bad("the field %s of the rendered tree is assigned on every render, not only the first: the macro body would become the macro declaration itself", sel.Sel.Name)
			}
		}
		return true
	})
	r.Stats[rule+"_tree_rewrites"] = nrw
	r.Require(rule, 4)
}
