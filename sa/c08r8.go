package main

// C08 R-8 (added after seeded change C08-4): a []byte value is written as ONE standard Base64 encoding of
// the whole slice, which is what encoding/json produces and what atob / a JSON decoder accept.
//
// The concatenation of the Base64 encodings of the parts of a slice is the encoding of the slice only if
// every part but the last has a length that is a multiple of 3 (otherwise '=' padding lands in the middle);
// a streaming encoder keeps up to 2 bytes that only Close writes; and encoding/json uses StdEncoding
// (padded, '+' '/'). For every use of encoding/base64 in the non-test code of package runtime:
//
//	(a) the encoding is base64.StdEncoding;
//	(b) a block encoder ((*Encoding).Encode, EncodeToString, AppendEncode) is not applied part by part:
//	    when the call is inside a loop, every constant that sizes the parts (slice bounds, increments) is a
//	    multiple of 3 — none found is undecided;
//	(c) every path from base64.NewEncoder to a return that is not an error return (`if err != nil`) calls
//	    Close on the encoder.

import (
	"go/ast"
	"go/constant"
	"go/token"
	"go/types"
)

func init() {
	p := registry["C08"]
	if p == nil {
		return
	}
	run := p.run
	p.run = func(r *Run) { run(r); c08Base64Whole(r) }
	p.explain += " R-8: byte slices are written as one standard Base64 encoding of the whole slice: StdEncoding, no block encoder applied to parts whose size is not a multiple of 3, and Close called on a streaming encoder on every non-error path."
}

func c08Base64Whole(r *Run) {
	const R = "R-8"
	const b64 = "encoding/base64"
	n := 0
	for _, fi := range r.P.Funcs("internal/runtime") {
		if r.P.isTestFile(fi.File) || fi.Obj == nil {
			continue
		}
		info := fi.Pkg.TypesInfo
		par := r.P.Parents(fi.File)
		isStd := func(e ast.Expr) (string, bool) {
			id := selIdent(ast.Unparen(e))
			if id == nil {
				return exprStr(e), false
			}
			v, ok := info.Uses[id].(*types.Var)
			if !ok || v.Pkg() == nil || v.Pkg().Path() != b64 {
				return exprStr(e), false
			}
			return v.Name(), v.Name() == "StdEncoding"
		}
		for _, c := range calls(fi.Decl.Body, true) {
			fn := callee(info, c)
			if fn == nil || fn.Pkg() == nil || fn.Pkg().Path() != b64 {
				continue
			}
			key := fi.Name() + "#base64." + fn.Name()
			switch fn.Name() {
			case "NewEncoder":
				if len(c.Args) != 2 {
					continue
				}
				n++
				name, ok := isStd(c.Args[0])
				r.Ob(R, key+":encoding", c.Pos()).Set(ok, "the encoding is base64.StdEncoding", "the encoding is "+name+", not base64.StdEncoding: encoding/json writes a []byte with the padded standard alphabet, and a JSON decoder refuses anything else for a []byte")
				c08EncoderClosed(r, R, key, fi, c)
			case "Encode", "EncodeToString", "AppendEncode":
				sel, ok := c.Fun.(*ast.SelectorExpr)
				if !ok {
					continue
				}
				n++
				name, std := isStd(sel.X)
				r.Ob(R, key+":encoding", c.Pos()).Set(std, "the encoding is base64.StdEncoding", "the encoding is "+name+", not base64.StdEncoding: encoding/json writes a []byte with the padded standard alphabet")
				o := r.Ob(R, key+":whole-data", c.Pos())
				var loop ast.Node
				for p := par[ast.Node(c)]; p != nil; p = par[p] {
					if _, ok := p.(*ast.ForStmt); ok {
						loop = p
						break
					}
					if _, ok := p.(*ast.RangeStmt); ok {
						loop = p
						break
					}
					if _, ok := p.(*ast.FuncLit); ok {
						break
					}
				}
				if loop == nil {
					o.OK("the block encoder is applied once, not part by part")
					continue
				}
				sizes := c08PartSizes(info, loop)
				bad := int64(0)
				for _, k := range sizes {
					if k%3 != 0 {
						bad = k
					}
				}
				switch {
				case bad != 0:
					o.Bad("%s is applied inside a loop to parts of the data sized by the constant %d, which is not a multiple of 3: each full part that is followed by more data is encoded with its own '=' padding, so for data longer than one part the string is not the Base64 of the data (a JSON decoder reports illegal base64 data, atob fails, encoding/json produces something else)", fn.Name(), bad)
				case len(sizes) == 0:
					o.Unknown("%s is applied inside a loop and no constant sizing the parts was found: that every part but the last is a multiple of 3 bytes long is not established", fn.Name())
				default:
					o.OK("applied part by part with part sizes %v, all multiples of 3", sizes)
				}
			}
		}
	}
	r.Anchor(R, "a use of encoding/base64 in package runtime (escapeBytes)", n > 0)
	r.Require(R, 2)
}

// c08PartSizes collects the integer constants (> 1) that size slices inside a loop: constant parts of the
// bounds of slice expressions, of `x += K` increments, and of min/len comparisons against a constant.
func c08PartSizes(info *types.Info, loop ast.Node) []int64 {
	var out []int64
	seen := map[int64]bool{}
	add := func(e ast.Expr) {
		ast.Inspect(e, func(n ast.Node) bool {
			x, ok := n.(ast.Expr)
			if !ok {
				return true
			}
			if tv, ok := info.Types[x]; ok && tv.Value != nil {
				if v := constant.ToInt(tv.Value); v.Kind() == constant.Int {
					if k, exact := constant.Int64Val(v); exact && k > 1 && !seen[k] {
						seen[k] = true
						out = append(out, k)
					}
				}
				return false
			}
			return true
		})
	}
	ast.Inspect(loop, func(n ast.Node) bool {
		switch s := n.(type) {
		case *ast.SliceExpr:
			for _, b := range []ast.Expr{s.Low, s.High, s.Max} {
				if b != nil {
					add(b)
				}
			}
		case *ast.AssignStmt:
			if (s.Tok == token.ADD_ASSIGN || s.Tok == token.SUB_ASSIGN) && len(s.Rhs) == 1 {
				add(s.Rhs[0])
			}
		case *ast.BinaryExpr:
			switch s.Op {
			case token.LSS, token.LEQ, token.GTR, token.GEQ:
				// len(x) > K
				for _, side := range []ast.Expr{s.X, s.Y} {
					if c, ok := ast.Unparen(side).(*ast.CallExpr); ok && isBuiltinCall(info, c, "len") {
						add(s.X)
						add(s.Y)
					}
				}
			}
		case *ast.CallExpr:
			if isBuiltinCall(info, s, "min") {
				for _, a := range s.Args {
					add(a)
				}
			}
		}
		return true
	})
	return out
}

// c08EncoderClosed checks (c) for one base64.NewEncoder call.
func c08EncoderClosed(r *Run, R, key string, fi *FuncInfo, c *ast.CallExpr) {
	info := fi.Pkg.TypesInfo
	par := r.P.Parents(fi.File)
	o := r.Ob(R, key+":closed", c.Pos())
	// the variable holding the encoder
	var enc types.Object
	if as, ok := par[ast.Node(c)].(*ast.AssignStmt); ok && len(as.Lhs) == 1 && len(as.Rhs) == 1 {
		enc = objOfIdent(info, as.Lhs[0])
	}
	if vs, ok := par[ast.Node(c)].(*ast.ValueSpec); ok && len(vs.Names) == 1 {
		enc = info.Defs[vs.Names[0]]
	}
	if enc == nil {
		o.Unknown("the encoder returned by base64.NewEncoder is not kept in a local variable: its Close cannot be followed")
		return
	}
	isClose := func(n ast.Node) bool {
		found := false
		ast.Inspect(n, func(m ast.Node) bool {
			if _, ok := m.(*ast.FuncLit); ok {
				return false
			}
			if cc, ok := m.(*ast.CallExpr); ok {
				if sel, ok := cc.Fun.(*ast.SelectorExpr); ok && sel.Sel.Name == "Close" && objOfIdent(info, sel.X) == enc {
					found = true
				}
			}
			return true
		})
		return found
	}
	// a deferred Close covers every path
	deferred := false
	ast.Inspect(fi.Decl.Body, func(m ast.Node) bool {
		if d, ok := m.(*ast.DeferStmt); ok && isClose(d.Call) {
			deferred = true
		}
		return true
	})
	if deferred {
		o.OK("Close is deferred")
		return
	}
	cf := r.P.CFGOf(fi)
	blk, idx := cf.Locate(c)
	if blk == nil {
		o.Unknown("the NewEncoder call is not in the function's own control-flow graph")
		return
	}
	for _, ret := range cf.ExitsWithout(blk, idx+1, isClose) {
		// an error return: inside an `if <error> != nil`
		errRet := false
		for p := par[ast.Node(ret)]; p != nil; p = par[p] {
			if is, ok := p.(*ast.IfStmt); ok && containsNode(is.Body, ret) {
				if b, ok := ast.Unparen(is.Cond).(*ast.BinaryExpr); ok && b.Op == token.NEQ {
					if t := info.TypeOf(b.X); t != nil && typeStr(t) == "error" {
						if tv, ok := info.Types[b.Y]; ok && tv.IsNil() {
							errRet = true
						}
					}
				}
			}
		}
		if !errRet {
			o.Bad("a path from base64.NewEncoder reaches the return at %s without calling Close on the encoder: a streaming Base64 encoder keeps the last 1 or 2 bytes of a slice whose length is not a multiple of 3 until Close, so the string written is not the Base64 of the data", r.P.Pos(ret.Pos()))
			return
		}
	}
	o.OK("every non-error path from NewEncoder to a return calls Close")
}
