package main

// C20 — exceeding an implementation limit is an error, never wrong code (DESIGN.md §5 C20).
//
//	R-1 guarded growth     every append to an operand-addressed table of runtime.Function in package compiler is
//	                       dominated by a comparison of the table's length with a constant whose failure branch
//	                       panics with a *LimitExceededError (E3 + E4a)
//	R-2 limit fits reader  the constant is not larger than what the VM can address, read off the index expressions
//	                       of package runtime
//	R-3 narrowing audit    narrowing integer conversions of counts/indexes/addresses in the builder and the stores
//	                       are bounded by the target width (E7)
//	R-4 error conversion   the functions creating an emitter recover *LimitExceededError into their error result;
//	                       the type implements compiler.Error
//
// Nothing here matches names of the functions being checked: tables come from the struct definition of
// runtime.Function, guards are comparisons found on dominating CFG edges, the limit-error constructor is any function
// of package compiler returning *LimitExceededError, readers are index expressions on the table fields.

import (
	"fmt"
	"go/ast"
	"go/constant"
	"go/token"
	"go/types"
	"path/filepath"
	"sort"
	"strings"

	"golang.org/x/tools/go/cfg"
	"golang.org/x/tools/go/packages"
)

func init() {
	register("C20", &ruleSet{
		explain: "For every slice of runtime.Function that the VM indexes with an instruction operand (found from the struct definition and from the index expressions of package runtime: Functions, NativeFunctions, Types, Values.Int/Float/String/General, FieldIndexes, Text): (R-1) each append in package compiler is dominated by the passing edge of a comparison len(table) vs constant K whose failing edge always reaches panic(<function returning *LimitExceededError>(...)), and no other package writes the table; (R-2) K is not larger than the number of entries the VM can address, computed as the minimum over all index expressions on that table in package runtime of (upper bound of the index expression)+1, the bound being read from conversions, masks, decoder return expressions and parameter types; the register limit is not larger than the largest positive int8; (R-3) every narrowing integer conversion in builder*.go / emitter*_store.go whose operand is not an enumeration value has an operand bound (constants, len of a limited table, range indexes, guards on dominating edges, callee return expressions, arguments of all callers, stores to the field read) that fits the target width, byte-splitting encoders being treated as one conversion to 8n bits; (R-4) every function that creates an emitter has a deferred closure that recovers, type-asserts *LimitExceededError and stores it in the named error result, and *LimitExceededError implements compiler.Error.",
		notCov: []string{
			"that programs within the limits behave as under gc (only the guards and widths are decided)",
			"the select-case limit (bounded by reflect.Select, not by an operand width) and the instruction-count limit other than through R-3",
			"narrowing conversions in emitter files other than the stores (register arithmetic such as elems[0]+int8(len(elems)))",
			"negative operands of signed narrowing conversions (only upper bounds are tracked)",
			"that functionBuilder.end (where the post-hoc Body length check lives) is called for every function",
		},
		trusted: []string{
			"a value of a named integer type that declares constants (reflect.Kind, ast.Format, registerType, runtime.Operation …) is one of its declared constants",
			"int is 64 bits (GOARCH of the analysis run)",
			"R-3 uses len(table) <= K for a table with a guard; unguarded appends are reported by R-1, not again by R-3",
		},
		run: runC20,
	})
}

const c20Inf = int64(1) << 62

type c20Table struct {
	name     string
	field    *types.Var
	capacity int64
	capFact  string
	readers  int
	limit    int64 // largest length the guards allow (0: no guard seen)
	limitSrc string
	posthoc  bool
}

type c20FieldAssign struct {
	fi *FuncInfo
	as *ast.AssignStmt
	i  int
}

type c20Site struct {
	fi   *FuncInfo
	call *ast.CallExpr
}

type c20 struct {
	r           *Run
	comp, rt    *packages.Package
	pkgs        []*packages.Package
	tables      []*c20Table
	byField     map[*types.Var]*c20Table
	limitErr    *types.Named
	limitCtors  map[*types.Func]bool
	callSites   map[*types.Func][]c20Site
	escapes     map[*types.Func]bool
	funcOf      map[*types.Func]*FuncInfo
	allFuncs    []*FuncInfo
	visiting    map[string]bool
	writes      map[*types.Var][]c20Write
	writesDone  bool
	memo        map[ast.Expr]c20B
	fldLimit    map[*types.Var]int64
	fldAssigns  map[*types.Var][]c20FieldAssign
	fldLimitSrc map[*types.Var]string
	defCache    map[types.Object][]c20Def
	defDone     map[types.Object]bool
}

func runC20(r *Run) {
	c20cur = nil
	x := &c20{r: r, byField: map[*types.Var]*c20Table{}, limitCtors: map[*types.Func]bool{}, callSites: map[*types.Func][]c20Site{},
		escapes: map[*types.Func]bool{}, funcOf: map[*types.Func]*FuncInfo{}, visiting: map[string]bool{}}
	x.comp, x.rt = r.P.Pkg("internal/compiler"), r.P.Pkg("internal/runtime")
	if !r.Anchor("R-1", "packages internal/compiler and internal/runtime", x.comp != nil && x.rt != nil) {
		return
	}
	for _, rel := range []string{"internal/compiler", "internal/runtime", ""} {
		if pk := r.P.Pkg(rel); pk != nil {
			x.pkgs = append(x.pkgs, pk)
			for _, fi := range r.P.Funcs(rel) {
				if r.P.isTestFile(fi.File) {
					continue
				}
				x.allFuncs = append(x.allFuncs, fi)
				if fi.Obj != nil {
					x.funcOf[fi.Obj] = fi
				}
			}
		}
	}
	x.indexCalls()
	fnT := r.P.Named("internal/runtime", "Function")
	x.limitErr = r.P.Named("internal/compiler", "LimitExceededError")
	if !r.Anchor("R-1", "runtime.Function struct", fnT != nil) || !r.Anchor("R-1", "compiler.LimitExceededError", x.limitErr != nil) {
		return
	}
	// the constructor(s) of the limit error, by role: functions of package compiler returning *LimitExceededError
	for _, fi := range r.P.Funcs("internal/compiler") {
		if fi.Obj == nil || fi.Decl.Recv != nil {
			continue
		}
		res := fi.Obj.Type().(*types.Signature).Results()
		if res.Len() == 1 && c20IsPtrTo(res.At(0).Type(), x.limitErr) {
			x.limitCtors[fi.Obj] = true
		}
	}
	if !r.Anchor("R-1", "a function of package compiler returning *LimitExceededError", len(x.limitCtors) > 0) {
		return
	}
	x.findTables(fnT)
	x.readCapacities() // R-2, first half
	x.ruleR1()
	x.ruleR2()
	x.ruleR3()
	x.ruleR4()
	c20cur = x
}

// c20cur is the analysis state of the last run, for the rules hooked after runC20 (c20r6.go …).
var c20cur *c20

func c20IsPtrTo(t types.Type, n *types.Named) bool {
	p, ok := t.(*types.Pointer)
	return ok && n != nil && types.Identical(p.Elem(), n)
}

// ---------------------------------------------------------------------------
// tables

func (x *c20) findTables(fnT *types.Named) {
	st, ok := fnT.Underlying().(*types.Struct)
	if !ok {
		return
	}
	var walk func(st *types.Struct, prefix string, depth int)
	walk = func(st *types.Struct, prefix string, depth int) {
		for i := 0; i < st.NumFields(); i++ {
			f := st.Field(i)
			switch u := f.Type().Underlying().(type) {
			case *types.Slice:
				t := &c20Table{name: prefix + f.Name(), field: f, capacity: c20Inf}
				x.tables = append(x.tables, t)
				x.byField[f] = t
			case *types.Struct:
				if depth < 2 {
					walk(u, prefix+f.Name()+".", depth+1)
				}
			}
		}
	}
	walk(st, "", 0)
}

// tableOf returns the table selected by e (fn.Types, fb.fn.Values.Int …).
func (x *c20) tableOf(info *types.Info, e ast.Expr) *c20Table {
	se, ok := ast.Unparen(e).(*ast.SelectorExpr)
	if !ok {
		return nil
	}
	if sel := info.Selections[se]; sel != nil {
		if v, ok := sel.Obj().(*types.Var); ok {
			return x.byField[v]
		}
	}
	return nil
}

// readCapacities scans package runtime for index expressions on the tables and computes the capacity of each.
func (x *c20) readCapacities() {
	for _, fi := range x.r.P.Funcs("internal/runtime") {
		if x.r.P.isTestFile(fi.File) {
			continue
		}
		info := fi.Pkg.TypesInfo
		ast.Inspect(fi.Decl.Body, func(n ast.Node) bool {
			ix, ok := n.(*ast.IndexExpr)
			if !ok {
				return true
			}
			t := x.tableOf(info, ix.X)
			if t == nil {
				return true
			}
			t.readers++
			b := x.ub(&c20ctx{fi: fi}, ix.Index)
			if b.max < c20Inf && b.max+1 < t.capacity {
				t.capacity = b.max + 1
				t.capFact = fmt.Sprintf("%s[%s] in %s: index <= %d (%s)", t.name, exprStr(ix.Index), fi.Name(), b.max, b.why())
			}
			return true
		})
	}
}

func (x *c20) operandAddressed(t *c20Table) bool { return t.readers > 0 && t.capacity <= 1<<16 }

// ---------------------------------------------------------------------------
// R-1

type c20Guard struct {
	k       int64 // the constant compared with
	allowed int64 // largest length after the append that the guard lets through
	name    string
	blk     *cfg.Block
	edge    int
	lenExpr string
}

func (x *c20) ruleR1() {
	const R = "R-1"
	r := x.r
	// who may write the tables: every assignment / composite literal key in the module
	for _, rel := range sortedKeys(r.P.byRel) {
		pk := r.P.Pkg(rel)
		for _, fi := range r.P.Funcs(rel) {
			if r.P.isTestFile(fi.File) {
				continue
			}
			info := pk.TypesInfo
			ast.Inspect(fi.Decl.Body, func(n ast.Node) bool {
				switch s := n.(type) {
				case *ast.AssignStmt:
					for i, lhs := range s.Lhs {
						t := x.tableOf(info, lhs)
						if t == nil {
							continue
						}
						var rhs ast.Expr
						if len(s.Rhs) == len(s.Lhs) {
							rhs = s.Rhs[i]
						}
						x.checkWrite(R, pk, fi, t, s, lhs, rhs)
					}
				case *ast.CompositeLit:
					for _, el := range s.Elts {
						kv, ok := el.(*ast.KeyValueExpr)
						if !ok {
							continue
						}
						if id, ok := kv.Key.(*ast.Ident); ok {
							if v, ok := info.Uses[id].(*types.Var); ok && x.byField[v] != nil {
								t := x.byField[v]
								if !x.operandAddressed(t) {
									continue
								}
								if tv := info.Types[kv.Value]; tv.IsNil() {
									continue
								}
								r.Ob(R, fi.Name()+"#literal:"+t.name, kv.Pos()).Unknown("table %s is set wholesale in a composite literal: its length is not compared with a limit", t.name)
							}
						}
					}
				case *ast.UnaryExpr:
					if s.Op == token.AND {
						if t := x.tableOf(info, s.X); t != nil && x.operandAddressed(t) {
							r.Ob(R, fi.Name()+"#addr:"+t.name, s.Pos()).Unknown("address of table %s taken: writes through the pointer are not tracked", t.name)
						}
					}
				}
				return true
			})
		}
	}
	for _, t := range x.tables {
		if !x.operandAddressed(t) {
			why := "not indexed in package runtime"
			if t.readers > 0 {
				why = fmt.Sprintf("indexed in package runtime only by expressions wider than 16 bits (%d readers; e.g. by the program counter): its addresses are audited by R-3", t.readers)
			}
			r.Ob(R, "table:"+t.name, t.field.Pos()).Trivial("slice field %s of runtime.Function is not an operand-addressed table: %s", t.name, why)
		}
	}
	r.Require(R, 12) // nine guarded appends (one per operand-addressed table) plus one line per other slice field (Body, VarRefs, FinalRegs)
}

func (x *c20) checkWrite(R string, pk *packages.Package, fi *FuncInfo, t *c20Table, s *ast.AssignStmt, lhs, rhs ast.Expr) {
	r := x.r
	if !x.operandAddressed(t) {
		return
	}
	info := pk.TypesInfo
	key := fi.Name() + "#append:" + t.name
	if pk != x.comp {
		r.Ob(R, fi.Name()+"#write:"+t.name, s.Pos()).Bad("table %s is written outside package compiler, where no limit is checked", t.name)
		return
	}
	if rhs != nil {
		if tv := info.Types[rhs]; tv.IsNil() {
			return
		}
	}
	call, ok := ast.Unparen(rhs).(*ast.CallExpr)
	if rhs == nil || !ok || !isBuiltinCall(info, call, "append") || len(call.Args) < 1 || x.tableOf(info, call.Args[0]) != t ||
		x.norm(fi, call.Args[0]) != x.norm(fi, lhs) {
		r.Ob(R, fi.Name()+"#write:"+t.name, s.Pos()).Unknown("table %s is assigned something other than append(%s, …): growth cannot be bounded", t.name, t.name)
		return
	}
	o := r.Ob(R, key, s.Pos())
	if call.Ellipsis.IsValid() || len(call.Args) != 2 {
		o.Unknown("append to %s adds %d elements (or a slice): only one-element growth is understood", t.name, len(call.Args)-1)
		return
	}
	allowed, fact, status, msg := x.appendGuard(fi, s, lhs)
	switch status {
	case "bad-unguarded":
		o.Bad("append to %s %s: the index of the new entry is encoded in an operand of %d values at most (%s) and wraps silently", t.name, msg, t.capacity, t.capFact)
	case "bad":
		o.Bad("append to %s %s", t.name, msg)
	case "unknown":
		o.Unknown("append to %s: %s", t.name, msg)
	default:
		if allowed > t.limit {
			t.limit = allowed
			t.limitSrc = fi.Name()
		}
		o.OK("%s", fact)
	}
}

// appendGuard decides whether the one-element append statement s (lhs = append(lhs, v)) is dominated by the passing edge
// of a comparison of len(lhs) with a constant whose failing edge always panics with the limit error.
func (x *c20) appendGuard(fi *FuncInfo, s ast.Stmt, lhs ast.Expr) (allowed int64, fact, status, msg string) {
	info := fi.Pkg.TypesInfo
	c := x.r.P.CFGOf(fi)
	base := x.norm(fi, lhs)
	guarded := c.GuardedBy(s, func(l Lit) bool {
		_, ok := x.lenGuard(fi, info, l, base)
		return ok
	})
	if !guarded {
		return 0, "", "bad-unguarded", fmt.Sprintf("is not dominated by a comparison of len(%s) with a limit constant", base)
	}
	// the failing edge of every such guard must end in panic(limit error)
	var names []string
	for _, b := range c.G.Blocks {
		for i := range b.Succs {
			for _, l := range c.edgeLits(b, i) {
				g, ok := x.lenGuard(fi, info, l, base)
				if !ok {
					continue
				}
				if bad := x.failsWithoutLimitPanic(c, info, b.Succs[1-i], s); bad != "" {
					return 0, "", "bad", fmt.Sprintf("is guarded by %s, but the failing branch %s instead of panicking with a *LimitExceededError", g.lenExpr, bad)
				}
				if g.allowed > allowed {
					allowed = g.allowed
				}
				names = append(names, fmt.Sprintf("%s (failing edge panics with the limit error)", g.lenExpr))
			}
		}
	}
	if allowed == 0 {
		return 0, "", "unknown", "guard found by dominance but not located on a conditional edge"
	}
	sort.Strings(names)
	return allowed, fmt.Sprintf("dominated by %s; length after the append <= %d", strings.Join(c20uniq(names), "; "), allowed), "ok", ""
}

// fieldLimit: the largest length of a slice-typed struct field of package compiler that is not a table of
// runtime.Function (e.g. the globals of the variable store), when every assignment to it in the module is a guarded
// one-element append. 0: no limit established.
func (x *c20) fieldLimit(f *types.Var) (int64, string) {
	if x.fldLimit == nil {
		x.fldLimit = map[*types.Var]int64{}
		x.fldLimitSrc = map[*types.Var]string{}
	}
	if v, ok := x.fldLimit[f]; ok {
		return v, x.fldLimitSrc[f]
	}
	x.fldLimit[f] = 0
	if x.fldAssigns == nil {
		x.fldAssigns = map[*types.Var][]c20FieldAssign{}
		for _, fi := range x.allFuncs {
			info := fi.Pkg.TypesInfo
			fi := fi
			ast.Inspect(fi.Decl.Body, func(m ast.Node) bool {
				as, isAs := m.(*ast.AssignStmt)
				if !isAs {
					return true
				}
				for i, l := range as.Lhs {
					if se, isSel := ast.Unparen(l).(*ast.SelectorExpr); isSel {
						if sel := info.Selections[se]; sel != nil && sel.Kind() == types.FieldVal {
							if fv, ok := sel.Obj().(*types.Var); ok {
								if _, isSlice := fv.Type().Underlying().(*types.Slice); isSlice {
									x.fldAssigns[fv] = append(x.fldAssigns[fv], c20FieldAssign{fi: fi, as: as, i: i})
								}
							}
						}
					}
				}
				return true
			})
		}
	}
	var limit int64
	src := ""
	n := 0
	ok := true
	for _, fa := range x.fldAssigns[f] {
		fi, as, i := fa.fi, fa.as, fa.i
		info := fi.Pkg.TypesInfo
		l := as.Lhs[i]
		n++
		if len(as.Lhs) != len(as.Rhs) || as.Tok != token.ASSIGN {
			ok = false
			continue
		}
		call, isCall := ast.Unparen(as.Rhs[i]).(*ast.CallExpr)
		if !isCall || !isBuiltinCall(info, call, "append") || len(call.Args) != 2 || call.Ellipsis.IsValid() || x.norm(fi, call.Args[0]) != x.norm(fi, l) {
			if tv := info.Types[as.Rhs[i]]; tv.IsNil() {
				continue
			}
			ok = false
			continue
		}
		allowed, _, status, _ := x.appendGuard(fi, as, l)
		if status != "ok" {
			ok = false
			continue
		}
		if allowed > limit {
			limit, src = allowed, fi.Name()
		}
	}
	if !ok || n == 0 {
		return 0, ""
	}
	x.fldLimit[f], x.fldLimitSrc[f] = limit, src
	return limit, src
}

func c20uniq(s []string) []string {
	var out []string
	for i, v := range s {
		if i == 0 || v != s[i-1] {
			out = append(out, v)
		}
	}
	return out
}

// lenGuard recognises, on an edge literal, a comparison between len(<table base>) (directly, or through a local
// assigned once from it) and a constant that lets the append through only while the table is below the limit.
func (x *c20) lenGuard(fi *FuncInfo, info *types.Info, l Lit, base string) (c20Guard, bool) {
	var g c20Guard
	if l.Tag != nil {
		return g, false
	}
	be, ok := ast.Unparen(l.Expr).(*ast.BinaryExpr)
	if !ok {
		return g, false
	}
	op := be.Op
	L, K := be.X, be.Y
	if _, isConst := intValue(info, L); isConst {
		L, K = K, L
		switch op {
		case token.LSS:
			op = token.GTR
		case token.GTR:
			op = token.LSS
		case token.LEQ:
			op = token.GEQ
		case token.GEQ:
			op = token.LEQ
		}
	}
	k, ok := intValue(info, K)
	if !ok {
		return g, false
	}
	if !x.isLenOf(fi, info, L, base, 0) {
		return g, false
	}
	if !l.Truth { // negate
		switch op {
		case token.EQL:
			op = token.NEQ
		case token.NEQ:
			op = token.EQL
		case token.LSS:
			op = token.GEQ
		case token.GEQ:
			op = token.LSS
		case token.GTR:
			op = token.LEQ
		case token.LEQ:
			op = token.GTR
		}
	}
	// op is now the relation len ? k known to hold when the append runs
	switch op {
	case token.NEQ: // with the invariant len <= k (every append guarded, growth by one)
		g.allowed = k
	case token.LSS:
		g.allowed = k
	case token.LEQ:
		g.allowed = k + 1
	default:
		return g, false
	}
	g.k = k
	g.lenExpr = fmt.Sprintf("%s %s %s [=%d] being %v", exprStr(be.X), be.Op, exprStr(be.Y), k, l.Truth)
	return g, true
}

// isLenOf: e is len(B.table) with norm(B.table)==base, a widening conversion of it, or a local defined once as such.
func (x *c20) isLenOf(fi *FuncInfo, info *types.Info, e ast.Expr, base string, depth int) bool {
	e = ast.Unparen(e)
	if depth > 3 {
		return false
	}
	switch v := e.(type) {
	case *ast.CallExpr:
		if isBuiltinCall(info, v, "len") && len(v.Args) == 1 {
			return x.norm(fi, v.Args[0]) == base
		}
		if tv, ok := info.Types[v.Fun]; ok && tv.IsType() && len(v.Args) == 1 {
			if c20bits(tv.Type) >= c20bits(info.TypeOf(v.Args[0])) {
				return x.isLenOf(fi, info, v.Args[0], base, depth+1)
			}
		}
	case *ast.Ident:
		if d := x.singleDef(fi, info.Uses[v]); d != nil {
			return x.isLenOf(fi, info, d, base, depth+1)
		}
	}
	return false
}

// failsWithoutLimitPanic explores the failing side of a guard: every path must execute panic(limitCtor(...)).
func (x *c20) failsWithoutLimitPanic(c *CFGInfo, info *types.Info, from *cfg.Block, site ast.Node) string {
	siteBlk, _ := c.Locate(site)
	seen := map[*cfg.Block]bool{}
	var bad string
	var walk func(b *cfg.Block)
	walk = func(b *cfg.Block) {
		if bad != "" || seen[b] {
			return
		}
		seen[b] = true
		for _, n := range b.Nodes {
			if x.isLimitPanic(info, n) {
				return
			}
		}
		if b == siteBlk {
			bad = "falls through to the append"
			return
		}
		if len(b.Succs) == 0 {
			bad = "returns or panics with something else"
			return
		}
		for _, s := range b.Succs {
			walk(s)
		}
	}
	walk(from)
	return bad
}

func (x *c20) isLimitPanic(info *types.Info, n ast.Node) bool {
	es, ok := n.(*ast.ExprStmt)
	if !ok {
		return false
	}
	call, ok := es.X.(*ast.CallExpr)
	if !ok || !isBuiltinCall(info, call, "panic") || len(call.Args) != 1 {
		return false
	}
	arg, ok := ast.Unparen(call.Args[0]).(*ast.CallExpr)
	if !ok {
		return false
	}
	return x.limitCtors[callee(info, arg)]
}

// norm renders an expression with single-assignment local aliases substituted (fn := fb.fn; fn.Types → fb.fn.Types).
func (x *c20) norm(fi *FuncInfo, e ast.Expr) string {
	info := fi.Pkg.TypesInfo
	var f func(e ast.Expr, d int) string
	f = func(e ast.Expr, d int) string {
		e = ast.Unparen(e)
		switch v := e.(type) {
		case *ast.Ident:
			if d < 4 {
				if def := x.singleDef(fi, info.Uses[v]); def != nil {
					return f(def, d+1)
				}
			}
		case *ast.SelectorExpr:
			return f(v.X, d) + "." + v.Sel.Name
		}
		return exprStr(e)
	}
	return f(e, 0)
}

// ---------------------------------------------------------------------------
// local definitions

type c20Def struct {
	kind  string // "expr" | "tuple" | "rangekey" | "rangeval" | "other" | "zero"
	expr  ast.Expr
	index int
	node  ast.Node
}

func (x *c20) defsOf(fi *FuncInfo, obj types.Object) []c20Def {
	if obj == nil || fi == nil {
		return nil
	}
	if x.defCache == nil {
		x.defCache = map[types.Object][]c20Def{}
		x.defDone = map[types.Object]bool{}
	}
	if x.defDone[obj] {
		return x.defCache[obj]
	}
	out := x.defsOf1(fi, obj)
	x.defDone[obj], x.defCache[obj] = true, out
	return out
}

func (x *c20) defsOf1(fi *FuncInfo, obj types.Object) []c20Def {
	info := fi.Pkg.TypesInfo
	is := func(e ast.Expr) bool {
		id, ok := ast.Unparen(e).(*ast.Ident)
		return ok && (info.Defs[id] == obj || info.Uses[id] == obj)
	}
	var out []c20Def
	ast.Inspect(fi.Decl.Body, func(n ast.Node) bool {
		switch s := n.(type) {
		case *ast.AssignStmt:
			for i, l := range s.Lhs {
				if !is(l) {
					continue
				}
				switch {
				case s.Tok != token.ASSIGN && s.Tok != token.DEFINE:
					out = append(out, c20Def{kind: "other", node: s})
				case len(s.Lhs) == len(s.Rhs):
					out = append(out, c20Def{kind: "expr", expr: s.Rhs[i], node: s})
				case len(s.Rhs) == 1:
					out = append(out, c20Def{kind: "tuple", expr: s.Rhs[0], index: i, node: s})
				default:
					out = append(out, c20Def{kind: "other", node: s})
				}
			}
		case *ast.IncDecStmt:
			if is(s.X) {
				out = append(out, c20Def{kind: "other", node: s})
			}
		case *ast.RangeStmt:
			if s.Key != nil && is(s.Key) {
				out = append(out, c20Def{kind: "rangekey", expr: s.X, node: s})
			}
			if s.Value != nil && is(s.Value) {
				out = append(out, c20Def{kind: "rangeval", expr: s.X, node: s})
			}
		case *ast.ValueSpec:
			for i, id := range s.Names {
				if info.Defs[id] == obj {
					switch {
					case len(s.Values) == 0:
						out = append(out, c20Def{kind: "zero", node: s})
					case len(s.Values) == len(s.Names):
						out = append(out, c20Def{kind: "expr", expr: s.Values[i], node: s})
					default:
						out = append(out, c20Def{kind: "tuple", expr: s.Values[0], index: i, node: s})
					}
				}
			}
		case *ast.UnaryExpr:
			if s.Op == token.AND && is(s.X) {
				out = append(out, c20Def{kind: "other", node: s})
			}
		}
		return true
	})
	return out
}

// singleDef returns the defining expression of a local with exactly one simple definition.
func (x *c20) singleDef(fi *FuncInfo, obj types.Object) ast.Expr {
	v, ok := obj.(*types.Var)
	if !ok || v.IsField() || v.Parent() == nil || v.Parent() == v.Pkg().Scope() || x.paramIndex(fi, v) >= 0 {
		return nil
	}
	ds := x.defsOf(fi, obj)
	if len(ds) == 1 && ds[0].kind == "expr" {
		return ds[0].expr
	}
	return nil
}

func (x *c20) paramIndex(fi *FuncInfo, v *types.Var) int {
	if fi == nil || fi.Obj == nil {
		return -1
	}
	ps := fi.Obj.Type().(*types.Signature).Params()
	for i := 0; i < ps.Len(); i++ {
		if ps.At(i) == v {
			return i
		}
	}
	return -1
}

// ---------------------------------------------------------------------------
// call index

func (x *c20) indexCalls() {
	for _, fi := range x.allFuncs {
		info := fi.Pkg.TypesInfo
		fi := fi
		inCall := map[*ast.Ident]bool{}
		ast.Inspect(fi.Decl.Body, func(n ast.Node) bool {
			if call, ok := n.(*ast.CallExpr); ok {
				if fn := callee(info, call); fn != nil {
					x.callSites[fn] = append(x.callSites[fn], c20Site{fi: fi, call: call})
					switch f := ast.Unparen(call.Fun).(type) {
					case *ast.Ident:
						inCall[f] = true
					case *ast.SelectorExpr:
						inCall[f.Sel] = true
					}
				}
			}
			return true
		})
		ast.Inspect(fi.Decl.Body, func(n ast.Node) bool {
			if id, ok := n.(*ast.Ident); ok && !inCall[id] {
				if fn, ok := info.Uses[id].(*types.Func); ok {
					x.escapes[fn] = true
				}
			}
			return true
		})
	}
}

// ---------------------------------------------------------------------------
// upper bounds

type c20Leaf struct {
	desc string
	max  int64
	hard bool // an actual count without a bound (as opposed to "type only")
}

type c20B struct {
	max    int64
	nonneg bool
	leaves []c20Leaf
}

func (b c20B) why() string {
	var s []string
	for _, l := range b.leaves {
		s = append(s, l.desc)
	}
	s = c20uniq(sortStrings(s))
	if len(s) > 4 {
		s = append(s[:4], fmt.Sprintf("… %d more", len(s)-4))
	}
	return strings.Join(s, "; ")
}

func sortStrings(s []string) []string { sort.Strings(s); return s }

type c20ctx struct {
	fi    *FuncInfo
	depth int
}

func c20leaf(max int64, nonneg, hard bool, format string, a ...any) c20B {
	return c20B{max: max, nonneg: nonneg, leaves: []c20Leaf{{desc: fmt.Sprintf(format, a...), max: max, hard: hard}}}
}

func c20max(a, b c20B) c20B {
	out := c20B{max: a.max, nonneg: a.nonneg && b.nonneg}
	if b.max > out.max {
		out.max = b.max
	}
	out.leaves = append(append([]c20Leaf{}, a.leaves...), b.leaves...)
	return out
}

func c20bits(t types.Type) int {
	if t == nil {
		return 64
	}
	b, ok := t.Underlying().(*types.Basic)
	if !ok {
		return 64
	}
	switch b.Kind() {
	case types.Int8, types.Uint8:
		return 8
	case types.Int16, types.Uint16:
		return 16
	case types.Int32, types.Uint32:
		return 32
	}
	return 64
}

func c20unsigned(t types.Type) bool {
	b, ok := t.Underlying().(*types.Basic)
	return ok && b.Info()&types.IsUnsigned != 0
}

func c20isInt(t types.Type) bool {
	if t == nil {
		return false
	}
	b, ok := t.Underlying().(*types.Basic)
	return ok && b.Info()&types.IsInteger != 0
}

func c20typeMax(t types.Type) int64 {
	bits := c20bits(t)
	if bits == 64 {
		return c20Inf
	}
	if c20unsigned(t) {
		return int64(1)<<bits - 1
	}
	return int64(1)<<(bits-1) - 1
}

// enumMax: the largest declared constant of a named integer type declaring at least two constants.
func c20enumMax(t types.Type) (int64, string, bool) {
	n, ok := types.Unalias(t).(*types.Named)
	if !ok || n.Obj().Pkg() == nil || !c20isInt(n) {
		return 0, "", false
	}
	cs := EnumConsts(n)
	if len(cs) < 2 {
		return 0, "", false
	}
	var max int64
	name := ""
	for _, c := range cs {
		if v, ok := constantInt64(c); ok && (name == "" || v > max) {
			max, name = v, c.Name()
		}
	}
	if max < 0 {
		max = -max
	}
	return max, name, true
}

func (x *c20) typeBound(t types.Type, what string) c20B {
	if m, name, ok := c20enumMax(t); ok {
		return c20leaf(m, true, false, "%s is of enumeration type %s (largest constant %s=%d)", what, typeStr(t), name, m)
	}
	return c20leaf(c20typeMax(t), c20unsigned(t), false, "%s bounded only by its type %s", what, typeStr(t))
}

// ub computes an upper bound of integer expression e evaluated inside ctx.fi (memoised per expression node).
func (x *c20) ub(ctx *c20ctx, e ast.Expr) c20B {
	if x.memo == nil {
		x.memo = map[ast.Expr]c20B{}
	}
	if b, ok := x.memo[e]; ok {
		return b
	}
	b := x.ub1(ctx, e)
	x.memo[e] = b
	return b
}

func (x *c20) ub1(ctx *c20ctx, e ast.Expr) c20B {
	info := ctx.fi.Pkg.TypesInfo
	e = ast.Unparen(e)
	t := info.TypeOf(e)
	if tv, ok := info.Types[e]; ok && tv.Value != nil {
		if v := constant.ToInt(tv.Value); v.Kind() == constant.Int {
			if i, ok := constant.Int64Val(v); ok {
				return c20B{max: i, nonneg: i >= 0}
			}
		}
	}
	if t == nil || !c20isInt(t) {
		return c20leaf(c20Inf, false, false, "%s is not an integer expression", exprStr(e))
	}
	if _, _, ok := c20enumMax(t); ok {
		return x.typeBound(t, exprStr(e))
	}
	if ctx.depth > 5 {
		return x.typeBound(t, exprStr(e)+" (analysis depth exhausted)")
	}
	tb := c20typeMax(t)
	clamp := func(b c20B) c20B {
		if b.max > tb {
			return x.typeBound(t, exprStr(e))
		}
		if c20unsigned(t) {
			b.nonneg = true
		}
		return b
	}
	switch v := e.(type) {
	case *ast.CallExpr:
		if tv, ok := info.Types[v.Fun]; ok && tv.IsType() && len(v.Args) == 1 {
			in := x.ub(ctx, v.Args[0])
			if c20unsigned(t) && !in.nonneg {
				return x.typeBound(t, exprStr(e))
			}
			if in.max > tb { // wraps: only the type bounds the result
				b := x.typeBound(t, exprStr(e)+" (narrowed)")
				b.leaves = append(b.leaves, in.leaves...)
				return b
			}
			return clamp(in)
		}
		if isBuiltinCall(info, v, "len") && len(v.Args) == 1 {
			return x.lenBound(ctx, v.Args[0])
		}
		// slices.Index / IndexFunc / BinarySearch…, strings/bytes Index…: the result is -1 or an index
		// of the first argument, hence at most len(arg0)-1 (the sign is left to the guards of the use)
		if fn := callee(info, v); fn != nil && fn.Pkg() != nil && len(v.Args) >= 1 {
			pk, name := fn.Pkg().Path(), fn.Name()
			if i := strings.IndexByte(name, '['); i >= 0 {
				name = name[:i]
			}
			if (pk == "slices" || pk == "strings" || pk == "bytes") && (strings.HasPrefix(name, "Index") || strings.HasPrefix(name, "LastIndex")) {
				lb := x.lenBound(ctx, v.Args[0])
				if lb.max < c20Inf && lb.max > 0 {
					lb.max--
				}
				lb.nonneg = false
				return clamp(lb)
			}
		}
		if fn := callee(info, v); fn != nil {
			if b, ok := x.resultBound(ctx, fn, 0); ok {
				return clamp(b)
			}
		}
		return x.typeBound(t, exprStr(e))
	case *ast.Ident:
		obj, _ := info.Uses[v].(*types.Var)
		if obj == nil {
			return x.typeBound(t, exprStr(e))
		}
		return clamp(x.refine(ctx, v, obj, x.varBound(ctx, v, obj)))
	case *ast.SelectorExpr:
		if sel := info.Selections[v]; sel != nil && sel.Kind() == types.FieldVal {
			if f, ok := sel.Obj().(*types.Var); ok {
				return clamp(x.storeBound(ctx, f, 0, exprStr(e)))
			}
		}
	case *ast.IndexExpr:
		// element of a field: slice / map / nested map
		depth := 1
		root := ast.Unparen(v.X)
		for {
			if ix, ok := root.(*ast.IndexExpr); ok {
				root = ast.Unparen(ix.X)
				depth++
				continue
			}
			break
		}
		if se, ok := root.(*ast.SelectorExpr); ok {
			if sel := info.Selections[se]; sel != nil && sel.Kind() == types.FieldVal {
				if f, ok := sel.Obj().(*types.Var); ok {
					return clamp(x.storeBound(ctx, f, depth, exprStr(e)))
				}
			}
		}
	case *ast.BinaryExpr:
		a := x.ub(ctx, v.X)
		kv, isK := intValue(info, v.Y)
		switch v.Op {
		case token.SHR:
			if isK && kv >= 0 && kv < 63 && a.nonneg {
				a.max >>= uint(kv)
				return clamp(a)
			}
		case token.AND:
			if isK && kv >= 0 {
				if a.max > kv || !a.nonneg {
					return clamp(c20B{max: kv, nonneg: true, leaves: a.leaves})
				}
				return clamp(a)
			}
			b := x.ub(ctx, v.Y)
			if a.nonneg && b.nonneg {
				if b.max < a.max {
					return clamp(b)
				}
				return clamp(a)
			}
		case token.AND_NOT:
			if isK && kv >= 0 && a.nonneg && a.max < c20Inf && (a.max+1)&a.max == 0 {
				a.max &^= kv
				return clamp(a)
			}
			if a.nonneg {
				return clamp(a)
			}
		case token.OR, token.XOR:
			b := x.ub(ctx, v.Y)
			if a.nonneg && b.nonneg && a.max < c20Inf && b.max < c20Inf {
				m := a.max | b.max
				for p := int64(1); p < c20Inf; p <<= 1 { // round up to 2^k-1
					if p-1 >= m {
						m = p - 1
						break
					}
				}
				out := c20max(a, b)
				out.max = m
				return clamp(out)
			}
			// int(a)<<8 | int(uint8(b)) with a signed: magnitude is what matters
			if a.max < c20Inf && b.max < c20Inf {
				out := c20max(a, b)
				m := a.max | b.max
				for p := int64(1); p < c20Inf; p <<= 1 {
					if p-1 >= m {
						m = p - 1
						break
					}
				}
				out.max, out.nonneg = m, false
				return clamp(out)
			}
		case token.ADD:
			b := x.ub(ctx, v.Y)
			if a.max < c20Inf && b.max < c20Inf {
				out := c20max(a, b)
				out.max = a.max + b.max
				return clamp(out)
			}
		case token.SUB:
			b := x.ub(ctx, v.Y)
			_ = b
			if a.nonneg {
				a.nonneg = false
				return clamp(a)
			}
		case token.SHL:
			if isK && kv >= 0 && kv < 40 && a.max < 1<<20 {
				a.max <<= uint(kv)
				return clamp(a)
			}
		case token.REM:
			if isK && kv > 0 {
				return clamp(c20B{max: kv - 1, nonneg: a.nonneg, leaves: a.leaves})
			}
		}
	}
	return x.typeBound(t, exprStr(e))
}

// refine narrows the bound of a local at a use site with comparisons against constants on dominating edges.
func (x *c20) refine(ctx *c20ctx, use *ast.Ident, obj *types.Var, b c20B) c20B {
	if obj.IsField() || obj.Parent() == nil || ctx.fi.Decl.Body == nil {
		return b
	}
	if !(ctx.fi.Decl.Body.Pos() <= use.Pos() && use.End() <= ctx.fi.Decl.Body.End()) {
		return b
	}
	info := ctx.fi.Pkg.TypesInfo
	// a local must not be reassigned after the comparison for the fact to survive: require at most one definition
	if ds := x.defsOf(ctx.fi, obj); len(ds) > 1 {
		return b
	}
	c := x.r.P.CFGOf(ctx.fi)
	best := b.max
	fact := ""
	lenBase := ""
	if d := x.singleDef(ctx.fi, obj); d != nil {
		e := ast.Unparen(d)
		for {
			cv, ok := e.(*ast.CallExpr)
			if ok && len(cv.Args) == 1 {
				if tv, ok := info.Types[cv.Fun]; ok && tv.IsType() && c20bits(tv.Type) >= c20bits(info.TypeOf(cv.Args[0])) {
					e = ast.Unparen(cv.Args[0])
					continue
				}
			}
			break
		}
		if cv, ok := e.(*ast.CallExpr); ok && isBuiltinCall(info, cv, "len") && len(cv.Args) == 1 {
			lenBase = x.norm(ctx.fi, cv.Args[0])
		}
	}
	try := func(limit int64, pred func(op token.Token, k int64) bool) {
		if limit >= best {
			return
		}
		if c.GuardedBy(use, func(l Lit) bool {
			if l.Tag != nil {
				return false
			}
			be, ok := ast.Unparen(l.Expr).(*ast.BinaryExpr)
			if !ok {
				return false
			}
			op, L, K := be.Op, be.X, be.Y
			if _, isK := intValue(info, L); isK {
				L, K = K, L
				op = c20flip(op)
			}
			id, ok := ast.Unparen(L).(*ast.Ident)
			if !ok || info.Uses[id] != obj {
				// the same quantity written out again: v := len(T) … if len(T) ⋚ k, with no store to T before the test
				if lenBase == "" || !x.isLenOf(ctx.fi, info, L, lenBase, 0) || !x.noStoreBefore(ctx.fi, lenBase, be.Pos()) {
					return false
				}
			}
			k, ok := intValue(info, K)
			if !ok {
				return false
			}
			if !l.Truth {
				op = c20neg(op)
			}
			return pred(op, k)
		}) {
			best = limit
			fact = fmt.Sprintf("%s <= %d by a comparison on every path to its use in %s", use.Name, limit, ctx.fi.Name())
		}
	}
	// candidate limits: constants the variable (or the len it was defined as) is compared with in this function
	ks := map[int64]bool{}
	ast.Inspect(ctx.fi.Decl.Body, func(n ast.Node) bool {
		if be, ok := n.(*ast.BinaryExpr); ok {
			for _, pair := range [][2]ast.Expr{{be.X, be.Y}, {be.Y, be.X}} {
				id, isId := ast.Unparen(pair[0]).(*ast.Ident)
				if (isId && info.Uses[id] == obj) || (lenBase != "" && x.isLenOf(ctx.fi, info, pair[0], lenBase, 0)) {
					if k, ok := intValue(info, pair[1]); ok {
						ks[k] = true
					}
				}
			}
		}
		return true
	})
	for k := range ks {
		k := k
		// v < k  or  (v != k with v <= k known)
		try(k-1, func(op token.Token, kk int64) bool {
			return kk == k && (op == token.LSS || (op == token.NEQ && b.max <= k))
		})
		try(k, func(op token.Token, kk int64) bool { return kk == k && (op == token.LEQ || op == token.EQL) })
	}
	if fact != "" {
		return c20B{max: best, nonneg: b.nonneg, leaves: []c20Leaf{{desc: fact, max: best, hard: true}}}
	}
	return b
}

// noStoreBefore: no assignment to the container `base` occurs in fi before pos (in source order).
func (x *c20) noStoreBefore(fi *FuncInfo, base string, pos token.Pos) bool {
	ok := true
	ast.Inspect(fi.Decl.Body, func(n ast.Node) bool {
		if as, isAs := n.(*ast.AssignStmt); isAs && as.Pos() < pos {
			for _, l := range as.Lhs {
				if x.norm(fi, l) == base {
					ok = false
				}
			}
		}
		return ok
	})
	return ok
}

func c20flip(op token.Token) token.Token {
	switch op {
	case token.LSS:
		return token.GTR
	case token.GTR:
		return token.LSS
	case token.LEQ:
		return token.GEQ
	case token.GEQ:
		return token.LEQ
	}
	return op
}

func c20neg(op token.Token) token.Token {
	switch op {
	case token.EQL:
		return token.NEQ
	case token.NEQ:
		return token.EQL
	case token.LSS:
		return token.GEQ
	case token.GEQ:
		return token.LSS
	case token.GTR:
		return token.LEQ
	case token.LEQ:
		return token.GTR
	}
	return op
}

// varBound: bound of a variable from its definitions (locals), from all callers (parameters) or from its type.
func (x *c20) varBound(ctx *c20ctx, use *ast.Ident, obj *types.Var) c20B {
	t := obj.Type()
	if obj.IsField() {
		return x.typeBound(t, use.Name)
	}
	key := fmt.Sprintf("var %p", obj)
	if x.visiting[key] {
		return x.typeBound(t, use.Name+" (recursive)")
	}
	x.visiting[key] = true
	defer delete(x.visiting, key)
	if obj.Parent() == obj.Pkg().Scope() { // package-level variable
		return x.typeBound(t, use.Name)
	}
	if i := x.paramIndex(ctx.fi, obj); i >= 0 {
		if len(x.defsOf(ctx.fi, obj)) > 0 {
			return x.typeBound(t, "parameter "+use.Name+" (reassigned)")
		}
		return x.paramBound(ctx, obj, i)
	}
	ds := x.defsOf(ctx.fi, obj)
	if len(ds) == 0 {
		return x.typeBound(t, use.Name)
	}
	var out c20B
	for i, d := range ds {
		var b c20B
		switch d.kind {
		case "expr":
			b = x.ub(ctx, d.expr)
		case "zero":
			b = c20B{max: 0, nonneg: true}
		case "tuple":
			b = x.typeBound(t, use.Name)
			if call, ok := ast.Unparen(d.expr).(*ast.CallExpr); ok {
				if fn := callee(ctx.fi.Pkg.TypesInfo, call); fn != nil {
					if rb, ok := x.resultBound(ctx, fn, d.index); ok {
						b = rb
					}
				}
			}
		case "rangekey":
			xt := ctx.fi.Pkg.TypesInfo.TypeOf(d.expr)
			switch u := xt.Underlying().(type) {
			case *types.Slice, *types.Array:
				_ = u
				lb := x.lenBound(ctx, d.expr)
				if lb.max < c20Inf {
					lb.max--
				}
				lb.nonneg = true
				b = lb
			case *types.Basic:
				b = x.ub(ctx, d.expr)
				if b.max < c20Inf {
					b.max--
				}
			default:
				b = x.typeBound(t, use.Name+" (range key)")
			}
		default:
			return x.typeBound(t, use.Name+" (modified in place)")
		}
		if i == 0 {
			out = b
		} else {
			out = c20max(out, b)
		}
	}
	return out
}

func (x *c20) lenBound(ctx *c20ctx, e ast.Expr) c20B {
	info := ctx.fi.Pkg.TypesInfo
	if tb := x.tableOf(info, e); tb != nil && tb.limit > 0 {
		how := "R-1 guard"
		if tb.posthoc {
			how = "checked after the fact"
		}
		return c20leaf(tb.limit, true, true, "len(%s) <= %d (%s in %s)", tb.name, tb.limit, how, tb.limitSrc)
	}
	if at, ok := info.TypeOf(e).Underlying().(*types.Array); ok {
		return c20B{max: at.Len(), nonneg: true}
	}
	if se, ok := ast.Unparen(e).(*ast.SelectorExpr); ok {
		if sel := info.Selections[se]; sel != nil && sel.Kind() == types.FieldVal {
			if f, ok := sel.Obj().(*types.Var); ok && x.byField[f] == nil {
				if k, src := x.fieldLimit(f); k > 0 {
					return c20leaf(k, true, true, "len(%s) <= %d (every append to the field is guarded, in %s)", x.norm(ctx.fi, e), k, src)
				}
			}
		}
	}
	return c20leaf(c20Inf, true, true, "len(%s) in %s has no limit", x.norm(ctx.fi, e), ctx.fi.Name())
}

// paramBound: maximum over the arguments of all call sites in the module.
func (x *c20) paramBound(ctx *c20ctx, obj *types.Var, i int) c20B {
	fn := ctx.fi.Obj
	sites := x.callSites[fn]
	if x.escapes[fn] || len(sites) == 0 || !c20unexportedOrInternal(fn) {
		return x.typeBound(obj.Type(), "parameter "+obj.Name()+" of "+ctx.fi.Name()+" (callers not enumerable)")
	}
	var out c20B
	for n, s := range sites {
		if i >= len(s.call.Args) || s.call.Ellipsis.IsValid() {
			return x.typeBound(obj.Type(), "parameter "+obj.Name()+" of "+ctx.fi.Name())
		}
		b := x.ub(&c20ctx{fi: s.fi, depth: ctx.depth + 1}, s.call.Args[i])
		if n == 0 {
			out = b
		} else {
			out = c20max(out, b)
		}
	}
	return out
}

// every package loaded here is internal or the root; exported functions of internal packages can only be called from the module
func c20unexportedOrInternal(fn *types.Func) bool {
	return !fn.Exported() || strings.Contains(fn.Pkg().Path(), "/internal/")
}

// resultBound: maximum over the return expressions of a module function.
func (x *c20) resultBound(ctx *c20ctx, fn *types.Func, idx int) (c20B, bool) {
	fi := x.funcOf[fn]
	if fi == nil {
		return c20B{}, false
	}
	key := fmt.Sprintf("res %p %d", fn, idx)
	if x.visiting[key] {
		return c20B{}, false
	}
	x.visiting[key] = true
	defer delete(x.visiting, key)
	var out c20B
	n := 0
	ok := true
	ast.Inspect(fi.Decl.Body, func(m ast.Node) bool {
		if _, isLit := m.(*ast.FuncLit); isLit {
			return false
		}
		ret, isRet := m.(*ast.ReturnStmt)
		if !isRet {
			return true
		}
		if idx >= len(ret.Results) {
			ok = false
			return false
		}
		b := x.ub(&c20ctx{fi: fi, depth: ctx.depth + 1}, ret.Results[idx])
		if n == 0 {
			out = b
		} else {
			out = c20max(out, b)
		}
		n++
		return true
	})
	if !ok || n == 0 {
		// named results with bare returns: bound the named result variable by its assignments
		res := fn.Type().(*types.Signature).Results()
		if idx < res.Len() && res.At(idx).Name() != "" && n == 0 {
			rv := res.At(idx)
			ds := x.defsOf(fi, rv)
			if len(ds) == 0 {
				return c20B{}, false
			}
			for i, d := range ds {
				if d.kind != "expr" {
					return c20B{}, false
				}
				b := x.ub(&c20ctx{fi: fi, depth: ctx.depth + 1}, d.expr)
				if i == 0 {
					out = b
				} else {
					out = c20max(out, b)
				}
			}
			return out, true
		}
		return c20B{}, false
	}
	return out, true
}

// ---------------------------------------------------------------------------
// stores to fields (who may write)

type c20Write struct {
	fi    *FuncInfo
	depth int      // 0: the field itself, n: element after n index operations
	expr  ast.Expr // nil: unknown value
}

func (x *c20) collectWrites() {
	if x.writesDone {
		return
	}
	x.writesDone = true
	x.writes = map[*types.Var][]c20Write{}
	for _, fi := range x.allFuncs {
		info := fi.Pkg.TypesInfo
		fi := fi
		fieldOf := func(e ast.Expr) (*types.Var, int) {
			d := 0
			e = ast.Unparen(e)
			for {
				if ix, ok := e.(*ast.IndexExpr); ok {
					e = ast.Unparen(ix.X)
					d++
					continue
				}
				break
			}
			if se, ok := e.(*ast.SelectorExpr); ok {
				if sel := info.Selections[se]; sel != nil && sel.Kind() == types.FieldVal {
					f, _ := sel.Obj().(*types.Var)
					return f, d
				}
			}
			return nil, 0
		}
		ast.Inspect(fi.Decl.Body, func(n ast.Node) bool {
			switch s := n.(type) {
			case *ast.AssignStmt:
				for i, l := range s.Lhs {
					f, d := fieldOf(l)
					if f == nil {
						continue
					}
					if s.Tok != token.ASSIGN || len(s.Lhs) != len(s.Rhs) {
						x.writes[f] = append(x.writes[f], c20Write{fi: fi, depth: d})
						continue
					}
					rhs := ast.Unparen(s.Rhs[i])
					if call, ok := rhs.(*ast.CallExpr); ok && isBuiltinCall(info, call, "append") && d == 0 && !call.Ellipsis.IsValid() {
						for _, a := range call.Args[1:] {
							x.writes[f] = append(x.writes[f], c20Write{fi: fi, depth: 1, expr: a})
						}
						continue
					}
					if cl, ok := rhs.(*ast.CompositeLit); ok {
						// map/slice literal: its values are element stores
						for _, el := range cl.Elts {
							v := el
							if kv, ok := el.(*ast.KeyValueExpr); ok {
								v = kv.Value
							}
							x.writes[f] = append(x.writes[f], c20Write{fi: fi, depth: d + 1, expr: v})
						}
						continue
					}
					if call, ok := rhs.(*ast.CallExpr); ok && isBuiltinCall(info, call, "make") {
						continue
					}
					if tv := info.Types[rhs]; tv.IsNil() {
						continue
					}
					x.writes[f] = append(x.writes[f], c20Write{fi: fi, depth: d, expr: rhs})
				}
			case *ast.IncDecStmt:
				if f, d := fieldOf(s.X); f != nil {
					x.writes[f] = append(x.writes[f], c20Write{fi: fi, depth: d})
				}
			case *ast.UnaryExpr:
				if s.Op == token.AND {
					if f, d := fieldOf(s.X); f != nil && c20isInt(info.TypeOf(s.X)) {
						x.writes[f] = append(x.writes[f], c20Write{fi: fi, depth: d})
					}
				}
			case *ast.CompositeLit:
				for _, el := range s.Elts {
					if kv, ok := el.(*ast.KeyValueExpr); ok {
						if id, ok := kv.Key.(*ast.Ident); ok {
							if f, ok := info.Uses[id].(*types.Var); ok && f.IsField() {
								if cl, ok := ast.Unparen(kv.Value).(*ast.CompositeLit); ok {
									for _, e2 := range cl.Elts {
										v := e2
										if kv2, ok := e2.(*ast.KeyValueExpr); ok {
											v = kv2.Value
										}
										x.writes[f] = append(x.writes[f], c20Write{fi: fi, depth: 1, expr: v})
									}
								} else {
									x.writes[f] = append(x.writes[f], c20Write{fi: fi, depth: 0, expr: kv.Value})
								}
							}
						}
					}
				}
			}
			return true
		})
	}
}

// storeBound: the maximum over every value stored in field f (depth 0) or in its elements (depth n).
func (x *c20) storeBound(ctx *c20ctx, f *types.Var, depth int, what string) c20B {
	x.collectWrites()
	// element type reached
	t := f.Type()
	for i := 0; i < depth; i++ {
		switch u := t.Underlying().(type) {
		case *types.Slice:
			t = u.Elem()
		case *types.Array:
			t = u.Elem()
		case *types.Map:
			t = u.Elem()
		case *types.Pointer:
			t = u.Elem()
		}
	}
	key := fmt.Sprintf("fld %p %d", f, depth)
	if x.visiting[key] {
		return x.typeBound(t, what)
	}
	x.visiting[key] = true
	defer delete(x.visiting, key)
	ws := x.writes[f]
	if f.Exported() && !strings.Contains(f.Pkg().Path(), "/internal/") {
		return x.typeBound(t, what)
	}
	out := c20B{max: 0, nonneg: true}
	n := 0
	for _, w := range ws {
		if w.depth != depth {
			if w.depth < depth && w.expr != nil {
				// the whole container is replaced by something: not tracked
				return x.typeBound(t, what+" (container reassigned)")
			}
			continue
		}
		if w.expr == nil {
			return x.typeBound(t, what+" (modified in place)")
		}
		if n > 12 {
			return x.typeBound(t, what+" (too many stores)")
		}
		b := x.ub(&c20ctx{fi: w.fi, depth: ctx.depth + 1}, w.expr)
		out = c20max(out, b)
		n++
	}
	if n == 0 {
		return x.typeBound(t, what+" (no store found)")
	}
	return out
}

// ---------------------------------------------------------------------------
// R-2

func (x *c20) ruleR2() {
	const R = "R-2"
	r := x.r
	n := 0
	for _, t := range x.tables {
		if !x.operandAddressed(t) {
			continue
		}
		n++
		o := r.Ob(R, "table:"+t.name, t.field.Pos())
		if t.limit == 0 {
			o.Bad("table %s has no limit in package compiler although the VM addresses at most %d entries (%s)", t.name, t.capacity, t.capFact)
			continue
		}
		if t.limit > t.capacity {
			o.Bad("table %s may grow to %d entries (guard in %s) but the VM addresses at most %d (%s)", t.name, t.limit, t.limitSrc, t.capacity, t.capFact)
			continue
		}
		o.OK("limit %d (guard in %s) <= capacity %d read off the VM: %s; %d index expressions", t.limit, t.limitSrc, t.capacity, t.capFact, t.readers)
	}
	// registers: the guard of the register allocator compares an int8 count with a constant; positive int8 operands address registers
	found := 0
	for _, fi := range r.P.Funcs("internal/compiler") {
		if r.P.isTestFile(fi.File) {
			continue
		}
		info := fi.Pkg.TypesInfo
		c := (*CFGInfo)(nil)
		ast.Inspect(fi.Decl.Body, func(m ast.Node) bool {
			es, ok := m.(*ast.ExprStmt)
			if !ok || !x.isLimitPanic(info, es) {
				return true
			}
			if c == nil {
				c = r.P.CFGOf(fi)
			}
			// the comparison guarding the panic
			var cmp *ast.BinaryExpr
			c.GuardedBy(es, func(l Lit) bool {
				be, ok := ast.Unparen(l.Expr).(*ast.BinaryExpr)
				if ok && l.Tag == nil && l.Truth && cmp == nil {
					switch be.Op {
					case token.EQL, token.GEQ, token.GTR:
						cmp = be
					}
				}
				return false
			})
			if cmp == nil {
				return true
			}
			L, K := cmp.X, cmp.Y
			if _, isK := intValue(info, L); isK {
				L, K = K, L
			}
			k, isK := intValue(info, K)
			lt := info.TypeOf(L)
			if !isK || lt == nil || !c20isInt(lt) || c20bits(lt) != 8 || c20unsigned(lt) {
				return true
			}
			found++
			o := r.Ob(R, fi.Name()+"#int8-count", es.Pos())
			tm := c20typeMax(lt)
			adj := k
			if cmp.Op == token.GTR {
				adj = k + 1
			}
			if adj > tm {
				o.Bad("the count compared with %s=%d has type %s: the comparison can never hold and the count wraps to a negative (indirect) register", exprStr(K), k, typeStr(lt))
			} else {
				o.OK("register-like count of type %s is limited to %s=%d <= %d, the largest positive int8 operand", typeStr(lt), exprStr(K), k, tm)
			}
			return true
		})
	}
	if found == 0 {
		r.Anchor(R, "a limit panic guarded by a comparison on an int8 count (the register allocator)", false)
	}
	r.Require(R, 10)
}

// ---------------------------------------------------------------------------
// R-3

// exceptions: one symbol, one reason
var c20R3Exceptions = map[string]string{
	"compiler.(*functionBuilder).newLabel#label(len(fb.labelAddrs))": "label numbers never reach an operand (goto operands hold addresses); they only index labelAddrs. 2^32 labels in one function need more than 2^32 statements, which the instruction-count check in end() rejects",
	"compiler.(*functionBuilder).emitGoto#label(len(fb.labelAddrs))": "only compared with a label for an internal-error check; never encoded",
}

func (x *c20) inR3Scope(f *ast.File) bool {
	name := filepath.Base(x.r.P.Fset.Position(f.Pos()).Filename)
	if strings.HasSuffix(name, "_test.go") {
		return false
	}
	return strings.HasPrefix(name, "builder") || (strings.HasPrefix(name, "emitter") && strings.HasSuffix(name, "_store.go"))
}

type c20Conv struct {
	fi      *FuncInfo
	call    *ast.CallExpr
	operand ast.Expr
	to      types.Type
	root    *types.Var // root variable when operand is v or v>>8k
	shift   int64
}

func (x *c20) ruleR3() {
	const R = "R-3"
	r := x.r
	// Body: the post-hoc check in the builder (len(Body) > K → limit panic) bounds every address
	x.findPosthocLimits()
	total := 0
	for _, fi := range r.P.Funcs("internal/compiler") {
		if !x.inR3Scope(fi.File) {
			continue
		}
		info := fi.Pkg.TypesInfo
		var convs []*c20Conv
		ast.Inspect(fi.Decl.Body, func(n ast.Node) bool {
			call, ok := n.(*ast.CallExpr)
			if !ok || len(call.Args) != 1 {
				return true
			}
			tv, ok := info.Types[call.Fun]
			if !ok || !tv.IsType() || !c20isInt(tv.Type) {
				return true
			}
			at := info.Types[call.Args[0]]
			if at.Value != nil || at.Type == nil || !c20isInt(at.Type) {
				return true
			}
			if c20bits(tv.Type) >= c20bits(at.Type) {
				return true // widening or reinterpretation at the same width
			}
			cv := &c20Conv{fi: fi, call: call, operand: call.Args[0], to: tv.Type}
			op := ast.Unparen(call.Args[0])
			if be, ok := op.(*ast.BinaryExpr); ok && be.Op == token.SHR {
				if k, ok := intValue(info, be.Y); ok && k%8 == 0 {
					op, cv.shift = ast.Unparen(be.X), k
				}
			}
			if id, ok := op.(*ast.Ident); ok {
				cv.root, _ = info.Uses[id].(*types.Var)
			}
			convs = append(convs, cv)
			return true
		})
		// group byte splits: T8(v), T8(v>>8), … T8(v>>8(n-1))
		used := map[*c20Conv]bool{}
		for _, cv := range convs {
			if used[cv] || cv.root == nil || c20bits(cv.to) != 8 {
				continue
			}
			var grp []*c20Conv
			shifts := map[int64]bool{}
			for _, o := range convs {
				if o.root == cv.root && c20bits(o.to) == 8 {
					grp = append(grp, o)
					shifts[o.shift] = true
				}
			}
			n := int64(len(shifts))
			complete := n >= 2
			for k := int64(0); k < n; k++ {
				if !shifts[8*k] {
					complete = false
				}
			}
			if !complete {
				continue
			}
			for _, o := range grp {
				used[o] = true
			}
			total++
			x.auditConv(R, fi, grp[0].call, cv.root.Name(), int(8*n), fmt.Sprintf("%s:%dbytes", cv.root.Name(), n), cv.root, func(ctx *c20ctx) c20B {
				var id *ast.Ident
				ast.Inspect(grp[0].operand, func(m ast.Node) bool {
					if i, ok := m.(*ast.Ident); ok && info.Uses[i] == cv.root && id == nil {
						id = i
					}
					return true
				})
				return x.ub(ctx, id)
			})
		}
		for _, cv := range convs {
			if used[cv] {
				continue
			}
			total++
			cv := cv
			var param *types.Var
			if cv.shift == 0 {
				if _, isId := ast.Unparen(cv.operand).(*ast.Ident); isId {
					param = cv.root
				}
			}
			x.auditConv(R, fi, cv.call, exprStr(cv.operand), c20bits(cv.to), exprStr(cv.call), param, func(ctx *c20ctx) c20B { return x.ub(ctx, cv.operand) })
		}
	}
	r.Stats["R-3 conversions audited"] = total
	r.Require(R, 50)
}

// findPosthocLimits records tables whose length is checked after the fact: len(table) > K → limit panic.
func (x *c20) findPosthocLimits() {
	r := x.r
	for _, fi := range r.P.Funcs("internal/compiler") {
		if r.P.isTestFile(fi.File) {
			continue
		}
		info := fi.Pkg.TypesInfo
		ast.Inspect(fi.Decl.Body, func(m ast.Node) bool {
			is, ok := m.(*ast.IfStmt)
			if !ok {
				return true
			}
			be, ok := ast.Unparen(is.Cond).(*ast.BinaryExpr)
			if !ok || (be.Op != token.GTR && be.Op != token.GEQ) {
				return true
			}
			k, ok := intValue(info, be.Y)
			if !ok {
				return true
			}
			// len(table) possibly widened
			e := ast.Unparen(be.X)
			for {
				c, ok := e.(*ast.CallExpr)
				if ok && len(c.Args) == 1 {
					if tv, ok := info.Types[c.Fun]; ok && tv.IsType() {
						e = ast.Unparen(c.Args[0])
						continue
					}
				}
				break
			}
			c, ok := e.(*ast.CallExpr)
			if !ok || !isBuiltinCall(info, c, "len") {
				return true
			}
			t := x.tableOf(info, c.Args[0])
			if t == nil || t.limit > 0 {
				return true
			}
			pan := false
			for _, s := range is.Body.List {
				if x.isLimitPanic(info, s) {
					pan = true
				}
			}
			if !pan {
				return true
			}
			if be.Op == token.GEQ {
				k--
			}
			t.limit, t.limitSrc, t.posthoc = k, fi.Name(), true
			return true
		})
	}
}

// auditConv decides one narrowing site. When the operand is a parameter whose callers can be enumerated, one
// obligation per calling function is instantiated (so that a listed finding for one caller does not hide another).
func (x *c20) auditConv(R string, fi *FuncInfo, site *ast.CallExpr, operand string, bits int, detail string, param *types.Var, bound func(ctx *c20ctx) c20B) {
	key := fi.Name() + "#" + detail
	if why, ok := c20R3Exceptions[key]; ok {
		x.r.Ob(R, key, site.Pos()).OK("listed exception: %s", why)
		return
	}
	if param != nil {
		if i := x.paramIndex(fi, param); i >= 0 && len(x.defsOf(fi, param)) == 0 && !x.escapes[fi.Obj] && len(x.callSites[fi.Obj]) > 0 && c20unexportedOrInternal(fi.Obj) {
			byCaller := map[string][]c20Site{}
			for _, s := range x.callSites[fi.Obj] {
				byCaller[s.fi.Name()] = append(byCaller[s.fi.Name()], s)
			}
			for _, caller := range sortedKeys(byCaller) {
				sites := byCaller[caller]
				var b c20B
				okArgs := true
				for n, s := range sites {
					if i >= len(s.call.Args) || s.call.Ellipsis.IsValid() {
						okArgs = false
						break
					}
					ab := x.ub(&c20ctx{fi: s.fi, depth: 1}, s.call.Args[i])
					if n == 0 {
						b = ab
					} else {
						b = c20max(b, ab)
					}
				}
				if !okArgs {
					b = x.typeBound(param.Type(), "argument of "+caller)
				}
				x.decideConv(R, key+"<-"+caller, sites[0].call.Pos(), fmt.Sprintf("%s (argument %s of %s, passed by %s)", operand, param.Name(), fi.Name(), caller), bits, b)
			}
			return
		}
	}
	x.decideConv(R, key, site.Pos(), operand+" in "+fi.Name(), bits, bound(&c20ctx{fi: fi}))
}

func (x *c20) decideConv(R, key string, pos token.Pos, operand string, bits int, b c20B) {
	r := x.r
	fit := int64(1)<<bits - 1
	if b.max <= fit {
		o := r.Ob(R, key, pos)
		if len(b.leaves) == 0 {
			o.Trivial("operand %s <= %d fits %d bits", operand, b.max, bits)
		} else {
			o.OK("operand %s <= %d fits %d bits: %s", operand, b.max, bits, b.why())
		}
		return
	}
	// does not fit: one obligation per offending source
	seen := map[string]bool{}
	hard := false
	for _, l := range b.leaves {
		if l.max > fit && l.hard {
			hard = true
		}
	}
	for _, l := range b.leaves {
		if l.max <= fit || seen[l.desc] || (hard && !l.hard) {
			continue
		}
		seen[l.desc] = true
		o := r.Ob(R, key, pos)
		if l.hard {
			o.Bad("conversion to %d bits of %s: %s — a value above %d wraps silently into another valid operand", bits, operand, l.desc, fit)
		} else {
			o.Unknown("conversion to %d bits of %s cannot be bounded: %s", bits, operand, l.desc)
		}
	}
	if len(seen) == 0 {
		r.Ob(R, key, pos).Unknown("conversion to %d bits of %s: bound %d does not fit and no source was identified", bits, operand, b.max)
	}
}

// ---------------------------------------------------------------------------
// R-4

func (x *c20) ruleR4() {
	const R = "R-4"
	r := x.r
	// compiler.Error and the method set of *LimitExceededError
	errIface := r.P.Named("internal/compiler", "Error")
	o := r.Ob(R, "compiler.LimitExceededError#implements-Error", x.limitErr.Obj().Pos())
	if errIface == nil {
		o.Unknown("interface compiler.Error not found")
	} else if it, ok := errIface.Underlying().(*types.Interface); !ok {
		o.Unknown("compiler.Error is not an interface")
	} else if types.Implements(types.NewPointer(x.limitErr), it) {
		o.OK("*LimitExceededError implements compiler.Error (%d methods), so Build wraps it in a *BuildError", it.NumMethods())
	} else {
		m, _ := types.MissingMethod(types.NewPointer(x.limitErr), it, true)
		name := "?"
		if m != nil {
			name = m.Name()
		}
		o.Bad("*LimitExceededError does not implement compiler.Error (missing or mistyped method %s): Build would return the bare error, not a *BuildError", name)
	}
	// the functions that create an emitter (by role: they call a function returning *emitter)
	emT := r.P.Named("internal/compiler", "emitter")
	if !r.Anchor(R, "compiler.emitter type", emT != nil) {
		return
	}
	n := 0
	for _, fi := range r.P.Funcs("internal/compiler") {
		if r.P.isTestFile(fi.File) || fi.Obj == nil {
			continue
		}
		info := fi.Pkg.TypesInfo
		creates := false
		for _, c := range calls(fi.Decl.Body, false) {
			if fn := callee(info, c); fn != nil && fn.Pkg() == fi.Obj.Pkg() {
				res := fn.Type().(*types.Signature).Results()
				if res.Len() == 1 && c20IsPtrTo(res.At(0).Type(), emT) && fn.Type().(*types.Signature).Recv() == nil {
					creates = true
				}
			}
		}
		// the constructor itself is not an entry
		res := fi.Obj.Type().(*types.Signature).Results()
		if !creates || (res.Len() == 1 && c20IsPtrTo(res.At(0).Type(), emT)) {
			continue
		}
		n++
		x.checkRecover(R, fi)
	}
	if n == 0 {
		r.Anchor(R, "a function creating an emitter", false)
	}
	// the root package turns compiler.Error into *BuildError
	root := r.P.Pkg("")
	nb := 0
	if root != nil && errIface != nil {
		for _, fi := range r.P.Funcs("") {
			if r.P.isTestFile(fi.File) {
				continue
			}
			info := fi.Pkg.TypesInfo
			callsBuild := false
			for _, c := range calls(fi.Decl.Body, false) {
				// by role: an exported function of package compiler returning (*Code, error)
				if fn := callee(info, c); fn != nil && fn.Pkg() == x.comp.Types && fn.Exported() {
					res := fn.Type().(*types.Signature).Results()
					if res.Len() == 2 && c20IsPtrTo(res.At(0).Type(), r.P.Named("internal/compiler", "Code")) {
						callsBuild = true
					}
				}
			}
			if !callsBuild {
				continue
			}
			nb++
			o := r.Ob(R, fi.Name()+"#wraps-compiler.Error", fi.Decl.Pos())
			wraps := false
			ast.Inspect(fi.Decl.Body, func(m ast.Node) bool {
				if ta, ok := m.(*ast.TypeAssertExpr); ok && ta.Type != nil {
					if t := info.TypeOf(ta.Type); t != nil && types.Identical(t, errIface) {
						wraps = true
					}
				}
				return true
			})
			o.Set(wraps, "the error of compiler.Build* is type-asserted to compiler.Error (and wrapped in *BuildError)", "the error of compiler.Build* is returned without testing for compiler.Error: a limit error would not be a *BuildError")
		}
	}
	r.Require(R, 5)
}

func (x *c20) checkRecover(R string, fi *FuncInfo) {
	r := x.r
	info := fi.Pkg.TypesInfo
	o := r.Ob(R, fi.Name()+"#recovers-limit-error", fi.Decl.Pos())
	sig := fi.Obj.Type().(*types.Signature)
	var errRes *types.Var
	for i := 0; i < sig.Results().Len(); i++ {
		v := sig.Results().At(i)
		if v.Name() != "" && v.Name() != "_" && types.Identical(v.Type(), types.Universe.Lookup("error").Type()) {
			errRes = v
		}
	}
	if errRes == nil {
		o.Bad("%s creates an emitter but has no named error result a deferred recover could set: a *LimitExceededError panic escapes Build", fi.Name())
		return
	}
	ok := false
	var why string
	for _, st := range fi.Decl.Body.List {
		ds, isDefer := st.(*ast.DeferStmt)
		if !isDefer {
			continue
		}
		lit, isLit := ast.Unparen(ds.Call.Fun).(*ast.FuncLit)
		if !isLit {
			continue
		}
		var recovered types.Object
		asserted := map[types.Object]bool{}
		stores := false
		ast.Inspect(lit.Body, func(m ast.Node) bool {
			switch s := m.(type) {
			case *ast.AssignStmt:
				for i, rhs := range s.Rhs {
					if c, ok := ast.Unparen(rhs).(*ast.CallExpr); ok && isBuiltinCall(info, c, "recover") && i < len(s.Lhs) {
						if id, ok := s.Lhs[i].(*ast.Ident); ok {
							recovered = info.ObjectOf(id)
						}
					}
					if ta, ok := ast.Unparen(rhs).(*ast.TypeAssertExpr); ok && ta.Type != nil && len(s.Rhs) == 1 {
						if t := info.TypeOf(ta.Type); c20IsPtrTo(t, x.limitErr) {
							if id, ok := ast.Unparen(ta.X).(*ast.Ident); ok && recovered != nil && info.ObjectOf(id) == recovered {
								if lid, ok := s.Lhs[0].(*ast.Ident); ok {
									asserted[info.ObjectOf(lid)] = true
								}
							}
						}
					}
					if lid, ok := s.Lhs[min(i, len(s.Lhs)-1)].(*ast.Ident); ok && info.ObjectOf(lid) == errRes {
						if rid, ok := ast.Unparen(rhs).(*ast.Ident); ok && asserted[info.ObjectOf(rid)] {
							stores = true
						}
					}
				}
			case *ast.TypeSwitchStmt:
				// switch e := r.(type) { case *LimitExceededError: err = e }
				for _, cl := range s.Body.List {
					cc := cl.(*ast.CaseClause)
					for _, te := range cc.List {
						if t := info.TypeOf(te); c20IsPtrTo(t, x.limitErr) {
							for _, b := range cc.Body {
								if as, ok := b.(*ast.AssignStmt); ok && len(as.Lhs) == 1 {
									if lid, ok := as.Lhs[0].(*ast.Ident); ok && info.ObjectOf(lid) == errRes && recovered != nil {
										stores = true
									}
								}
							}
						}
					}
				}
			}
			return true
		})
		if recovered != nil && stores {
			ok = true
			why = fmt.Sprintf("deferred closure recovers, asserts *LimitExceededError and stores it in the named result %s", errRes.Name())
		}
	}
	o.Set(ok, why, fmt.Sprintf("%s creates an emitter but no deferred closure recovers a *LimitExceededError into %s: exceeding a limit would panic out of Build", fi.Name(), errRes.Name()))
}
