package main

// C23 R-8: the entries a listing hands out are not overwritten by the next call.
//
// fs.ReadDirFile.ReadDir returns values; a caller that pages through a directory keeps the entries of the
// earlier pages while it asks for the next one (fstest.TestFS and every "collect all pages" loop do). So the
// storage behind each returned fs.DirEntry — and behind the returned slice — must not be memory that exists
// before the call (reachable from the handle, from a parameter or from a package variable) AND that the listing
// code writes: then a later call rewrites what an earlier call returned.
//
// On the SSA form of the functions of the file that declares the listing method:
//
//	origin(v)  where the memory behind a pointer / slice value comes from: allocated during the call (&T{…},
//	           make, new, append of a fresh slice), or loaded from / pointing into a field of a value that is
//	           an input of the function (followed to the arguments of the callers inside the file), or a
//	           package variable;
//	written    the set of such pre-existing storages some function of the file stores into (element or field
//	           stores through a pointer or slice loaded from them), except stores that build the storage once
//	           (dominated by a test that the field is still nil / empty) and stores indexed by the read position
//	           kept in the handle (an arena that is never rewritten).
//
// Violated: a value converted to fs.DirEntry, or a returned []fs.DirEntry, whose origin is a written storage.
// Undecided: an origin the rule cannot follow (a pointer taken out of a data structure, a call of a function
// outside the file that receives pre-existing storage).

import (
	"go/token"
	"go/types"
	"sort"
	"strings"

	"golang.org/x/tools/go/ssa"
	"golang.org/x/tools/go/ssa/ssautil"
)

func init() {
	p := registry["C23"]
	if p == nil {
		return
	}
	run := p.run
	p.run = func(r *Run) { run(r); c23FreshEntries(r) }
	p.explain += " R-8: the memory behind every value converted to fs.DirEntry and behind every returned []fs.DirEntry is allocated during the call, or is pre-existing storage (a field of the handle, a package variable) that no function of the file writes again (stores building it once under a nil/empty test, or indexed by the read position, excepted): a later ReadDir call cannot overwrite entries returned earlier."
}

const (
	c23Fresh = iota
	c23Kept  // pre-existing storage: key names it
	c23Input // the value is an input of the function itself (handle, parameter without callers in the file)
	c23Lost  // the rule cannot follow the value
)

type c23Org struct {
	kind int
	key  string
}

type c23Alias struct {
	fns     map[*ssa.Function]bool
	callers map[*ssa.Function][]ssa.CallInstruction
}

func c23StructField(ptrT types.Type, i int) (string, *types.Var) {
	t := ptrT
	if p, ok := t.Underlying().(*types.Pointer); ok {
		t = p.Elem()
	}
	st, ok := t.Underlying().(*types.Struct)
	if !ok || i >= st.NumFields() {
		return "?", nil
	}
	n := "struct"
	if nt := c21Named(t); nt != nil {
		n = nt.Obj().Name()
	}
	return n + "." + st.Field(i).Name(), st.Field(i)
}

func c23AddOrg(out []c23Org, o c23Org) []c23Org {
	for _, x := range out {
		if x == o {
			return out
		}
	}
	return append(out, o)
}

// origin of the memory behind v (v is a pointer, a slice, or an interface holding one).
func (a *c23Alias) origin(v ssa.Value, seen map[ssa.Value]bool, depth int) []c23Org {
	if seen[v] {
		return nil
	}
	seen[v] = true
	if depth > 12 {
		return []c23Org{{c23Lost, "too deep"}}
	}
	var out []c23Org
	add := func(os []c23Org) {
		for _, o := range os {
			out = c23AddOrg(out, o)
		}
	}
	// into: the address X.f or X[i] lies in the memory behind X
	into := func(x ssa.Value, cell string) {
		for _, o := range a.origin(x, seen, depth+1) {
			switch o.kind {
			case c23Input:
				out = c23AddOrg(out, c23Org{c23Kept, "cell:" + cell})
			default:
				out = c23AddOrg(out, o)
			}
		}
	}
	switch x := v.(type) {
	case *ssa.Const:
		out = c23AddOrg(out, c23Org{c23Fresh, ""})
	case *ssa.Alloc, *ssa.MakeSlice, *ssa.MakeMap, *ssa.MakeChan, *ssa.MakeClosure:
		out = c23AddOrg(out, c23Org{c23Fresh, ""})
	case *ssa.Global:
		out = c23AddOrg(out, c23Org{c23Kept, "cell:var " + x.Name()})
	case *ssa.FieldAddr:
		n, _ := c23StructField(x.X.Type(), x.Field)
		into(x.X, n)
	case *ssa.IndexAddr:
		into(x.X, "elements of "+x.X.Name())
	case *ssa.Slice:
		add(a.origin(x.X, seen, depth+1))
	case *ssa.Phi:
		for _, e := range x.Edges {
			add(a.origin(e, seen, depth+1))
		}
	case *ssa.ChangeType:
		add(a.origin(x.X, seen, depth+1))
	case *ssa.Convert:
		add(a.origin(x.X, seen, depth+1))
	case *ssa.MakeInterface:
		add(a.origin(x.X, seen, depth+1))
	case *ssa.ChangeInterface:
		add(a.origin(x.X, seen, depth+1))
	case *ssa.TypeAssert:
		add(a.origin(x.X, seen, depth+1))
	case *ssa.SliceToArrayPointer:
		add(a.origin(x.X, seen, depth+1))
	case *ssa.UnOp:
		if x.Op != token.MUL {
			out = c23AddOrg(out, c23Org{c23Lost, "operator"})
			break
		}
		// a value loaded from memory
		switch ad := x.X.(type) {
		case *ssa.Alloc:
			// a local variable kept in memory: what is stored in it
			n := 0
			if refs := ad.Referrers(); refs != nil {
				for _, ref := range *refs {
					if st, ok := ref.(*ssa.Store); ok && st.Addr == ad {
						n++
						add(a.origin(st.Val, seen, depth+1))
					}
				}
			}
			if n == 0 {
				out = c23AddOrg(out, c23Org{c23Fresh, ""}) // zero value
			}
		default:
			for _, o := range a.origin(x.X, map[ssa.Value]bool{}, depth+1) {
				switch o.kind {
				case c23Kept:
					out = c23AddOrg(out, c23Org{c23Kept, "mem:" + strings.TrimPrefix(strings.TrimPrefix(o.key, "cell:"), "mem:")})
				case c23Input:
					out = c23AddOrg(out, c23Org{c23Kept, "mem:*" + x.X.Name()})
				case c23Fresh:
					// loaded back from memory allocated in this call: the stores into the same field
					found := false
					if fa, ok := x.X.(*ssa.FieldAddr); ok {
						for _, b := range fa.Parent().Blocks {
							for _, in := range b.Instrs {
								if st, ok := in.(*ssa.Store); ok {
									if fb, ok := st.Addr.(*ssa.FieldAddr); ok && fb.X == fa.X && fb.Field == fa.Field {
										found = true
										add(a.origin(st.Val, seen, depth+1))
									}
								}
							}
						}
					}
					if !found {
						out = c23AddOrg(out, c23Org{c23Lost, "a reference read out of a data structure built in the call"})
					}
				default:
					out = c23AddOrg(out, o)
				}
			}
		}
	case *ssa.Parameter:
		fn := x.Parent()
		cs := a.callers[fn]
		idx := -1
		for i, p := range fn.Params {
			if p == x {
				idx = i
			}
		}
		if len(cs) == 0 || idx < 0 {
			out = c23AddOrg(out, c23Org{c23Input, x.Name()})
			break
		}
		for _, c := range cs {
			cc := c.Common()
			args := cc.Args
			if cc.IsInvoke() || idx >= len(args) {
				out = c23AddOrg(out, c23Org{c23Lost, "dynamic call"})
				continue
			}
			add(a.origin(args[idx], seen, depth+1))
		}
	case *ssa.FreeVar:
		out = c23AddOrg(out, c23Org{c23Input, x.Name()})
	case *ssa.Extract:
		add(a.origin(x.Tuple, seen, depth+1))
	case *ssa.Call:
		cc := x.Common()
		if b, ok := cc.Value.(*ssa.Builtin); ok {
			if b.Name() == "append" && len(cc.Args) > 0 {
				// the result reuses the backing array of the first operand when it has room
				add(a.origin(cc.Args[0], seen, depth+1))
				out = c23AddOrg(out, c23Org{c23Fresh, ""})
			} else {
				out = c23AddOrg(out, c23Org{c23Lost, "builtin " + b.Name()})
			}
			break
		}
		callee := cc.StaticCallee()
		if callee != nil && a.fns[callee] {
			// what the function returns (the position of the value in the tuple is not tracked)
			for _, b := range callee.Blocks {
				for _, in := range b.Instrs {
					if ret, ok := in.(*ssa.Return); ok {
						for _, rv := range ret.Results {
							if c23RefType(rv.Type()) {
								add(a.origin(rv, seen, depth+1))
							}
						}
					}
				}
			}
			break
		}
		// a function outside the file: its result is new memory unless it is handed pre-existing storage
		lost := false
		for _, ar := range cc.Args {
			if !c23RefType(ar.Type()) {
				continue
			}
			for _, o := range a.origin(ar, map[ssa.Value]bool{}, depth+1) {
				if o.kind == c23Kept || o.kind == c23Input {
					lost = true
				}
			}
		}
		if lost || callee == nil {
			out = c23AddOrg(out, c23Org{c23Lost, "the result of a call outside the file that receives pre-existing storage, or of a dynamic call"})
		} else {
			out = c23AddOrg(out, c23Org{c23Fresh, ""})
		}
	default:
		out = c23AddOrg(out, c23Org{c23Lost, "value form"})
	}
	return out
}

func c23RefType(t types.Type) bool {
	switch t.Underlying().(type) {
	case *types.Pointer, *types.Slice, *types.Interface, *types.Map:
		return true
	}
	return false
}

// dependsOnHandleInt: the integer value is computed from an integer kept in pre-existing storage (the read position).
func (a *c23Alias) dependsOnHandleInt(v ssa.Value, seen map[ssa.Value]bool, depth int) bool {
	if seen[v] || depth > 8 {
		return false
	}
	seen[v] = true
	switch x := v.(type) {
	case *ssa.BinOp:
		return a.dependsOnHandleInt(x.X, seen, depth+1) || a.dependsOnHandleInt(x.Y, seen, depth+1)
	case *ssa.Convert:
		return a.dependsOnHandleInt(x.X, seen, depth+1)
	case *ssa.Phi:
		for _, e := range x.Edges {
			if a.dependsOnHandleInt(e, seen, depth+1) {
				return true
			}
		}
	case *ssa.UnOp:
		if x.Op != token.MUL {
			return a.dependsOnHandleInt(x.X, seen, depth+1)
		}
		for _, o := range a.origin(x.X, map[ssa.Value]bool{}, 0) {
			if o.kind == c23Kept {
				return true
			}
		}
	}
	return false
}

// elementIndex returns the index operand of the innermost element address in an address chain.
func c23ElementIndex(addr ssa.Value) ssa.Value {
	for {
		switch x := addr.(type) {
		case *ssa.IndexAddr:
			return x.Index
		case *ssa.FieldAddr:
			addr = x.X
		default:
			return nil
		}
	}
}

// onceGuarded: the instruction is dominated by the true edge of a test "storage key is nil / empty".
func (a *c23Alias) onceGuarded(in ssa.Instruction, key string) bool {
	blk := in.Block()
	fn := blk.Parent()
	base := strings.TrimPrefix(strings.TrimPrefix(key, "mem:"), "cell:")
	isKey := func(v ssa.Value) bool {
		if c, ok := v.(*ssa.Call); ok {
			if b, ok := c.Common().Value.(*ssa.Builtin); ok && (b.Name() == "len" || b.Name() == "cap") && len(c.Common().Args) == 1 {
				v = c.Common().Args[0]
			}
		}
		for _, o := range a.origin(v, map[ssa.Value]bool{}, 0) {
			if o.kind == c23Kept && strings.TrimPrefix(strings.TrimPrefix(o.key, "mem:"), "cell:") == base {
				return true
			}
		}
		return false
	}
	isZero := func(v ssa.Value) bool {
		c, ok := v.(*ssa.Const)
		if !ok {
			return false
		}
		if c.IsNil() {
			return true
		}
		if c.Value != nil {
			if i, ok := constantInt(c); ok && i == 0 {
				return true
			}
		}
		return false
	}
	for _, b := range fn.Blocks {
		if len(b.Instrs) == 0 || len(b.Succs) != 2 {
			continue
		}
		ifi, ok := b.Instrs[len(b.Instrs)-1].(*ssa.If)
		if !ok {
			continue
		}
		bo, ok := ifi.Cond.(*ssa.BinOp)
		if !ok {
			continue
		}
		var taken *ssa.BasicBlock
		switch bo.Op {
		case token.EQL:
			taken = b.Succs[0]
		case token.NEQ:
			taken = b.Succs[1]
		default:
			continue
		}
		if !((isKey(bo.X) && isZero(bo.Y)) || (isKey(bo.Y) && isZero(bo.X))) {
			continue
		}
		// the edge b->taken must be the only way into taken for the test to hold there
		if len(taken.Preds) == 1 && taken.Dominates(blk) {
			return true
		}
	}
	return false
}

func constantInt(c *ssa.Const) (int64, bool) {
	if c.Value == nil {
		return 0, false
	}
	if b, ok := c.Type().Underlying().(*types.Basic); !ok || b.Info()&types.IsInteger == 0 {
		return 0, false
	}
	return c.Int64(), true
}

func c23FreshEntries(r *Run) {
	const R = "R-8"
	root := r.P.Pkg("")
	if !r.Anchor(R, "root package", root != nil) {
		return
	}
	dirEntryI := c23Iface(r, "io/fs", "DirEntry")
	rdI := c23Iface(r, "io/fs", "ReadDirFile")
	if !r.Anchor(R, "io/fs.DirEntry", dirEntryI != nil) || !r.Anchor(R, "io/fs.ReadDirFile", rdI != nil) {
		return
	}
	isEntry := func(t types.Type) bool {
		_, isI := t.Underlying().(*types.Interface)
		return isI && types.Identical(t.Underlying(), dirEntryI)
	}
	isEntries := func(t types.Type) bool {
		sl, ok := t.Underlying().(*types.Slice)
		return ok && isEntry(sl.Elem())
	}
	// the files that declare a listing method (a method returning ([]fs.DirEntry, error))
	files := map[string]bool{}
	for _, fi := range r.P.Funcs("") {
		if fi.Obj == nil || fi.Decl.Recv == nil || r.P.isTestFile(fi.File) {
			continue
		}
		sig := fi.Obj.Type().(*types.Signature)
		if sig.Results().Len() == 2 && isEntries(sig.Results().At(0).Type()) {
			files[r.P.FileOf(fi.Decl.Pos())] = true
		}
	}
	if !r.Anchor(R, "a method returning ([]fs.DirEntry, error) in the root package", len(files) > 0) {
		return
	}
	// SSA of the root package only (building the whole program is not needed to read one file)
	var prog *ssa.Program
	if r.P.ssa != nil {
		prog = r.P.ssa.prog
	} else {
		var pkgs []*ssa.Package
		prog, pkgs = ssautil.AllPackages(r.P.Pkgs, ssa.InstantiateGenerics)
		for _, sp := range pkgs {
			if sp != nil && sp.Pkg == root.Types {
				sp.Build()
			}
		}
	}
	ssaOf := func(fi *FuncInfo) *ssa.Function {
		fn := prog.FuncValue(fi.Obj)
		if fn == nil || len(fn.Blocks) == 0 {
			return nil
		}
		return fn
	}
	a := &c23Alias{fns: map[*ssa.Function]bool{}, callers: map[*ssa.Function][]ssa.CallInstruction{}}
	var fis []*FuncInfo
	byFn := map[*ssa.Function]*FuncInfo{}
	for _, fi := range r.P.Funcs("") {
		if fi.Obj == nil || r.P.isTestFile(fi.File) || !files[r.P.FileOf(fi.Decl.Pos())] {
			continue
		}
		fn := ssaOf(fi)
		if fn == nil {
			r.Ob(R, fi.Name()+"#ssa", fi.Decl.Pos()).Unknown("no SSA form of the function")
			continue
		}
		a.fns[fn] = true
		byFn[fn] = fi
		fis = append(fis, fi)
	}
	for fn := range a.fns {
		for _, b := range fn.Blocks {
			for _, in := range b.Instrs {
				if c, ok := in.(ssa.CallInstruction); ok {
					if cal := c.Common().StaticCallee(); cal != nil && a.fns[cal] {
						a.callers[cal] = append(a.callers[cal], c)
					}
				}
			}
		}
	}
	// the pre-existing storages that the file writes again
	written := map[string]string{} // key -> where
	for fn := range a.fns {
		for _, b := range fn.Blocks {
			for _, in := range b.Instrs {
				st, ok := in.(*ssa.Store)
				if !ok {
					continue
				}
				// only stores through a reference: X.f = v with X the input itself is the update of the handle's
				// own field, which is reported under the cell of that field
				for _, o := range a.origin(st.Addr, map[ssa.Value]bool{}, 0) {
					if o.kind != c23Kept {
						continue
					}
					if a.onceGuarded(st, o.key) {
						continue
					}
					if ix := c23ElementIndex(st.Addr); ix != nil && a.dependsOnHandleInt(ix, map[ssa.Value]bool{}, 0) {
						continue
					}
					// a function called only under the once-test
					if cs := a.callers[fn]; len(cs) > 0 {
						all := true
						for _, c := range cs {
							if !a.onceGuarded(c, o.key) {
								all = false
							}
						}
						if all {
							continue
						}
					}
					if _, dup := written[o.key]; !dup {
						where := fn.Name()
						if fi := byFn[fn]; fi != nil {
							where = fi.Name()
						}
						written[o.key] = where + " at " + r.P.Pos(st.Pos())
					}
				}
			}
		}
	}
	sort.Slice(fis, func(i, j int) bool { return fis[i].Decl.Pos() < fis[j].Decl.Pos() })
	n := 0
	judge := func(o *Obl, what string, v ssa.Value) {
		var bad, lost []string
		fresh := 0
		for _, og := range a.origin(v, map[ssa.Value]bool{}, 0) {
			switch og.kind {
			case c23Fresh:
				fresh++
			case c23Kept:
				if w, ok := written[og.key]; ok {
					bad = append(bad, strings.TrimPrefix(strings.TrimPrefix(og.key, "mem:"), "cell:")+" (written by "+w+")")
				} else {
					fresh++ // pre-existing storage that is never written again: immutable once handed out
				}
			case c23Input:
				// the value is the input itself (a method returning its receiver as an entry): nothing is copied,
				// nothing is rewritten by this rule's reasoning
				fresh++
			default:
				lost = append(lost, og.key)
			}
		}
		sort.Strings(bad)
		sort.Strings(lost)
		switch {
		case len(bad) > 0:
			o.Bad("%s lives in storage that exists before the call and that the listing code writes again: %s. Entries (or the page) returned by one ReadDir call are overwritten by the next one: a caller that collects the pages of a directory sees the last page repeated", what, strings.Join(bad, "; "))
		case len(lost) > 0:
			o.Unknown("the rule cannot tell where the memory behind %s comes from: %s", what, strings.Join(lost, "; "))
		default:
			o.OK("%s is memory allocated during the call (or storage never written again)", what)
		}
	}
	posOf := func(fi *FuncInfo, v ssa.Value) token.Pos {
		if v.Pos().IsValid() {
			return v.Pos()
		}
		if refs := v.Referrers(); refs != nil {
			for _, ref := range *refs {
				if ref.Pos().IsValid() {
					return ref.Pos()
				}
			}
		}
		return fi.Decl.Pos()
	}
	for _, fi := range fis {
		fn := ssaOf(fi)
		sig := fi.Obj.Type().(*types.Signature)
		for _, b := range fn.Blocks {
			for _, in := range b.Instrs {
				switch x := in.(type) {
				case *ssa.MakeInterface:
					if isEntry(x.Type()) && c23RefType(x.X.Type()) {
						n++
						judge(r.Ob(R, fi.Name()+"#entry-storage", posOf(fi, x)), "the value handed out as fs.DirEntry", x.X)
					}
				case *ssa.Return:
					if sig.Results().Len() >= 1 && isEntries(sig.Results().At(0).Type()) && len(x.Results) >= 1 {
						if c, ok := x.Results[0].(*ssa.Const); ok && c.IsNil() {
							continue
						}
						n++
						judge(r.Ob(R, fi.Name()+"#page-storage", x.Pos()), "the returned []fs.DirEntry", x.Results[0])
					}
				}
			}
		}
	}
	r.Stats["r8_sites"] = n
	r.Require(R, 3)
}
