package main

// C05 R-24 (added after seeded change C05-7): the writer a renderer is asserted to have is the writer it was
// created with.
//
// A macro may be given its own renderer when it is called: over a new *strings.Builder (its output is a
// string result), over a new *bytes.Buffer (Markdown called in HTML: the output is converted at the return)
// or over the caller's writer — which is whatever io.Writer the host passed to Run. When the macro returns,
// the VM takes the output back with the panicking assertion `renderer.Out().(*T)`. A failed assertion is a
// *runtime.TypeAssertionError raised by the VM itself while Return is running: the panic classifier does not
// know it, it becomes a fatal error and Run panics in the host. So: every such assertion is reached only in
// states in which the renderer was created over a *T. Two sites must agree, and the rule evaluates both on
// the finite domain they test:
//
//	b — the format operand of the call instruction: an ast.Format value or ReturnString (by role: the int8
//	    variable of the function that is compared with the ReturnString constant or converted to ast.Format);
//	f — the Format of the called function (at the call: the Function assigned to the VM's current function;
//	    at the return: the VM's current function).
//
// Frame pairing (the assertion is on the receiver's renderer). For every pair (b, f): if the assertion to *T
// is reachable (every condition on b and f on the path — if/else, early return, switch — evaluates true or
// unknown; if it is in a helper, also its call site) then no creation `vm.renderer = newRenderer(W)`
// reachable from the interpreter loop under the same pair may have a W that is not a new T. Pairs for which
// the call creates no renderer are excluded by the test that the frame's renderer differs from the current
// one, which must guard the assertion (or the call of its helper).
//
// Local pairing (the assertion is on a VM local to the function, the adaptor for native callers): a
// creation over a new T on the same local exists, every condition guarding it also guards the assertion, and
// no other creation on that local has a different writer.

import (
	"fmt"
	"go/ast"
	"go/token"
	"go/types"

	"golang.org/x/tools/go/cfg"
)

func init() {
	p := registry["C05"]
	if p == nil {
		return
	}
	run := p.run
	p.run = func(r *Run) { run(r); c05RendererWriter(r) }
	p.explain += " R-24: a panicking assertion of a renderer's writer to *T is reached only in states in which that renderer was created over a new T: evaluated for every pair (format operand of the call instruction, format of the called function) against every renderer creation of the call handlers, and guarded by the test that the called function got its own renderer."
}

type c05w struct {
	r        *Run
	rendT    *types.Named
	vmT      *types.Named
	funcT    *types.Named
	formatT  *types.Named
	retStr   *types.Const
	fmtField *types.Var // Function.Format
	fnField  *types.Var // VM.fn
	rdField  *types.Var // VM.renderer
	bDom     []int64
	fDom     []int64
	boolFlds []*types.Var // the bool fields of Function (Macro)
	byObj    map[*types.Func]*FuncInfo
	name     map[int64]string
}

type c05wEnv struct {
	b, f  int64
	flags int // bit i: value of the i-th bool field of Function, for the called function
}

// per-function roles
type c05wFn struct {
	fi    *FuncInfo
	bLike map[types.Object]bool
	// objects assigned to the VM's current function in this function (the callee, at a call handler)
	callee map[types.Object]bool
	defs   map[types.Object][]ast.Expr
	busy   map[types.Object]bool
	side   string // "call" or "return": which Function expression denotes the called function
}

func (w *c05w) roles(fi *FuncInfo, side string) *c05wFn {
	info := fi.Pkg.TypesInfo
	fr := &c05wFn{fi: fi, bLike: map[types.Object]bool{}, callee: map[types.Object]bool{}, defs: map[types.Object][]ast.Expr{}, busy: map[types.Object]bool{}, side: side}
	isRet := func(e ast.Expr) bool {
		switch x := ast.Unparen(e).(type) {
		case *ast.Ident:
			return info.Uses[x] == w.retStr
		case *ast.SelectorExpr:
			return info.Uses[x.Sel] == w.retStr
		}
		return false
	}
	ast.Inspect(fi.Decl.Body, func(m ast.Node) bool {
		switch x := m.(type) {
		case *ast.BinaryExpr:
			if x.Op == token.EQL || x.Op == token.NEQ {
				if isRet(x.X) {
					if o := objOfIdent(info, x.Y); o != nil {
						fr.bLike[o] = true
					}
				}
				if isRet(x.Y) {
					if o := objOfIdent(info, x.X); o != nil {
						fr.bLike[o] = true
					}
				}
			}
		case *ast.CallExpr:
			if tv, ok := info.Types[x.Fun]; ok && tv.IsType() && len(x.Args) == 1 && types.Identical(tv.Type, w.formatT) {
				if o := objOfIdent(info, x.Args[0]); o != nil {
					fr.bLike[o] = true
				}
			}
		case *ast.CaseClause:
			// switch b { case ReturnString: … }
		case *ast.AssignStmt:
			for i, l := range x.Lhs {
				if len(x.Lhs) == len(x.Rhs) {
					if sel, ok := ast.Unparen(l).(*ast.SelectorExpr); ok && w.fieldOf(info, sel) == w.fnField {
						if o := objOfIdent(info, x.Rhs[i]); o != nil {
							fr.callee[o] = true
						}
					}
				}
				if o := objOfIdent(info, l); o != nil {
					var rhs ast.Expr
					if len(x.Lhs) == len(x.Rhs) {
						rhs = x.Rhs[i]
					}
					fr.defs[o] = append(fr.defs[o], rhs)
				}
			}
		case *ast.SwitchStmt:
			if x.Tag != nil {
				for _, st := range x.Body.List {
					for _, e := range st.(*ast.CaseClause).List {
						if isRet(e) {
							if o := objOfIdent(info, x.Tag); o != nil {
								fr.bLike[o] = true
							}
						}
					}
				}
			}
		}
		return true
	})
	// the called function made current through a helper: vm.enter(fn, …) where enter assigns its parameter to
	// the VM's current function. The argument is an identifier, or an expression a local is defined as
	// (fn := f.fn; vm.enter(f.fn, …)).
	for _, c := range calls(fi.Decl.Body, true) {
		h := w.byObj[callee(info, c)]
		if h == nil || h.Obj == fi.Obj {
			continue
		}
		hinfo := h.Pkg.TypesInfo
		ps := h.Obj.Type().(*types.Signature).Params()
		for i := 0; i < ps.Len() && i < len(c.Args); i++ {
			p := ps.At(i)
			sets := false
			ast.Inspect(h.Decl.Body, func(m ast.Node) bool {
				if as, ok := m.(*ast.AssignStmt); ok && len(as.Lhs) == len(as.Rhs) {
					for k, l := range as.Lhs {
						if sel, ok := ast.Unparen(l).(*ast.SelectorExpr); ok && w.fieldOf(hinfo, sel) == w.fnField && objOfIdent(hinfo, as.Rhs[k]) == p {
							sets = true
						}
					}
				}
				return true
			})
			if !sets {
				continue
			}
			if o := objOfIdent(info, c.Args[i]); o != nil {
				fr.callee[o] = true
				continue
			}
			want := exprStr(c.Args[i])
			for o, ds := range fr.defs {
				if len(ds) == 1 && ds[0] != nil && exprStr(ds[0]) == want {
					fr.callee[o] = true
				}
			}
		}
	}
	return fr
}

func (w *c05w) fieldOf(info *types.Info, sel *ast.SelectorExpr) *types.Var {
	if s, ok := info.Selections[sel]; ok {
		if v, ok := s.Obj().(*types.Var); ok && v.IsField() {
			return v
		}
	}
	return nil
}

// value of an integer expression under env; ok=false when unknown.
func (w *c05w) value(fr *c05wFn, e ast.Expr, env c05wEnv) (int64, bool) {
	info := fr.fi.Pkg.TypesInfo
	e = ast.Unparen(e)
	if v, ok := intValue(info, e); ok {
		return v, true
	}
	switch x := e.(type) {
	case *ast.Ident:
		o := info.Uses[x]
		if o != nil && fr.bLike[o] {
			return env.b, true
		}
		// a local defined once (format := ast.Format(b))
		if _, isVar := o.(*types.Var); isVar && len(fr.defs[o]) == 1 && fr.defs[o][0] != nil && !fr.busy[o] {
			fr.busy[o] = true
			v, ok := w.value(fr, fr.defs[o][0], env)
			fr.busy[o] = false
			return v, ok
		}
	case *ast.CallExpr:
		if tv, ok := info.Types[x.Fun]; ok && tv.IsType() && len(x.Args) == 1 {
			return w.value(fr, x.Args[0], env)
		}
	case *ast.SelectorExpr:
		if w.fieldOf(info, x) != w.fmtField {
			break
		}
		if w.isCalled(fr, x.X) {
			return env.f, true
		}
	}
	return 0, false
}

// isCalled reports whether e denotes the called function: at a call handler the Function assigned to the
// VM's current function, at the return the VM's current function itself.
func (w *c05w) isCalled(fr *c05wFn, e ast.Expr) bool {
	info := fr.fi.Pkg.TypesInfo
	switch base := ast.Unparen(e).(type) {
	case *ast.Ident:
		return fr.side == "call" && fr.callee[info.Uses[base]]
	case *ast.SelectorExpr:
		return fr.side == "return" && w.fieldOf(info, base) == w.fnField
	}
	return false
}

// truth of a boolean expression under env: 1 true, 0 false, -1 unknown.
func (w *c05w) truth(fr *c05wFn, e ast.Expr, env c05wEnv) int {
	info := fr.fi.Pkg.TypesInfo
	e = ast.Unparen(e)
	switch x := e.(type) {
	case *ast.UnaryExpr:
		if x.Op == token.NOT {
			t := w.truth(fr, x.X, env)
			if t < 0 {
				return -1
			}
			return 1 - t
		}
	case *ast.BinaryExpr:
		switch x.Op {
		case token.LAND, token.LOR:
			l, r := w.truth(fr, x.X, env), w.truth(fr, x.Y, env)
			if x.Op == token.LAND {
				if l == 0 || r == 0 {
					return 0
				}
				if l == 1 && r == 1 {
					return 1
				}
				return -1
			}
			if l == 1 || r == 1 {
				return 1
			}
			if l == 0 && r == 0 {
				return 0
			}
			return -1
		case token.EQL, token.NEQ, token.LSS, token.LEQ, token.GTR, token.GEQ:
			l, ok1 := w.value(fr, x.X, env)
			r, ok2 := w.value(fr, x.Y, env)
			if !ok1 || !ok2 {
				return -1
			}
			var res bool
			switch x.Op {
			case token.EQL:
				res = l == r
			case token.NEQ:
				res = l != r
			case token.LSS:
				res = l < r
			case token.LEQ:
				res = l <= r
			case token.GTR:
				res = l > r
			case token.GEQ:
				res = l >= r
			}
			if res {
				return 1
			}
			return 0
		}
	case *ast.SelectorExpr:
		// a bool field of the called function (Macro)
		if v := w.fieldOf(info, x); v != nil {
			for i, bf := range w.boolFlds {
				if bf == v && w.isCalled(fr, x.X) {
					return (env.flags >> i) & 1
				}
			}
		}
	case *ast.Ident:
		// a bool local defined once
		if o := info.Uses[x]; o != nil && len(fr.defs[o]) == 1 && fr.defs[o][0] != nil {
			if _, isVar := o.(*types.Var); isVar {
				return w.truth(fr, fr.defs[o][0], env)
			}
		}
	}
	return -1
}

// mentionsFormat reports whether e involves a format: an expression of type ast.Format, the format operand or
// the ReturnString constant.
func (w *c05w) mentionsFormat(fr *c05wFn, e ast.Expr) bool {
	info := fr.fi.Pkg.TypesInfo
	hit := false
	ast.Inspect(e, func(m ast.Node) bool {
		if x, ok := m.(ast.Expr); ok && !hit {
			if tv, ok := info.Types[x]; ok && !tv.IsType() && tv.Type != nil && types.Identical(tv.Type, w.formatT) {
				hit = true
			}
			if id, ok := x.(*ast.Ident); ok {
				if o := info.Uses[id]; o != nil && (fr.bLike[o] || o == w.retStr) {
					hit = true
				}
			}
		}
		return !hit
	})
	return hit
}

// feasible reports whether node site of fr's function can be reached under env: edges carrying a conjunct
// that is definitely false are cut. A conjunct on a format that cannot be evaluated (the rule does not know
// whose format it is) also cuts the edge: the state is then not SHOWN feasible, and nothing is reported
// from it.
func (w *c05w) feasible(fr *c05wFn, site ast.Node, env c05wEnv) bool {
	g := w.r.P.CFGOf(fr.fi)
	blk, _ := g.Locate(site)
	if blk == nil {
		return false
	}
	litFalse := func(l Lit) bool {
		if l.Tag != nil {
			a, ok1 := w.value(fr, l.Tag, env)
			b, ok2 := w.value(fr, l.Expr, env)
			if !ok1 || !ok2 {
				return w.mentionsFormat(fr, l.Tag) || w.mentionsFormat(fr, l.Expr)
			}
			return (a == b) != l.Truth
		}
		t := w.truth(fr, l.Expr, env)
		if t < 0 {
			return w.mentionsFormat(fr, l.Expr)
		}
		return (t == 1) != l.Truth
	}
	for _, l := range g.within(site) {
		if litFalse(l) {
			return false
		}
	}
	return g.reachable(g.G.Blocks[0], blk, func(b *cfg.Block, i int) bool {
		for _, l := range g.edgeLits(b, i) {
			if litFalse(l) {
				return true
			}
		}
		return false
	}, nil)
}

func (w *c05w) envName(env c05wEnv) string {
	s := fmt.Sprintf("call format operand = %s, format of the called function = %s", w.name[env.b], w.name[env.f])
	for i, bf := range w.boolFlds {
		s += fmt.Sprintf(", its %s = %v", bf.Name(), (env.flags>>i)&1 == 1)
	}
	return s
}

type c05wInstall struct {
	fi     *FuncInfo
	at     *ast.AssignStmt
	base   types.Object
	writer string // named type of the new writer, "" when it is not a fresh value
	text   string
}

func c05RendererWriter(r *Run) {
	const R = "R-24"
	const rel = "internal/runtime"
	w := &c05w{r: r, name: map[int64]string{}}
	w.rendT = r.P.Named(rel, "renderer")
	w.vmT = r.P.Named(rel, "VM")
	w.funcT = r.P.Named(rel, "Function")
	w.formatT = r.P.Named("ast", "Format")
	if !r.Anchor(R, "runtime.renderer, runtime.VM, runtime.Function, ast.Format", w.rendT != nil && w.vmT != nil && w.funcT != nil && w.formatT != nil) {
		return
	}
	if pk := r.P.Pkg(rel); pk != nil {
		w.retStr, _ = pk.Types.Scope().Lookup("ReturnString").(*types.Const)
	}
	if st, ok := w.funcT.Underlying().(*types.Struct); ok {
		for i := 0; i < st.NumFields(); i++ {
			if types.Identical(st.Field(i).Type(), w.formatT) {
				w.fmtField = st.Field(i)
			}
			if b, ok := st.Field(i).Type().(*types.Basic); ok && b.Kind() == types.Bool && len(w.boolFlds) < 4 {
				w.boolFlds = append(w.boolFlds, st.Field(i))
			}
		}
	}
	if st, ok := w.vmT.Underlying().(*types.Struct); ok {
		for i := 0; i < st.NumFields(); i++ {
			f := st.Field(i)
			if p, ok := f.Type().(*types.Pointer); ok {
				if types.Identical(p.Elem(), w.funcT) {
					w.fnField = f
				}
				if types.Identical(p.Elem(), w.rendT) {
					w.rdField = f
				}
			}
		}
	}
	if !r.Anchor(R, "ReturnString, Function.Format, VM's current function and renderer fields", w.retStr != nil && w.fmtField != nil && w.fnField != nil && w.rdField != nil) {
		return
	}
	for _, c := range EnumConsts(w.formatT) {
		v, _ := constantInt64(c)
		w.fDom = append(w.fDom, v)
		w.bDom = append(w.bDom, v)
		w.name[v] = c.Name()
	}
	if v, ok := constantInt64(w.retStr); ok {
		w.bDom = append(w.bDom, v)
		w.name[v] = w.retStr.Name()
	}
	if !r.Anchor(R, "the formats", len(w.fDom) >= 2) {
		return
	}
	var fns []*FuncInfo
	byObj := map[*types.Func]*FuncInfo{}
	for _, fi := range r.P.Funcs(rel) {
		if !r.P.isTestFile(fi.File) && fi.Obj != nil {
			fns = append(fns, fi)
			byObj[fi.Obj] = fi
		}
	}
	w.byObj = byObj
	loop := c05InterpreterLoop(r, fns)
	if !r.Anchor(R, "interpreter loop", loop != nil) {
		return
	}
	recvOf := func(fi *FuncInfo) *types.Var { return fi.Obj.Type().(*types.Signature).Recv() }
	// functions the loop reaches inside the package (two levels): where a call handler may have been extracted
	fromLoop := map[*types.Func]bool{loop.Obj: true}
	frontier := []*FuncInfo{loop}
	for d := 0; d < 2; d++ {
		var next []*FuncInfo
		for _, fi := range frontier {
			for _, c := range calls(fi.Decl.Body, true) {
				if h := byObj[callee(fi.Pkg.TypesInfo, c)]; h != nil && !fromLoop[h.Obj] {
					fromLoop[h.Obj] = true
					next = append(next, h)
				}
			}
		}
		frontier = next
	}
	// ---- creations: X.renderer = <constructor>(W)
	writerOf := func(info *types.Info, e ast.Expr) string {
		e = ast.Unparen(e)
		if u, ok := e.(*ast.UnaryExpr); ok && u.Op == token.AND {
			if cl, ok := ast.Unparen(u.X).(*ast.CompositeLit); ok {
				return typeStr(info.TypeOf(cl))
			}
		}
		if c, ok := e.(*ast.CallExpr); ok && isBuiltinCall(info, c, "new") && len(c.Args) == 1 {
			return typeStr(info.TypeOf(c.Args[0]))
		}
		// any expression whose static type is a pointer to a concrete named type (&local, a constructor
		// helper): the dynamic type of the writer is that type, which is all the assertion depends on
		if p, ok := info.TypeOf(e).(*types.Pointer); ok {
			if nt, ok := p.Elem().(*types.Named); ok && !types.IsInterface(nt) {
				return typeStr(nt)
			}
		}
		return ""
	}
	var installs []c05wInstall
	for _, fi := range fns {
		info := fi.Pkg.TypesInfo
		ast.Inspect(fi.Decl.Body, func(m ast.Node) bool {
			as, ok := m.(*ast.AssignStmt)
			if !ok || len(as.Lhs) != len(as.Rhs) {
				return true
			}
			for i, l := range as.Lhs {
				sel, ok := ast.Unparen(l).(*ast.SelectorExpr)
				if !ok || w.fieldOf(info, sel) != w.rdField {
					continue
				}
				c, ok := ast.Unparen(as.Rhs[i]).(*ast.CallExpr)
				if !ok || len(c.Args) != 1 {
					continue
				}
				// a constructor of the package taking the writer (an interface)
				f := callee(info, c)
				if f == nil || byObj[f] == nil {
					continue
				}
				if ps := f.Type().(*types.Signature).Params(); ps.Len() != 1 || !types.IsInterface(ps.At(0).Type()) {
					continue
				}
				installs = append(installs, c05wInstall{fi, as, objOfIdent(info, sel.X), writerOf(info, c.Args[0]), exprStr(c.Args[0])})
			}
			return true
		})
	}
	if !r.Anchor(R, "renderer creations assigned to a VM", len(installs) > 0) {
		return
	}
	// ---- assertions
	n := 0
	for _, fi := range fns {
		info := fi.Pkg.TypesInfo
		par := r.P.Parents(fi.File)
		var sites []*ast.TypeAssertExpr
		ast.Inspect(fi.Decl.Body, func(m ast.Node) bool {
			ta, ok := m.(*ast.TypeAssertExpr)
			if !ok || ta.Type == nil {
				return true
			}
			// the writer of a renderer: a call of a method of renderer returning an interface, or its field
			isWriter := false
			switch x := ast.Unparen(ta.X).(type) {
			case *ast.CallExpr:
				if f := callee(info, x); f != nil && len(x.Args) == 0 {
					if sig := f.Type().(*types.Signature); sig.Recv() != nil {
						t := sig.Recv().Type()
						if p, ok := t.(*types.Pointer); ok {
							t = p.Elem()
						}
						isWriter = types.Identical(t, w.rendT)
					}
				}
			case *ast.SelectorExpr:
				if v := w.fieldOf(info, x); v != nil {
					if st, ok := w.rendT.Underlying().(*types.Struct); ok {
						for i := 0; i < st.NumFields(); i++ {
							if st.Field(i) == v {
								isWriter = true
							}
						}
					}
				}
			}
			if !isWriter || !types.IsInterface(info.TypeOf(ta.X)) {
				return true
			}
			// the panicking form only
			switch p := par[ast.Node(ta)].(type) {
			case *ast.AssignStmt:
				if len(p.Lhs) == 2 && len(p.Rhs) == 1 {
					return true
				}
			case *ast.ValueSpec:
				if len(p.Names) == 2 && len(p.Values) == 1 {
					return true
				}
			}
			sites = append(sites, ta)
			return true
		})
		for _, ta := range sites {
			n++
			T := typeStr(info.TypeOf(ta.Type))
			if p, ok := info.TypeOf(ta.Type).(*types.Pointer); ok {
				T = typeStr(p.Elem())
			}
			o := r.Ob(R, fi.Name()+"#writer.(*"+T+")", ta.Pos())
			// the VM whose renderer it is: <base>.renderer.Out() / <base>.renderer.out
			var base types.Object
			ast.Inspect(ta.X, func(m ast.Node) bool {
				if sel, ok := m.(*ast.SelectorExpr); ok && w.fieldOf(info, sel) == w.rdField {
					base = objOfIdent(info, sel.X)
				}
				return true
			})
			if base == nil {
				o.Unknown("the renderer whose writer is asserted to be a *%s is not the renderer field of a VM variable: the rule cannot tell where it was created", T)
				continue
			}
			if base != recvOf(fi) {
				w.localPairing(o, fi, ta, base, T, installs)
				continue
			}
			// ---- frame pairing
			frA := w.roles(fi, "return")
			g := r.P.CFGOf(fi)
			changed := func(in *types.Info) func(Lit) bool {
				return func(l Lit) bool {
					be, ok := ast.Unparen(l.Expr).(*ast.BinaryExpr)
					if !ok || l.Tag != nil || (be.Op != token.EQL && be.Op != token.NEQ) || (be.Op == token.NEQ) != l.Truth {
						return false
					}
					isR := func(e ast.Expr) bool {
						p, ok := in.TypeOf(e).(*types.Pointer)
						return ok && types.Identical(p.Elem(), w.rendT)
					}
					return isR(be.X) && isR(be.Y)
				}
			}
			// call sites of fi when the assertion lives in a helper
			type csite struct {
				fr   *c05wFn
				call *ast.CallExpr
			}
			var callSites []csite
			if fi.Obj != loop.Obj {
				for _, f2 := range fns {
					if !fromLoop[f2.Obj] {
						continue
					}
					var fr2 *c05wFn
					for _, c := range calls(f2.Decl.Body, true) {
						if callee(f2.Pkg.TypesInfo, c) == fi.Obj {
							if fr2 == nil {
								fr2 = w.roles(f2, "return")
							}
							callSites = append(callSites, csite{fr2, c})
						}
					}
				}
			}
			guarded := g.GuardedBy(ta, changed(info))
			if !guarded && len(callSites) > 0 {
				guarded = true
				for _, cs := range callSites {
					if !r.P.CFGOf(cs.fr.fi).GuardedBy(cs.call, changed(cs.fr.fi.Pkg.TypesInfo)) {
						guarded = false
					}
				}
			}
			var frI = map[*FuncInfo]*c05wFn{}
			role := func(f2 *FuncInfo) *c05wFn {
				if frI[f2] == nil {
					frI[f2] = w.roles(f2, "call")
				}
				return frI[f2]
			}
			// the call handlers: clauses of the opcode switch holding a creation on the receiver; for each, the
			// statement that makes the called function current
			type handler struct {
				clause *ast.CaseClause
				enter  ast.Node
				ins    []c05wInstall
			}
			var handlers []*handler
			outside := false // a creation lives outside the clauses of the loop (in a helper)
			if !guarded {
				lpar := r.P.Parents(loop.File)
				linfo := loop.Pkg.TypesInfo
				opT := r.P.Named(rel, "Operation")
				byClause := map[*ast.CaseClause]*handler{}
				for _, in := range installs {
					if !fromLoop[in.fi.Obj] || in.base != recvOf(in.fi) {
						continue
					}
					if in.fi.Obj != loop.Obj {
						outside = true
						continue
					}
					var cc *ast.CaseClause
					for p := lpar[ast.Node(in.at)]; p != nil; p = lpar[p] {
						if c, ok := p.(*ast.CaseClause); ok {
							if sw, ok := lpar[lpar[c]].(*ast.SwitchStmt); ok && sw.Tag != nil && opT != nil && types.Identical(linfo.TypeOf(sw.Tag), opT) {
								cc = c
								break
							}
						}
					}
					if cc == nil {
						outside = true
						continue
					}
					h := byClause[cc]
					if h == nil {
						h = &handler{clause: cc}
						byClause[cc] = h
						handlers = append(handlers, h)
						ast.Inspect(cc, func(m ast.Node) bool {
							if as, ok := m.(*ast.AssignStmt); ok {
								for _, l := range as.Lhs {
									if sel, ok := ast.Unparen(l).(*ast.SelectorExpr); ok && w.fieldOf(linfo, sel) == w.fnField && h.enter == nil {
										h.enter = as
									}
								}
							}
							return true
						})
						if h.enter == nil {
							outside = true
						}
					}
					h.ins = append(h.ins, in)
				}
			}
			// noneCreated: under env, some call handler makes the called function current without creating a renderer
			noneCreated := func(env c05wEnv) string {
				fr := role(loop)
				lg := r.P.CFGOf(loop)
				litFalse := func(l Lit) bool {
					if l.Tag != nil {
						a, ok1 := w.value(fr, l.Tag, env)
						b, ok2 := w.value(fr, l.Expr, env)
						if !ok1 || !ok2 {
							return w.mentionsFormat(fr, l.Tag) || w.mentionsFormat(fr, l.Expr)
						}
						return (a == b) != l.Truth
					}
					t := w.truth(fr, l.Expr, env)
					if t < 0 {
						return w.mentionsFormat(fr, l.Expr)
					}
					return (t == 1) != l.Truth
				}
				for _, h := range handlers {
					if len(h.clause.Body) == 0 || h.enter == nil {
						continue
					}
					from, _ := lg.Locate(h.clause.Body[0])
					to, _ := lg.Locate(h.enter)
					if from == nil || to == nil {
						continue
					}
					creates := func(b *cfg.Block) bool {
						for _, nd := range b.Nodes {
							for _, in := range h.ins {
								if containsNode(nd, in.at) {
									return true
								}
							}
						}
						return false
					}
					if lg.reachable(from, to, func(b *cfg.Block, i int) bool {
						for _, l := range lg.edgeLits(b, i) {
							if litFalse(l) {
								return true
							}
						}
						return false
					}, creates) {
						return r.P.Pos(h.clause.Pos())
					}
				}
				return ""
			}
			bad := ""
			pairs, reach := 0, 0
			for _, b := range w.bDom {
				for _, f := range w.fDom {
					for flags := 0; flags < 1<<len(w.boolFlds); flags++ {
						env := c05wEnv{b, f, flags}
						pairs++
						if !w.feasible(frA, ta, env) {
							continue
						}
						if len(callSites) > 0 {
							any := false
							for _, cs := range callSites {
								if w.feasible(cs.fr, cs.call, env) {
									any = true
								}
							}
							if !any {
								continue
							}
						}
						reach++
						for _, in := range installs {
							if !fromLoop[in.fi.Obj] || in.base != recvOf(in.fi) || in.writer == T {
								continue
							}
							if w.feasible(role(in.fi), in.at, env) && bad == "" {
								what := "over " + in.text
								if in.writer != "" {
									what = "over a new " + in.writer
								}
								bad = fmt.Sprintf("for %s the call creates the renderer %s (%s) and the return asserts its writer to be a *%s", w.envName(env), what, r.P.Pos(in.at.Pos()), T)
							}
						}
						if !guarded && !outside && bad == "" {
							if at := noneCreated(env); at != "" {
								bad = fmt.Sprintf("for %s the call handler at %s creates no renderer, the assertion is not guarded by the test that the frame's renderer differs from the current one, and the writer — the one the host passed to Run — is asserted to be a *%s", w.envName(env), at, T)
							}
						}
					}
				}
			}
			if !guarded && outside && bad == "" {
				o.Unknown("the assertion of the current renderer's writer to *%s is not guarded by the test that the frame's renderer differs from the current one, and a renderer is created outside the clauses of the interpreter loop: the rule cannot decide whether every call that reaches the assertion creates one", T)
				continue
			}
			switch {
			case bad != "":
				o.Bad("%s: the assertion fails with a *runtime.TypeAssertionError raised by the VM itself, which the panic classifier does not know, so Run panics in the host (e.g. {{ render \"x.md\" }} in a text, JS, CSS or JSON file)", bad)
			case reach == 0:
				o.Trivial("not decided: the assertion to *%s is shown reachable for none of the %d states (format operand, callee format, callee flags) — its conditions on the formats could not be evaluated", T, pairs)
			default:
				how := "guarded by the renderer-changed test"
				if !guarded {
					how = "and every call handler creates one for those states"
				}
				o.OK("reachable for %d of %d states (format operand, callee format, callee flags), and for each of them every renderer the call handlers can create is over a new %s; %s", reach, pairs, T, how)
			}
		}
	}
	r.Require(R, 3)
}

// localPairing: the assertion is on the renderer of a VM that is a local of the function.
func (w *c05w) localPairing(o *Obl, fi *FuncInfo, ta *ast.TypeAssertExpr, base types.Object, T string, installs []c05wInstall) {
	g := w.r.P.CFGOf(fi)
	// the local VM and both sites may live in a function literal (the adaptor is a closure): use its graph
	par := w.r.P.Parents(fi.File)
	lit := enclosingFuncLit(par, ta)
	if lit != nil {
		g = w.r.P.CFG(fi.Pkg.TypesInfo, fi.File, lit.Body)
	}
	var same, other []c05wInstall
	for _, in := range installs {
		if in.fi == fi && in.base == base {
			if enclosingFuncLit(par, in.at) != lit {
				o.Unknown("the renderer of %s is created in another function literal than the one asserting its writer: the rule cannot relate their conditions", base.Name())
				return
			}
			if in.writer == T {
				same = append(same, in)
			} else {
				other = append(other, in)
			}
		}
	}
	if len(other) > 0 {
		o.Bad("the renderer of %s is created over %s (%s) and its writer is asserted to be a *%s: a failed assertion is an unclassified panic of the VM itself (host panic)", base.Name(), other[0].text, w.r.P.Pos(other[0].at.Pos()), T)
		return
	}
	if len(same) == 0 {
		o.Bad("no creation of the renderer of %s over a new %s in this function: the writer asserted to be a *%s is not known to be one (a failed assertion is an unclassified panic of the VM itself: host panic)", base.Name(), T, T)
		return
	}
	// every condition guarding the creation guards the assertion too
	var lits []Lit
	for _, b := range g.G.Blocks {
		for i := range b.Succs {
			lits = append(lits, g.edgeLits(b, i)...)
		}
	}
	sameLit := func(a Lit) func(Lit) bool {
		return func(b Lit) bool {
			if a.Truth != b.Truth || (a.Tag == nil) != (b.Tag == nil) {
				return false
			}
			if a.Tag != nil && exprStr(a.Tag) != exprStr(b.Tag) {
				return false
			}
			return exprStr(a.Expr) == exprStr(b.Expr)
		}
	}
	for _, in := range same {
		missing := ""
		for _, l := range lits {
			if g.GuardedBy(in.at, sameLit(l)) && !g.GuardedBy(ta, sameLit(l)) {
				missing = exprStr(l.Expr)
				if !l.Truth {
					missing = "!(" + missing + ")"
				}
			}
		}
		if missing == "" {
			o.OK("the renderer of %s is created over a new %s under conditions that all guard the assertion", base.Name(), T)
			return
		}
		o.Bad("the renderer of %s is created over a new %s only when %s, a condition that does not guard the assertion of its writer to *%s: otherwise the renderer is nil or has another writer and the VM itself panics (unclassified: host panic)", base.Name(), T, missing, T)
		return
	}
}
