package main

// C05 R-23 (added after seeded change C05-9): an element taken out of a map or a channel is copied before it
// is stored in an operand register.
//
// A general register holds a reflect.Value. The instructions that modify a struct or an array in place
// (SetField, SetSlice, Addr, Index+Set…) call Set*/Addr on the register's value, and reflect panics with the
// plain strings "reflect: reflect.Value.SetInt using unaddressable value" / "reflect.Value.Addr of
// unaddressable value" when it is not addressable: unclassified, i.e. a fatal error re-panicked by Run into
// the host. The operand registers of an instruction (A, B, C) are chosen by the emitter, which evaluates an
// expression straight into the register of the variable or of the callee's parameter it is destined to
// whenever the kinds allow it (`f(m[k])`, `defer g(<-ch)`): nothing copies the value again before the
// interpreted code assigns one of its fields. Therefore a handler must not store into an operand register
// of its own instruction a value that reflect hands out as never addressable and whose type the program
// chooses: the element of a map (Value.MapIndex, MapIter.Key/Value), the element received from a channel
// (Value.Recv, Value.TryRecv, reflect.Select) and the zero value standing for a missing one (reflect.Zero).
// It must first be copied into reflect.New(T).Elem() (inline, or by a helper that does so for the Array and
// Struct kinds), or the store must be on a path where the kind of the value is neither Array nor Struct.
//
// Evaluation (syntax only): for every call, in a clause of the opcode switch (or in a function of the
// package the clause hands an operand register to), of a VM method (int8, reflect.Value) whose register
// argument is an operand of the running instruction, the origins of the value argument are followed through
// local assignments, tuple results, Index/Field selections and the return statements of package functions
// (with their parameters bound to the arguments). An origin that is one of the sources above, not cut by a
// kind test, is a violation. When a store is bad the emitter is consulted for a site that passes a register
// received from its caller as that operand, which is quoted in the finding.
//
// Not covered: the value stored by the Select instruction goes to the operand of ANOTHER instruction (the
// Case before it), which the emitter binds to a pseudo-variable that is only read; results of native calls
// (stored at fixed registers of the callee's frame and moved by the emitter).

import (
	"go/ast"
	"go/token"
	"go/types"
	"sort"
	"strings"
)

func init() {
	p := registry["C05"]
	if p == nil {
		return
	}
	run := p.run
	p.run = func(r *Run) { run(r); c05AddressableOperands(r) }
	p.explain += " R-23: a handler never stores into an operand register of its instruction the element reflect took out of a map or a channel (MapIndex, MapIter.Key/Value, Recv, TryRecv, Select) or reflect.Zero as it is: such values are never addressable, the emitter targets variable and parameter registers directly, and assigning a field of that struct/array later is an unclassified reflect panic; the value is copied into reflect.New(T).Elem() first (inline or in a helper, at least for the Array and Struct kinds)."
	p.notCov = append(p.notCov, "addressability of values stored by one instruction into the operand of another (Select into its Case) and of native call results")
}

type c05Origin struct {
	what string
	pos  token.Pos
}

type c05addr struct {
	r      *Run
	valT   *types.Named
	kindT  *types.Named
	iterT  *types.Named
	byObj  map[*types.Func]*FuncInfo
	arrayK int64
	strucK int64
}

// source reports whether call (result index res) is a never-addressable container element.
func (a *c05addr) source(info *types.Info, call *ast.CallExpr, res int) string {
	f := callee(info, call)
	if f == nil || f.Pkg() == nil || f.Pkg().Path() != "reflect" {
		return ""
	}
	sig, _ := f.Type().(*types.Signature)
	if sig == nil {
		return ""
	}
	if sig.Recv() == nil {
		switch {
		case f.Name() == "Zero" && res == 0:
			return "reflect.Zero"
		case f.Name() == "Select" && res == 1:
			return "the value received by reflect.Select"
		}
		return ""
	}
	t := sig.Recv().Type()
	if p, ok := t.(*types.Pointer); ok {
		t = p.Elem()
	}
	switch {
	case types.Identical(t, a.valT) && res == 0:
		switch f.Name() {
		case "MapIndex":
			return "Value.MapIndex"
		case "Recv", "TryRecv":
			return "Value." + f.Name()
		}
	case a.iterT != nil && types.Identical(t, a.iterT) && res == 0:
		if f.Name() == "Key" || f.Name() == "Value" {
			return "MapIter." + f.Name()
		}
	}
	return ""
}

func (a *c05addr) isValueMethod(info *types.Info, call *ast.CallExpr, names ...string) bool {
	f := callee(info, call)
	if f == nil {
		return false
	}
	sig, _ := f.Type().(*types.Signature)
	if sig == nil || sig.Recv() == nil || !types.Identical(sig.Recv().Type(), a.valT) {
		return false
	}
	for _, n := range names {
		if f.Name() == n {
			return true
		}
	}
	return false
}

// kindExcluded reports whether `site` (a node of fi) is only reached when the kind of variable w is neither
// Array nor Struct: tests of w.Kind() (or of a local defined once as w.Kind()) against the two constants,
// in if/else, early return or switch form.
func (a *c05addr) kindExcluded(fi *FuncInfo, site ast.Node, w types.Object) bool {
	if w == nil {
		return false
	}
	info := fi.Pkg.TypesInfo
	defs := map[types.Object][]ast.Expr{}
	ast.Inspect(fi.Decl.Body, func(m ast.Node) bool {
		if as, ok := m.(*ast.AssignStmt); ok {
			for i, l := range as.Lhs {
				if o := objOfIdent(info, l); o != nil {
					var rhs ast.Expr
					if len(as.Lhs) == len(as.Rhs) {
						rhs = as.Rhs[i]
					}
					defs[o] = append(defs[o], rhs)
				}
			}
		}
		return true
	})
	var isKindOfW func(e ast.Expr) bool
	isKindOfW = func(e ast.Expr) bool {
		e = ast.Unparen(e)
		if id, ok := e.(*ast.Ident); ok {
			if o := info.Uses[id]; o != nil && o != w && len(defs[o]) == 1 && defs[o][0] != nil {
				return isKindOfW(defs[o][0])
			}
			return false
		}
		c, ok := e.(*ast.CallExpr)
		if !ok || !a.isValueMethod(info, c, "Kind") {
			return false
		}
		sel, ok := ast.Unparen(c.Fun).(*ast.SelectorExpr)
		return ok && objOfIdent(info, sel.X) == w
	}
	isK := func(e ast.Expr, k int64) bool {
		v, ok := intValue(info, e)
		if !ok || v != k {
			return false
		}
		t := info.TypeOf(e)
		return t != nil && types.Identical(t, a.kindT)
	}
	notKind := func(k int64) func(Lit) bool {
		return func(l Lit) bool {
			if l.Tag != nil {
				return !l.Truth && isKindOfW(l.Tag) && isK(l.Expr, k)
			}
			be, ok := ast.Unparen(l.Expr).(*ast.BinaryExpr)
			if !ok || (be.Op != token.EQL && be.Op != token.NEQ) {
				return false
			}
			if (be.Op == token.NEQ) != l.Truth {
				return false
			}
			return (isKindOfW(be.X) && isK(be.Y, k)) || (isKindOfW(be.Y) && isK(be.X, k))
		}
	}
	g := a.r.P.CFGOf(fi)
	return g.GuardedBy(site, notKind(a.arrayK)) && g.GuardedBy(site, notKind(a.strucK))
}

// origins returns the never-addressable sources that can reach expression e (result index res when e is a
// call with several results) evaluated in fi. bind gives, for the parameters of fi, the origins of the
// arguments of the call being followed.
func (a *c05addr) origins(fi *FuncInfo, e ast.Expr, res int, bind map[types.Object][]c05Origin, seen map[types.Object]bool, depth int) []c05Origin {
	if e == nil || depth > 4 {
		return nil
	}
	info := fi.Pkg.TypesInfo
	e = ast.Unparen(e)
	switch x := e.(type) {
	case *ast.Ident:
		o := info.Uses[x]
		if o == nil {
			o = info.Defs[x]
		}
		if o == nil {
			return nil
		}
		if b, ok := bind[o]; ok {
			return b
		}
		if seen[o] {
			return nil
		}
		seen[o] = true
		var out []c05Origin
		ast.Inspect(fi.Decl.Body, func(m ast.Node) bool {
			switch s := m.(type) {
			case *ast.AssignStmt:
				for i, l := range s.Lhs {
					if objOfIdent(info, l) != o {
						continue
					}
					if len(s.Lhs) == len(s.Rhs) {
						out = append(out, a.origins(fi, s.Rhs[i], 0, bind, seen, depth)...)
					} else if len(s.Rhs) == 1 {
						out = append(out, a.origins(fi, s.Rhs[0], i, bind, seen, depth)...)
					}
				}
			case *ast.ValueSpec:
				for i, id := range s.Names {
					if info.Defs[id] != o {
						continue
					}
					if len(s.Values) == len(s.Names) {
						out = append(out, a.origins(fi, s.Values[i], 0, bind, seen, depth)...)
					} else if len(s.Values) == 1 {
						out = append(out, a.origins(fi, s.Values[0], i, bind, seen, depth)...)
					}
				}
			}
			return true
		})
		return out
	case *ast.CallExpr:
		if s := a.source(info, x, res); s != "" {
			return []c05Origin{{s, x.Pos()}}
		}
		// a field or an element of a never-addressable value is not addressable either
		if a.isValueMethod(info, x, "Index", "Field") && res == 0 {
			if sel, ok := ast.Unparen(x.Fun).(*ast.SelectorExpr); ok {
				return a.origins(fi, sel.X, 0, bind, seen, depth)
			}
		}
		h := a.byObj[callee(info, x)]
		if h == nil || h.Obj == fi.Obj {
			return nil
		}
		// bind the parameters of h to the origins of the arguments
		hb := map[types.Object][]c05Origin{}
		ps := h.Obj.Type().(*types.Signature).Params()
		for i := 0; i < ps.Len() && i < len(x.Args); i++ {
			if types.Identical(ps.At(i).Type(), a.valT) {
				hb[ps.At(i)] = a.origins(fi, x.Args[i], 0, bind, seen, depth)
			}
		}
		hinfo := h.Pkg.TypesInfo
		results := h.Obj.Type().(*types.Signature).Results()
		var out []c05Origin
		var visit func(n ast.Node) bool
		visit = func(n ast.Node) bool {
			switch s := n.(type) {
			case *ast.FuncLit:
				return false
			case *ast.ReturnStmt:
				var re ast.Expr
				ri := 0
				switch {
				case len(s.Results) == 0 && res < results.Len():
					// bare return: the named result
					for id, d := range hinfo.Defs {
						if d == results.At(res) {
							re = id
						}
					}
				case len(s.Results) == results.Len() && res < len(s.Results):
					re = s.Results[res]
				case len(s.Results) == 1:
					re, ri = s.Results[0], res
				}
				if re == nil {
					return true
				}
				got := a.origins(h, re, ri, hb, map[types.Object]bool{}, depth+1)
				if len(got) > 0 && a.kindExcluded(h, s, objOfIdent(hinfo, re)) {
					got = nil
				}
				out = append(out, got...)
			}
			return true
		}
		ast.Inspect(h.Decl.Body, visit)
		return out
	}
	return nil
}

func c05AddressableOperands(r *Run) {
	const R = "R-23"
	const rel = "internal/runtime"
	a := &c05addr{r: r, byObj: map[*types.Func]*FuncInfo{}}
	a.valT = r.P.ExtNamed("reflect", "Value")
	a.kindT = r.P.ExtNamed("reflect", "Kind")
	a.iterT = r.P.ExtNamed("reflect", "MapIter")
	instrT := r.P.Named(rel, "Instruction")
	vmT := r.P.Named(rel, "VM")
	if !r.Anchor(R, "reflect.Value, reflect.Kind, runtime.Instruction, runtime.VM", a.valT != nil && a.kindT != nil && instrT != nil && vmT != nil) {
		return
	}
	a.arrayK, a.strucK = -1, -1
	for _, c := range EnumConsts(a.kindT) {
		v, _ := constantInt64(c)
		switch c.Name() {
		case "Array":
			a.arrayK = v
		case "Struct":
			a.strucK = v
		}
	}
	if !r.Anchor(R, "reflect.Array and reflect.Struct", a.arrayK >= 0 && a.strucK >= 0) {
		return
	}
	for _, fi := range r.P.Funcs(rel) {
		if !r.P.isTestFile(fi.File) && fi.Obj != nil {
			a.byObj[fi.Obj] = fi
		}
	}
	// the interpreter loop and its opcode switch
	x := &c01{r: NewRun("C01", r.Tier, r.P), rt: rel, opName: map[int64]string{}, kinds: map[string]int64{}, kindName: map[int64]string{}}
	x.opT = r.P.Named(rel, "Operation")
	if !r.Anchor(R, "runtime.Operation", x.opT != nil) {
		return
	}
	x.ops = EnumConsts(x.opT)
	for _, c := range x.ops {
		v, _ := constantInt64(c)
		x.opName[v] = c.Name()
	}
	x.findLoop()
	if !r.Anchor(R, "interpreter loop", x.run != nil) {
		return
	}
	loop := x.run
	info := loop.Pkg.TypesInfo
	// the operands of the running instruction: locals assigned from fields of an Instruction value
	int8T := types.Typ[types.Int8]
	operand := map[types.Object]string{}
	ast.Inspect(loop.Decl.Body, func(m ast.Node) bool {
		as, ok := m.(*ast.AssignStmt)
		if !ok || len(as.Lhs) != len(as.Rhs) {
			return true
		}
		for i, rh := range as.Rhs {
			sel, ok := ast.Unparen(rh).(*ast.SelectorExpr)
			if !ok {
				continue
			}
			if t := info.TypeOf(sel.X); t == nil || !types.Identical(t, instrT) {
				continue
			}
			// only the instruction being executed: vm.fn.Body[vm.pc] read into a local at the top of the loop
			if _, isIdent := ast.Unparen(sel.X).(*ast.Ident); !isIdent {
				continue
			}
			if o := objOfIdent(info, as.Lhs[i]); o != nil && types.Identical(o.Type(), int8T) {
				operand[o] = sel.Sel.Name
			}
		}
		return true
	})
	if !r.Anchor(R, "locals of the loop holding the operands of the running instruction", len(operand) >= 3) {
		return
	}
	// the register stores: methods of VM taking (int8, reflect.Value)
	isStore := func(f *types.Func) bool {
		if f == nil {
			return false
		}
		sig, _ := f.Type().(*types.Signature)
		if sig == nil || sig.Recv() == nil || sig.Params().Len() != 2 {
			return false
		}
		t := sig.Recv().Type()
		if p, ok := t.(*types.Pointer); ok {
			t = p.Elem()
		}
		return types.Identical(t, vmT) && types.Identical(sig.Params().At(0).Type(), int8T) && types.Identical(sig.Params().At(1).Type(), a.valT)
	}
	nStores := 0
	for f := range a.byObj {
		if isStore(f) {
			nStores++
		}
	}
	if !r.Anchor(R, "VM methods storing a reflect.Value into a register", nStores > 0) {
		return
	}
	type sink struct {
		fi    *FuncInfo
		call  *ast.CallExpr
		field string
		bind  map[types.Object][]c05Origin
		via   string
	}
	// sinksIn collects the stores whose register is an operand, in node `scope` of fi; regOf maps the
	// objects of fi that hold an operand register to the operand's field.
	var sinksIn func(fi *FuncInfo, scope ast.Node, regOf map[types.Object]string, bind map[types.Object][]c05Origin, via string, depth int) []sink
	sinksIn = func(fi *FuncInfo, scope ast.Node, regOf map[types.Object]string, bind map[types.Object][]c05Origin, via string, depth int) []sink {
		in := fi.Pkg.TypesInfo
		var out []sink
		for _, c := range calls(scope, true) {
			f := callee(in, c)
			if f == nil {
				continue
			}
			if isStore(f) && len(c.Args) == 2 {
				if fld, ok := regOf[objOfIdent(in, c.Args[0])]; ok {
					out = append(out, sink{fi, c, fld, bind, via})
				}
				continue
			}
			h := a.byObj[f]
			if h == nil || h.Obj == fi.Obj || h.Obj == loop.Obj || depth >= 2 {
				continue
			}
			// the clause hands an operand register to a function of the package
			ps := h.Obj.Type().(*types.Signature).Params()
			hreg := map[types.Object]string{}
			hb := map[types.Object][]c05Origin{}
			for i := 0; i < ps.Len() && i < len(c.Args); i++ {
				if fld, ok := regOf[objOfIdent(in, c.Args[i])]; ok && types.Identical(ps.At(i).Type(), int8T) {
					hreg[ps.At(i)] = fld
				}
			}
			if len(hreg) == 0 {
				continue
			}
			for i := 0; i < ps.Len() && i < len(c.Args); i++ {
				if types.Identical(ps.At(i).Type(), a.valT) {
					hb[ps.At(i)] = a.origins(fi, c.Args[i], 0, bind, map[types.Object]bool{}, 0)
				}
			}
			out = append(out, sinksIn(h, h.Decl.Body, hreg, hb, h.Name(), depth+1)...)
		}
		return out
	}
	n := 0
	for _, h := range x.handlers() {
		var ss []sink
		for _, st := range h.clause.Body {
			ss = append(ss, sinksIn(loop, st, operand, nil, "", 0)...)
		}
		for _, s := range ss {
			n++
			key := x.key(x.label(h.first) + ":store(" + s.field + ")")
			o := r.Ob(R, key, s.call.Pos())
			got := a.origins(s.fi, s.call.Args[1], 0, s.bind, map[types.Object]bool{}, 0)
			if len(got) > 0 && a.kindExcluded(s.fi, s.call, objOfIdent(s.fi.Pkg.TypesInfo, s.call.Args[1])) {
				got = nil
			}
			if len(got) == 0 {
				o.OK("the value stored in operand %s is not an uncopied element of a map or a channel", s.field)
				continue
			}
			var srcs []string
			seenSrc := map[string]bool{}
			for _, g := range got {
				d := g.what + " (" + r.P.Pos(g.pos) + ")"
				if !seenSrc[d] {
					seenSrc[d] = true
					srcs = append(srcs, d)
				}
			}
			sort.Strings(srcs)
			where := ""
			if s.via != "" {
				where = " (in " + s.via + ")"
			}
			emit := c05EmitterTargets(r, h.labels, s.field)
			if emit == "" {
				o.Unknown("the handler stores%s in operand %s the result of %s as it is — never addressable; no emitter site passing a register received from its caller as that operand was found, so it cannot be confirmed that a variable's register is reached", where, s.field, strings.Join(srcs, ", "))
				continue
			}
			o.Bad("the handler stores%s in operand %s the result of %s as it is: reflect never makes that value addressable, and the emitter passes the destination register it received from its caller as that operand (%s), e.g. the register of a callee's parameter; for a struct or array element (`f(m[k])`, `defer g(<-ch)` with f assigning a field of its parameter) the next SetField/SetSlice/Addr panics with \"reflect.Value.Set… using unaddressable value\", which is unclassified: Run panics in the host. Copy it into reflect.New(T).Elem() first", where, s.field, strings.Join(srcs, ", "), emit)
		}
	}
	r.Require(R, 25)
}

// c05EmitterTargets looks in package compiler for a call of an instruction builder (a function holding a
// runtime.Instruction literal whose opcode can be one of ops and whose field `field` is one of its
// parameters) that passes, as that parameter, a register the calling function does not own: one it received
// as a parameter (directly or through a local assigned from it) or the register of a named variable (looked
// up by name, or bound to a name). It returns the position of such a call, or "".
func c05EmitterTargets(r *Run, ops []int64, field string) string {
	const rt, cp = "internal/runtime", "internal/compiler"
	instrT := r.P.Named(rt, "Instruction")
	opT := r.P.Named(rt, "Operation")
	if instrT == nil || opT == nil || r.P.Pkg(cp) == nil {
		return ""
	}
	want := map[int64]bool{}
	for _, v := range ops {
		if v < 0 {
			v = -v
		}
		want[v] = true
	}
	type target struct {
		fn  *types.Func
		idx int
	}
	var targets []target
	fns := r.P.Funcs(cp)
	for _, fi := range fns {
		if r.P.isTestFile(fi.File) || fi.Obj == nil {
			continue
		}
		info := fi.Pkg.TypesInfo
		params := fi.Obj.Type().(*types.Signature).Params()
		paramIdx := func(e ast.Expr) int {
			o := objOfIdent(info, e)
			for i := 0; o != nil && i < params.Len(); i++ {
				if params.At(i) == o {
					return i
				}
			}
			return -1
		}
		// opcode constants assigned to locals of this function
		localOps := map[types.Object]map[int64]bool{}
		ast.Inspect(fi.Decl.Body, func(m ast.Node) bool {
			as, ok := m.(*ast.AssignStmt)
			if !ok || len(as.Lhs) != len(as.Rhs) {
				return true
			}
			for i, l := range as.Lhs {
				o := objOfIdent(info, l)
				if o == nil || !types.Identical(o.Type(), opT) {
					continue
				}
				if v, ok := intValue(info, as.Rhs[i]); ok {
					if v < 0 {
						v = -v
					}
					if localOps[o] == nil {
						localOps[o] = map[int64]bool{}
					}
					localOps[o][v] = true
				}
			}
			return true
		})
		ast.Inspect(fi.Decl.Body, func(m ast.Node) bool {
			cl, ok := m.(*ast.CompositeLit)
			if !ok || !types.Identical(info.TypeOf(cl), instrT) {
				return true
			}
			opOK := false
			pi := -1
			for _, el := range cl.Elts {
				kv, ok := el.(*ast.KeyValueExpr)
				if !ok {
					return true
				}
				k, _ := kv.Key.(*ast.Ident)
				if k == nil {
					continue
				}
				switch k.Name {
				case "Op":
					if v, ok := intValue(info, kv.Value); ok {
						if v < 0 {
							v = -v
						}
						opOK = want[v]
					} else if o := objOfIdent(info, kv.Value); o != nil {
						for v := range localOps[o] {
							if want[v] {
								opOK = true
							}
						}
					}
				case field:
					pi = paramIdx(kv.Value)
				}
			}
			if opOK && pi >= 0 {
				targets = append(targets, target{fi.Obj, pi})
			}
			return true
		})
	}
	for _, fi := range fns {
		if r.P.isTestFile(fi.File) || fi.Obj == nil {
			continue
		}
		info := fi.Pkg.TypesInfo
		params := fi.Obj.Type().(*types.Signature).Params()
		isParam := func(o types.Object) bool {
			for i := 0; o != nil && i < params.Len(); i++ {
				if params.At(i) == o {
					return true
				}
			}
			return false
		}
		fromParam := func(e ast.Expr) bool {
			o := objOfIdent(info, e)
			if o == nil {
				return false
			}
			if isParam(o) {
				return true
			}
			// a local assigned from a parameter, or the register of a named variable: assigned from a
			// lookup func(string) int8, or bound by a func(string, int8)
			found := false
			ast.Inspect(fi.Decl.Body, func(m ast.Node) bool {
				switch x := m.(type) {
				case *ast.AssignStmt:
					if len(x.Lhs) != len(x.Rhs) {
						break
					}
					for i, l := range x.Lhs {
						if objOfIdent(info, l) != o {
							continue
						}
						if isParam(objOfIdent(info, x.Rhs[i])) {
							found = true
						}
						if c, ok := ast.Unparen(x.Rhs[i]).(*ast.CallExpr); ok && len(c.Args) == 1 {
							if t, ok := info.TypeOf(c.Args[0]).(*types.Basic); ok && t.Info()&types.IsString != 0 {
								found = true
							}
						}
					}
				case *ast.CallExpr:
					if len(x.Args) == 2 && objOfIdent(info, x.Args[1]) == o {
						if t, ok := info.TypeOf(x.Args[0]).(*types.Basic); ok && t.Info()&types.IsString != 0 {
							found = true
						}
					}
				}
				return !found
			})
			return found
		}
		for _, c := range calls(fi.Decl.Body, true) {
			f := callee(info, c)
			for _, t := range targets {
				if f == t.fn && t.idx < len(c.Args) && fromParam(c.Args[t.idx]) {
					return r.P.Pos(c.Pos()) + ", in " + fi.Name()
				}
			}
		}
	}
	return ""
}
