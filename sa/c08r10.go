package main

// C08 R-10 (added after seeded change C08-6): `omitempty` leaves out exactly the values encoding/json
// calls empty.
//
// The property promises, for the JSON (and JS) context, the data encoding/json would produce, json tags
// honoured. For `omitempty` encoding/json defines empty kind by kind, and the kinds split in three groups
// for which the tests are NOT interchangeable:
//
//	array, map, slice (string)   empty  <=>  Len() == 0     (IsZero: a non-nil empty map/slice is not zero,
//	                                                         an array of zeros is zero; IsNil: same for maps)
//	bool, numbers, interface,    empty  <=>  zero / nil
//	pointer
//	struct                       never empty                 (IsZero would drop a zero time.Time, a zero struct)
//
// The function the serialisers consult for omitempty (by role: the func(reflect.Value) bool of package
// runtime called in the struct clause of the functions Show dispatches ContextJS / ContextJSON to) is read
// as a table kind -> test, for the kinds the static check accepts in JS/JSON, and compared with that.
// Accepted spellings: a switch on v.Kind() whose clauses return or assign the named result; tests
// v.Len() == 0, v.IsNil(), v.IsZero(), !v.Bool(), v.Int()/Uint()/Float() == 0, v.String() == "", len==0 via
// `<= 0` / `< 1`; the result after the switch (`return false`, a bare return of the named result) for kinds
// without clause.

import (
	"go/ast"
	"go/constant"
	"go/token"
	"go/types"
	"sort"
	"strings"
)

func init() {
	p := registry["C08"]
	if p == nil {
		return
	}
	run := p.run
	p.run = func(r *Run) { run(r); c08OmitEmpty(r) }
	p.explain += " R-10: the emptiness test behind `omitempty` decides arrays, maps and slices by length, scalars, interfaces and pointers by zero/nil, and never omits a struct — encoding/json's definition, kind by kind."
}

func c08OmitEmpty(r *Run) {
	const R = "R-10"
	x := c06ShowTable(r, R)
	if x == nil {
		return
	}
	kindT := r.P.ExtNamed("reflect", "Kind")
	if !r.Anchor(R, "reflect.Kind", kindT != nil) {
		return
	}
	// the emptiness functions, by role
	empt := map[*types.Func]*FuncInfo{}
	for name, ctxs := range x.ctxFuncs {
		isSer := false
		for _, c := range ctxs {
			if c == "ContextJS" || c == "ContextJSON" {
				isSer = true
			}
		}
		fi := x.funcs[name]
		if !isSer || fi == nil {
			continue
		}
		info := fi.Pkg.TypesInfo
		for _, c := range calls(fi.Decl.Body, false) {
			fn := callee(info, c)
			if fn == nil || fn.Pkg() != fi.Obj.Pkg() || len(c.Args) != 1 {
				continue
			}
			sig := fn.Type().(*types.Signature)
			if sig.Recv() != nil || sig.Params().Len() != 1 || sig.Results().Len() != 1 ||
				typeStr(sig.Params().At(0).Type()) != "reflect.Value" || typeStr(sig.Results().At(0).Type()) != "bool" {
				continue
			}
			if ef := c06FuncInfoOf(r.P, fn); ef != nil {
				empt[fn] = ef
			}
		}
	}
	if !r.Anchor(R, "the func(reflect.Value) bool the JS/JSON serialisers consult for omitempty (isEmptyValue)", len(empt) > 0) {
		return
	}
	want := map[string][]string{
		"Array": {"len0"}, "Map": {"len0"}, "Slice": {"len0"}, "String": {"len0", "zero"},
		"Bool": {"zero"}, "Int": {"zero"}, "Int8": {"zero"}, "Int16": {"zero"}, "Int32": {"zero"}, "Int64": {"zero"},
		"Uint": {"zero"}, "Uint8": {"zero"}, "Uint16": {"zero"}, "Uint32": {"zero"}, "Uint64": {"zero"}, "Uintptr": {"zero"},
		"Float32": {"zero"}, "Float64": {"zero"},
		"Interface": {"nil", "zero"}, "Pointer": {"nil", "zero"},
		"Struct": {"never"},
	}
	why := map[string]string{
		"Array":  "encoding/json omits an array only when its length is 0: an array of zero elements ([2]int{0,0}) must be written",
		"Map":    "encoding/json omits a map when its length is 0: an empty, non-nil map must be omitted (IsZero / IsNil keep it as {})",
		"Slice":  "encoding/json omits a slice when its length is 0: an empty, non-nil slice must be omitted",
		"Struct": "encoding/json never omits a struct: a zero struct (a zero time.Time) must be written",
	}
	var fns []*FuncInfo
	for _, fi := range empt {
		fns = append(fns, fi)
	}
	sort.Slice(fns, func(i, j int) bool { return fns[i].Decl.Pos() < fns[j].Decl.Pos() })
	for _, fi := range fns {
		info := fi.Pkg.TypesInfo
		param := fi.Obj.Type().(*types.Signature).Params().At(0)
		var named types.Object
		if res := fi.Obj.Type().(*types.Signature).Results().At(0); res.Name() != "" {
			named = res
		}
		var sw *ast.SwitchStmt
		for _, s := range switchesOn(info, fi.Decl.Body, kindT) {
			tag := ast.Unparen(s.Tag)
			if id, ok := tag.(*ast.Ident); ok {
				// kind := v.Kind(); switch kind { … }
				if def := c09singleDef(info, fi.Decl.Body, info.Uses[id]); def != nil {
					tag = ast.Unparen(def)
				}
			}
			if c, ok := tag.(*ast.CallExpr); ok {
				if sel, ok := c.Fun.(*ast.SelectorExpr); ok && sel.Sel.Name == "Kind" && objOfIdent(info, sel.X) == types.Object(param) && sw == nil {
					sw = s
				}
			}
		}
		if sw == nil {
			r.Ob(R, fi.Name()+"#kind-switch", fi.Decl.Pos()).Unknown("%s does not switch on the kind of its argument: its table kind -> test is not read", fi.Name())
			continue
		}
		cl := &c08emptyReader{info: info, param: param, named: named}
		// the result for kinds without clause: the default clause, else what follows the switch
		after := cl.after(fi.Decl.Body, sw)
		cov := coverOfSwitch(info, sw)
		kinds := EnumConsts(kindT)
		done := map[string]bool{}
		for _, kc := range kinds {
			name := kc.Name()
			if name == "Ptr" {
				name = "Pointer"
			}
			allowed, ok := want[name]
			if !ok || done[name] {
				continue
			}
			done[name] = true
			v, _ := constantInt64(kc)
			var got []string
			pos := sw.Pos()
			switch {
			case cov.Vals[v] != nil:
				got = cl.clause(cov.Vals[v], after)
				pos = cov.Vals[v].Pos()
			case cov.Default != nil:
				got = cl.clause(cov.Default, after)
				pos = cov.Default.Pos()
			default:
				got = after
			}
			o := r.Ob(R, fi.Name()+"#empty:"+name, pos)
			if len(got) == 0 {
				o.Unknown("the emptiness test of kind %s is not read", name)
				continue
			}
			bad, unk := "", false
			distinct := map[string]bool{}
			for _, g := range got {
				distinct[g] = true
			}
			if len(distinct) > 1 {
				// several answers under conditions this rule does not follow
				o.Unknown("kind %s is answered with several tests (%s) depending on conditions this rule does not read", name, strings.Join(got, ", "))
				continue
			}
			for _, g := range got {
				if g == "?" {
					unk = true
					continue
				}
				okk := false
				for _, a := range allowed {
					if a == g {
						okk = true
					}
				}
				if !okk {
					bad = g
				}
			}
			switch {
			case bad != "":
				reason := why[name]
				if reason == "" {
					reason = "encoding/json omits a value of this kind exactly when it is zero / nil"
				}
				o.Bad("for `omitempty`, %s decides a %s by %s instead of %s: %s — the JS/JSON text stays valid but is not the data encoding/json produces", fi.Name(), name, c08testName(bad), c08testNames(allowed), reason)
			case unk:
				o.Unknown("the emptiness test of kind %s has a part this rule does not read (%s)", name, strings.Join(got, ", "))
			default:
				o.OK("%s is decided by %s", name, c08testNames(got))
			}
		}
	}
	r.Require(R, 21)
}

func c08testName(s string) string {
	switch s {
	case "len0":
		return "length 0"
	case "zero":
		return "the zero value"
	case "nil":
		return "IsNil"
	case "never":
		return "never empty"
	case "always":
		return "always empty"
	}
	return s
}

func c08testNames(ss []string) string {
	var out []string
	seen := map[string]bool{}
	for _, s := range ss {
		if !seen[s] {
			seen[s] = true
			out = append(out, c08testName(s))
		}
	}
	return strings.Join(out, " or ")
}

type c08emptyReader struct {
	info  *types.Info
	param types.Object
	named types.Object
}

// test classifies one boolean result expression.
func (c *c08emptyReader) test(e ast.Expr) string {
	e = ast.Unparen(e)
	if tv, ok := c.info.Types[e]; ok && tv.Value != nil && tv.Value.Kind() == constant.Bool {
		if constant.BoolVal(tv.Value) {
			return "always"
		}
		return "never"
	}
	method := func(x ast.Expr) string {
		call, ok := ast.Unparen(x).(*ast.CallExpr)
		if !ok {
			return ""
		}
		if isBuiltinCall(c.info, call, "len") && len(call.Args) == 1 {
			// len(v.String()) / len(v.Bytes())
			if inner, ok := ast.Unparen(call.Args[0]).(*ast.CallExpr); ok {
				if sel, ok := inner.Fun.(*ast.SelectorExpr); ok && objOfIdent(c.info, sel.X) == c.param {
					return "Len"
				}
			}
			return ""
		}
		sel, ok := call.Fun.(*ast.SelectorExpr)
		if !ok || objOfIdent(c.info, sel.X) != c.param || len(call.Args) != 0 {
			return ""
		}
		return sel.Sel.Name
	}
	switch x := e.(type) {
	case *ast.CallExpr:
		switch method(x) {
		case "IsNil":
			return "nil"
		case "IsZero":
			return "zero"
		}
	case *ast.UnaryExpr:
		if x.Op == token.NOT && method(x.X) == "Bool" {
			return "zero"
		}
	case *ast.BinaryExpr:
		for _, sides := range [][2]ast.Expr{{x.X, x.Y}, {x.Y, x.X}} {
			m := method(sides[0])
			if m == "" {
				continue
			}
			tv, ok := c.info.Types[sides[1]]
			if !ok || tv.Value == nil {
				continue
			}
			isVar := func(q ast.Expr) bool { return ast.Unparen(q) == ast.Unparen(sides[0]) }
			switch m {
			case "Len":
				// holds exactly for 0 over the lengths 0..3
				set, ok := predSet(c.info, e, isVar, 0, 3)
				if ok && len(set) == 1 && set[0] {
					return "len0"
				}
			case "Int", "Uint", "Float", "Complex":
				if k := tv.Value.Kind(); x.Op == token.EQL && (k == constant.Int || k == constant.Float || k == constant.Complex) && constant.Sign(tv.Value) == 0 {
					return "zero"
				}
			case "Bool":
				if tv.Value.Kind() == constant.Bool && ((x.Op == token.EQL && !constant.BoolVal(tv.Value)) || (x.Op == token.NEQ && constant.BoolVal(tv.Value))) {
					return "zero"
				}
			case "String":
				if x.Op == token.EQL && tv.Value.Kind() == constant.String && constant.StringVal(tv.Value) == "" {
					return "zero"
				}
			}
		}
	}
	return "?"
}

// results lists the tests a statement list can answer with: returned expressions and assignments to the
// named result; falls reports whether the end of the list can be reached (then `after` applies).
func (c *c08emptyReader) results(list []ast.Stmt) (out []string, falls bool) {
	falls = true
	assigned := false
	for _, st := range list {
		ast.Inspect(st, func(n ast.Node) bool {
			switch s := n.(type) {
			case *ast.FuncLit:
				return false
			case *ast.ReturnStmt:
				if len(s.Results) == 1 {
					out = append(out, c.test(s.Results[0]))
				} else if len(s.Results) == 0 && !assigned {
					out = append(out, "never") // bare return of the zero named result
				}
			case *ast.AssignStmt:
				for i, l := range s.Lhs {
					if c.named != nil && objOfIdent(c.info, l) == c.named && len(s.Lhs) == len(s.Rhs) {
						out = append(out, c.test(s.Rhs[i]))
						assigned = true
					}
				}
			}
			return true
		})
		if _, ok := st.(*ast.ReturnStmt); ok {
			falls = false
		}
	}
	if assigned {
		// the clause sets the named result and leaves the switch: what follows must be a bare return
		falls = false
	}
	return
}

func (c *c08emptyReader) clause(cc *ast.CaseClause, after []string) []string {
	out, falls := c.results(cc.Body)
	if falls {
		out = append(out, after...)
	}
	return out
}

// after reads the statements that follow the kind switch at the top level of the function.
func (c *c08emptyReader) after(body *ast.BlockStmt, sw *ast.SwitchStmt) []string {
	for i, st := range body.List {
		if st == ast.Stmt(sw) {
			out, falls := c.results(body.List[i+1:])
			if falls && len(out) == 0 {
				return []string{"never"} // falls off with the zero named result
			}
			return out
		}
	}
	return []string{"?"}
}
