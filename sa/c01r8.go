package main

// C01 R-8 (added after a repair: an unlabelled `break` in a for range nested in a for / switch / select
// left the OUTER statement): the emitter's break scope is opened and closed by every statement a break can
// refer to. The emitter keeps, in a field of boolean type consulted by the case that compiles *ast.Break,
// whether the innermost enclosing breakable statement is a "goto" one (for, switch, type switch, select) or
// a range loop. By the Go specification a break terminates the innermost for, switch or select statement,
// so each of the clauses of the statement emitter for *ast.For, *ast.ForRange, *ast.Switch, *ast.TypeSwitch
// and *ast.Select — or the method the clause delegates to — saves that field in a local, assigns it, and
// restores it from the local afterwards. A clause that does not inherits the state of the statement that
// encloses it, and the break is compiled for the wrong statement.

import (
	"go/ast"
	"go/token"
	"go/types"
	"sort"
	"strings"
)

func init() {
	p := registry["C01"]
	if p == nil {
		return
	}
	run := p.run
	p.run = func(r *Run) {
		run(r)
		if r.P.Arch == "" {
			c01BreakScopes(r)
		}
	}
	p.explain += " R-8: every statement a break can refer to (for, for range, switch, type switch, select) saves, sets and restores the emitter's break-scope flag."
}

func c01BreakScopes(r *Run) {
	const R = "R-8"
	const rel = "internal/compiler"
	byObj := map[*types.Func]*FuncInfo{}
	var fns []*FuncInfo
	for _, fi := range r.P.Funcs(rel) {
		if r.P.isTestFile(fi.File) || fi.Obj == nil {
			continue
		}
		byObj[fi.Obj] = fi
		fns = append(fns, fi)
	}
	// the statement emitter: the function with a type switch having clauses for *ast.Break and *ast.For
	var em *FuncInfo
	var ts *ast.TypeSwitchStmt
	var flag *types.Var
	for _, fi := range fns {
		info := fi.Pkg.TypesInfo
		ast.Inspect(fi.Decl.Body, func(m ast.Node) bool {
			sw, ok := m.(*ast.TypeSwitchStmt)
			if !ok {
				return true
			}
			var brk *ast.CaseClause
			hasFor := false
			for _, st := range sw.Body.List {
				cc := st.(*ast.CaseClause)
				for _, e := range cc.List {
					switch typeStr(info.TypeOf(e)) {
					case "*ast.Break":
						brk = cc
					case "*ast.For":
						hasFor = true
					}
				}
			}
			if brk == nil || !hasFor {
				return true
			}
			// the flag: a boolean field of the receiver tested by the first if of the Break clause
			ast.Inspect(brk, func(q ast.Node) bool {
				is, ok := q.(*ast.IfStmt)
				if !ok || flag != nil {
					return true
				}
				if sel, ok := ast.Unparen(is.Cond).(*ast.SelectorExpr); ok {
					if s, ok := info.Selections[sel]; ok {
						if v, ok := s.Obj().(*types.Var); ok && v.IsField() {
							if b, ok := v.Type().Underlying().(*types.Basic); ok && b.Kind() == types.Bool {
								flag = v
							}
						}
					}
				}
				return true
			})
			if flag != nil {
				em, ts = fi, sw
			}
			return true
		})
	}
	if !r.Anchor(R, "the statement emitter (type switch with clauses for *ast.Break and *ast.For) and its break-scope flag", em != nil && flag != nil) {
		return
	}
	info := em.Pkg.TypesInfo
	want := map[string]bool{"*ast.For": true, "*ast.ForRange": true, "*ast.Switch": true, "*ast.TypeSwitch": true, "*ast.Select": true}
	seen := map[string]bool{}
	isFlag := func(inf *types.Info, e ast.Expr) bool {
		sel, ok := ast.Unparen(e).(*ast.SelectorExpr)
		if !ok {
			return false
		}
		s, ok := inf.Selections[sel]
		return ok && s.Obj() == types.Object(flag)
	}
	// scopeDiscipline: save < set < restore inside body
	scopeDiscipline := func(inf *types.Info, body ast.Node) (bool, string) {
		var saves []types.Object
		var savePos, setPos, restorePos token.Pos
		ast.Inspect(body, func(m ast.Node) bool {
			as, ok := m.(*ast.AssignStmt)
			if !ok || len(as.Lhs) != len(as.Rhs) {
				return true
			}
			for i := range as.Lhs {
				switch {
				case isFlag(inf, as.Rhs[i]):
					if o := objOfIdent(inf, as.Lhs[i]); o != nil {
						saves = append(saves, o)
						if savePos == 0 {
							savePos = as.Pos()
						}
					}
				case isFlag(inf, as.Lhs[i]):
					restored := false
					for _, sv := range saves {
						if objOfIdent(inf, as.Rhs[i]) == sv {
							restored = true
						}
					}
					if restored {
						restorePos = as.Pos()
					} else if setPos == 0 {
						setPos = as.Pos()
					}
				}
			}
			return true
		})
		switch {
		case savePos == 0:
			return false, "the flag is never saved"
		case setPos == 0:
			return false, "the flag is saved but never assigned"
		case restorePos == 0:
			return false, "the flag is assigned but never restored from the saved value"
		case !(savePos < setPos && setPos < restorePos):
			return false, "save, assignment and restore are not in this order"
		}
		return true, ""
	}
	for _, st := range ts.Body.List {
		cc := st.(*ast.CaseClause)
		for _, e := range cc.List {
			tn := typeStr(info.TypeOf(e))
			if !want[tn] {
				continue
			}
			seen[tn] = true
			o := r.Ob(R, em.Name()+"#case "+tn+":break-scope", cc.Pos())
			ok, why := scopeDiscipline(info, cc)
			if !ok {
				// a clause that delegates: look into the module functions it calls
				for _, c := range calls(cc, false) {
					if g := callee(info, c); g != nil && byObj[g] != nil {
						if ok2, _ := scopeDiscipline(byObj[g].Pkg.TypesInfo, byObj[g].Decl.Body); ok2 {
							ok = true
							why = "in " + byObj[g].Name()
						}
					}
				}
			}
			if ok {
				o.OK("the break-scope flag %s is saved, assigned and restored %s", flag.Name(), why)
			} else {
				o.Bad("the clause that compiles %s does not open its own break scope (%s): a break inside it is compiled with the state of the statement that encloses it and terminates the wrong statement", strings.TrimPrefix(tn, "*ast."), why)
			}
		}
	}
	var missing []string
	for tn := range want {
		if !seen[tn] {
			missing = append(missing, tn)
		}
	}
	sort.Strings(missing)
	for _, tn := range missing {
		r.Ob(R, em.Name()+"#case "+tn+":break-scope", ts.Pos()).Unknown("the statement emitter has no clause for %s", tn)
	}
	r.Require(R, 5)
}
