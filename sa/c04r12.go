package main

// C04 R-12: a lexer context stored in a tree node as a format is one of the formats.
//
// ast.Context (where in the document a statement sits: text, HTML, … Markdown, then tag, quoted attribute,
// JavaScript string, tab code block, … — 14 values) and ast.Format (the six content formats) share their
// first values, and the parser converts the context of a token into the Format of the node it builds
// (ast.NewUsing, ast.NewFunc). The type checker and the emitter use a node's Format as an index of tables
// with one entry per format (formatTypeName, the format types): a Format made from a context that is not a
// content format is an index out of range, a run-time panic that leaves BuildTemplate.
//
// Obligation: every conversion ast.Format(c) of an ast.Context c, in package compiler, whose result goes
// into a tree node (an argument of a function of package ast, a field of a type of package ast, an element
// of a composite literal of such a type). The control-flow graph of the function is specialised, in turn,
// to each Context constant v that is not a Format: an edge is not taken when its condition on c is false
// for v — comparisons of c with constants in either operand order, && / || / !, the cases of a switch on
// c, the equality of c with the conversion of a Format (`c == ast.Context(p.format)`), a boolean local
// defined once from such a condition — and a path ends at a call of a function of the package that never
// returns when the corresponding parameter is v (a checking helper that panics). For no such v may the
// conversion be reachable AND a return of the function be reachable from it (so the guard may come before
// or after the node is built, as an if, a switch or a helper).
//
// Sites whose context is a format by an invariant of the lexer and of the statement dispatcher that cannot
// be read inside the function are listed below, one reason each, confirmed by reading and by probing.

import (
	"go/ast"
	"go/token"
	"go/types"
	"strings"

	"golang.org/x/tools/go/cfg"
)

var c04R12Exceptions = map[string]string{
	"compiler.(*parsing).parseDistFreeMacro#context-as-format:NewFunc": "parse calls parseDistFreeMacro only for a statement whose parent is the Tree of a file with extends (top level). There any text other than spaces is a syntax error ('unexpected text in file with extends') and the lexer restores, at every `{% end %}`, the context it saved at the matching `{% macro %}` (lexCode, contexts stack), so a top-level statement is always lexed in the content context of the file's format (probed: a distraction free macro declared after `{% macro B %}<a title=\"{% end %}` has Format HTML)",
	"compiler.(*parsing).parseFunc#context-as-format:NewFunc":          "the Format of a Func node indexes a table only for a macro without result type (makeMacroResultExplicit); otherwise it is only copied into runtime.Function.Format and compared. parseFunc receives a `macro` token from three places: the macro declaration statement, after `tok.ctx > ast.ContextMarkdown` and `tok.ctx != ast.Context(p.format)` have panicked; the using statement, whose own conversion of the same statement's context is a guarded obligation of this rule (every token of one {% %} statement carries the same context); the macro type of an expression, which returns the type before the node is built",
}

func init() {
	p := registry["C04"]
	if p == nil {
		return
	}
	run := p.run
	p.run = func(r *Run) { run(r); c04ContextAsFormat(r) }
	p.explain += " R-12: every conversion of a lexer context into the Format of a tree node is reached only through guards that, evaluated on the Context constants, admit content formats only (a node Format out of range indexes the per-format tables of the checker out of range)."
	p.trusted = append(p.trusted, "the reviewed exception table c04R12Exceptions (one site, one reason each)", "every token of one {% %} statement carries the same lexer context")
}

func c04ContextAsFormat(r *Run) {
	const R = "R-12"
	ctxT := r.P.Named("ast", "Context")
	fmtT := r.P.Named("ast", "Format")
	if !r.Anchor(R, "ast.Context and ast.Format", ctxT != nil && fmtT != nil) {
		return
	}
	astPkg := ctxT.Obj().Pkg()
	valid := map[int64]bool{}
	for _, c := range EnumConsts(fmtT) {
		if v, ok := constantInt64(c); ok {
			valid[v] = true
		}
	}
	var invalid []int64
	for _, c := range EnumConsts(ctxT) {
		if v, ok := constantInt64(c); ok && !valid[v] {
			invalid = append(invalid, v)
		}
	}
	if !r.Anchor(R, "contexts that are not formats (tag, attributes, strings, code blocks)", len(valid) >= 2 && len(invalid) >= 2) {
		return
	}
	used := map[string]bool{}
	byObj := map[*types.Func]*FuncInfo{}
	for _, fi := range r.P.Funcs("internal/compiler") {
		if !r.P.isTestFile(fi.File) && fi.Obj != nil {
			byObj[fi.Obj] = fi
		}
	}
	for _, fi := range r.P.Funcs("internal/compiler") {
		if r.P.isTestFile(fi.File) || fi.Obj == nil {
			continue
		}
		info := fi.Pkg.TypesInfo
		par := r.P.Parents(fi.File)
		ast.Inspect(fi.Decl.Body, func(n ast.Node) bool {
			conv, ok := n.(*ast.CallExpr)
			if !ok || len(conv.Args) != 1 {
				return true
			}
			tv, ok := info.Types[conv.Fun]
			if !ok || !tv.IsType() || !types.Identical(tv.Type, fmtT) {
				return true
			}
			if at := info.TypeOf(conv.Args[0]); at == nil || !types.Identical(at, ctxT) {
				return true
			}
			sink := c04NodeSink(info, par, conv, astPkg)
			if sink == "" {
				r.Stats[R+"_conversions_not_stored_in_a_node"]++
				return true
			}
			key := fi.Name() + "#context-as-format:" + sink
			o := r.Ob(R, key, conv.Pos())
			if why, ok := c04R12Exceptions[key]; ok && !used[key] {
				used[key] = true
				o.OK("reviewed exception: %s", why)
				return true
			}
			ctxE := ast.Unparen(conv.Args[0])
			ctxS := exprStr(ctxE)
			g := r.P.CFGOf(fi)
			blk, idx := g.Locate(conv)
			if blk == nil {
				o.Unknown("the conversion is inside a function literal: the path to it is not readable")
				return true
			}
			// for every context v that is not a format: with c == v, is the conversion reachable, and if
			// so is a return reachable from it? Edges whose condition on c is false for v are not taken,
			// and a call that never returns for v (a checking helper that panics) ends the path.
			var admitted []int64
			for _, v := range invalid {
				sp := &c04CtxSpec{r: r, g: g, fi: fi, ctxS: ctxS, v: v, valid: valid, ctxT: ctxT, fmtT: fmtT, byObj: byObj}
				if sel, ok := ctxE.(*ast.SelectorExpr); ok {
					sp.base, sp.sel = exprStr(sel.X), sel.Sel.Name
				}
				reach := true
				for _, l := range g.within(conv) {
					if sp.falseFor(l) {
						reach = false
					}
				}
				if reach {
					reach = sp.explore(g.G.Blocks[0], 0, func(b *cfg.Block, i int, _ ast.Node) bool { return b == blk && i == idx }, false)
				}
				if reach && sp.explore(blk, idx+1, func(_ *cfg.Block, _ int, n ast.Node) bool { _, isRet := n.(*ast.ReturnStmt); return isRet }, true) {
					admitted = append(admitted, v)
				}
			}
			if len(admitted) == 0 {
				o.OK("for none of the %d contexts that are not formats the conversion of %s is both reachable and followed by a return", len(invalid), ctxS)
				return true
			}
			var names []string
			for _, c := range EnumConsts(ctxT) {
				if v, ok := constantInt64(c); ok {
					for _, a := range admitted {
						if a == v {
							names = append(names, c.Name())
						}
					}
				}
			}
			admittedNames := strings.Join(names, ", ")
			o.Bad("the context %s is stored as the Format of a tree node (%s) and the function returns it also when the context is %s, which is not a format: the checker indexes its per-format tables with that Format and BuildTemplate panics with an index out of range", ctxS, sink, admittedNames)
			return true
		})
	}
	r.Require(R, 3)
}

// c04NodeSink: where the converted value goes, when that is a tree node; "" otherwise.
func c04NodeSink(info *types.Info, par map[ast.Node]ast.Node, conv *ast.CallExpr, astPkg *types.Package) string {
	var child ast.Node = conv
	p := par[conv]
	for {
		if pe, ok := p.(*ast.ParenExpr); ok {
			child, p = pe, par[pe]
			continue
		}
		break
	}
	inAst := func(t types.Type) bool {
		if pt, ok := t.(*types.Pointer); ok {
			t = pt.Elem()
		}
		nt, ok := t.(*types.Named)
		return ok && nt.Obj().Pkg() == astPkg
	}
	switch x := p.(type) {
	case *ast.CallExpr:
		if f := callee(info, x); f != nil && f.Pkg() == astPkg {
			for _, a := range x.Args {
				if a == child {
					return f.Name()
				}
			}
		}
	case *ast.AssignStmt:
		for i, rhs := range x.Rhs {
			if rhs == child && i < len(x.Lhs) && len(x.Lhs) == len(x.Rhs) {
				if sel, ok := ast.Unparen(x.Lhs[i]).(*ast.SelectorExpr); ok {
					if v, ok := info.Uses[sel.Sel].(*types.Var); ok && v.IsField() && v.Pkg() == astPkg {
						return "field " + v.Name()
					}
				}
			}
		}
	case *ast.KeyValueExpr:
		if cl, ok := par[x].(*ast.CompositeLit); ok && x.Value == child {
			if t := info.TypeOf(cl); t != nil && inAst(t) {
				return "literal " + typeStr(t)
			}
		}
	case *ast.CompositeLit:
		if t := info.TypeOf(x); t != nil && inAst(t) {
			return "literal " + typeStr(t)
		}
	}
	return ""
}

// c04CtxSpec is the control-flow graph of one function specialised to "the context expression ctxS has
// the value v".
type c04CtxSpec struct {
	r          *Run
	g          *CFGInfo
	fi         *FuncInfo
	ctxS       string // the context expression, e.g. tok.ctx
	base, sel  string // its two halves when it is a selector (tok, ctx)
	v          int64
	valid      map[int64]bool
	ctxT, fmtT *types.Named
	byObj      map[*types.Func]*FuncInfo
	depth      int
}

func (sp *c04CtxSpec) isCtx(e ast.Expr) bool { return exprStr(ast.Unparen(e)) == sp.ctxS }

// falseFor: with the context equal to v, the literal cannot hold (the edge carrying it is not taken).
func (sp *c04CtxSpec) falseFor(l Lit) bool {
	info := sp.g.Info
	if l.Tag != nil {
		if !sp.isCtx(l.Tag) {
			return false
		}
		c, ok := intValue(info, l.Expr)
		return ok && (c == sp.v) != l.Truth
	}
	// a boolean local defined once: read its definition
	if id, ok := ast.Unparen(l.Expr).(*ast.Ident); ok {
		if def := c04SingleDef(info, sp.fi, id); def != nil {
			for _, dl := range litsOf(def, nil, l.Truth) {
				if _, again := ast.Unparen(dl.Expr).(*ast.Ident); !again && sp.falseFor(dl) {
					return true
				}
			}
		}
		return false
	}
	if !mentions(l.Expr, sp.isCtx) {
		return false
	}
	// c == ast.Context(f) with f a Format: false for a context that is not a format
	if be, ok := ast.Unparen(l.Expr).(*ast.BinaryExpr); ok && ((be.Op == token.EQL && l.Truth) || (be.Op == token.NEQ && !l.Truth)) {
		for _, pair := range [][2]ast.Expr{{be.X, be.Y}, {be.Y, be.X}} {
			if !sp.isCtx(pair[0]) {
				continue
			}
			if c, ok := ast.Unparen(pair[1]).(*ast.CallExpr); ok && len(c.Args) == 1 {
				if tv, ok := info.Types[c.Fun]; ok && tv.IsType() && types.Identical(tv.Type, sp.ctxT) {
					if at := info.TypeOf(c.Args[0]); at != nil && types.Identical(at, sp.fmtT) {
						return !sp.valid[sp.v]
					}
				}
			}
		}
	}
	res, ok := evalPred(info, l.Expr, sp.isCtx, sp.v)
	return ok && res != l.Truth
}

// c04SingleDef returns the expression a local is defined from, when it is assigned exactly once.
func c04SingleDef(info *types.Info, fi *FuncInfo, id *ast.Ident) ast.Expr {
	obj, ok := info.Uses[id].(*types.Var)
	if !ok || obj.IsField() || obj.Pkg() == nil || obj.Parent() == obj.Pkg().Scope() {
		return nil
	}
	var def ast.Expr
	n := 0
	ast.Inspect(fi.Decl.Body, func(m ast.Node) bool {
		switch x := m.(type) {
		case *ast.AssignStmt:
			for i, l := range x.Lhs {
				if lid, ok := l.(*ast.Ident); ok && (info.Defs[lid] == obj || info.Uses[lid] == obj) {
					n++
					if len(x.Lhs) == len(x.Rhs) {
						def = x.Rhs[i]
					}
				}
			}
		case *ast.ValueSpec:
			for i, lid := range x.Names {
				if info.Defs[lid] == obj {
					n++
					if i < len(x.Values) {
						def = x.Values[i]
					}
				}
			}
		case *ast.UnaryExpr:
			if x.Op == token.AND {
				if lid, ok := ast.Unparen(x.X).(*ast.Ident); ok && info.Uses[lid] == obj {
					n += 2
				}
			}
		}
		return true
	})
	if n != 1 {
		return nil
	}
	return def
}

// stops: the node calls a function of the package that, given this context value, never returns (it
// panics on every path): `p.checkContentContext(tok)`.
func (sp *c04CtxSpec) stops(n ast.Node) bool {
	if sp.depth >= 2 {
		return false
	}
	info := sp.g.Info
	for _, c := range calls(n, false) {
		cfi := sp.byObj[callee(info, c)]
		if cfi == nil || cfi.Obj == sp.fi.Obj {
			continue
		}
		var params []string
		for _, f := range cfi.Decl.Type.Params.List {
			if len(f.Names) == 0 {
				params = append(params, "_")
			}
			for _, nm := range f.Names {
				params = append(params, nm.Name)
			}
		}
		for i, a := range c.Args {
			if i >= len(params) || params[i] == "_" || c.Ellipsis.IsValid() {
				continue
			}
			as := exprStr(ast.Unparen(a))
			inner := &c04CtxSpec{r: sp.r, g: sp.r.P.CFGOf(cfi), fi: cfi, v: sp.v, valid: sp.valid, ctxT: sp.ctxT, fmtT: sp.fmtT, byObj: sp.byObj, depth: sp.depth + 1}
			switch {
			case as == sp.ctxS:
				inner.ctxS = params[i]
			case sp.base != "" && as == sp.base:
				inner.ctxS, inner.base, inner.sel = params[i]+"."+sp.sel, params[i], sp.sel
			default:
				continue
			}
			if !inner.explore(inner.g.G.Blocks[0], 0, func(_ *cfg.Block, _ int, m ast.Node) bool { _, isRet := m.(*ast.ReturnStmt); return isRet }, true) {
				return true
			}
		}
	}
	return false
}

// explore walks the specialised graph from node `from` of block b and reports whether a node satisfying
// goal is reached; with endIsGoal the end of the function body (the implicit return) is a goal too.
func (sp *c04CtxSpec) explore(start *cfg.Block, from int, goal func(b *cfg.Block, i int, n ast.Node) bool, endIsGoal bool) bool {
	seen := map[*cfg.Block]bool{}
	var walk func(b *cfg.Block, from int) bool
	walk = func(b *cfg.Block, from int) bool {
		for i := from; i < len(b.Nodes); i++ {
			if goal(b, i, b.Nodes[i]) {
				return true
			}
			if sp.stops(b.Nodes[i]) {
				return false
			}
		}
		if len(b.Succs) == 0 {
			if !endIsGoal {
				return false
			}
			// no successor and no return statement: a call that does not return (panic), or the implicit
			// return at the end of the body
			if len(b.Nodes) > 0 {
				if es, ok := b.Nodes[len(b.Nodes)-1].(*ast.ExprStmt); ok {
					if c, ok := es.X.(*ast.CallExpr); ok && isBuiltinCall(sp.g.Info, c, "panic") {
						return false
					}
				}
			}
			return true
		}
		for i, s := range b.Succs {
			cut := false
			for _, l := range sp.g.edgeLits(b, i) {
				if sp.falseFor(l) {
					cut = true
				}
			}
			if cut || seen[s] {
				continue
			}
			seen[s] = true
			if walk(s, 0) {
				return true
			}
		}
		return false
	}
	return walk(start, from)
}
