package main

// C28 — cloning a tree gives an independent equal copy; walking visits every node.
//
// R-1  implementer coverage with clause order (engine E1): every concrete type of package ast
//      implementing ast.Node reaches a handling clause of the copy dispatcher and of the walker.
// R-2  field mapping of every copy clause (engine E10, abstract evaluation of the clause).
// R-2w child coverage of every walk clause (same evaluator, calls of the walker are sinks).
// R-3  nil safety: a field that some construction site of the module leaves nil is not
//      dereferenced, turned into a typed-nil interface or handed to a nil-intolerant function
//      without a dominating nil test.
//
// See DESIGN.md §5 C28, §4 E1/E10.

import (
	"fmt"
	"go/ast"
	"go/token"
	"go/types"
	"sort"
	"strings"

	"golang.org/x/tools/go/packages"
)

func init() {
	register("C28", &ruleSet{
		explain: "R-1: every concrete type of package ast implementing ast.Node (enumerated from go/types, minus the exception table) reaches, following type-switch clause order and delegation through interface clauses, a clause of the copy dispatcher (the exported astutil function Node->Node) and of the walker (the exported astutil function (visitor, Node)) that is not the panicking default. " +
			"R-2: in each copy clause the value returned is a freshly constructed record of the same type in which every field of the node struct (the embedded position, the parenthesis count, scalars, nodes, node slices, records of nodes, []byte) receives exactly the value derived from the same field of the source, and every reference-typed field only through a copy function (never the source's pointer/slice); constructor parameters are mapped to the fields they set by reading the constructors of package ast. " +
			"R-2w: in each walk clause every field holding a node, a slice of nodes or records of nodes is handed to the walker (the child itself, not only its children). " +
			"R-3: a field that a construction site of the module may leave nil is guarded by a nil test before it is dereferenced, converted to a non-nil interface holding a nil pointer, or passed to a function that does not accept nil.",
		notCov: []string{
			"that loops copy every element (only that the elements copied come from the right field)",
			"the parenthesis count of nodes built inline with a constructor in name positions (Identifier of Func.Ident, Import.Ident, Parameter.Ident), which the parser never parenthesises",
			"fields listed in the exception table (compiler scratch: IR, Func.Upvars, FuncType.Reflect; Tree.Position; Tree of Extends/Import/Render for the walker)",
			"that Walk visits a node exactly once when two different fields alias the same node",
			"nil-ness of fields that no construction site visibly leaves nil",
		},
		trusted: []string{"the constructors of package ast are plain field initialisers (read from their composite literal)", "go/types method sets and selections"},
		run:     runC28,
	})
}

// ---------------------------------------------------------------------------
// Exception table: one symbol, one reason.

var c28ExceptType = map[string]string{
	"Position": "the position record embedded in every node; it implements Node only through its own Pos method and never occurs as a tree node",
}

// fields the copy need not reproduce
var c28ExceptCloneField = map[string]string{
	"Call.IR":          "compiler scratch written by the type checker after parsing",
	"Package.IR":       "compiler scratch written by the type checker after parsing",
	"Render.IR":        "compiler scratch written by the type checker after parsing",
	"Func.Upvars":      "filled by the type checker, nil in every parsed tree",
	"FuncType.Reflect": "filled by the type checker, nil in every parsed tree",
	"Tree.Position":    "NewTree sets the fixed position 1:1 that every tree carries",
}

// fields the walker need not descend into
var c28ExceptWalkField = map[string]string{
	"Call.IR":      "compiler scratch, not part of the syntax",
	"Package.IR":   "compiler scratch, not part of the syntax",
	"Render.IR":    "compiler scratch, not part of the syntax",
	"Func.Upvars":  "compiler scratch, not part of the syntax",
	"Extends.Tree": "documented: visiting the expanded tree is the visitor's job",
	"Import.Tree":  "documented: visiting the expanded tree is the visitor's job",
	"Render.Tree":  "documented: visiting the expanded tree is the visitor's job",
}

// leaves that an inline-constructed sub-node may leave at zero
var c28OptionalInline = map[string]string{
	"expression.parenthesis": "name positions are never parenthesised by the parser",
}

// ---------------------------------------------------------------------------

type c28 struct {
	r       *Run
	astPk   *packages.Package
	utilPk  *packages.Package
	nodeT   *types.Named
	exprT   *types.Named
	nodes   []*types.Named // struct types whose pointer implements Node, minus exceptions
	isNode  map[*types.Named]bool
	copyFns map[*types.Func]*FuncInfo // role: exported func(X) X over ast types
	copyNd  *FuncInfo                 // the Node -> Node one
	walk    *FuncInfo
	decls   map[*types.Func]*FuncInfo // every function of ast and astutil with a body
	ctors   map[*types.Func]*c28ctor
	nilable map[string][]string // "T.F" -> evidence
	ptrArgs map[string]*c28ptrArg
}

// c28ptrArg aggregates, per copy/walk helper taking a pointer, the nil-able fields handed to it.
type c28ptrArg struct {
	fn        *types.Func
	tolerant  bool
	fields    []string
	unguarded []string
	pos       token.Pos
}

// c28cur is the state of the current run, for the rules added in c28rN.go (they run after runC28).
var c28cur *c28

func runC28(r *Run) {
	c28cur = nil
	x := &c28{r: r, ptrArgs: map[string]*c28ptrArg{}, isNode: map[*types.Named]bool{}, copyFns: map[*types.Func]*FuncInfo{}, decls: map[*types.Func]*FuncInfo{}, ctors: map[*types.Func]*c28ctor{}, nilable: map[string][]string{}}
	r.Exhaust = true
	x.astPk, x.utilPk = r.P.Pkg("ast"), r.P.Pkg("ast/astutil")
	if !r.Anchor("R-1", "packages ast and ast/astutil", x.astPk != nil && x.utilPk != nil) {
		return
	}
	x.nodeT, x.exprT = r.P.Named("ast", "Node"), r.P.Named("ast", "Expression")
	if !r.Anchor("R-1", "ast.Node and ast.Expression interfaces", x.nodeT != nil && x.exprT != nil) {
		return
	}
	nodeI, _ := x.nodeT.Underlying().(*types.Interface)
	if !r.Anchor("R-1", "ast.Node is an interface", nodeI != nil) {
		return
	}
	for _, t := range implementers(x.astPk, nodeI) {
		pt, ok := t.(*types.Pointer)
		var nt *types.Named
		if ok {
			nt, _ = pt.Elem().(*types.Named)
		} else {
			nt, _ = t.(*types.Named)
		}
		if nt == nil {
			continue
		}
		if _, exc := c28ExceptType[nt.Obj().Name()]; exc {
			continue
		}
		if _, isStruct := nt.Underlying().(*types.Struct); !isStruct {
			r.Ob("R-1", "ast#"+nt.Obj().Name(), nt.Obj().Pos()).Unknown("node type %s is not a struct: the rules model nodes as pointers to structs", typeStr(t))
			continue
		}
		x.nodes = append(x.nodes, nt)
		x.isNode[nt] = true
	}
	sort.Slice(x.nodes, func(i, j int) bool { return x.nodes[i].Obj().Name() < x.nodes[j].Obj().Name() })
	r.Stats["node_types"] = len(x.nodes)
	for _, rel := range []string{"ast", "ast/astutil"} {
		for _, fi := range r.P.Funcs(rel) {
			if fi.Obj != nil && !r.P.isTestFile(fi.File) {
				x.decls[fi.Obj] = fi
			}
		}
	}
	x.resolveRoles()
	if !r.Anchor("R-1", "copy dispatcher: exported astutil function func(ast.Node) ast.Node", x.copyNd != nil) ||
		!r.Anchor("R-1", "walker: exported astutil function func(visitor, ast.Node) with a type switch on the node", x.walk != nil) {
		return
	}
	x.gatherNilable()
	c28cur = x

	copyName, walkName := x.copyNd.Name(), x.walk.Name()
	for _, nt := range x.nodes {
		name := nt.Obj().Name()
		// ---- copy
		hit := x.resolve(x.copyNd, nt, 0)
		o := r.Ob("R-1", copyName+"#"+name, hit.pos(x.copyNd))
		x.verdictR1(o, hit, nt, "copied")
		if hit.kind == c28Exact {
			x.checkCopyClause(hit, nt)
			x.checkNil(hit, nt, copyName)
		} else if hit.kind == c28Generic {
			r.Ob("R-2", copyName+"#"+name, hit.pos(x.copyNd)).Unknown("%s is handled by a clause listing several types: its fields cannot be copied there", name)
		}
		// ---- walk
		hit = x.resolve(x.walk, nt, 0)
		o = r.Ob("R-1", walkName+"#"+name, hit.pos(x.walk))
		x.verdictR1(o, hit, nt, "walked")
		if hit.kind == c28Exact || hit.kind == c28Generic {
			x.checkWalkClause(hit, nt)
			if hit.kind == c28Exact {
				x.checkNil(hit, nt, walkName)
			}
		}
	}
	// the leaf copy functions (position, tree) are themselves checked as copy clauses
	for _, fi := range x.sortedCopyFns() {
		if fi == x.copyNd {
			continue
		}
		x.checkCopyFunc(fi)
	}
	x.finishPtrArgs()
	// 55 node types today, each dispatched by the copier and by the walker; 192 copied fields and
	// 100 child positions on the pinned tree; 25 nil-able uses.
	r.Require("R-1", 2*50)
	r.Require("R-2", 180)
	r.Require("R-2w", 90)
	r.Require("R-3", 20)
}

func (x *c28) sortedCopyFns() []*FuncInfo {
	var out []*FuncInfo
	for _, fi := range x.copyFns {
		out = append(out, fi)
	}
	sort.Slice(out, func(i, j int) bool { return out[i].Name() < out[j].Name() })
	return out
}

// inAst reports whether t is (a pointer to) a named type of package ast and returns it.
func (x *c28) inAst(t types.Type) *types.Named {
	if p, ok := t.(*types.Pointer); ok {
		t = p.Elem()
	}
	nt, _ := t.(*types.Named)
	if nt == nil || nt.Obj().Pkg() != x.astPk.Types {
		return nil
	}
	return nt
}

// resolveRoles finds the copy functions and the walker by signature.
func (x *c28) resolveRoles() {
	for _, fi := range x.r.P.Funcs("ast/astutil") {
		if fi.Decl.Recv != nil || fi.Obj == nil || !fi.Obj.Exported() || x.r.P.isTestFile(fi.File) {
			continue
		}
		sig := fi.Obj.Type().(*types.Signature)
		switch {
		case sig.Params().Len() == 1 && sig.Results().Len() == 1 &&
			types.Identical(sig.Params().At(0).Type(), sig.Results().At(0).Type()) && x.inAst(sig.Params().At(0).Type()) != nil:
			x.copyFns[fi.Obj] = fi
			if types.Identical(sig.Params().At(0).Type(), x.nodeT) {
				if x.copyNd != nil {
					x.r.Anchor("R-1", "a single func(ast.Node) ast.Node in astutil", false)
				}
				x.copyNd = fi
			}
		case sig.Params().Len() == 2 && sig.Results().Len() == 0 && types.Identical(sig.Params().At(1).Type(), x.nodeT):
			if _, isI := sig.Params().At(0).Type().Underlying().(*types.Interface); isI && x.dispatchOf(fi) != nil {
				if x.walk != nil {
					x.r.Anchor("R-1", "a single walker in astutil", false)
				}
				x.walk = fi
			}
		}
	}
}

// isVisitMethod: fn is a method of the interface the walker receives as its visitor.
func (x *c28) isVisitMethod(fn *types.Func) bool {
	if x.walk == nil || fn == nil {
		return false
	}
	sig := fn.Type().(*types.Signature)
	if sig.Recv() == nil {
		return false
	}
	ws := x.walk.Obj.Type().(*types.Signature)
	np := x.nodeParam(x.walk)
	for i := 0; i < ws.Params().Len(); i++ {
		p := ws.Params().At(i)
		if p == np {
			continue
		}
		if _, isI := p.Type().Underlying().(*types.Interface); isI && types.Identical(sig.Recv().Type(), p.Type()) {
			return true
		}
	}
	return false
}

// nodeParam returns the parameter of fi whose type is the Node or Expression interface.
func (x *c28) nodeParam(fi *FuncInfo) *types.Var {
	sig := fi.Obj.Type().(*types.Signature)
	var found *types.Var
	for i := 0; i < sig.Params().Len(); i++ {
		p := sig.Params().At(i)
		if types.Identical(p.Type(), x.nodeT) || types.Identical(p.Type(), x.exprT) {
			if found != nil {
				return nil
			}
			found = p
		}
	}
	return found
}

// dispatchOf returns the single outermost type switch of fi over its node parameter.
func (x *c28) dispatchOf(fi *FuncInfo) *ast.TypeSwitchStmt {
	p := x.nodeParam(fi)
	if p == nil {
		return nil
	}
	info := fi.Pkg.TypesInfo
	var found []*ast.TypeSwitchStmt
	var visit func(n ast.Node) bool
	visit = func(n ast.Node) bool {
		if _, ok := n.(*ast.FuncLit); ok {
			return false
		}
		ts, ok := n.(*ast.TypeSwitchStmt)
		if !ok {
			return true
		}
		var ta *ast.TypeAssertExpr
		switch a := ts.Assign.(type) {
		case *ast.AssignStmt:
			if len(a.Rhs) == 1 {
				ta, _ = ast.Unparen(a.Rhs[0]).(*ast.TypeAssertExpr)
			}
		case *ast.ExprStmt:
			ta, _ = ast.Unparen(a.X).(*ast.TypeAssertExpr)
		}
		if ta != nil {
			if id, ok := ast.Unparen(ta.X).(*ast.Ident); ok && info.Uses[id] == p {
				found = append(found, ts)
				return false
			}
		}
		return true
	}
	ast.Inspect(fi.Decl.Body, visit)
	if len(found) == 1 {
		return found[0]
	}
	return nil
}

// ---------------------------------------------------------------------------
// R-1: dispatch resolution honouring clause order.

type c28kind int

const (
	c28Missing c28kind = iota
	c28Exact           // a clause naming exactly the type: the bound variable has the concrete type
	c28Generic         // a clause listing several types including it
	c28Unknown
)

type c28hit struct {
	kind    c28kind
	fi      *FuncInfo
	sw      *ast.TypeSwitchStmt
	clause  *ast.CaseClause
	via     []string // delegation chain
	why     string
	shadows string // a later clause naming the type that can never run
}

func (h *c28hit) pos(def *FuncInfo) token.Pos {
	if h.clause != nil {
		return h.clause.Pos()
	}
	if h.sw != nil {
		return h.sw.Pos()
	}
	return def.Decl.Pos()
}

func (x *c28) verdictR1(o *Obl, h *c28hit, nt *types.Named, verb string) {
	chain := strings.Join(h.via, " -> ")
	switch h.kind {
	case c28Exact, c28Generic:
		f := fmt.Sprintf("*%s is %s by its clause in %s", nt.Obj().Name(), verb, chain)
		if h.shadows != "" {
			f += "; " + h.shadows
			x.r.Note("dead clause: %s", h.shadows)
		}
		o.OK("%s", f)
	case c28Missing:
		extra := ""
		if h.shadows != "" {
			extra = "; " + h.shadows
		}
		o.Bad("no reachable clause for *%s: %s (%s)%s", nt.Obj().Name(), h.why, chain, extra)
	default:
		o.Unknown("dispatch of *%s not understood: %s (%s)", nt.Obj().Name(), h.why, chain)
	}
}

// resolve finds the clause of fi's dispatch switch that runs for a value of dynamic type *nt.
func (x *c28) resolve(fi *FuncInfo, nt *types.Named, depth int) *c28hit {
	h := &c28hit{fi: fi, via: []string{fi.Name()}}
	if depth > 3 {
		h.kind, h.why = c28Unknown, "delegation too deep"
		return h
	}
	sw := x.dispatchOf(fi)
	if sw == nil {
		h.kind, h.why = c28Unknown, "no single type switch over the node parameter"
		return h
	}
	h.sw = sw
	info := fi.Pkg.TypesInfo
	T := types.NewPointer(nt)
	var deflt *ast.CaseClause
	var first *ast.CaseClause
	var firstIface bool
	for _, st := range sw.Body.List {
		cc := st.(*ast.CaseClause)
		if cc.List == nil {
			deflt = cc
			continue
		}
		for _, te := range cc.List {
			t := info.TypeOf(te)
			if t == nil || t == types.Typ[types.UntypedNil] {
				continue
			}
			match, isI := false, false
			if it, ok := t.Underlying().(*types.Interface); ok {
				match, isI = types.Implements(T, it), true
			} else {
				match = types.Identical(t, T)
			}
			if !match {
				continue
			}
			if first == nil {
				first, firstIface = cc, isI
			} else if !isI && cc != first {
				h.shadows = fmt.Sprintf("the clause 'case *%s' of %s at %s is unreachable: the earlier clause at %s already matches", nt.Obj().Name(), fi.Name(), x.r.P.Pos(cc.Pos()), x.r.P.Pos(first.Pos()))
			}
		}
	}
	if first == nil {
		h.clause = deflt
		h.kind = c28Missing
		if deflt == nil {
			h.why = "the type switch has no clause for it and no default: the value is dropped"
		} else if c28panics(info, deflt.Body) {
			h.why = "falls to the default clause, which panics"
		} else {
			h.kind, h.why = c28Unknown, "falls to a default clause that does not panic"
		}
		return h
	}
	h.clause = first
	if !firstIface {
		if len(first.List) == 1 {
			h.kind = c28Exact
		} else {
			h.kind = c28Generic
		}
		return h
	}
	// interface clause: it must hand the value to another dispatcher
	bound := info.Implicits[first]
	var next *FuncInfo
	for _, c := range calls(first, false) {
		g := callee(info, c)
		gi := x.decls[g]
		if gi == nil || gi == fi || x.dispatchOf(gi) == nil {
			continue
		}
		for _, a := range c.Args {
			if id, ok := ast.Unparen(a).(*ast.Ident); ok && bound != nil && info.Uses[id] == bound {
				next = gi
			}
		}
	}
	if next == nil {
		h.kind, h.why = c28Unknown, "matched by an interface clause that does not delegate the value to another dispatcher"
		return h
	}
	sub := x.resolve(next, nt, depth+1)
	sub.via = append(h.via, sub.via...)
	if h.shadows != "" && sub.shadows == "" {
		sub.shadows = h.shadows
	}
	return sub
}

func c28panics(info *types.Info, body []ast.Stmt) bool {
	if len(body) == 0 {
		return false
	}
	es, ok := body[len(body)-1].(*ast.ExprStmt)
	if !ok {
		return false
	}
	c, ok := es.X.(*ast.CallExpr)
	return ok && isBuiltinCall(info, c, "panic")
}

// ---------------------------------------------------------------------------
// Struct leaves.

type c28leaf struct {
	path string
	ref  bool // holds a pointer, interface, slice or map: must go through a copy function
	typ  types.Type
}

func c28isScalar(t types.Type) bool {
	switch u := t.Underlying().(type) {
	case *types.Basic:
		return true
	case *types.Struct:
		for i := 0; i < u.NumFields(); i++ {
			if !c28isScalar(u.Field(i).Type()) {
				return false
			}
		}
		return true
	case *types.Array:
		return c28isScalar(u.Elem())
	}
	return false
}

// copyLeaves lists the fields a copy of struct nt must reproduce. Embedded unexported structs of
// package ast (the parenthesis counter) are flattened.
func (x *c28) copyLeaves(nt *types.Named) []c28leaf {
	st := nt.Underlying().(*types.Struct)
	var out []c28leaf
	for i := 0; i < st.NumFields(); i++ {
		f := st.Field(i)
		if _, exc := c28ExceptCloneField[nt.Obj().Name()+"."+f.Name()]; exc {
			continue
		}
		if f.Embedded() && !f.Exported() {
			if sub := x.inAst(f.Type()); sub != nil {
				if ss, ok := sub.Underlying().(*types.Struct); ok {
					for j := 0; j < ss.NumFields(); j++ {
						out = append(out, c28leaf{path: f.Name() + "." + ss.Field(j).Name(), ref: !c28isScalar(ss.Field(j).Type()), typ: ss.Field(j).Type()})
					}
					continue
				}
			}
		}
		out = append(out, c28leaf{path: f.Name(), ref: !c28isScalar(f.Type()), typ: f.Type()})
	}
	return out
}

// walkLeaves lists the child positions of struct nt: "F" (a node), "F[]" (nodes of a slice),
// "F[].G" (a node inside a record of a slice).
func (x *c28) walkLeaves(nt *types.Named, top bool) []string {
	st, ok := nt.Underlying().(*types.Struct)
	if !ok {
		return nil
	}
	var out []string
	for i := 0; i < st.NumFields(); i++ {
		f := st.Field(i)
		if top {
			if _, exc := c28ExceptWalkField[nt.Obj().Name()+"."+f.Name()]; exc {
				continue
			}
		}
		if f.Embedded() {
			continue // position and parenthesis counter
		}
		out = append(out, x.childPaths(f.Name(), f.Type(), 0)...)
	}
	return out
}

func (x *c28) childPaths(prefix string, t types.Type, depth int) []string {
	if depth > 3 {
		return nil
	}
	if types.Identical(t, x.nodeT) || types.Identical(t, x.exprT) {
		return []string{prefix}
	}
	if _, isI := t.Underlying().(*types.Interface); isI {
		if nt, ok := t.(*types.Named); ok && nt.Obj().Pkg() == x.astPk.Types && types.Implements(t, x.nodeT.Underlying().(*types.Interface)) {
			return []string{prefix}
		}
		return nil
	}
	if p, ok := t.(*types.Pointer); ok {
		if nt, ok := p.Elem().(*types.Named); ok {
			if x.isNode[nt] {
				return []string{prefix}
			}
			if nt.Obj().Pkg() == x.astPk.Types {
				if _, exc := c28ExceptType[nt.Obj().Name()]; exc {
					return nil
				}
				var out []string
				for _, s := range x.walkLeaves(nt, false) {
					out = append(out, prefix+"."+s)
				}
				return out
			}
		}
		return nil
	}
	if s, ok := t.Underlying().(*types.Slice); ok {
		return x.childPaths(prefix+"[]", s.Elem(), depth+1)
	}
	if nt, ok := t.(*types.Named); ok && nt.Obj().Pkg() == x.astPk.Types {
		if _, isS := nt.Underlying().(*types.Struct); isS {
			var out []string
			for _, s := range x.walkLeaves(nt, false) {
				out = append(out, prefix+"."+s)
			}
			return out
		}
	}
	return nil
}

// ---------------------------------------------------------------------------
// Constructors of package ast: parameter -> field.

type c28ctor struct {
	typ    *types.Named
	fields map[string]int  // field name -> parameter index, -1 = set to a value that is no parameter
	nilset map[string]bool // field left nil/zero by the constructor
	ok     bool
}

// ctorOf analyses fn as `func NewT(p...) *T { [normalisations]; return &T{...} }`.
func (x *c28) ctorOf(fn *types.Func) *c28ctor {
	if c, ok := x.ctors[fn]; ok {
		return c
	}
	c := &c28ctor{fields: map[string]int{}, nilset: map[string]bool{}}
	x.ctors[fn] = c
	fi := x.decls[fn]
	if fi == nil || fi.Decl.Recv != nil || fn.Pkg() != x.astPk.Types {
		return c
	}
	sig := fn.Type().(*types.Signature)
	if sig.Results().Len() != 1 {
		return c
	}
	nt := x.inAst(sig.Results().At(0).Type())
	if nt == nil {
		return c
	}
	st, isS := nt.Underlying().(*types.Struct)
	if !isS {
		return c
	}
	info := fi.Pkg.TypesInfo
	// the literal returned: directly, or through one local variable
	var lit *ast.CompositeLit
	litOf := func(e ast.Expr) *ast.CompositeLit {
		e = ast.Unparen(e)
		if u, ok := e.(*ast.UnaryExpr); ok && u.Op == token.AND {
			e = ast.Unparen(u.X)
		}
		l, _ := e.(*ast.CompositeLit)
		if l != nil {
			if lt := x.inAst(info.TypeOf(l)); lt != nt {
				return nil
			}
		}
		return l
	}
	var rets []*ast.ReturnStmt
	ast.Inspect(fi.Decl.Body, func(n ast.Node) bool {
		if _, ok := n.(*ast.FuncLit); ok {
			return false
		}
		if r, ok := n.(*ast.ReturnStmt); ok {
			rets = append(rets, r)
		}
		return true
	})
	if len(rets) != 1 || len(rets[0].Results) != 1 {
		return c
	}
	if lit = litOf(rets[0].Results[0]); lit == nil {
		if id, ok := ast.Unparen(rets[0].Results[0]).(*ast.Ident); ok {
			obj := info.Uses[id]
			n := 0
			ast.Inspect(fi.Decl.Body, func(m ast.Node) bool {
				if as, ok := m.(*ast.AssignStmt); ok {
					for i, l := range as.Lhs {
						if li, ok := l.(*ast.Ident); ok && (info.Defs[li] == obj || info.Uses[li] == obj) && i < len(as.Rhs) {
							lit = litOf(as.Rhs[i])
							n++
						}
					}
				}
				return true
			})
			if n != 1 {
				lit = nil
			}
		}
	}
	if lit == nil {
		return c
	}
	paramIdx := func(e ast.Expr) int {
		if id, ok := ast.Unparen(e).(*ast.Ident); ok {
			for i := 0; i < sig.Params().Len(); i++ {
				if info.Uses[id] == sig.Params().At(i) {
					return i
				}
			}
		}
		return -1
	}
	isZero := func(e ast.Expr) bool {
		tv, ok := info.Types[e]
		return ok && tv.IsNil()
	}
	for i := 0; i < st.NumFields(); i++ {
		c.nilset[st.Field(i).Name()] = true
	}
	for i, el := range lit.Elts {
		name, val := "", el
		if kv, ok := el.(*ast.KeyValueExpr); ok {
			if id, ok := kv.Key.(*ast.Ident); ok {
				name = id.Name
			}
			val = kv.Value
		} else if i < st.NumFields() {
			name = st.Field(i).Name()
		}
		if name == "" {
			return c
		}
		c.fields[name] = paramIdx(val)
		if !isZero(val) {
			delete(c.nilset, name)
		}
	}
	c.typ, c.ok = nt, true
	return c
}

// ---------------------------------------------------------------------------
// Abstract values.

type c28src struct {
	path   string
	cloned bool
}

type c28val struct {
	srcs []c28src
	rec  *c28rec
	errs []string // defects found while building the value (crossed / missing sub-fields)
	unk  string   // not understood
}

type c28rec struct {
	typ   *types.Named
	slots map[string]*c28val
	pos   token.Pos
}

func (v c28val) String() string {
	if v.unk != "" {
		return "?(" + v.unk + ")"
	}
	if v.rec != nil {
		return "new " + v.rec.typ.Obj().Name()
	}
	if len(v.srcs) == 0 {
		return "a constant or zero value"
	}
	var s []string
	for _, c := range v.srcs {
		p := "n." + c.path
		if c.path == "" {
			p = "n"
		}
		if c.cloned {
			s = append(s, "copy of "+p)
		} else {
			s = append(s, p+" itself")
		}
	}
	sort.Strings(s)
	return strings.Join(s, ", ")
}

func c28join(a, b string) string {
	if a == "" {
		return b
	}
	if b == "" {
		return a
	}
	if strings.HasPrefix(b, "[]") {
		return a + b
	}
	return a + "." + b
}

func (v c28val) with(f func(s c28src) c28src) c28val {
	out := c28val{errs: v.errs, unk: v.unk}
	for _, s := range v.srcs {
		out.srcs = append(out.srcs, f(s))
	}
	return out
}

func c28union(a, b c28val) c28val {
	out := c28val{unk: a.unk}
	if out.unk == "" {
		out.unk = b.unk
	}
	seen := map[c28src]bool{}
	for _, s := range append(append([]c28src{}, a.srcs...), b.srcs...) {
		if !seen[s] {
			seen[s] = true
			out.srcs = append(out.srcs, s)
		}
	}
	es := map[string]bool{}
	for _, e := range append(append([]string{}, a.errs...), b.errs...) {
		if !es[e] {
			es[e] = true
			out.errs = append(out.errs, e)
		}
	}
	return out
}

type c28var struct {
	val  c28val
	subs map[string]bool // for a slice of by-value records: sub-fields assigned through v[i].G = …
	elem bool            // whole elements were stored
}

type c28sink struct {
	path string
	pos  token.Pos
	val  c28val
}

// c28eval evaluates one function body with one clause of its dispatch switch selected.
type c28eval struct {
	x      *c28
	info   *types.Info
	fi     *FuncInfo
	sw     *ast.TypeSwitchStmt // dispatch switch (nil: evaluate everything)
	clause *ast.CaseClause
	self   *types.Named // concrete type of the source value at path ""
	env    map[types.Object]*c28var
	rets   []c28val
	retPos []token.Pos
	sinks  []c28sink
	visits []c28sink // values handed to the visitor's own method (an inlined step of the walk)
	loops2 bool      // evaluate the body of a for statement a second time (a variable rebound at the end of the body is seen by its beginning); R-2d only: sinks are then listed twice
	unk    []string
	errs   []string
	depth  int
	inCl   bool
	done   bool // the selected clause ended with a return: nothing after the dispatch runs
}

func (e *c28eval) unknown(pos token.Pos, format string, a ...any) c28val {
	m := fmt.Sprintf(format, a...) + " at " + e.x.r.P.Pos(pos)
	e.unk = append(e.unk, m)
	return c28val{unk: m}
}

func (e *c28eval) bind(obj types.Object, v c28val) {
	if obj == nil {
		return
	}
	e.env[obj] = &c28var{val: v, subs: map[string]bool{}}
}

// consume turns a pending record into a plain value, checking it as a sub-record copy.
func (e *c28eval) consume(v c28val) c28val {
	if v.rec == nil {
		return v
	}
	return e.x.finishRecord(v.rec, false, nil)
}

func (e *c28eval) merge(obj types.Object, v c28val) {
	cur := e.env[obj]
	if cur == nil {
		e.bind(obj, v)
		return
	}
	if v.rec != nil && cur.val.rec == nil && len(cur.val.srcs) == 0 && cur.val.unk == "" {
		cur.val = v
		return
	}
	cur.val = c28union(e.consume(cur.val), e.consume(v))
}

// fieldPath renders the path of a field selection including promoted embedded fields.
func c28fieldPath(sel *types.Selection) string {
	t := sel.Recv()
	var parts []string
	for _, idx := range sel.Index() {
		if p, ok := t.Underlying().(*types.Pointer); ok {
			t = p.Elem()
		} else if p, ok := t.(*types.Pointer); ok {
			t = p.Elem()
		}
		st, ok := t.Underlying().(*types.Struct)
		if !ok {
			return ""
		}
		f := st.Field(idx)
		parts = append(parts, f.Name())
		t = f.Type()
	}
	return strings.Join(parts, ".")
}

// embeddedPath is the path of the embedded fields a method selection goes through.
func c28embeddedPath(sel *types.Selection) string {
	t := sel.Recv()
	var parts []string
	idx := sel.Index()
	for _, i := range idx[:len(idx)-1] {
		if p, ok := t.(*types.Pointer); ok {
			t = p.Elem()
		}
		st, ok := t.Underlying().(*types.Struct)
		if !ok {
			return ""
		}
		f := st.Field(i)
		parts = append(parts, f.Name())
		t = f.Type()
	}
	return strings.Join(parts, ".")
}

// methodSummary classifies a method of package ast: "self" (returns its receiver), "get:f", "set:f".
func (x *c28) methodSummary(fn *types.Func) string {
	fi := x.decls[fn]
	if fi == nil || fi.Decl.Recv == nil || len(fi.Decl.Recv.List) != 1 || len(fi.Decl.Recv.List[0].Names) != 1 || len(fi.Decl.Body.List) != 1 {
		return ""
	}
	info := fi.Pkg.TypesInfo
	recv := info.Defs[fi.Decl.Recv.List[0].Names[0]]
	isRecv := func(e ast.Expr) bool {
		id, ok := ast.Unparen(e).(*ast.Ident)
		return ok && info.Uses[id] == recv
	}
	switch s := fi.Decl.Body.List[0].(type) {
	case *ast.ReturnStmt:
		if len(s.Results) != 1 {
			return ""
		}
		if isRecv(s.Results[0]) {
			return "self"
		}
		if sel, ok := ast.Unparen(s.Results[0]).(*ast.SelectorExpr); ok && isRecv(sel.X) {
			if se := info.Selections[sel]; se != nil && se.Kind() == types.FieldVal {
				return "get:" + c28fieldPath(se)
			}
		}
	case *ast.AssignStmt:
		if len(s.Lhs) == 1 && len(s.Rhs) == 1 && s.Tok == token.ASSIGN {
			if sel, ok := ast.Unparen(s.Lhs[0]).(*ast.SelectorExpr); ok && isRecv(sel.X) {
				if id, ok := ast.Unparen(s.Rhs[0]).(*ast.Ident); ok {
					if v, ok := info.Uses[id].(*types.Var); ok && v != recv {
						if se := info.Selections[sel]; se != nil && se.Kind() == types.FieldVal {
							return "set:" + c28fieldPath(se)
						}
					}
				}
			}
		}
	}
	return ""
}

// concreteOf gives the concrete node type of a value when it is known although its static type
// is an interface: a pending record, or the source itself.
func (e *c28eval) concreteOf(v c28val, static types.Type) types.Type {
	if v.rec != nil {
		return types.NewPointer(v.rec.typ)
	}
	if _, isI := static.Underlying().(*types.Interface); isI {
		if len(v.srcs) == 1 && v.srcs[0].path == "" && e.self != nil {
			return types.NewPointer(e.self)
		}
		return nil
	}
	return static
}

func (e *c28eval) expr(n ast.Expr) c28val {
	info := e.info
	switch n := n.(type) {
	case *ast.ParenExpr:
		return e.expr(n.X)
	case *ast.BasicLit, *ast.BinaryExpr:
		return c28val{}
	case *ast.Ident:
		obj := info.Uses[n]
		if obj == nil {
			obj = info.Defs[n]
		}
		if v, ok := e.env[obj]; ok {
			return v.val
		}
		switch o := obj.(type) {
		case *types.Nil, *types.Const, *types.Func, *types.TypeName, *types.Builtin:
			return c28val{}
		case *types.Var:
			if o.Parent() == o.Pkg().Scope() {
				return c28val{}
			}
			if c28isScalar(o.Type()) {
				return c28val{}
			}
		}
		return e.unknown(n.Pos(), "variable %s has no tracked value", n.Name)
	case *ast.StarExpr:
		return e.expr(n.X)
	case *ast.UnaryExpr:
		if n.Op == token.AND {
			return e.expr(n.X)
		}
		return c28val{}
	case *ast.TypeAssertExpr:
		return e.expr(n.X)
	case *ast.SliceExpr:
		return e.expr(n.X)
	case *ast.IndexExpr:
		base := e.consume(e.expr(n.X))
		return base.with(func(s c28src) c28src { return c28src{s.path + "[]", s.cloned} })
	case *ast.SelectorExpr:
		if id, ok := n.X.(*ast.Ident); ok {
			if _, isPkg := info.Uses[id].(*types.PkgName); isPkg {
				return c28val{}
			}
		}
		sel := info.Selections[n]
		if sel == nil || sel.Kind() != types.FieldVal {
			return e.unknown(n.Pos(), "method value %s", exprStr(n))
		}
		fp := c28fieldPath(sel)
		base := e.expr(n.X)
		if base.rec != nil {
			if sv := base.rec.slots[fp]; sv != nil {
				return *sv
			}
			return c28val{}
		}
		return base.with(func(s c28src) c28src { return c28src{c28join(s.path, fp), s.cloned} })
	case *ast.CompositeLit:
		return e.composite(n)
	case *ast.CallExpr:
		return e.call(n)
	case *ast.FuncLit:
		return e.unknown(n.Pos(), "function literal")
	}
	return e.unknown(n.Pos(), "expression form %T", n)
}

func (e *c28eval) composite(n *ast.CompositeLit) c28val {
	t := e.info.TypeOf(n)
	if nt := e.x.inAst(t); nt != nil {
		if st, ok := nt.Underlying().(*types.Struct); ok {
			rec := &c28rec{typ: nt, slots: map[string]*c28val{}, pos: n.Pos()}
			for i, el := range n.Elts {
				name, val := "", el
				if kv, ok := el.(*ast.KeyValueExpr); ok {
					if id, ok := kv.Key.(*ast.Ident); ok {
						name = id.Name
					}
					val = kv.Value
				} else if i < st.NumFields() {
					name = st.Field(i).Name()
				}
				v := e.consume(e.expr(val))
				rec.slots[name] = &v
			}
			return c28val{rec: rec}
		}
	}
	switch t.Underlying().(type) {
	case *types.Slice, *types.Array:
		out := c28val{}
		for _, el := range n.Elts {
			if kv, ok := el.(*ast.KeyValueExpr); ok {
				el = kv.Value
			}
			out = c28union(out, c28lift(e.consume(e.expr(el))))
		}
		return out
	}
	return e.unknown(n.Pos(), "composite literal of type %s", typeStr(t))
}

// c28lift turns the value of an element into its contribution to the slice holding it.
func c28lift(v c28val) c28val {
	out := c28val{errs: v.errs, unk: v.unk}
	for _, s := range v.srcs {
		if strings.HasSuffix(s.path, "[]") {
			out.srcs = append(out.srcs, c28src{strings.TrimSuffix(s.path, "[]"), s.cloned})
		} else {
			p := "n." + s.path
			out.errs = append(out.errs, fmt.Sprintf("a value that is not an element of a source slice (%s) is stored as an element", p))
			out.srcs = append(out.srcs, c28src{s.path + "<element>", s.cloned})
		}
	}
	return out
}

func (e *c28eval) call(n *ast.CallExpr) c28val {
	info := e.info
	// conversion
	if tv, ok := info.Types[n.Fun]; ok && tv.IsType() && len(n.Args) == 1 {
		v := e.consume(e.expr(n.Args[0]))
		from, to := info.TypeOf(n.Args[0]), tv.Type
		_, fs := from.Underlying().(*types.Slice)
		_, ts := to.Underlying().(*types.Slice)
		if fs != ts { // string <-> []byte allocates
			return v.with(func(s c28src) c28src { return c28src{s.path, true} })
		}
		return v
	}
	if id, ok := ast.Unparen(n.Fun).(*ast.Ident); ok {
		if _, isB := info.Uses[id].(*types.Builtin); isB {
			switch id.Name {
			case "make", "new", "len", "cap", "min", "max", "panic", "print", "println", "recover":
				return c28val{}
			case "append":
				out := e.consume(e.expr(n.Args[0]))
				for i, a := range n.Args[1:] {
					av := e.consume(e.expr(a))
					if n.Ellipsis.IsValid() && i == len(n.Args)-2 {
						// append(x, p...) copies the elements themselves
						if sl, ok := info.TypeOf(a).Underlying().(*types.Slice); ok && c28isScalar(sl.Elem()) {
							av = av.with(func(s c28src) c28src { return c28src{s.path, true} })
						}
						out = c28union(out, av)
					} else {
						out = c28union(out, c28lift(av))
					}
				}
				return out
			case "copy":
				src := e.consume(e.expr(n.Args[1]))
				if sl, ok := info.TypeOf(n.Args[0]).Underlying().(*types.Slice); ok && c28isScalar(sl.Elem()) {
					src = src.with(func(s c28src) c28src { return c28src{s.path, true} })
				}
				e.store(n.Args[0], src, n.Pos(), true)
				return c28val{}
			}
			return e.unknown(n.Pos(), "builtin %s", id.Name)
		}
	}
	fn := callee(info, n)
	if fn == nil {
		return e.unknown(n.Pos(), "dynamic call %s", exprStr(n.Fun))
	}
	// the walker: a sink
	if e.x.walk != nil && fn == e.x.walk.Obj {
		p := e.x.nodeParam(e.x.walk)
		sig := fn.Type().(*types.Signature)
		for i, a := range n.Args {
			if i < sig.Params().Len() && sig.Params().At(i) == p {
				v := e.consume(e.expr(a))
				if v.unk != "" {
					return v
				}
				for _, s := range v.srcs {
					e.sinks = append(e.sinks, c28sink{path: s.path, pos: n.Pos(), val: v})
				}
				if len(v.srcs) == 0 {
					e.sinks = append(e.sinks, c28sink{path: "<not a field>", pos: n.Pos(), val: v})
				}
			}
		}
		return c28val{}
	}
	// the visitor's method called by hand on a node: recorded (R-2d), it produces no node
	if e.x.isVisitMethod(fn) {
		for _, a := range n.Args {
			v := e.consume(e.expr(a))
			if v.unk != "" {
				return v
			}
			for _, s := range v.srcs {
				e.visits = append(e.visits, c28sink{path: s.path, pos: n.Pos(), val: v})
			}
		}
		return c28val{}
	}
	// a copy function
	if _, ok := e.x.copyFns[fn]; ok && len(n.Args) == 1 {
		v := e.consume(e.expr(n.Args[0]))
		return v.with(func(s c28src) c28src { return c28src{s.path, true} })
	}
	// methods of package ast: getters, setters, identity
	if sig := fn.Type().(*types.Signature); sig.Recv() != nil {
		sel, ok := ast.Unparen(n.Fun).(*ast.SelectorExpr)
		if !ok {
			return e.unknown(n.Pos(), "method expression")
		}
		recv := e.expr(sel.X)
		target := fn
		emb := ""
		if s := info.Selections[sel]; s != nil {
			emb = c28embeddedPath(s)
		}
		if _, isI := sig.Recv().Type().Underlying().(*types.Interface); isI {
			ct := e.concreteOf(recv, info.TypeOf(sel.X))
			if ct == nil && recv.rec == nil && len(recv.srcs) == 0 && recv.unk == "" {
				return c28val{} // a value that holds nothing of the tree (the visitor, an unset result)
			}
			if ct == nil {
				return e.unknown(n.Pos(), "interface method %s on a value of unknown concrete type", fn.Name())
			}
			ms := types.NewMethodSet(ct)
			s := ms.Lookup(fn.Pkg(), fn.Name())
			if s == nil {
				return e.unknown(n.Pos(), "method %s not found on %s", fn.Name(), typeStr(ct))
			}
			target, _ = s.Obj().(*types.Func)
			emb = c28embeddedPath(s)
		}
		sum := e.x.methodSummary(target)
		switch {
		case sum == "self":
			if recv.rec != nil {
				if sv := recv.rec.slots[emb]; sv != nil {
					return *sv
				}
				return c28val{}
			}
			return recv.with(func(s c28src) c28src { return c28src{c28join(s.path, emb), s.cloned} })
		case strings.HasPrefix(sum, "get:"):
			p := c28join(emb, strings.TrimPrefix(sum, "get:"))
			if recv.rec != nil {
				if sv := recv.rec.slots[p]; sv != nil {
					return *sv
				}
				return c28val{}
			}
			return recv.with(func(s c28src) c28src { return c28src{c28join(s.path, p), s.cloned} })
		case strings.HasPrefix(sum, "set:") && len(n.Args) == 1:
			p := c28join(emb, strings.TrimPrefix(sum, "set:"))
			v := e.consume(e.expr(n.Args[0]))
			if recv.rec != nil {
				recv.rec.slots[p] = &v
				return c28val{}
			}
			if len(recv.srcs) > 0 {
				e.errs = append(e.errs, fmt.Sprintf("%s modifies the source through %s", exprStr(n), fn.Name()))
				return c28val{}
			}
			return c28val{}
		}
		if fn.Pkg() != nil && fn.Pkg() != e.x.astPk.Types && fn.Pkg() != e.x.utilPk.Types {
			return c28val{} // methods of other packages (strings.Builder …) produce no node
		}
		return e.unknown(n.Pos(), "method %s is not a plain getter or setter", fn.Name())
	}
	// constructors of package ast
	if fn.Pkg() == e.x.astPk.Types {
		if c := e.x.ctorOf(fn); c.ok {
			rec := &c28rec{typ: c.typ, slots: map[string]*c28val{}, pos: n.Pos()}
			for name, idx := range c.fields {
				if idx >= 0 && idx < len(n.Args) {
					v := e.consume(e.expr(n.Args[idx]))
					rec.slots[name] = &v
				}
			}
			return c28val{rec: rec}
		}
		return e.unknown(n.Pos(), "function %s of package ast is not a plain constructor", fn.Name())
	}
	// helpers of the same package: evaluated in place
	if gi := e.x.decls[fn]; gi != nil && fn.Pkg() == e.x.utilPk.Types {
		if e.depth >= 4 {
			return e.unknown(n.Pos(), "helper nesting too deep at %s", fn.Name())
		}
		sub := &c28eval{x: e.x, info: gi.Pkg.TypesInfo, fi: gi, self: nil, env: map[types.Object]*c28var{}, depth: e.depth + 1, loops2: e.loops2}
		sig := fn.Type().(*types.Signature)
		for i := 0; i < sig.Params().Len() && i < len(n.Args); i++ {
			sub.bind(sig.Params().At(i), e.consume(e.expr(n.Args[i])))
		}
		sub.stmts(gi.Decl.Body.List)
		e.unk = append(e.unk, sub.unk...)
		e.errs = append(e.errs, sub.errs...)
		e.sinks = append(e.sinks, sub.sinks...)
		e.visits = append(e.visits, sub.visits...)
		out := c28val{}
		for _, rv := range sub.rets {
			out = c28union(out, sub.consume(rv))
		}
		return out
	}
	// standard library
	if fn.Pkg() != nil {
		switch fn.Pkg().Path() + "." + fn.Name() {
		case "bytes.Clone", "slices.Clone":
			v := e.consume(e.expr(n.Args[0]))
			if sl, ok := info.TypeOf(n.Args[0]).Underlying().(*types.Slice); ok && c28isScalar(sl.Elem()) {
				return v.with(func(s c28src) c28src { return c28src{s.path, true} })
			}
			return v
		}
		if !strings.HasPrefix(fn.Pkg().Path(), modulePath) {
			if r := fn.Type().(*types.Signature).Results(); r.Len() == 0 || c28isScalar(r.At(0).Type()) {
				return c28val{}
			}
		}
	}
	return e.unknown(n.Pos(), "call of %s", fn.FullName())
}

// store assigns v to the l-value lhs.
func (e *c28eval) store(lhs ast.Expr, v c28val, pos token.Pos, whole bool) {
	info := e.info
	lhs = ast.Unparen(lhs)
	switch l := lhs.(type) {
	case *ast.Ident:
		if l.Name == "_" {
			return
		}
		obj := info.Defs[l]
		if obj == nil {
			obj = info.Uses[l]
		}
		if whole { // copy(dst, src): contents, not the variable
			cur := e.env[obj]
			if cur == nil {
				e.bind(obj, e.consume(v))
				return
			}
			cur.val = c28union(e.consume(cur.val), e.consume(v))
			cur.elem = true
			return
		}
		if info.Defs[l] != nil {
			e.bind(obj, v)
			return
		}
		e.merge(obj, v)
	case *ast.IndexExpr:
		id, ok := ast.Unparen(l.X).(*ast.Ident)
		if !ok {
			e.unknown(pos, "store into %s", exprStr(lhs))
			return
		}
		obj := info.Uses[id]
		cur := e.env[obj]
		if cur == nil {
			e.unknown(pos, "store into untracked slice %s", id.Name)
			return
		}
		cur.val = c28union(e.consume(cur.val), c28lift(e.consume(v)))
		cur.elem = true
	case *ast.SelectorExpr:
		sel := info.Selections[l]
		if sel == nil || sel.Kind() != types.FieldVal {
			e.unknown(pos, "store into %s", exprStr(lhs))
			return
		}
		fp := c28fieldPath(sel)
		switch b := ast.Unparen(l.X).(type) {
		case *ast.Ident:
			cur := e.env[info.Uses[b]]
			if cur != nil && cur.val.rec != nil {
				cv := e.consume(v)
				cur.val.rec.slots[fp] = &cv
				return
			}
			if cur != nil && len(cur.val.srcs) > 0 {
				e.errs = append(e.errs, fmt.Sprintf("assignment to %s writes into the source tree", exprStr(lhs)))
				return
			}
		case *ast.IndexExpr: // v[i].G = E
			if id, ok := ast.Unparen(b.X).(*ast.Ident); ok {
				if cur := e.env[info.Uses[id]]; cur != nil {
					cv := e.consume(v)
					out := c28val{errs: cv.errs, unk: cv.unk}
					for _, s := range cv.srcs {
						if strings.HasSuffix(s.path, "."+fp) {
							out.srcs = append(out.srcs, c28src{strings.TrimSuffix(s.path, "."+fp), s.cloned})
						} else {
							out.errs = append(out.errs, fmt.Sprintf("field %s of an element receives %s", fp, c28val{srcs: []c28src{s}}))
							out.srcs = append(out.srcs, s)
						}
					}
					if !c28isScalar(sel.Type()) {
						for _, s := range cv.srcs {
							if !s.cloned {
								out.errs = append(out.errs, fmt.Sprintf("field %s of an element stores n.%s itself, not a copy", fp, s.path))
							}
						}
						for i := range out.srcs {
							out.srcs[i].cloned = true
						}
					}
					cur.val = c28union(e.consume(cur.val), c28lift(out))
					cur.subs[fp] = true
					return
				}
			}
		}
		e.unknown(pos, "store into %s", exprStr(lhs))
	default:
		e.unknown(pos, "store into %s", exprStr(lhs))
	}
}

func (e *c28eval) stmts(list []ast.Stmt) {
	for _, s := range list {
		if e.done && !e.inCl {
			return
		}
		e.stmt(s)
	}
}

func (e *c28eval) stmt(s ast.Stmt) {
	info := e.info
	switch s := s.(type) {
	case nil, *ast.EmptyStmt, *ast.BranchStmt, *ast.IncDecStmt:
	case *ast.BlockStmt:
		e.stmts(s.List)
	case *ast.LabeledStmt:
		e.stmt(s.Stmt)
	case *ast.ExprStmt:
		if c, ok := s.X.(*ast.CallExpr); ok {
			e.call(c)
		}
	case *ast.DeclStmt:
		gd, ok := s.Decl.(*ast.GenDecl)
		if !ok || gd.Tok != token.VAR {
			return
		}
		for _, sp := range gd.Specs {
			vs := sp.(*ast.ValueSpec)
			for i, id := range vs.Names {
				if i < len(vs.Values) {
					e.store(id, e.expr(vs.Values[i]), id.Pos(), false)
				} else if len(vs.Values) == 0 {
					e.bind(info.Defs[id], c28val{})
				} else {
					e.bind(info.Defs[id], e.unknown(id.Pos(), "multi-value declaration"))
				}
			}
		}
	case *ast.AssignStmt:
		if len(s.Lhs) == len(s.Rhs) {
			vals := make([]c28val, len(s.Rhs))
			for i, r := range s.Rhs {
				vals[i] = e.expr(r)
			}
			for i, l := range s.Lhs {
				if s.Tok != token.ASSIGN && s.Tok != token.DEFINE {
					continue // x += … on scalars
				}
				e.store(l, vals[i], s.Pos(), false)
			}
			return
		}
		// v, ok := x.(T) and similar
		if len(s.Rhs) == 1 {
			rv := e.expr(s.Rhs[0])
			if _, isCall := ast.Unparen(s.Rhs[0]).(*ast.CallExpr); isCall && !(len(rv.srcs) == 0 && rv.rec == nil && rv.unk == "") {
				rv = e.unknown(s.Pos(), "multi-value call")
			}
			for i, l := range s.Lhs {
				if i == 0 {
					e.store(l, rv, s.Pos(), false)
				} else {
					e.store(l, c28val{}, s.Pos(), false)
				}
			}
		}
	case *ast.IfStmt:
		e.stmt(s.Init)
		e.stmt(s.Body)
		e.stmt(s.Else)
	case *ast.ForStmt:
		e.stmt(s.Init)
		e.stmt(s.Post)
		e.stmt(s.Body)
		if e.loops2 {
			e.stmt(s.Post)
			e.stmt(s.Body)
		}
	case *ast.RangeStmt:
		xv := e.consume(e.expr(s.X))
		if s.Key != nil {
			e.store(s.Key, c28val{}, s.Pos(), false)
		}
		if s.Value != nil {
			e.store(s.Value, xv.with(func(c c28src) c28src { return c28src{c.path + "[]", c.cloned} }), s.Pos(), false)
		}
		e.stmt(s.Body)
	case *ast.ReturnStmt:
		if len(s.Results) >= 1 {
			if tv, ok := info.Types[s.Results[0]]; ok && tv.IsNil() && !e.inCl {
				return // the nil-in nil-out exit in front of the dispatch
			}
			e.rets = append(e.rets, e.expr(s.Results[0]))
			e.retPos = append(e.retPos, s.Pos())
		}
	case *ast.SwitchStmt:
		e.stmt(s.Init)
		for _, c := range s.Body.List {
			e.stmts(c.(*ast.CaseClause).Body)
		}
	case *ast.TypeSwitchStmt:
		if s == e.sw {
			// the operand aliases the source
			src := c28val{srcs: []c28src{{"", false}}}
			if obj := info.Implicits[e.clause]; obj != nil {
				e.bind(obj, src)
			}
			was := e.inCl
			e.inCl = true
			e.stmts(e.clause.Body)
			e.inCl = was
			if n := len(e.clause.Body); n > 0 {
				if _, ok := e.clause.Body[n-1].(*ast.ReturnStmt); ok || c28panics(info, e.clause.Body) {
					e.done = true
				}
			}
			return
		}
		e.stmt(s.Init)
		var operand c28val
		switch a := s.Assign.(type) {
		case *ast.AssignStmt:
			operand = e.expr(ast.Unparen(a.Rhs[0]).(*ast.TypeAssertExpr).X)
		case *ast.ExprStmt:
			operand = e.expr(ast.Unparen(a.X).(*ast.TypeAssertExpr).X)
		}
		for _, c := range s.Body.List {
			cc := c.(*ast.CaseClause)
			if obj := info.Implicits[cc]; obj != nil {
				e.bind(obj, operand)
			}
			e.stmts(cc.Body)
		}
	default:
		e.unknown(s.Pos(), "statement form %T", s)
	}
}

// finishRecord checks a constructed record as a copy. For the top-level record (the result of a
// copy clause) each leaf is reported separately through report; for a sub-record the defects are
// attached to the value, which then stands for a copy of the common source prefix.
func (x *c28) finishRecord(rec *c28rec, top bool, report func(leaf c28leaf, ok bool, fact string)) c28val {
	out := c28val{}
	prefix, prefixSet := "", false
	allCloned := true
	name := rec.typ.Obj().Name()
	for _, lf := range x.copyLeaves(rec.typ) {
		sv := rec.slots[lf.path]
		fail := func(format string, a ...any) {
			m := fmt.Sprintf(format, a...)
			if top {
				report(lf, false, m)
			} else {
				out.errs = append(out.errs, name+"."+lf.path+": "+m)
			}
		}
		if sv != nil && sv.unk != "" {
			out.unk = sv.unk
			if top {
				report(lf, false, "?"+sv.unk)
			}
			continue
		}
		if sv == nil || len(sv.srcs) == 0 {
			if _, opt := c28OptionalInline[lf.path]; opt && !top {
				continue
			}
			what := "left at its zero value"
			if sv != nil {
				what = "set to " + sv.String()
			}
			fail("field %s of the new %s is %s, not taken from the source", lf.path, name, what)
			continue
		}
		bad := false
		for _, e := range sv.errs {
			fail("%s", e)
			bad = true
		}
		for _, s := range sv.srcs {
			var p string
			switch {
			case s.path == lf.path:
				p = ""
			case strings.HasSuffix(s.path, "."+lf.path):
				p = strings.TrimSuffix(s.path, "."+lf.path)
			case strings.HasSuffix(s.path, "[]."+lf.path):
				p = strings.TrimSuffix(s.path, "."+lf.path)
			default:
				fail("field %s of the new %s receives %s (a different field)", lf.path, name, c28val{srcs: []c28src{s}})
				bad = true
				continue
			}
			if top && p != "" {
				fail("field %s of the new %s receives %s (not the node being copied)", lf.path, name, c28val{srcs: []c28src{s}})
				bad = true
				continue
			}
			if !prefixSet {
				prefix, prefixSet = p, true
			} else if p != prefix {
				fail("field %s is taken from n.%s while other fields come from n.%s", lf.path, s.path, prefix)
				bad = true
			}
			if lf.ref && !s.cloned {
				fail("field %s of the new %s holds n.%s itself: the copy shares it with the source", lf.path, name, s.path)
				bad = true
				allCloned = false
			}
		}
		if !bad && top {
			report(lf, true, fmt.Sprintf("%s <- %s", lf.path, sv.String()))
		}
	}
	if !prefixSet && !top {
		out.errs = append(out.errs, fmt.Sprintf("new %s built from nothing of the source", name))
	}
	out.srcs = []c28src{{prefix, allCloned}}
	if !allCloned {
		out.srcs[0].cloned = true // the sharing was already reported on the field
	}
	return out
}

// ---------------------------------------------------------------------------
// R-2: copy clauses.

func (x *c28) runClause(h *c28hit, nt *types.Named) *c28eval {
	e := &c28eval{x: x, info: h.fi.Pkg.TypesInfo, fi: h.fi, sw: h.sw, clause: h.clause, self: nt, env: map[types.Object]*c28var{}}
	sig := h.fi.Obj.Type().(*types.Signature)
	np := x.nodeParam(h.fi)
	for i := 0; i < sig.Params().Len(); i++ {
		p := sig.Params().At(i)
		if p == np {
			e.bind(p, c28val{srcs: []c28src{{"", false}}})
		} else {
			e.bind(p, c28val{})
		}
	}
	e.stmts(h.fi.Decl.Body.List)
	return e
}

func (x *c28) checkCopyClause(h *c28hit, nt *types.Named) {
	r := x.r
	name := nt.Obj().Name()
	key := func(leaf string) string { return x.copyNd.Name() + "#" + name + "." + leaf }
	e := x.runClause(h, nt)
	leaves := x.copyLeaves(nt)
	if len(e.unk) > 0 {
		r.Ob("R-2", key("*"), h.clause.Pos()).Unknown("clause for *%s in %s not understood: %s", name, h.fi.Name(), strings.Join(e.unk, "; "))
		return
	}
	for _, m := range e.errs {
		r.Ob("R-2", key("source"), h.clause.Pos()).Bad("%s", m)
	}
	if len(e.rets) == 0 {
		r.Ob("R-2", key("*"), h.clause.Pos()).Bad("the clause for *%s returns nothing", name)
		return
	}
	type res struct {
		ok   bool
		fact []string
	}
	per := map[string]*res{}
	for _, lf := range leaves {
		per[lf.path] = &res{ok: true}
	}
	for i, rv := range e.rets {
		if rv.rec != nil && rv.rec.typ == nt {
			x.finishRecord(rv.rec, true, func(lf c28leaf, ok bool, fact string) {
				p := per[lf.path]
				p.ok = p.ok && ok
				p.fact = append(p.fact, fact)
			})
			continue
		}
		v := e.consume(rv)
		whole := len(v.srcs) == 1 && v.srcs[0].path == "" && v.srcs[0].cloned && len(v.errs) == 0
		for _, lf := range leaves {
			p := per[lf.path]
			if whole {
				p.fact = append(p.fact, "the whole node is handed to a copy function")
			} else {
				p.ok = false
				p.fact = append(p.fact, fmt.Sprintf("the clause returns %s at %s, not a new %s", v, r.P.Pos(e.retPos[i]), name))
			}
		}
	}
	for _, lf := range leaves {
		p := per[lf.path]
		o := r.Ob("R-2", key(lf.path), h.clause.Pos())
		fact := strings.Join(p.fact, "; ")
		if strings.Contains(fact, "??") || strings.HasPrefix(fact, "?") {
			o.Unknown("%s", fact)
		} else if p.ok {
			o.OK("%s", fact)
		} else {
			o.Bad("%s", fact)
		}
	}
}

// checkCopyFunc checks a leaf copy function (func(*T) *T over an ast struct, e.g. the position
// and tree copiers) as a copy of its parameter.
func (x *c28) checkCopyFunc(fi *FuncInfo) {
	r := x.r
	sig := fi.Obj.Type().(*types.Signature)
	p := sig.Params().At(0)
	nt := x.inAst(p.Type())
	if nt == nil {
		return
	}
	if _, isS := nt.Underlying().(*types.Struct); !isS {
		// an interface-typed copier other than the Node one: it must dispatch
		if x.dispatchOf(fi) == nil {
			r.Ob("R-2", fi.Name()+"#*", fi.Decl.Pos()).Unknown("%s neither dispatches on its parameter nor copies a struct", fi.Name())
		}
		return
	}
	e := &c28eval{x: x, info: fi.Pkg.TypesInfo, fi: fi, self: nt, env: map[types.Object]*c28var{}, inCl: true}
	e.bind(p, c28val{srcs: []c28src{{"", false}}})
	e.stmts(fi.Decl.Body.List)
	o := r.Ob("R-2", fi.Name()+"#"+nt.Obj().Name(), fi.Decl.Pos())
	if len(e.unk) > 0 {
		o.Unknown("%s not understood: %s", fi.Name(), strings.Join(e.unk, "; "))
		return
	}
	var bad, good []string
	n := 0
	for _, rv := range e.rets {
		if len(rv.srcs) == 0 && rv.rec == nil {
			continue // return nil for a nil argument
		}
		n++
		if rv.rec != nil && rv.rec.typ == nt {
			x.finishRecord(rv.rec, true, func(lf c28leaf, ok bool, fact string) {
				if ok {
					good = append(good, fact)
				} else {
					bad = append(bad, fact)
				}
			})
			continue
		}
		v := e.consume(rv)
		if len(v.srcs) == 1 && v.srcs[0].path == "" && v.srcs[0].cloned && len(v.errs) == 0 {
			good = append(good, "delegates the whole value to a copy function")
		} else {
			bad = append(bad, fmt.Sprintf("returns %s", v))
		}
	}
	switch {
	case n == 0:
		o.Bad("%s returns no copy", fi.Name())
	case len(bad) > 0:
		o.Bad("%s", strings.Join(bad, "; "))
	default:
		o.OK("%s", strings.Join(good, "; "))
	}
}

// ---------------------------------------------------------------------------
// R-2w: walk clauses.

func (x *c28) checkWalkClause(h *c28hit, nt *types.Named) {
	r := x.r
	name := nt.Obj().Name()
	leaves := x.walkLeaves(nt, true)
	key := func(leaf string) string { return x.walk.Name() + "#" + name + "." + leaf }
	if len(leaves) == 0 && h.kind == c28Generic {
		r.Ob("R-2w", key("-"), h.clause.Pos()).Trivial("*%s has no child node", name)
		return
	}
	e := x.runClause(h, nt)
	if len(e.unk) > 0 {
		r.Ob("R-2w", key("*"), h.clause.Pos()).Unknown("walk clause for *%s not understood: %s", name, strings.Join(e.unk, "; "))
		return
	}
	if len(leaves) == 0 {
		o := r.Ob("R-2w", key("-"), h.clause.Pos())
		if len(e.sinks) == 0 {
			o.Trivial("*%s has no child node", name)
		} else {
			o.Unknown("*%s has no child field but its clause walks %s", name, e.sinks[0].path)
		}
		return
	}
	used := map[int]bool{}
	for _, lf := range leaves {
		o := r.Ob("R-2w", key(lf), h.clause.Pos())
		var at []string
		byRef := true
		for i, s := range e.sinks {
			if s.path == lf {
				used[i] = true
				at = append(at, r.P.Pos(s.pos))
				for _, c := range s.val.srcs {
					if c.cloned {
						byRef = false
					}
				}
			}
		}
		var deeper []string
		for i, s := range e.sinks {
			if strings.HasPrefix(s.path, lf+".") || strings.HasPrefix(s.path, lf+"[]") {
				deeper = append(deeper, "n."+s.path)
				used[i] = true
			}
		}
		switch {
		case len(at) == 1 && byRef:
			o.OK("n.%s is handed to %s once", lf, x.walk.Name())
		case len(at) > 1:
			o.Bad("n.%s is handed to %s %d times (%s): its nodes are visited more than once", lf, x.walk.Name(), len(at), strings.Join(at, ", "))
		case len(at) == 1:
			o.Bad("a copy of n.%s is walked, not the node itself", lf)
		case len(deeper) > 0:
			o.Bad("n.%s is never handed to %s, only what is below it (%s): the node n.%s itself is not visited", lf, x.walk.Name(), strings.Join(deeper, ", "), lf)
		default:
			o.Bad("n.%s is never handed to %s in the clause for *%s: the nodes below it are not visited", lf, x.walk.Name(), name)
		}
	}
	for i, s := range e.sinks {
		if !used[i] {
			r.Ob("R-2w", key("extra:"+s.path), s.pos).Unknown("the clause for *%s walks n.%s, which is not a child field of the node", name, s.path)
		}
	}
}

// ---------------------------------------------------------------------------
// R-3: nil safety.

// gatherNilable collects, from every construction site of an ast struct in the module, the fields
// that may be left nil: a literal nil, a variable declared without value and not assigned on every
// path, or a field the constructor does not set.
func (x *c28) gatherNilable() {
	r := x.r
	add := func(nt *types.Named, field string, why string) {
		st := nt.Underlying().(*types.Struct)
		for i := 0; i < st.NumFields(); i++ {
			if st.Field(i).Name() != field {
				continue
			}
			switch st.Field(i).Type().Underlying().(type) {
			case *types.Pointer, *types.Interface:
				k := nt.Obj().Name() + "." + field
				if len(x.nilable[k]) < 3 {
					x.nilable[k] = append(x.nilable[k], why)
				}
			}
		}
	}
	reach := x.parseReach()
	r.Stats["parse_reachable_funcs"] = len(reach)
	for _, pk := range r.P.Pkgs {
		if pk.Types == nil || !strings.HasPrefix(pk.PkgPath, modulePath) {
			continue
		}
		info := pk.TypesInfo
		for _, f := range pk.Syntax {
			if r.P.isTestFile(f) {
				continue
			}
			file := f
			ast.Inspect(f, func(n ast.Node) bool {
				if fd, ok := n.(*ast.FuncDecl); ok {
					obj, _ := info.Defs[fd.Name].(*types.Func)
					// the copier only reproduces what it is given: its own constructions say nothing
					return obj != nil && reach[obj] && pk != x.utilPk
				}
				switch n := n.(type) {
				case *ast.CallExpr:
					fn := callee(info, n)
					if fn == nil || fn.Pkg() != x.astPk.Types {
						return true
					}
					c := x.ctorOf(fn)
					if !c.ok {
						return true
					}
					for name, idx := range c.fields {
						if idx >= 0 && idx < len(n.Args) {
							if why := x.mayBeNil(pk, file, n.Args[idx], n); why != "" {
								add(c.typ, name, fmt.Sprintf("%s(…) at %s %s", fn.Name(), r.P.Pos(n.Pos()), why))
							}
						}
					}
					for name := range c.nilset {
						add(c.typ, name, fmt.Sprintf("%s leaves it unset", fn.Name()))
					}
				case *ast.CompositeLit:
					nt := x.inAst(info.TypeOf(n))
					if nt == nil {
						return true
					}
					st, ok := nt.Underlying().(*types.Struct)
					if !ok {
						return true
					}
					if fd := r.P.enclosingFunc(pk, n.Pos()); fd != nil && fd.Obj != nil && x.ctors[fd.Obj] != nil && x.ctors[fd.Obj].ok {
						return true // the literal of a constructor: its call sites are examined instead
					}
					set := map[string]bool{}
					for i, el := range n.Elts {
						name, val := "", el
						if kv, ok := el.(*ast.KeyValueExpr); ok {
							if id, ok := kv.Key.(*ast.Ident); ok {
								name = id.Name
							}
							val = kv.Value
						} else if i < st.NumFields() {
							name = st.Field(i).Name()
						}
						set[name] = true
						if why := x.mayBeNil(pk, file, val, n); why != "" {
							add(nt, name, fmt.Sprintf("literal at %s %s", r.P.Pos(n.Pos()), why))
						}
					}
					for i := 0; i < st.NumFields(); i++ {
						if !set[st.Field(i).Name()] {
							add(nt, st.Field(i).Name(), fmt.Sprintf("literal at %s leaves it unset", r.P.Pos(n.Pos())))
						}
					}
				}
				return true
			})
		}
	}
	r.Stats["nilable_fields"] = len(x.nilable)
}

// parseReach returns the functions of the module statically reachable (direct calls, method calls
// with a static receiver, go statements) from the parsing entry points: the exported functions of
// internal/compiler that return a *ast.Tree.
func (x *c28) parseReach() map[*types.Func]bool {
	r := x.r
	decls := map[*types.Func]*FuncInfo{}
	for _, pk := range r.P.Pkgs {
		rel := strings.TrimPrefix(strings.TrimPrefix(pk.PkgPath, modulePath), "/")
		if r.P.Pkg(rel) != pk {
			continue
		}
		for _, fi := range r.P.Funcs(rel) {
			if fi.Obj != nil && !r.P.isTestFile(fi.File) {
				decls[fi.Obj] = fi
			}
		}
	}
	treeT := r.P.Named("ast", "Tree")
	var stack []*types.Func
	seen := map[*types.Func]bool{}
	for fn, fi := range decls {
		if fi.Pkg != r.P.Pkg("internal/compiler") || !fn.Exported() || fi.Decl.Recv != nil || treeT == nil {
			continue
		}
		res := fn.Type().(*types.Signature).Results()
		for i := 0; i < res.Len(); i++ {
			if p, ok := res.At(i).Type().(*types.Pointer); ok && types.Identical(p.Elem(), treeT) {
				if !seen[fn] {
					seen[fn] = true
					stack = append(stack, fn)
				}
			}
		}
	}
	r.Anchor("R-3", "parsing entry points: exported functions of internal/compiler returning *ast.Tree", len(stack) > 0)
	for len(stack) > 0 {
		fn := stack[len(stack)-1]
		stack = stack[:len(stack)-1]
		fi := decls[fn]
		if fi == nil {
			continue
		}
		for _, c := range calls(fi.Decl.Body, true) {
			if g := callee(fi.Pkg.TypesInfo, c); g != nil && decls[g] != nil && !seen[g] {
				seen[g] = true
				stack = append(stack, g)
			}
		}
	}
	return seen
}

// mayBeNil explains why arg can be nil at site, or returns "".
func (x *c28) mayBeNil(pk *packages.Package, file *ast.File, arg ast.Expr, site ast.Node) string {
	info := pk.TypesInfo
	if tv, ok := info.Types[arg]; ok && tv.IsNil() {
		return "passes nil"
	}
	id, ok := ast.Unparen(arg).(*ast.Ident)
	if !ok {
		return ""
	}
	v, ok := info.Uses[id].(*types.Var)
	if !ok || v.Parent() == nil || v.Parent() == v.Pkg().Scope() {
		return ""
	}
	switch v.Type().Underlying().(type) {
	case *types.Pointer, *types.Interface:
	default:
		return ""
	}
	// declared by `var v T` without a value?
	fd := x.r.P.enclosingFunc(pk, site.Pos())
	if fd == nil {
		return ""
	}
	zero := false
	ast.Inspect(fd.Decl.Body, func(n ast.Node) bool {
		if vs, ok := n.(*ast.ValueSpec); ok && len(vs.Values) == 0 {
			for _, nm := range vs.Names {
				if info.Defs[nm] == v {
					zero = true
				}
			}
		}
		return true
	})
	if !zero {
		return ""
	}
	assigns := func(n ast.Node) bool {
		found := false
		ast.Inspect(n, func(m ast.Node) bool {
			if _, ok := m.(*ast.FuncLit); ok {
				return false
			}
			if as, ok := m.(*ast.AssignStmt); ok {
				for _, l := range as.Lhs {
					if li, ok := ast.Unparen(l).(*ast.Ident); ok && info.Uses[li] == v {
						found = true
					}
				}
			}
			return true
		})
		return found
	}
	// inside a function literal the graph of the declaration does not contain the site
	c := x.r.P.CFG(info, file, fd.Decl.Body)
	if blk, _ := c.Locate(site); blk == nil {
		return ""
	}
	if c.MustPassNode(site, assigns) {
		return ""
	}
	return fmt.Sprintf("passes %s, declared nil and not assigned on every path", id.Name)
}

// pathOf renders an expression rooted at the clause variable as a field path ("" = the variable),
// following field selections and plain getters; ok is false for anything else.
func (x *c28) pathOf(info *types.Info, root types.Object, e ast.Expr) (string, bool) {
	e = ast.Unparen(e)
	switch n := e.(type) {
	case *ast.Ident:
		if info.Uses[n] == root {
			return "", true
		}
	case *ast.SelectorExpr:
		sel := info.Selections[n]
		if sel == nil || sel.Kind() != types.FieldVal {
			return "", false
		}
		b, ok := x.pathOf(info, root, n.X)
		if !ok {
			return "", false
		}
		return c28join(b, c28fieldPath(sel)), true
	case *ast.CallExpr:
		sel, ok := ast.Unparen(n.Fun).(*ast.SelectorExpr)
		if !ok || len(n.Args) != 0 {
			return "", false
		}
		s := info.Selections[sel]
		fn, _ := callee(info, n), 0
		if s == nil || fn == nil {
			return "", false
		}
		b, ok := x.pathOf(info, root, sel.X)
		if !ok {
			return "", false
		}
		switch sum := x.methodSummary(fn); {
		case sum == "self":
			return c28join(b, c28embeddedPath(s)), true
		case strings.HasPrefix(sum, "get:"):
			return c28join(b, c28join(c28embeddedPath(s), strings.TrimPrefix(sum, "get:"))), true
		}
	}
	return "", false
}

// nilTolerant reports whether fn returns before touching parameter i when it is nil.
func (x *c28) nilTolerant(fn *types.Func, i int) bool {
	fi := x.decls[fn]
	if fi == nil {
		return false
	}
	info := fi.Pkg.TypesInfo
	sig := fn.Type().(*types.Signature)
	if i >= sig.Params().Len() {
		return false
	}
	p := sig.Params().At(i)
	mentions := func(n ast.Node) bool {
		found := false
		ast.Inspect(n, func(m ast.Node) bool {
			if id, ok := m.(*ast.Ident); ok && info.Uses[id] == p {
				found = true
			}
			return true
		})
		return found
	}
	for _, s := range fi.Decl.Body.List {
		if is, ok := s.(*ast.IfStmt); ok && is.Init == nil {
			guard := false
			for _, d := range splitOr(is.Cond) {
				if b, ok := ast.Unparen(d).(*ast.BinaryExpr); ok && b.Op == token.EQL {
					for _, pair := range [][2]ast.Expr{{b.X, b.Y}, {b.Y, b.X}} {
						if id, ok := ast.Unparen(pair[0]).(*ast.Ident); ok && info.Uses[id] == p {
							if tv, ok := info.Types[pair[1]]; ok && tv.IsNil() {
								guard = true
							}
						}
					}
				}
			}
			if guard && len(is.Body.List) > 0 {
				if _, ok := is.Body.List[len(is.Body.List)-1].(*ast.ReturnStmt); ok {
					return true
				}
			}
		}
		if mentions(s) {
			return false
		}
	}
	return false
}

func (x *c28) checkNil(h *c28hit, nt *types.Named, root string) {
	r := x.r
	info := h.fi.Pkg.TypesInfo
	bound := info.Implicits[h.clause]
	if bound == nil {
		return
	}
	name := nt.Obj().Name()
	parents := r.P.Parents(h.fi.File)
	cfg := r.P.CFGOf(h.fi)
	type site struct {
		n   ast.Expr
		why string
		agg *c28ptrArg
	}
	sites := map[string][]site{}
	order := []string{}
	for _, st := range h.clause.Body {
		ast.Inspect(st, func(n ast.Node) bool {
			if _, ok := n.(*ast.FuncLit); ok {
				return false
			}
			e, ok := n.(ast.Expr)
			if !ok {
				return true
			}
			p, ok := x.pathOf(info, bound, e)
			if !ok || p == "" || strings.Contains(p, ".") {
				return true
			}
			ev := x.nilable[name+"."+p]
			if len(ev) == 0 {
				return true
			}
			// skip the inner part of a longer path expression of the same field (n.F inside n.F() …)
			ft := info.TypeOf(e)
			_, isPtr := ft.Underlying().(*types.Pointer)
			_, isIface := ft.Underlying().(*types.Interface)
			if !isPtr && !isIface {
				return true
			}
			why := ""
			var agg *c28ptrArg
			switch par := parents[e].(type) {
			case *ast.SelectorExpr:
				if par.X == e {
					if s := info.Selections[par]; s != nil {
						if s.Kind() == types.FieldVal {
							why = fmt.Sprintf("%s reads a field through it", exprStr(par))
						} else if isIface {
							why = fmt.Sprintf("%s calls a method on it", exprStr(par))
						} else if fn, ok := s.Obj().(*types.Func); ok && x.methodSummary(fn) != "self" {
							// methods that only return their receiver are harmless on nil
							if _, ptrRecv := fn.Type().(*types.Signature).Recv().Type().(*types.Pointer); !ptrRecv || len(s.Index()) > 1 {
								why = fmt.Sprintf("%s calls a method that dereferences it", exprStr(par))
							}
						}
					}
				}
			case *ast.StarExpr:
				why = "it is dereferenced"
			case *ast.CallExpr:
				for i, a := range par.Args {
					if a != e {
						continue
					}
					fn := callee(info, par)
					if fn == nil {
						continue
					}
					sig := fn.Type().(*types.Signature)
					if i >= sig.Params().Len() {
						continue
					}
					pt := sig.Params().At(i).Type()
					_, pIface := pt.Underlying().(*types.Interface)
					switch {
					case isPtr && pIface:
						if x.decls[fn] != nil {
							why = fmt.Sprintf("%s wraps the nil pointer in a non-nil %s: %s sees a node that is a nil *%s", exprStr(par), typeStr(pt), fn.Name(), x.inAstName(ft))
						}
					case isPtr && x.decls[fn] != nil:
						// pointer handed to a helper taking a pointer: one obligation per helper
						k := funcKey(fn)
						if x.ptrArgs[k] == nil {
							x.ptrArgs[k] = &c28ptrArg{fn: fn, tolerant: x.nilTolerant(fn, i), pos: x.decls[fn].Decl.Pos()}
						}
						agg = x.ptrArgs[k]
						agg.fields = append(agg.fields, fmt.Sprintf("%s.%s (%s)", name, p, ev[0]))
						if !agg.tolerant {
							why = fmt.Sprintf("%s in the clause for *%s", exprStr(par), name)
						}
					case x.decls[fn] != nil && !x.nilTolerant(fn, i):
						why = fmt.Sprintf("%s passes it to %s, which does not return early on nil", exprStr(par), fn.Name())
					}
				}
			}
			if why == "" {
				return true
			}
			if _, seen := sites[p]; !seen {
				order = append(order, p)
			}
			sites[p] = append(sites[p], site{e, why, agg})
			return true
		})
	}
	for _, p := range order {
		var unguarded []string
		own := 0
		for _, s := range sites[p] {
			target := s.n
			if s.agg == nil {
				own++
			}
			ok := cfg.GuardedBy(target, func(l Lit) bool {
				b, isB := ast.Unparen(l.Expr).(*ast.BinaryExpr)
				if !isB || l.Tag != nil {
					return false
				}
				if !((b.Op == token.NEQ && l.Truth) || (b.Op == token.EQL && !l.Truth)) {
					return false
				}
				for _, pair := range [][2]ast.Expr{{b.X, b.Y}, {b.Y, b.X}} {
					if tv, ok := info.Types[pair[1]]; ok && tv.IsNil() {
						if q, ok := x.pathOf(info, bound, pair[0]); ok && q == p {
							return true
						}
					}
				}
				return false
			})
			if !ok && s.agg != nil {
				s.agg.unguarded = append(s.agg.unguarded, fmt.Sprintf("%s at %s", s.why, r.P.Pos(s.n.Pos())))
			} else if !ok {
				unguarded = append(unguarded, fmt.Sprintf("%s at %s", s.why, r.P.Pos(s.n.Pos())))
			}
		}
		if own == 0 {
			continue
		}
		o := r.Ob("R-3", root+"#"+name+"."+p, sites[p][0].n.Pos())
		if len(unguarded) == 0 {
			o.OK("every use of n.%s that needs a non-nil value is dominated by a nil test (nil possible: %s)", p, x.nilable[name+"."+p][0])
		} else {
			o.Bad("n.%s can be nil (%s) and is used without a nil test: %s", p, strings.Join(x.nilable[name+"."+p], "; "), strings.Join(unguarded, "; "))
		}
	}
}

// finishPtrArgs emits one obligation per helper that receives nil-able pointer fields.
func (x *c28) finishPtrArgs() {
	for _, k := range sortedKeys(x.ptrArgs) {
		a := x.ptrArgs[k]
		o := x.r.Ob("R-3", k+"#nil-argument", a.pos)
		sort.Strings(a.fields)
		fields := a.fields
		if len(fields) > 4 {
			fields = append(append([]string{}, fields[:4]...), fmt.Sprintf("… %d more", len(a.fields)-4))
		}
		switch {
		case a.tolerant:
			o.OK("%s returns early when its argument is nil; fields that can be nil are handed to it: %s", a.fn.Name(), strings.Join(fields, "; "))
		case len(a.unguarded) == 0:
			o.OK("every call of %s with a field that can be nil is dominated by a nil test (%s)", a.fn.Name(), strings.Join(fields, "; "))
		default:
			o.Bad("%s uses its argument without a nil test and is called with fields that can be nil, without a test at the call: %s. Fields: %s", a.fn.Name(), strings.Join(a.unguarded, "; "), strings.Join(fields, "; "))
		}
	}
}

func (x *c28) inAstName(t types.Type) string {
	if nt := x.inAst(t); nt != nil {
		return nt.Obj().Name()
	}
	return typeStr(t)
}
