package main

// C17 — template variables passed to Run are the values every reference sees.
//
// The emitter records a used global as compiler.Global{Pkg, Name} and Template.Run binds the
// caller's variables to the entries whose Pkg is "main" by Name. The rules check that the writer
// and the reader use the same key and that one variable has one entry.
//
// R-1 (E5) key provenance: the package and name that reach a Global derive from the declaration
// R-2      writer and reader agree on the package literal of the embedder's globals
// R-3 (E8) UsedVars enumerates every global and sorts
// R-4 (E4) one entry, hence one cell, per variable (added; not in DESIGN.md)
//
// See /verif/DESIGN.md §5 C17.

import (
	"go/ast"
	"go/token"
	"go/types"
	"sort"

	"golang.org/x/tools/go/cfg"
)

func init() {
	register("C17", &ruleSet{
		explain: "(R-1) Starting from every composite literal of compiler.Global, the expressions that reach its Pkg and Name fields are followed backwards through parameters of the constructing functions (newGlobal, predefVarIndex) to their callers. Each terminal package expression must be the field typeInfo.NativePackageName, the Name of an *ast.Package (a variable declared in Scriggo), or the field ast.Upvar.NativePkg - in which case every write of that field in the compiler must itself be typeInfo.NativePackageName; each terminal name must be the Name of an *ast.Identifier or the Ident of an *ast.Selector (or Upvar.NativeName written only with those). (R-2) typeInfo.NativePackageName is written only with PackageName() of the package being converted (or reset to \"\"); native.Package.PackageName returns the Name field; the Name literal of the native.Package that typecheck builds around the embedder's globals equals the literal Run's binder compares Global.Pkg with, and the lookup of the caller's variable by Global.Name is under that comparison. (R-3) UsedVars stores the Name of the range value on every iteration of a range over the template's globals and sorts the result before returning it. (R-4) In the function that appends a predefined variable to the table of globals, the append is dominated by the miss edge of a lookup keyed by the variable's identity alone; a key that also contains the current function gives one entry per function, and the binder allocates one cell per entry for a non-pointer value.",
		notCov: []string{
			"that the typeInfo whose NativePackageName is used is the one the name was looked up with",
			"copy versus alias of the initial value (DESIGN.md R-4 = C10 R-4, other rule set)",
			"register allocation and the VarRefs indirection of closures",
			"UsedVars also lists variables of imported native packages and package-level variables declared in template files (observed; the property only requires the declared globals to be listed)",
		},
		trusted: []string{"reflect.Value identity: the checker creates one *reflect.Value per declared variable"},
		run:     runC17,
	})
}

type c17 struct {
	r      *Run
	fns    []*FuncInfo
	byObj  map[*types.Func]*FuncInfo
	global *types.Named
	tiPkg  *types.Var // typeInfo.NativePackageName
	upPkg  *types.Var // ast.Upvar.NativePkg
	upName *types.Var // ast.Upvar.NativeName

	forwarders map[*types.Func]bool // functions whose parameters become the key of a Global
}

func runC17(r *Run) {
	x := &c17{r: r, byObj: map[*types.Func]*FuncInfo{}, forwarders: map[*types.Func]bool{}}
	for _, rel := range []string{"", "internal/compiler", "native", "ast"} {
		for _, fi := range r.P.Funcs(rel) {
			if fi.Obj != nil && !r.P.isTestFile(fi.File) {
				x.fns = append(x.fns, fi)
				x.byObj[fi.Obj] = fi
			}
		}
	}
	sort.Slice(x.fns, func(i, j int) bool { return x.fns[i].Decl.Pos() < x.fns[j].Decl.Pos() })
	r.Require("R-1", 8)
	r.Require("R-2", 4)
	r.Require("R-3", 2)
	r.Require("R-4", 1)
	x.global = r.P.Named("internal/compiler", "Global")
	x.tiPkg = c17structField(r.P.Named("internal/compiler", "typeInfo"), "NativePackageName")
	x.upPkg = c17structField(r.P.Named("ast", "Upvar"), "NativePkg")
	x.upName = c17structField(r.P.Named("ast", "Upvar"), "NativeName")
	if !r.Anchor("R-1", "compiler.Global, typeInfo.NativePackageName, ast.Upvar.NativePkg/NativeName", x.global != nil && x.tiPkg != nil && x.upPkg != nil && x.upName != nil) {
		return
	}
	x.keyProvenance()
	x.literalAgreement()
	x.usedVars()
	x.oneEntryPerVariable()
}

func c17structField(t *types.Named, name string) *types.Var {
	if t == nil {
		return nil
	}
	st, ok := t.Underlying().(*types.Struct)
	if !ok {
		return nil
	}
	for i := 0; i < st.NumFields(); i++ {
		if st.Field(i).Name() == name {
			return st.Field(i)
		}
	}
	return nil
}

func c17fieldOf(info *types.Info, e ast.Expr) *types.Var {
	sel, ok := ast.Unparen(e).(*ast.SelectorExpr)
	if !ok {
		return nil
	}
	if s := info.Selections[sel]; s != nil && s.Kind() == types.FieldVal {
		v, _ := s.Obj().(*types.Var)
		return v
	}
	return nil
}

// owner returns "pkg.Type" of the struct a field belongs to, found by scanning named struct types.
func (x *c17) owner(f *types.Var) string {
	if f == nil || f.Pkg() == nil {
		return ""
	}
	sc := f.Pkg().Scope()
	for _, n := range sc.Names() {
		if tn, ok := sc.Lookup(n).(*types.TypeName); ok {
			if st, ok := tn.Type().Underlying().(*types.Struct); ok {
				for i := 0; i < st.NumFields(); i++ {
					if st.Field(i) == f {
						return relOf(f.Pkg()) + "." + tn.Name()
					}
				}
			}
		}
	}
	return ""
}

type c17write struct {
	fi  *FuncInfo
	val ast.Expr
	pos token.Pos
}

// writes lists the values written to field f (keyed literal elements and assignments).
func (x *c17) writes(f *types.Var) []c17write {
	var out []c17write
	for _, fi := range x.fns {
		info := fi.Pkg.TypesInfo
		ast.Inspect(fi.Decl.Body, func(n ast.Node) bool {
			switch s := n.(type) {
			case *ast.KeyValueExpr:
				if id, ok := s.Key.(*ast.Ident); ok && info.Uses[id] == types.Object(f) {
					out = append(out, c17write{fi, s.Value, s.Pos()})
				}
			case *ast.AssignStmt:
				for i, l := range s.Lhs {
					if c17fieldOf(info, l) == f {
						var v ast.Expr
						if len(s.Rhs) == len(s.Lhs) {
							v = s.Rhs[i]
						}
						out = append(out, c17write{fi, v, s.Pos()})
					}
				}
			case *ast.CompositeLit:
				// unkeyed struct literal
				if t := info.TypeOf(s); t != nil {
					if st, ok := t.Underlying().(*types.Struct); ok {
						for i, el := range s.Elts {
							if _, keyed := el.(*ast.KeyValueExpr); !keyed && i < st.NumFields() && st.Field(i) == f {
								out = append(out, c17write{fi, el, el.Pos()})
							}
						}
					}
				}
			}
			return true
		})
	}
	return out
}

// ---------------------------------------------------------------------------
// R-1

type c17use struct {
	fi   *FuncInfo
	expr ast.Expr
	what string // "pkg" | "name"
}

func (x *c17) keyProvenance() {
	r := x.r
	pkgF, nameF := c17structField(x.global, "Pkg"), c17structField(x.global, "Name")
	if !r.Anchor("R-1", "compiler.Global.Pkg and .Name", pkgF != nil && nameF != nil) {
		return
	}
	// work list of (function, expression) reaching a key component
	var work []c17use
	for _, w := range x.writes(pkgF) {
		if relOf(w.fi.Obj.Pkg()) == "compiler" {
			work = append(work, c17use{w.fi, w.val, "pkg"})
		}
	}
	for _, w := range x.writes(nameF) {
		if relOf(w.fi.Obj.Pkg()) == "compiler" {
			work = append(work, c17use{w.fi, w.val, "name"})
		}
	}
	if !r.Anchor("R-1", "a composite literal of compiler.Global with Pkg and Name", len(work) >= 2) {
		return
	}
	seen := map[string]bool{}
	upvarPkgChecked, upvarNameChecked := false, false
	for len(work) > 0 {
		u := work[0]
		work = work[1:]
		if u.expr == nil {
			r.Ob("R-1", funcKey(u.fi.Obj)+"#global-key-"+u.what, u.fi.Decl.Pos()).Unknown("a key component is written by a multi-value assignment")
			continue
		}
		info := u.fi.Pkg.TypesInfo
		// a parameter of the enclosing function: continue at the callers
		if obj := cgxObj(info, u.expr); obj != nil {
			sig := u.fi.Obj.Type().(*types.Signature)
			pi := -1
			for i := 0; i < sig.Params().Len(); i++ {
				if types.Object(sig.Params().At(i)) == obj {
					pi = i
				}
			}
			if pi >= 0 {
				if len(cgxAssignsTo(info, u.fi.Decl.Body, obj)) > 0 {
					r.Ob("R-1", funcKey(u.fi.Obj)+"#global-key-"+u.what, u.expr.Pos()).Unknown("the parameter %s is reassigned before it is used as key", obj.Name())
					continue
				}
				k := funcKey(u.fi.Obj) + "/" + u.what
				if seen[k] {
					continue
				}
				seen[k] = true
				x.forwarders[u.fi.Obj] = true
				n := 0
				for _, cf := range x.fns {
					ci := cf.Pkg.TypesInfo
					for _, c := range calls(cf.Decl.Body, true) {
						if callee(ci, c) == u.fi.Obj && pi < len(c.Args) {
							work = append(work, c17use{cf, c.Args[pi], u.what})
							n++
						}
					}
				}
				if n == 0 {
					r.Ob("R-1", funcKey(u.fi.Obj)+"#global-key-"+u.what, u.expr.Pos()).Unknown("no caller of %s found", funcKey(u.fi.Obj))
				}
				continue
			}
		}
		o := r.Ob("R-1", funcKey(u.fi.Obj)+"#global-key-"+u.what, u.expr.Pos())
		fact, verdict := x.classify(u.fi, u.expr, u.what)
		switch verdict {
		case "ok":
			o.OK("%s", fact)
		case "upvar":
			o.OK("%s", fact)
			if u.what == "pkg" && !upvarPkgChecked {
				upvarPkgChecked = true
				for _, w := range x.writes(x.upPkg) {
					ow := r.Ob("R-1", funcKey(w.fi.Obj)+"#Upvar.NativePkg", w.pos)
					if w.val != nil && c17fieldOf(w.fi.Pkg.TypesInfo, w.val) == x.tiPkg {
						ow.OK("Upvar.NativePkg is written with %s", exprStr(w.val))
					} else {
						ow.Bad("Upvar.NativePkg is written with %s, not with the declaration's typeInfo.NativePackageName: when this upvar is the first reference emitted, the variable is recorded under package %s and the value given to Run under \"main\" is not bound to it", c17str(w.val), c17str(w.val))
					}
				}
			}
			if u.what == "name" && !upvarNameChecked {
				upvarNameChecked = true
				for _, w := range x.writes(x.upName) {
					ow := r.Ob("R-1", funcKey(w.fi.Obj)+"#Upvar.NativeName", w.pos)
					if w.val == nil {
						ow.Unknown("multi-value write")
						continue
					}
					if f, v := x.classify(w.fi, w.val, "name"); v == "ok" {
						ow.OK("Upvar.NativeName: %s", f)
					} else {
						ow.Bad("Upvar.NativeName is written with %s: %s", exprStr(w.val), f)
					}
				}
			}
		case "unknown":
			o.Unknown("%s", fact)
		default:
			o.Bad("%s", fact)
		}
	}
}

func c17str(e ast.Expr) string {
	if e == nil {
		return "?"
	}
	return exprStr(e)
}

// classify decides a terminal key expression.
func (x *c17) classify(fi *FuncInfo, e ast.Expr, what string) (string, string) {
	info := fi.Pkg.TypesInfo
	if f := c17fieldOf(info, e); f != nil {
		own := x.owner(f)
		switch {
		case what == "pkg" && f == x.tiPkg:
			return "the package is " + exprStr(e) + " (typeInfo.NativePackageName of the declaration)", "ok"
		case what == "pkg" && f == x.upPkg:
			return "the package is " + exprStr(e) + " (ast.Upvar.NativePkg; its writers are checked)", "upvar"
		case what == "pkg" && own == "ast.Package" && f.Name() == "Name":
			return "the package is the Name of the *ast.Package declaring the variable (a variable declared in Scriggo)", "ok"
		case what == "name" && f == x.upName:
			return "the name is " + exprStr(e) + " (ast.Upvar.NativeName; its writers are checked)", "upvar"
		case what == "name" && ((own == "ast.Identifier" && f.Name() == "Name") || (own == "ast.Selector" && f.Name() == "Ident")):
			return "the name is " + exprStr(e) + ", the identifier written in the source", "ok"
		}
		return "the " + what + " component of a Global key is " + exprStr(e) + " (field " + own + "." + f.Name() + "), which does not derive from the declaration", "bad"
	}
	if v := cgxObj(info, e); v != nil {
		as := cgxAssignsTo(info, fi.Decl.Body, v)
		if len(as) == 0 {
			return exprStr(e) + " has no assignment in " + funcKey(fi.Obj), "unknown"
		}
		for _, a := range as {
			if vs, ok := a.Node.(*ast.ValueSpec); ok && len(vs.Values) == 0 {
				continue // declared with its zero value
			}
			if a.Rhs == nil {
				return exprStr(e) + " is assigned from a multi-value expression", "unknown"
			}
			if _, verdict := x.classify(fi, a.Rhs, what); verdict != "ok" {
				return "the " + what + " component " + v.Name() + " can be " + exprStr(a.Rhs) + ", which does not derive from the declaration", verdict
			}
		}
		return "the " + what + " is " + v.Name() + ", assigned only from identifiers written in the source", "ok"
	}
	return "the " + what + " component of a Global key is " + exprStr(e), "bad"
}

// ---------------------------------------------------------------------------
// R-2

func (x *c17) literalAgreement() {
	r := x.r
	ipkg := r.P.Named("native", "ImportablePackage")
	npkg := r.P.Named("native", "Package")
	globalsOpt := c17structField(r.P.Named("internal/compiler", "checkerOptions"), "globals")
	if !r.Anchor("R-2", "native.ImportablePackage, native.Package, checkerOptions.globals", ipkg != nil && npkg != nil && globalsOpt != nil) {
		return
	}
	pkgIface := ipkg.Underlying().(*types.Interface)
	// (1) writers of typeInfo.NativePackageName
	for _, w := range x.writes(x.tiPkg) {
		o := r.Ob("R-2", funcKey(w.fi.Obj)+"#write:NativePackageName", w.pos)
		info := w.fi.Pkg.TypesInfo
		if w.val == nil {
			o.Unknown("multi-value write")
			continue
		}
		if s, ok := stringValue(info, w.val); ok && s == "" {
			o.Trivial("reset to the empty string (an auto-imported package is not a variable)")
			continue
		}
		ok := false
		if c, isCall := ast.Unparen(w.val).(*ast.CallExpr); isCall && len(c.Args) == 0 {
			if sel, isSel := ast.Unparen(c.Fun).(*ast.SelectorExpr); isSel && sel.Sel.Name == "PackageName" {
				if t := info.TypeOf(sel.X); t != nil && types.Implements(t, pkgIface) {
					// the receiver is the package parameter of the enclosing function
					if v := cgxObj(info, sel.X); v != nil {
						sig := w.fi.Obj.Type().(*types.Signature)
						for i := 0; i < sig.Params().Len(); i++ {
							if types.Object(sig.Params().At(i)) == v {
								ok = true
							}
						}
					}
				}
			}
		}
		if ok {
			o.OK("NativePackageName is %s: the name of the package whose declarations are being converted", exprStr(w.val))
		} else {
			o.Bad("NativePackageName is written with %s, not with PackageName() of the package being converted", exprStr(w.val))
		}
	}
	// (2) native.Package.PackageName returns the Name field
	var pn *FuncInfo
	for _, fi := range x.fns {
		if sig := fi.Obj.Type().(*types.Signature); sig.Recv() != nil && types.Identical(sig.Recv().Type(), npkg) && fi.Obj.Name() == "PackageName" {
			pn = fi
		}
	}
	nameField := c17structField(npkg, "Name")
	if r.Anchor("R-2", "native.Package.PackageName and native.Package.Name", pn != nil && nameField != nil) {
		o := r.Ob("R-2", funcKey(pn.Obj)+"#returns-Name", pn.Decl.Pos())
		c := r.P.CFGOf(pn)
		ok := true
		n := 0
		for _, ret := range c.Returns() {
			n++
			if len(ret.Results) != 1 || c17fieldOf(pn.Pkg.TypesInfo, ret.Results[0]) != nameField {
				ok = false
			}
		}
		o.Set(ok && n > 0, "every return yields the Name field", "PackageName does not return the Name field: the package name recorded for globals differs from the literal")
	}
	// (3) writer literal
	var wlit string
	var wpos token.Pos
	nW := 0
	for _, fi := range x.fns {
		if relOf(fi.Obj.Pkg()) != "compiler" {
			continue
		}
		info := fi.Pkg.TypesInfo
		ast.Inspect(fi.Decl.Body, func(n ast.Node) bool {
			lit, ok := n.(*ast.CompositeLit)
			if !ok || info.TypeOf(lit) == nil || !types.Identical(info.TypeOf(lit), npkg) {
				return true
			}
			isGlobals := false
			var name ast.Expr
			for _, el := range lit.Elts {
				if kv, ok := el.(*ast.KeyValueExpr); ok {
					if c17fieldOf(info, kv.Value) == globalsOpt {
						isGlobals = true
					}
					if id, ok := kv.Key.(*ast.Ident); ok && info.Uses[id] == types.Object(nameField) {
						name = kv.Value
					}
				}
			}
			if isGlobals {
				nW++
				if name != nil {
					wlit, _ = stringValue(info, name)
				}
				wpos = lit.Pos()
			}
			return true
		})
	}
	// reader: function of the root package comparing Global.Pkg with a constant
	pkgF, nameF := c17structField(x.global, "Pkg"), c17structField(x.global, "Name")
	type reader struct {
		fi  *FuncInfo
		lit string
		cmp *ast.BinaryExpr
	}
	var readers []reader
	for _, fi := range x.fns {
		if relOf(fi.Obj.Pkg()) != "scriggo" {
			continue
		}
		info := fi.Pkg.TypesInfo
		ast.Inspect(fi.Decl.Body, func(n ast.Node) bool {
			be, ok := n.(*ast.BinaryExpr)
			if !ok || (be.Op != token.EQL && be.Op != token.NEQ) {
				return true
			}
			for _, pair := range [][2]ast.Expr{{be.X, be.Y}, {be.Y, be.X}} {
				if c17fieldOf(info, pair[0]) == pkgF {
					if s, ok := stringValue(info, pair[1]); ok {
						readers = append(readers, reader{fi, s, be})
					}
				}
			}
			return true
		})
	}
	o := r.Ob("R-2", "compiler.typecheck#globals-package-literal", wpos)
	switch {
	case nW != 1 || wlit == "":
		o.Unknown("%d native.Package literals around checkerOptions.globals with a constant Name found, expected one", nW)
	case len(readers) != 1:
		o.Unknown("%d comparisons of Global.Pkg with a constant in the root package, expected one (initGlobalVariables)", len(readers))
	case readers[0].lit != wlit:
		o.Bad("the checker declares the embedder's globals in package %q but %s binds the variables of package %q: no variable given to Run is ever bound", wlit, funcKey(readers[0].fi.Obj), readers[0].lit)
	default:
		o.OK("the checker declares the embedder's globals in package %q and %s binds the entries with Pkg == %q", wlit, funcKey(readers[0].fi.Obj), wlit)
	}
	if len(readers) == 1 {
		rd := readers[0]
		info := rd.fi.Pkg.TypesInfo
		c := r.P.CFGOf(rd.fi)
		// the lookup of the caller's map by Global.Name is under the comparison
		n := 0
		ast.Inspect(rd.fi.Decl.Body, func(nd ast.Node) bool {
			ix, ok := nd.(*ast.IndexExpr)
			if !ok || c17fieldOf(info, ix.Index) != nameF {
				return true
			}
			if _, isMap := info.TypeOf(ix.X).Underlying().(*types.Map); !isMap {
				return true
			}
			n++
			ob := r.Ob("R-2", funcKey(rd.fi.Obj)+"#lookup-by-name-under-package-test", ix.Pos())
			ok = c.GuardedBy(ix, func(l Lit) bool {
				return l.Tag == nil && ast.Unparen(l.Expr) == ast.Expr(rd.cmp) && l.Truth == (rd.cmp.Op == token.EQL)
			})
			ob.Set(ok, "the caller's variable is looked up by Global.Name only for entries of the globals package", "the caller's variables are looked up by name for entries of any package: a variable of an imported package with the same name would be bound")
			return true
		})
		if n == 0 {
			r.Ob("R-2", funcKey(rd.fi.Obj)+"#lookup-by-name-under-package-test", rd.fi.Decl.Pos()).Unknown("no lookup of a map by Global.Name")
		}
	}
}

// ---------------------------------------------------------------------------
// R-3

func (x *c17) usedVars() {
	r := x.r
	tmpl := r.P.Named("", "Template")
	if !r.Anchor("R-3", "scriggo.Template", tmpl != nil) {
		return
	}
	// the field of Template holding []compiler.Global
	var gf *types.Var
	st := tmpl.Underlying().(*types.Struct)
	for i := 0; i < st.NumFields(); i++ {
		if s, ok := st.Field(i).Type().Underlying().(*types.Slice); ok && types.Identical(s.Elem(), x.global) {
			gf = st.Field(i)
		}
	}
	// UsedVars: exported method of *Template without parameters returning []string
	var uv *FuncInfo
	for _, fi := range x.fns {
		sig := fi.Obj.Type().(*types.Signature)
		if sig.Recv() == nil || !fi.Obj.Exported() || sig.Params().Len() != 0 || sig.Results().Len() != 1 {
			continue
		}
		t := sig.Recv().Type()
		if p, ok := t.(*types.Pointer); ok {
			t = p.Elem()
		}
		if !types.Identical(t, tmpl) {
			continue
		}
		if s, ok := sig.Results().At(0).Type().Underlying().(*types.Slice); ok && c17isString(s.Elem()) {
			uv = fi
		}
	}
	if !r.Anchor("R-3", "Template's []compiler.Global field and its exported method returning []string (UsedVars)", gf != nil && uv != nil) {
		return
	}
	info := uv.Pkg.TypesInfo
	nameF := c17structField(x.global, "Name")
	key := funcKey(uv.Obj)
	o := r.Ob("R-3", key+"#enumerates-all-globals", uv.Decl.Pos())
	var rng *ast.RangeStmt
	ast.Inspect(uv.Decl.Body, func(n ast.Node) bool {
		if rs, ok := n.(*ast.RangeStmt); ok && c17fieldOf(info, rs.X) == gf {
			rng = rs
		}
		return true
	})
	c := r.P.CFGOf(uv)
	var result types.Object
	if rng == nil {
		o.Bad("UsedVars does not range over the template's globals")
	} else {
		// every path through the loop body stores the Name of the current element
		isStore := func(n ast.Node) bool {
			as, ok := n.(*ast.AssignStmt)
			if !ok || len(as.Lhs) != 1 || len(as.Rhs) != 1 {
				return false
			}
			nameOfElem := func(e ast.Expr) bool {
				if c17fieldOf(info, e) != nameF {
					return false
				}
				sx := ast.Unparen(e).(*ast.SelectorExpr).X
				if rng.Value != nil && cgxObj(info, sx) != nil && cgxObj(info, sx) == cgxObj(info, rng.Value) {
					return true
				}
				if ix, ok := ast.Unparen(sx).(*ast.IndexExpr); ok && rng.Key != nil && c17fieldOf(info, ix.X) == gf && cgxObj(info, ix.Index) == cgxObj(info, rng.Key) {
					return true
				}
				return false
			}
			if nameOfElem(as.Rhs[0]) {
				if ix, ok := ast.Unparen(as.Lhs[0]).(*ast.IndexExpr); ok {
					result = cgxObj(info, ix.X)
					return true
				}
			}
			if call, ok := ast.Unparen(as.Rhs[0]).(*ast.CallExpr); ok && isBuiltinCall(info, call, "append") && len(call.Args) == 2 && nameOfElem(call.Args[1]) && cgxObj(info, call.Args[0]) == cgxObj(info, as.Lhs[0]) {
				result = cgxObj(info, as.Lhs[0])
				return true
			}
			return false
		}
		if len(rng.Body.List) == 0 {
			o.Bad("the range over the globals has an empty body")
		} else {
			blk, idx := cgxFirstNodeIn(c, rng.Body)
			skipped := false
			if blk == nil {
				o.Unknown("loop body not found in the control-flow graph")
			} else {
				cgxWalk(c, blk, idx, func(b *cfg.Block, i int, n ast.Node) bool {
					if isStore(n) {
						return true
					}
					if n.Pos() < rng.Body.Pos() || n.End() > rng.Body.End() {
						skipped = true
						return true
					}
					return false
				}, nil)
				if skipped || result == nil {
					o.Bad("an iteration of the range over the globals can end without storing the element's Name: a used variable would not be reported")
				} else {
					o.OK("every iteration of the range over %s stores the element's Name into %s", gf.Name(), result.Name())
				}
			}
		}
	}
	// sorted before it is returned
	o2 := r.Ob("R-3", key+"#sorts", uv.Decl.Pos())
	isSort := func(n ast.Node) bool {
		es, ok := n.(*ast.ExprStmt)
		if !ok {
			return false
		}
		call, ok := es.X.(*ast.CallExpr)
		if !ok || len(call.Args) < 1 {
			return false
		}
		f := callee(info, call)
		if f == nil || f.Pkg() == nil {
			return false
		}
		switch f.Pkg().Path() + "." + f.Name() {
		case "sort.Strings", "slices.Sort":
			return true
		}
		return false
	}
	bad := false
	nret := 0
	for _, ret := range c.Returns() {
		if len(ret.Results) != 1 {
			continue
		}
		nret++
		if tv, ok := info.Types[ret.Results[0]]; ok && tv.IsNil() {
			continue
		}
		if !c.MustPassNode(ret, func(n ast.Node) bool {
			if !isSort(n) {
				return false
			}
			call := n.(*ast.ExprStmt).X.(*ast.CallExpr)
			return cgxObj(info, call.Args[0]) != nil && cgxObj(info, call.Args[0]) == cgxObj(info, ret.Results[0])
		}) {
			bad = true
		}
	}
	o2.Set(!bad && nret > 0, "every return of a non-nil result is preceded by a sort of the returned slice", "a result is returned without being sorted: the order would follow the emission order")
}

func c17isString(t types.Type) bool {
	b, ok := t.Underlying().(*types.Basic)
	return ok && b.Kind() == types.String
}

// ---------------------------------------------------------------------------
// R-4

func (x *c17) oneEntryPerVariable() {
	r := x.r
	// the recorder: a function of compiler that builds a Global from the key it is given (R-1's forwarders),
	// adds it to the table of globals, and has a pointer parameter, used as map key, identifying the variable
	found := 0
	// adders: functions whose body appends one of their parameters to a []Global field
	isGlobalsAppend := func(info *types.Info, as *ast.AssignStmt) bool {
		if len(as.Lhs) != 1 || len(as.Rhs) != 1 {
			return false
		}
		call, ok := ast.Unparen(as.Rhs[0]).(*ast.CallExpr)
		if !ok || !isBuiltinCall(info, call, "append") {
			return false
		}
		s, ok := info.TypeOf(as.Lhs[0]).Underlying().(*types.Slice)
		return ok && types.Identical(s.Elem(), x.global) && c17fieldOf(info, as.Lhs[0]) != nil
	}
	adders := map[*types.Func]bool{}
	for _, fi := range x.fns {
		if relOf(fi.Obj.Pkg()) != "compiler" {
			continue
		}
		info := fi.Pkg.TypesInfo
		sig := fi.Obj.Type().(*types.Signature)
		ast.Inspect(fi.Decl.Body, func(n ast.Node) bool {
			if as, ok := n.(*ast.AssignStmt); ok && isGlobalsAppend(info, as) {
				call := ast.Unparen(as.Rhs[0]).(*ast.CallExpr)
				for _, a := range call.Args[1:] {
					for i := 0; i < sig.Params().Len(); i++ {
						if cgxObj(info, a) == types.Object(sig.Params().At(i)) && types.Identical(sig.Params().At(i).Type(), x.global) {
							adders[fi.Obj] = true
						}
					}
				}
			}
			return true
		})
	}
	for _, fi := range x.fns {
		if relOf(fi.Obj.Pkg()) != "compiler" {
			continue
		}
		if !x.forwarders[fi.Obj] {
			continue // only functions that build the entry from a key they are given
		}
		info := fi.Pkg.TypesInfo
		sig := fi.Obj.Type().(*types.Signature)
		var ident *types.Var
		for i := 0; i < sig.Params().Len(); i++ {
			if _, ok := sig.Params().At(i).Type().(*types.Pointer); ok {
				ident = sig.Params().At(i)
			}
		}
		if ident == nil {
			continue
		}
		// the statement that adds the entry: a direct append, or a call of an adder
		var appendSite ast.Node
		ast.Inspect(fi.Decl.Body, func(n ast.Node) bool {
			switch s := n.(type) {
			case *ast.AssignStmt:
				if isGlobalsAppend(info, s) {
					appendSite = s
				}
			case *ast.CallExpr:
				if adders[callee(info, s)] {
					appendSite = s
				}
			}
			return true
		})
		if appendSite == nil {
			continue
		}
		// the parameter must be used as a map key somewhere (it identifies the variable)
		usedAsKey := false
		ast.Inspect(fi.Decl.Body, func(n ast.Node) bool {
			if ix, ok := n.(*ast.IndexExpr); ok && cgxObj(info, ix.Index) == types.Object(ident) {
				usedAsKey = true
			}
			return true
		})
		if !usedAsKey {
			continue
		}
		found++
		o := r.Ob("R-4", funcKey(fi.Obj)+"#one-entry-per-variable", appendSite.Pos())
		c := r.P.CFGOf(fi)
		// comma-ok lookups whose whole key path is the variable identity
		var extraKeys []string
		guardOK := false
		ast.Inspect(fi.Decl.Body, func(n ast.Node) bool {
			as, ok := n.(*ast.AssignStmt)
			if !ok || len(as.Lhs) != 2 || len(as.Rhs) != 1 {
				return true
			}
			ix, ok := ast.Unparen(as.Rhs[0]).(*ast.IndexExpr)
			if !ok {
				return true
			}
			okObj := cgxObj(info, as.Lhs[1])
			if okObj == nil {
				return true
			}
			// collect the keys of the chain m[k1][k2]...
			var keys []ast.Expr
			e := ast.Expr(ix)
			for {
				i, isIx := ast.Unparen(e).(*ast.IndexExpr)
				if !isIx {
					break
				}
				if _, isMap := info.TypeOf(i.X).Underlying().(*types.Map); !isMap {
					break
				}
				keys = append(keys, i.Index)
				e = i.X
			}
			hasIdent, other := false, ""
			for _, k := range keys {
				if cgxObj(info, k) == types.Object(ident) {
					hasIdent = true
				} else {
					other = exprStr(k)
				}
			}
			if !hasIdent {
				return true
			}
			guards := c.GuardedBy(appendSite, func(l Lit) bool {
				return l.Tag == nil && !l.Truth && cgxObj(info, l.Expr) == okObj
			})
			if !guards {
				return true
			}
			if other == "" {
				guardOK = true
			} else {
				extraKeys = append(extraKeys, other)
			}
			return true
		})
		switch {
		case guardOK:
			o.OK("the append to the table of globals is dominated by the miss edge of a lookup keyed by %s alone: one entry per variable", ident.Name())
		case len(extraKeys) > 0:
			o.Bad("the append to the table of globals is guarded only by a lookup keyed by %s together with %v: a variable referenced from two functions (two files, or a file and a macro of an imported file) gets two entries, and Run allocates one cell per entry for a non-pointer value, so an assignment in one file is not seen in the other and UsedVars lists the name twice", ident.Name(), extraKeys)
		default:
			o.Bad("the append to the table of globals is not guarded by a lookup of the variable: every reference adds an entry")
		}
	}
	if found == 0 {
		r.Ob("R-4", "anchor:predefined-variable-recorder", token.NoPos).Unknown("no function of compiler appends to a []Global field under a key that is a pointer parameter (predefVarIndex)")
	}
}
