package main

// C21 R-6 — a byte over which the lexer moves an index has been read.
//
// The line of a position is right only if every '\n' of the source is noticed. The lexer walks the source with
// integer indexes into its cursor (p in scan, scanTag, scanAttribute, the string lexers …). Whenever such an
// index is advanced by a constant number of bytes — `p++`, `p += k`, `p = p + k`, `return p + k` — or by the size
// of the rune decoded at the index, each byte it moves over must have been read on every path since the index
// last stood at a known place: by an index expression cursor[p+j], or as part of a slice cursor[p+j:] handed to
// a function. A byte that is moved over without having been read can be a '\n' that no code has seen: the line
// counter is not incremented for it and every later position of the file is one line early.
//
// The check is a forward abstract interpretation on go/cfg, per function and per index variable. A state is
// (offset of the index from its anchor, set of offsets read, bytes known by comparison with a constant); the
// anchor is the value of the index at the head of the loop that moves it, or at function entry. Conditions are
// taken apart along their short-circuit evaluation paths, so that only reads that were certainly evaluated count
// and contradictory paths (c == '/' together with c == '>') are dropped. Whatever the analysis does not
// understand (an index set to the result of a helper, to an absolute value, moved by a variable amount, changed
// by a function literal) makes the state "blind": nothing is reported until the next anchor. A violation is
// therefore only reported when it is certain.

import (
	"fmt"
	"go/ast"
	"go/token"
	"go/types"
	"sort"
	"strings"

	"golang.org/x/tools/go/cfg"
)

func init() {
	p := registry["C21"]
	if p == nil {
		return
	}
	run := p.run
	p.run = func(r *Run) {
		run(r)
		if lx := c21ResolveLexerQuiet(r); lx != nil {
			c21R6(r, lx)
		}
	}
	p.explain += " R-6: in every function of the lexer, each byte over which an index into the cursor is advanced by a constant (p++, p += k, return p+k) or by the size of the rune decoded there has been read, on every path since the head of the loop moving the index, by cursor[p+j] or as part of cursor[p+j:] passed to a function (forward analysis on go/cfg, short-circuit paths of conditions, contradictory paths dropped)."
	p.notCov = append(p.notCov, "that a byte that was read and is a newline increments the line counter (only: that no byte is passed unread)")
}

// c21ResolveLexerQuiet resolves the lexer again without reporting anchors twice.
func c21ResolveLexerQuiet(r *Run) *c21Lexer {
	n := len(r.Obls)
	lx := c21ResolveLexer(r)
	if lx == nil {
		// the anchor failure has already been reported by R-3
		for _, o := range r.Obls[n:] {
			delete(r.seen, o.Rule+" "+o.Construct)
		}
		r.Obls = r.Obls[:n]
	}
	return lx
}

const c21NoFrom = 1 << 30

type c21St struct {
	blind    bool
	off      int
	insp     uint64
	from     int
	known    map[int]int64
	byteVar  map[*types.Var]int
	sizeVar  map[*types.Var]int
	constVar map[*types.Var]int64
	boolVar  map[*types.Var]c21Bool
	via      token.Pos // an earlier advance on the path (for the report only)
}

// c21Bool is a boolean local bound to a condition evaluated when the index stood at off.
type c21Bool struct {
	e   ast.Expr
	off int
}

func c21Clean() *c21St {
	return &c21St{from: c21NoFrom}
}

func (s *c21St) clone() *c21St {
	n := &c21St{blind: s.blind, off: s.off, insp: s.insp, from: s.from, via: s.via}
	if len(s.known) > 0 {
		n.known = map[int]int64{}
		for k, v := range s.known {
			n.known[k] = v
		}
	}
	if len(s.byteVar) > 0 {
		n.byteVar = map[*types.Var]int{}
		for k, v := range s.byteVar {
			n.byteVar[k] = v
		}
	}
	if len(s.sizeVar) > 0 {
		n.sizeVar = map[*types.Var]int{}
		for k, v := range s.sizeVar {
			n.sizeVar[k] = v
		}
	}
	if len(s.constVar) > 0 {
		n.constVar = map[*types.Var]int64{}
		for k, v := range s.constVar {
			n.constVar[k] = v
		}
	}
	if len(s.boolVar) > 0 {
		n.boolVar = map[*types.Var]c21Bool{}
		for k, v := range s.boolVar {
			n.boolVar[k] = v
		}
	}
	return n
}

func (s *c21St) key() string {
	if s.blind {
		return "blind"
	}
	var sb strings.Builder
	fmt.Fprintf(&sb, "%d/%x/%d", s.off, s.insp, s.from)
	ks := make([]int, 0, len(s.known))
	for k := range s.known {
		ks = append(ks, k)
	}
	sort.Ints(ks)
	for _, k := range ks {
		fmt.Fprintf(&sb, "|k%d=%d", k, s.known[k])
	}
	var vs []string
	for v, o := range s.byteVar {
		vs = append(vs, fmt.Sprintf("b%d@%d", v.Pos(), o))
	}
	for v, o := range s.sizeVar {
		vs = append(vs, fmt.Sprintf("s%d@%d", v.Pos(), o))
	}
	for v, o := range s.constVar {
		vs = append(vs, fmt.Sprintf("c%d=%d", v.Pos(), o))
	}
	for v, o := range s.boolVar {
		vs = append(vs, fmt.Sprintf("B%d=%d@%d", v.Pos(), o.e.Pos(), o.off))
	}
	sort.Strings(vs)
	sb.WriteString(strings.Join(vs, ","))
	return sb.String()
}

func (s *c21St) inspected(o int) bool {
	if o >= s.from {
		return true
	}
	return o >= 0 && o < 64 && s.insp&(1<<uint(o)) != 0
}

func (s *c21St) read(o int) {
	if o >= 0 && o < 64 {
		s.insp |= 1 << uint(o)
	}
}

func (s *c21St) readFrom(o int) {
	if o < 0 {
		o = 0
	}
	if o < s.from {
		s.from = o
	}
}

func (s *c21St) anchor() {
	*s = *c21Clean()
}

func (s *c21St) goBlind() {
	*s = c21St{blind: true, from: c21NoFrom}
}

type c21Set map[string]*c21St

func (a c21Set) add(s *c21St) bool {
	k := s.key()
	if _, ok := a[k]; ok {
		return false
	}
	if len(a) >= 400 {
		// too many states: keep going blind (nothing is reported from a blind state)
		b := &c21St{blind: true, from: c21NoFrom}
		if _, ok := a["blind"]; ok {
			return false
		}
		a["blind"] = b
		return true
	}
	a[k] = s
	return true
}

type c21Read struct {
	off  int
	from bool
}

type c21Idx struct {
	r       *Run
	lx      *c21Lexer
	fi      *FuncInfo
	info    *types.Info
	v       *types.Var
	lits    bool // some function literal of the function assigns v
	isParam bool

	checked int
	sites   map[ast.Node]bool
	bad     []string
}

// relIndex parses an index expression relative to v: v, v+K, K+v, v-K, v+K+w. lenient: the offset is a lower bound.
func (x *c21Idx) relIndex(e ast.Expr) (off int, lenient, ok bool) {
	e = ast.Unparen(e)
	if id, isID := e.(*ast.Ident); isID {
		if x.info.Uses[id] == types.Object(x.v) {
			return 0, false, true
		}
		return 0, false, false
	}
	be, isBin := e.(*ast.BinaryExpr)
	if !isBin || (be.Op != token.ADD && be.Op != token.SUB) {
		return 0, false, false
	}
	if k, isConst := intValue(x.info, e); isConst {
		_ = k
		return 0, false, false
	}
	lo, ll, lok := x.relIndex(be.X)
	if be.Op == token.SUB {
		if !lok {
			return 0, false, false
		}
		if k, isConst := intValue(x.info, be.Y); isConst {
			return lo - int(k), ll, true
		}
		return 0, false, false
	}
	ro, rl, rok := x.relIndex(be.Y)
	switch {
	case lok && rok:
		return 0, false, false
	case lok:
		if k, isConst := intValue(x.info, be.Y); isConst {
			return lo + int(k), ll, true
		}
		if x.nonNegative(be.Y) {
			return lo, true, true
		}
	case rok:
		if k, isConst := intValue(x.info, be.X); isConst {
			return ro + int(k), rl, true
		}
		if x.nonNegative(be.X) {
			return ro, true, true
		}
	}
	return 0, false, false
}

// nonNegative: an integer variable used as an additional index (a loop counter): the read is at or after the
// constant part. Only used to be lenient.
func (x *c21Idx) nonNegative(e ast.Expr) bool {
	e = ast.Unparen(e)
	switch y := e.(type) {
	case *ast.Ident:
		_, ok := x.info.Uses[y].(*types.Var)
		return ok
	case *ast.BinaryExpr:
		if y.Op == token.ADD {
			return (x.nonNegative(y.X) || c21IsConstExpr(x.info, y.X)) && (x.nonNegative(y.Y) || c21IsConstExpr(x.info, y.Y))
		}
	case *ast.CallExpr:
		return isBuiltinCall(x.info, y, "len")
	}
	return false
}

func c21IsConstExpr(info *types.Info, e ast.Expr) bool {
	tv, ok := info.Types[e]
	return ok && tv.Value != nil
}

func (x *c21Idx) isCursor(e ast.Expr) bool {
	return c21IsCursor(x.info, x.lx, x.fi, e)
}

// c21IsCursor: e is the cursor field of the lexer, or a local slice that is only ever assigned that field.
func c21IsCursor(info *types.Info, lx *c21Lexer, fi *FuncInfo, e ast.Expr) bool {
	if tn, f := c21FieldSel(info, e); tn == lx.T && f == lx.cursor {
		return true
	}
	id, ok := ast.Unparen(e).(*ast.Ident)
	if !ok {
		return false
	}
	v, ok := info.Uses[id].(*types.Var)
	if !ok || v.IsField() || !c21IsByteSlice(v.Type()) || v.Pos() < fi.Decl.Body.Pos() || v.Pos() > fi.Decl.End() {
		return false
	}
	as := cgxAssignsTo(info, fi.Decl.Body, v)
	if len(as) == 0 {
		return false
	}
	for _, a := range as {
		if a.Rhs == nil {
			return false
		}
		if tn, f := c21FieldSel(info, a.Rhs); tn != lx.T || f != lx.cursor {
			return false
		}
	}
	return true
}

// reads lists the reads of the cursor relative to v that are certainly evaluated when e is evaluated.
func (x *c21Idx) reads(e ast.Node, out *[]c21Read) {
	if e == nil {
		return
	}
	switch y := e.(type) {
	case *ast.FuncLit:
		return
	case *ast.BinaryExpr:
		if y.Op == token.LAND || y.Op == token.LOR {
			x.reads(y.X, out) // the right operand may not be evaluated
			return
		}
	case *ast.IndexExpr:
		if x.isCursor(y.X) {
			if o, lenient, ok := x.relIndex(y.Index); ok {
				*out = append(*out, c21Read{o, lenient})
			}
			x.reads(y.Index, out)
			return
		}
	case *ast.SliceExpr:
		if x.isCursor(y.X) && y.Low != nil {
			if o, _, ok := x.relIndex(y.Low); ok {
				*out = append(*out, c21Read{o, true})
			}
		}
	case *ast.CallExpr:
		// a function of the module that receives the index is taken to read the source from there
		if fn := callee(x.info, y); fn != nil && fn.Pkg() != nil && strings.HasPrefix(fn.Pkg().Path(), modulePath) {
			for _, a := range y.Args {
				if o, _, ok := x.relIndex(a); ok {
					*out = append(*out, c21Read{o, true})
				}
			}
		}
	}
	// children
	ast.Inspect(e, func(n ast.Node) bool {
		if n == e || n == nil {
			return true
		}
		x.reads(n, out)
		return false
	})
}

type c21Atom struct {
	e     ast.Expr
	truth bool
}

// paths enumerates the short-circuit evaluation paths of e that give the result want.
func c21Paths(e ast.Expr, want bool, limit int, resolve func(*ast.Ident) ast.Expr) ([][]c21Atom, bool) {
	e = ast.Unparen(e)
	switch y := e.(type) {
	case *ast.Ident:
		if resolve != nil {
			if b := resolve(y); b != nil {
				return c21Paths(b, want, limit, nil)
			}
		}
	case *ast.UnaryExpr:
		if y.Op == token.NOT {
			return c21Paths(y.X, !want, limit, resolve)
		}
	case *ast.BinaryExpr:
		if y.Op == token.LAND || y.Op == token.LOR {
			// for &&: true = X true then Y true; false = X false, or X true then Y false. || is the dual.
			short := y.Op == token.LOR // result that X alone can decide
			var out [][]c21Atom
			xs, ok := c21Paths(y.X, short, limit, resolve)
			if !ok {
				return nil, false
			}
			xn, ok := c21Paths(y.X, !short, limit, resolve)
			if !ok {
				return nil, false
			}
			if want == short {
				out = append(out, xs...)
			}
			ys, ok := c21Paths(y.Y, want, limit, resolve)
			if !ok {
				return nil, false
			}
			for _, a := range xn {
				for _, b := range ys {
					p := append(append([]c21Atom{}, a...), b...)
					out = append(out, p)
					if len(out) > limit {
						return nil, false
					}
				}
			}
			return out, true
		}
	}
	return [][]c21Atom{{{e, want}}}, true
}

// byteOf resolves e to an offset when it denotes a byte of the source: a local bound to cursor[v+j], or the
// index expression itself.
func (x *c21Idx) byteOf(s *c21St, e ast.Expr) (int, bool) {
	e = ast.Unparen(e)
	switch y := e.(type) {
	case *ast.Ident:
		if v, ok := x.info.Uses[y].(*types.Var); ok {
			if o, ok := s.byteVar[v]; ok {
				return o, true
			}
		}
	case *ast.IndexExpr:
		if x.isCursor(y.X) {
			if o, len, ok := x.relIndex(y.Index); ok && !len {
				return s.off + o, true
			}
		}
	}
	return 0, false
}

// applyAtom adds what the atom being truth tells; false when it contradicts the state.
func (x *c21Idx) applyAtom(s *c21St, a c21Atom, tag ast.Expr) bool {
	if s.blind {
		return true
	}
	var rs []c21Read
	x.reads(a.e, &rs)
	x.record(s, rs)
	eq := func(l, r ast.Expr, truth bool) bool {
		k, ok := intValue(x.info, r)
		if !ok {
			return true
		}
		o, ok := x.byteOf(s, l)
		if !ok {
			return true
		}
		if truth {
			if old, has := s.known[o]; has && old != k {
				return false
			}
			if s.known == nil {
				s.known = map[int]int64{}
			}
			s.known[o] = k
		} else if old, has := s.known[o]; has && old == k {
			return false
		}
		return true
	}
	if tag != nil {
		return eq(tag, a.e, a.truth)
	}
	if be, ok := ast.Unparen(a.e).(*ast.BinaryExpr); ok && (be.Op == token.EQL || be.Op == token.NEQ) {
		truth := a.truth == (be.Op == token.EQL)
		if !eq(be.X, be.Y, truth) {
			return false
		}
		return eq(be.Y, be.X, truth)
	}
	return true
}

func (x *c21Idx) record(s *c21St, rs []c21Read) {
	if s.blind {
		return
	}
	for _, r := range rs {
		if r.from {
			s.readFrom(s.off + r.off)
		} else {
			s.read(s.off + r.off)
		}
	}
}

func (x *c21Idx) localVar(e ast.Expr) *types.Var {
	id, ok := ast.Unparen(e).(*ast.Ident)
	if !ok {
		return nil
	}
	var o types.Object = x.info.Defs[id]
	if o == nil {
		o = x.info.Uses[id]
	}
	v, _ := o.(*types.Var)
	if v == nil || v.IsField() {
		return nil
	}
	return v
}

// skip checks that the bytes [off, off+k) have been read.
func (x *c21Idx) skip(s *c21St, k int, at ast.Node, what string) {
	if s.blind {
		return
	}
	x.site(at)
	for o := s.off; o < s.off+k; o++ {
		if !s.inspected(o) {
			after := ""
			if s.via.IsValid() {
				after = " after the advance at " + x.r.P.Pos(s.via)
			}
			x.bad = append(x.bad, fmt.Sprintf("%s at %s%s moves %s over the byte at offset %d from where %s stood at the head of the loop (or at function entry), and no path-independent read of that byte precedes it", what, x.r.P.Pos(at.Pos()), after, x.v.Name(), o, x.v.Name()))
			break
		}
	}
	s.off += k
	if k > 0 && !s.via.IsValid() {
		s.via = at.Pos()
	}
}

// runeSkip: the index is advanced by an expression of the size of the rune decoded at the index.
func (x *c21Idx) runeSkip(s *c21St, e ast.Expr, at ast.Node) {
	if s.blind {
		return
	}
	e = ast.Unparen(e)
	// forms: s, s-1
	minus := 0
	if be, ok := e.(*ast.BinaryExpr); ok && be.Op == token.SUB {
		if k, ok := intValue(x.info, be.Y); ok && k == 1 {
			minus = 1
			e = ast.Unparen(be.X)
		}
	}
	sv := x.localVar(e)
	if sv == nil {
		s.goBlind()
		return
	}
	if k, ok := s.constVar[sv]; ok && minus == 0 && k > 0 && k < 16 {
		x.skip(s, int(k), at, fmt.Sprintf("the advance by %s (= %d)", sv.Name(), k))
		return
	}
	o, ok := s.sizeVar[sv]
	if !ok || o != s.off {
		s.goBlind()
		return
	}
	x.site(at)
	if !s.inspected(s.off) {
		x.bad = append(x.bad, fmt.Sprintf("the advance by the size of a rune at %s moves %s over a character whose first byte has not been read on some path", x.r.P.Pos(at.Pos()), x.v.Name()))
	}
	s.anchor()
	if minus == 1 {
		// the index stands on the last byte of the rune: the first byte (read) or a continuation byte
		s.read(0)
	}
}

func (x *c21Idx) site(at ast.Node) {
	if x.sites == nil {
		x.sites = map[ast.Node]bool{}
	}
	if !x.sites[at] {
		x.sites[at] = true
		x.checked++
	}
}

func (x *c21Idx) isV(e ast.Expr) bool {
	id, ok := ast.Unparen(e).(*ast.Ident)
	if !ok {
		return false
	}
	return x.info.Uses[id] == types.Object(x.v) || x.info.Defs[id] == types.Object(x.v)
}

func (x *c21Idx) mentionsSize(s *c21St, e ast.Expr) bool {
	found := false
	ast.Inspect(e, func(n ast.Node) bool {
		if id, ok := n.(*ast.Ident); ok {
			if v, ok := x.info.Uses[id].(*types.Var); ok {
				if _, ok := s.sizeVar[v]; ok {
					found = true
				}
				if _, ok := s.constVar[v]; ok {
					found = true
				}
			}
		}
		return true
	})
	return found
}

// decodeAt: e is utf8.Decode*(cursor[v+j:]) — returns j.
func (x *c21Idx) decodeAt(e ast.Expr) (int, bool) {
	call, ok := ast.Unparen(e).(*ast.CallExpr)
	if !ok || len(call.Args) != 1 {
		return 0, false
	}
	fn := callee(x.info, call)
	if fn == nil || fn.Pkg() == nil || fn.Pkg().Path() != "unicode/utf8" || !strings.HasPrefix(fn.Name(), "DecodeRune") {
		return 0, false
	}
	se, ok := ast.Unparen(call.Args[0]).(*ast.SliceExpr)
	if !ok || !x.isCursor(se.X) || se.Low == nil || se.High != nil {
		return 0, false
	}
	o, len, ok := x.relIndex(se.Low)
	if !ok || len {
		return 0, false
	}
	return o, true
}

// callsLocalFunc: n calls a function value (a local function literal) while some literal assigns v.
func (x *c21Idx) callsLocalFunc(n ast.Node) bool {
	if !x.lits {
		return false
	}
	found := false
	ast.Inspect(n, func(m ast.Node) bool {
		if _, ok := m.(*ast.FuncLit); ok {
			return false
		}
		if c, ok := m.(*ast.CallExpr); ok {
			if tv, isT := x.info.Types[c.Fun]; isT && tv.IsType() {
				return true
			}
			if callee(x.info, c) == nil {
				if id, ok := ast.Unparen(c.Fun).(*ast.Ident); ok {
					if _, isB := x.info.Uses[id].(*types.Builtin); isB {
						return true
					}
				}
				found = true
			}
		}
		return true
	})
	return found
}

// stmt applies a non-branching node.
func (x *c21Idx) stmt(s *c21St, n ast.Node) {
	if x.callsLocalFunc(n) {
		s.goBlind()
		return
	}
	var rs []c21Read
	switch y := n.(type) {
	case *ast.IncDecStmt:
		x.reads(y.X, &rs)
		x.record(s, rs)
		if x.isV(y.X) {
			if y.Tok == token.INC {
				x.skip(s, 1, y, x.v.Name()+"++")
			} else {
				s.goBlind()
			}
			return
		}
		if v := x.localVar(y.X); v != nil {
			x.forget(s, v)
		}
		return
	case *ast.AssignStmt:
		for _, rh := range y.Rhs {
			x.reads(rh, &rs)
		}
		for _, l := range y.Lhs {
			if _, isID := ast.Unparen(l).(*ast.Ident); !isID {
				x.reads(l, &rs)
			}
		}
		x.record(s, rs)
		// the index itself
		for i, l := range y.Lhs {
			if !x.isV(l) {
				continue
			}
			if len(y.Rhs) != len(y.Lhs) {
				s.goBlind()
				return
			}
			rhs := ast.Unparen(y.Rhs[i])
			switch y.Tok {
			case token.ADD_ASSIGN:
				if k, ok := intValue(x.info, rhs); ok && k >= 0 && k < 64 {
					x.skip(s, int(k), y, fmt.Sprintf("%s += %d", x.v.Name(), k))
				} else if !s.blind && x.mentionsSize(s, rhs) {
					x.runeSkip(s, rhs, y)
				} else {
					s.goBlind()
				}
			case token.ASSIGN, token.DEFINE:
				be, ok := rhs.(*ast.BinaryExpr)
				if ok && be.Op == token.ADD && x.isV(be.X) {
					if k, ok := intValue(x.info, be.Y); ok && k >= 0 && k < 64 {
						x.skip(s, int(k), y, fmt.Sprintf("%s = %s + %d", x.v.Name(), x.v.Name(), k))
						continue
					}
					if !s.blind && x.mentionsSize(s, be.Y) {
						x.runeSkip(s, be.Y, y)
						continue
					}
				}
				if ok && be.Op == token.ADD && x.isV(be.Y) {
					if k, ok := intValue(x.info, be.X); ok && k >= 0 && k < 64 {
						x.skip(s, int(k), y, fmt.Sprintf("%s = %d + %s", x.v.Name(), k, x.v.Name()))
						continue
					}
				}
				s.goBlind()
			default:
				s.goBlind()
			}
		}
		if s.blind {
			return
		}
		// bindings of other locals
		if len(y.Lhs) == 2 && len(y.Rhs) == 1 {
			if o, ok := x.decodeAt(y.Rhs[0]); ok && (y.Tok == token.DEFINE || y.Tok == token.ASSIGN) {
				if v := x.localVar(y.Lhs[0]); v != nil {
					x.forget(s, v)
				}
				if v := x.localVar(y.Lhs[1]); v != nil && v != x.v {
					x.forget(s, v)
					if s.sizeVar == nil {
						s.sizeVar = map[*types.Var]int{}
					}
					s.sizeVar[v] = s.off + o
				}
				return
			}
		}
		for i, l := range y.Lhs {
			v := x.localVar(l)
			if v == nil || v == x.v {
				continue
			}
			x.forget(s, v)
			if len(y.Rhs) != len(y.Lhs) || (y.Tok != token.DEFINE && y.Tok != token.ASSIGN) {
				continue
			}
			rhs := ast.Unparen(y.Rhs[i])
			if ie, ok := rhs.(*ast.IndexExpr); ok && x.isCursor(ie.X) {
				if o, len, ok := x.relIndex(ie.Index); ok && !len {
					if s.byteVar == nil {
						s.byteVar = map[*types.Var]int{}
					}
					s.byteVar[v] = s.off + o
				}
				continue
			}
			if k, ok := intValue(x.info, rhs); ok {
				if b, isB := v.Type().Underlying().(*types.Basic); isB && b.Info()&types.IsInteger != 0 {
					if s.constVar == nil {
						s.constVar = map[*types.Var]int64{}
					}
					s.constVar[v] = k
				}
				continue
			}
			if b, isB := v.Type().Underlying().(*types.Basic); isB && b.Info()&types.IsBoolean != 0 && !x.assignsV(rhs) {
				if s.boolVar == nil {
					s.boolVar = map[*types.Var]c21Bool{}
				}
				s.boolVar[v] = c21Bool{rhs, s.off}
			}
		}
		return
	case *ast.ReturnStmt:
		for _, e := range y.Results {
			x.reads(e, &rs)
		}
		x.record(s, rs)
		for _, e := range y.Results {
			be, ok := ast.Unparen(e).(*ast.BinaryExpr)
			if ok && be.Op == token.ADD && x.isV(be.X) {
				if k, ok := intValue(x.info, be.Y); ok && k > 0 && k < 64 {
					x.skip(s, int(k), y, fmt.Sprintf("return %s + %d", x.v.Name(), k))
				}
			}
		}
		return
	case *ast.DeclStmt, *ast.ValueSpec:
		ast.Inspect(n, func(m ast.Node) bool {
			if vs, ok := m.(*ast.ValueSpec); ok {
				for _, e := range vs.Values {
					x.reads(e, &rs)
				}
				for i, id := range vs.Names {
					v, _ := x.info.Defs[id].(*types.Var)
					if v == nil {
						continue
					}
					if v == x.v {
						s.goBlind()
						return false
					}
					x.forget(s, v)
					if i < len(vs.Values) && len(vs.Values) == len(vs.Names) {
						if k, ok := intValue(x.info, vs.Values[i]); ok && !s.blind {
							if b, isB := v.Type().Underlying().(*types.Basic); isB && b.Info()&types.IsInteger != 0 {
								if s.constVar == nil {
									s.constVar = map[*types.Var]int64{}
								}
								s.constVar[v] = k
							}
						}
					}
				}
			}
			return true
		})
		x.record(s, rs)
		return
	case *ast.RangeStmt:
		if (y.Key != nil && x.isV(y.Key)) || (y.Value != nil && x.isV(y.Value)) {
			s.goBlind()
		}
		return
	}
	x.reads(n, &rs)
	x.record(s, rs)
}

func (x *c21Idx) forget(s *c21St, v *types.Var) {
	delete(s.byteVar, v)
	delete(s.sizeVar, v)
	delete(s.constVar, v)
	delete(s.boolVar, v)
}

// assignsV reports whether n (function literals included) assigns the index.
func (x *c21Idx) assignsV(n ast.Node) bool {
	found := false
	ast.Inspect(n, func(m ast.Node) bool {
		switch y := m.(type) {
		case *ast.AssignStmt:
			for _, l := range y.Lhs {
				if x.isV(l) {
					found = true
				}
			}
		case *ast.IncDecStmt:
			if x.isV(y.X) {
				found = true
			}
		}
		return !found
	})
	return found
}

// runsAtLeastOnce: h is the head of `for i := range K` or `for i := c; i < K; i++` with constants c < K, whose
// body does not assign i: the exit edge cannot be taken on entry.
func (x *c21Idx) runsAtLeastOnce(h *cfg.Block) bool {
	switch st := h.Stmt.(type) {
	case *ast.RangeStmt:
		if h.Kind != cfg.KindRangeLoop {
			return false
		}
		k, ok := intValue(x.info, st.X)
		if !ok || k < 1 {
			return false
		}
		if b, isB := x.info.TypeOf(st.X).Underlying().(*types.Basic); !isB || b.Info()&types.IsInteger == 0 {
			return false
		}
		return true
	case *ast.ForStmt:
		if h.Kind != cfg.KindForLoop || st.Init == nil || st.Cond == nil || st.Post == nil {
			return false
		}
		as, ok := st.Init.(*ast.AssignStmt)
		if !ok || as.Tok != token.DEFINE || len(as.Lhs) != 1 || len(as.Rhs) != 1 {
			return false
		}
		iv := x.localVar(as.Lhs[0])
		c0, ok := intValue(x.info, as.Rhs[0])
		if iv == nil || !ok {
			return false
		}
		be, ok := ast.Unparen(st.Cond).(*ast.BinaryExpr)
		if !ok || (be.Op != token.LSS && be.Op != token.LEQ) || x.localVar(be.X) != iv {
			return false
		}
		k, ok := intValue(x.info, be.Y)
		if !ok || !(c0 < k || (be.Op == token.LEQ && c0 <= k)) {
			return false
		}
		inc, ok := st.Post.(*ast.IncDecStmt)
		if !ok || inc.Tok != token.INC || x.localVar(inc.X) != iv {
			return false
		}
		if len(cgxAssignsTo(x.info, st.Body, iv)) > 0 {
			return false
		}
		return true
	}
	return false
}

func (x *c21Idx) run() {
	g := x.r.P.CFGOf(x.fi)
	blocks := g.G.Blocks
	if len(blocks) == 0 {
		return
	}
	// dominators (sets as bit vectors)
	n := len(blocks)
	words := (n + 63) / 64
	dom := make([][]uint64, n)
	full := make([]uint64, words)
	for i := range full {
		full[i] = ^uint64(0)
	}
	for i := range dom {
		dom[i] = append([]uint64{}, full...)
	}
	entry := blocks[0]
	dom[entry.Index] = make([]uint64, words)
	dom[entry.Index][entry.Index/64] |= 1 << uint(entry.Index%64)
	for changed := true; changed; {
		changed = false
		for _, b := range blocks {
			if b == entry || !b.Live {
				continue
			}
			nw := append([]uint64{}, full...)
			any := false
			for _, p := range g.Preds[b] {
				if !p.Live {
					continue
				}
				any = true
				for w := range nw {
					nw[w] &= dom[p.Index][w]
				}
			}
			if !any {
				continue
			}
			nw[b.Index/64] |= 1 << uint(b.Index%64)
			for w := range nw {
				if nw[w] != dom[b.Index][w] {
					changed = true
				}
			}
			dom[b.Index] = nw
		}
	}
	dominates := func(a, b *cfg.Block) bool { return dom[b.Index][a.Index/64]&(1<<uint(a.Index%64)) != 0 }
	// does the loop headed by h move the index? (by the statement of the header; unknown statement: yes)
	loopMoves := map[*cfg.Block]bool{}
	moves := func(h *cfg.Block) bool {
		if v, ok := loopMoves[h]; ok {
			return v
		}
		res := true
		if h.Stmt != nil {
			switch h.Stmt.(type) {
			case *ast.ForStmt, *ast.RangeStmt:
				res = x.assignsV(h.Stmt)
			}
		}
		loopMoves[h] = res
		return res
	}

	in := make([]c21Set, n)
	for i := range in {
		in[i] = c21Set{}
	}
	first := c21Clean()
	if x.isParam {
		// a helper receives the index after its caller has looked at the byte under it
		first.read(0)
	}
	in[entry.Index].add(first)
	work := []*cfg.Block{entry}
	queued := map[*cfg.Block]bool{entry: true}
	// the checks are made in a last pass, once the states are stable
	process := func(b *cfg.Block) map[int][]*c21St {
		outs := map[int][]*c21St{}
		cd := g.CondOf(b)
		for _, s0 := range in[b.Index] {
			s := s0.clone()
			last := len(b.Nodes)
			if cd != nil {
				last--
			}
			for i := 0; i < last; i++ {
				x.stmt(s, b.Nodes[i])
			}
			if cd == nil {
				if len(b.Nodes) > 0 && len(b.Succs) == 2 {
					// a range or select header: its last node is not a condition that was handled above
				}
				for i := range b.Succs {
					outs[i] = append(outs[i], s.clone())
				}
				continue
			}
			if x.callsLocalFunc(cd.Expr) {
				s.goBlind()
			}
			for i := range b.Succs {
				want := i == 0
				if cd.Tag != nil {
					t := s.clone()
					if x.applyAtom(t, c21Atom{cd.Expr, want}, cd.Tag) {
						outs[i] = append(outs[i], t)
					}
					continue
				}
				paths, ok := c21Paths(cd.Expr, want, 24, func(id *ast.Ident) ast.Expr {
					if v, isVar := x.info.Uses[id].(*types.Var); isVar && !s.blind {
						if b, bound := s.boolVar[v]; bound && b.off == s.off {
							return b.e
						}
					}
					return nil
				})
				if !ok {
					t := s.clone()
					var rs []c21Read
					x.reads(cd.Expr, &rs)
					x.record(t, rs)
					outs[i] = append(outs[i], t)
					continue
				}
				for _, p := range paths {
					t := s.clone()
					feasible := true
					for _, a := range p {
						if !x.applyAtom(t, a, nil) {
							feasible = false
							break
						}
					}
					if feasible {
						outs[i] = append(outs[i], t)
					}
				}
			}
		}
		return outs
	}
	steps := 0
	for len(work) > 0 {
		b := work[0]
		work = work[1:]
		queued[b] = false
		steps++
		if steps > 20000 {
			x.bad = []string{"the analysis of " + x.v.Name() + " did not converge"}
			x.checked = 1
			return
		}
		outs := process(b)
		for i, succ := range b.Succs {
			for _, s := range outs[i] {
				target := succ
				if dominates(succ, b) {
					if moves(succ) {
						s.anchor()
					}
				} else if len(succ.Succs) == 2 && x.runsAtLeastOnce(succ) {
					// entry of a loop with a constant positive number of iterations: the body is executed
					target = succ.Succs[0]
				}
				if in[target.Index].add(s) && !queued[target] {
					queued[target] = true
					work = append(work, target)
				}
			}
		}
	}
	// final pass: report
	x.bad = nil
	x.checked = 0
	x.sites = nil
	for _, b := range blocks {
		if b.Live {
			process(b)
		}
	}
}

func c21R6(r *Run, lx *c21Lexer) {
	const R = "R-6"
	info := lx.info
	nFuncs := 0
	for _, fi := range lx.funcs {
		// index variables: integer locals or parameters used to index the cursor and assigned in the function
		// (or returned plus a constant)
		cand := map[*types.Var]bool{}
		var order []*types.Var
		ast.Inspect(fi.Decl.Body, func(n ast.Node) bool {
			var idx ast.Expr
			switch y := n.(type) {
			case *ast.IndexExpr:
				if c21IsCursor(info, lx, fi, y.X) {
					idx = y.Index
				}
			case *ast.SliceExpr:
				if c21IsCursor(info, lx, fi, y.X) {
					idx = y.Low
				}
			}
			if idx == nil {
				return true
			}
			ast.Inspect(idx, func(m ast.Node) bool {
				if id, ok := m.(*ast.Ident); ok {
					if v, ok := info.Uses[id].(*types.Var); ok && !v.IsField() && v.Pos() >= fi.Decl.Pos() && v.Pos() <= fi.Decl.End() {
						if b, ok := v.Type().Underlying().(*types.Basic); ok && b.Info()&types.IsInteger != 0 && !cand[v] {
							cand[v] = true
							order = append(order, v)
						}
					}
				}
				return true
			})
			return true
		})
		if len(order) == 0 {
			continue
		}
		sort.Slice(order, func(i, j int) bool { return order[i].Pos() < order[j].Pos() })
		checked := 0
		var bad []string
		var vars []string
		for _, v := range order {
			x := &c21Idx{r: r, lx: lx, fi: fi, info: info, v: v}
			// the variable must belong to the function itself (not to a literal) and be moved somewhere
			moved := x.assignsV(fi.Decl.Body)
			returned := false
			ast.Inspect(fi.Decl.Body, func(n ast.Node) bool {
				if ret, ok := n.(*ast.ReturnStmt); ok {
					for _, e := range ret.Results {
						if be, ok := ast.Unparen(e).(*ast.BinaryExpr); ok && be.Op == token.ADD && x.isV(be.X) {
							returned = true
						}
					}
				}
				return true
			})
			if !moved && !returned {
				continue
			}
			ast.Inspect(fi.Decl.Body, func(n ast.Node) bool {
				if fl, ok := n.(*ast.FuncLit); ok {
					if x.assignsV(fl.Body) {
						x.lits = true
					}
					if fl.Pos() <= v.Pos() && v.Pos() <= fl.End() {
						moved, returned = false, false // declared inside a literal: not analysed
					}
					return false
				}
				return true
			})
			if !moved && !returned {
				continue
			}
			if sig, ok := fi.Obj.Type().(*types.Signature); ok {
				for i := 0; i < sig.Params().Len(); i++ {
					if sig.Params().At(i) == v {
						x.isParam = true
					}
				}
			}
			x.run()
			if x.checked > 0 {
				vars = append(vars, v.Name())
			}
			checked += x.checked
			bad = append(bad, x.bad...)
		}
		if checked == 0 {
			continue
		}
		nFuncs++
		o := r.Ob(R, fi.Name()+"#bytes-passed-are-read", fi.Decl.Pos())
		if len(bad) > 0 {
			sort.Strings(bad)
			o.Bad("%s: %s — such a byte can be a newline that nothing has seen: the line counter is not incremented and every later position of the file is one line early", fi.Name(), strings.Join(c21Uniq(bad), "; "))
		} else {
			o.OK("%d advances of %s by a constant or by a rune size: every byte passed has been read on every path since the head of the loop", checked, strings.Join(vars, ", "))
		}
	}
	r.Stats["functions_moving_an_index_over_the_source"] = nFuncs
	r.Require(R, 6)
}
