package main

// C21 — build errors point at a real location in the reported file (two structural necessary conditions).
//
// R-1 (path is set before the error leaves, E4b): a *SyntaxError is created without a path (the parser does not
//      know the file name). In every function that hands parse errors towards the API — the functions that
//      assign the path field, and the exported entry points of package compiler that return their errors — an
//      error obtained from a callee that may still yield a path-less *SyntaxError passes, on every path to an
//      error return, through the assignment of the path field (under the success of the assertion to
//      *SyntaxError), or through the edge on which that assertion failed / the path was already set.
//      Every other compiler.Error implementer is built with its path field populated.
// R-2 (field mapping, E10): every conversion between ast.Position, runtime.Position and scriggo.Position
//      (composite literal or field-by-field copy) maps Line→Line, Column→Column, Start→Start, End→End and
//      drops no field; the three structs have the same field sequence; any direct copy between position
//      fields respects the unit of the field (line / column / byte offset).
//
// Uses the flow helpers of c03.go (c03ForwardReturns, c03Asserts, c03EdgeAllAtoms, c03ObjOf, c03ErrIdx).

import (
	"fmt"
	"go/ast"
	"go/constant"
	"go/token"
	"go/types"
	"sort"
	"strings"

	"golang.org/x/tools/go/cfg"
)

func init() {
	register("C21", &ruleSet{
		explain: "Two necessary conditions of 'a *BuildError names a file the build read and a position inside it'. R-1: in ParseTemplate, (*templateExpansion).parseSource, parsePackage (the functions that assign SyntaxError.path, resolved by that role) and in the exported entry points that return their errors (ParseProgram, BuildProgram, BuildTemplate), an error defined by a call that may yield a path-less *SyntaxError reaches an error return only after the assignment of the path field guarded by the assertion to *SyntaxError, or over the edge on which the assertion failed or the path was non-empty (go/cfg must-pass-through); a *SyntaxError literal returned directly carries a path; every literal of another compiler.Error implementer populates its path field. R-2: each of the composite literals and field-by-field copies that convert between ast.Position, runtime.Position and scriggo.Position maps every field to the field of the same name and drops none; the three struct types have the same field sequence; direct copies between position fields keep the unit.",
		notCov: []string{
			"that the path assigned is the name of the file whose source produced the error (only: a non-constant value is assigned)",
			"that byte offsets lie inside the file and that line and column are those of the start offset (numeric bookkeeping of the lexer)",
			"positions computed arithmetically (pos.End = tok.pos.End - 1) and span adjustments between Start and End of the same type",
		},
		trusted: []string{
			"an embedder callback (fs.FS, FormatFS, tree transformer) cannot construct a *compiler.SyntaxError",
			"a function of package compiler that neither mentions the type SyntaxError nor (transitively, by static calls) calls one that does cannot return a *SyntaxError",
		},
		run: runC21,
	})
}

func runC21(r *Run) {
	c21Path(r)
	c21Positions(r)
}

// ---------------------------------------------------------------------------
// R-1

// c21PathField returns the field that method Path of *T returns.
func c21PathField(r *Run, flow *c03Flow, t *types.Named) *types.Var {
	for _, fi := range flow.decls {
		if fi.Decl.Recv == nil || fi.Decl.Name.Name != "Path" {
			continue
		}
		sig := fi.Obj.Type().(*types.Signature)
		rt := sig.Recv().Type()
		if p, ok := rt.(*types.Pointer); ok {
			rt = p.Elem()
		}
		if !types.Identical(rt, t) {
			continue
		}
		rets := c03OwnReturns(fi.Decl.Body)
		if len(rets) != 1 || len(rets[0].Results) != 1 {
			return nil
		}
		sel, ok := ast.Unparen(rets[0].Results[0]).(*ast.SelectorExpr)
		if !ok {
			return nil
		}
		v, _ := flow.info.Uses[sel.Sel].(*types.Var)
		if v != nil && v.IsField() {
			return v
		}
	}
	return nil
}

func c21Named(t types.Type) *types.Named {
	if p, ok := t.(*types.Pointer); ok {
		t = p.Elem()
	}
	n, _ := t.(*types.Named)
	return n
}

// c21LitField returns the value given to field fld in a composite literal of struct type, or nil.
func c21LitField(info *types.Info, cl *ast.CompositeLit, st *types.Struct, fld *types.Var) ast.Expr {
	for i, el := range cl.Elts {
		if kv, ok := el.(*ast.KeyValueExpr); ok {
			if id, ok := kv.Key.(*ast.Ident); ok && info.Uses[id] == fld {
				return kv.Value
			}
			continue
		}
		if i < st.NumFields() && st.Field(i) == fld {
			return el
		}
	}
	return nil
}

func c21IsEmptyConst(info *types.Info, e ast.Expr) bool {
	tv, ok := info.Types[e]
	return ok && tv.Value != nil && tv.Value.Kind() == constant.String && constant.StringVal(tv.Value) == ""
}

func c21Path(r *Run) {
	const R = "R-1"
	flow := c03NewFlow(r.P, c03Compiler)
	if !r.Anchor(R, "package internal/compiler", flow != nil) {
		return
	}
	info := flow.info
	errT := r.P.Named(c03Compiler, "Error")
	synT := r.P.Named(c03Compiler, "SyntaxError")
	if !r.Anchor(R, "compiler.Error", errT != nil) || !r.Anchor(R, "compiler.SyntaxError", synT != nil) {
		return
	}
	errI, _ := errT.Underlying().(*types.Interface)
	if !r.Anchor(R, "compiler.Error is an interface", errI != nil) {
		return
	}
	synPtr := types.NewPointer(synT)
	pathFld := c21PathField(r, flow, synT)
	if !r.Anchor(R, "the field returned by (*SyntaxError).Path", pathFld != nil) {
		return
	}

	// ---- literals of the implementers: path populated
	nLit := 0
	for _, it := range implementers(flow.pk, errI) {
		nt := c21Named(it)
		if nt == nil {
			continue
		}
		st, ok := nt.Underlying().(*types.Struct)
		if !ok {
			continue
		}
		pf := c21PathField(r, flow, nt)
		if pf == nil {
			r.Ob(R, "compiler."+nt.Obj().Name()+"#path-field", nt.Obj().Pos()).Unknown("the field returned by (*%s).Path is not resolved", nt.Obj().Name())
			continue
		}
		for _, fi := range c21SortedFuncs(flow) {
			ast.Inspect(fi.Decl.Body, func(n ast.Node) bool {
				cl, ok := n.(*ast.CompositeLit)
				if !ok || !types.Identical(info.TypeOf(cl), nt) {
					return true
				}
				nLit++
				o := r.Ob(R, fi.Name()+"#literal:"+nt.Obj().Name(), cl.Pos())
				v := c21LitField(info, cl, st, pf)
				switch {
				case v != nil && !c21IsEmptyConst(info, v):
					o.OK("the literal sets %s.%s", nt.Obj().Name(), pf.Name())
				case nt == synT && c21ReturnsType(fi, synT):
					// a path-less SyntaxError: legitimate only inside a constructor returning *SyntaxError, whose callers are tracked below
					o.Trivial("path-less *SyntaxError built by a constructor with result type *SyntaxError; %s is treated as a source of path-less errors by the flow obligations", fi.Name())
				case nt == synT:
					o.Bad("%s builds a *SyntaxError without path and is not a constructor returning *SyntaxError: the error is handed on as `error` with no file name", fi.Name())
				default:
					o.Bad("the literal of %s leaves %s empty: the *BuildError made from it names no file", nt.Obj().Name(), pf.Name())
				}
				return true
			})
		}
	}
	r.Stats["error_literals"] = nLit

	// ---- functions that can yield a *SyntaxError at all (mention closure over static calls)
	isPathAssign := func(as *ast.AssignStmt) (ast.Expr, ast.Expr) {
		for i, l := range as.Lhs {
			sel, ok := ast.Unparen(l).(*ast.SelectorExpr)
			if !ok {
				continue
			}
			if info.Uses[sel.Sel] == pathFld && len(as.Rhs) == len(as.Lhs) {
				return sel.X, as.Rhs[i]
			}
		}
		return nil, nil
	}
	nAssigners := 0
	isAssigner := map[*types.Func]bool{}
	var assigners []*FuncInfo
	for _, fi := range c21SortedFuncs(flow) {
		found := false
		ast.Inspect(fi.Decl.Body, func(n ast.Node) bool {
			if as, ok := n.(*ast.AssignStmt); ok {
				if x, _ := isPathAssign(as); x != nil {
					found = true
				}
			}
			return true
		})
		if found && c03ErrIdx(fi.Obj) >= 0 {
			nAssigners++
			assigners = append(assigners, fi)
			isAssigner[fi.Obj] = true
		}
	}
	r.Stats["path_assigning_functions"] = nAssigners
	mentions := func(fi *FuncInfo) bool {
		res := false
		// the accessor methods of SyntaxError itself mention the type only through their receiver
		if sig := fi.Obj.Type().(*types.Signature); sig.Recv() != nil && c21Named(sig.Recv().Type()) == synT {
			yields := false
			for i := 0; i < sig.Results().Len(); i++ {
				t := sig.Results().At(i).Type()
				if c03IsIface(t) || c21Named(t) == synT {
					yields = true
				}
			}
			if !yields {
				return false
			}
		}
		ast.Inspect(fi.Decl, func(n ast.Node) bool {
			if e, ok := n.(ast.Expr); ok {
				if t := info.TypeOf(e); t != nil {
					if nt := c21Named(t); nt == synT {
						res = true
					}
				}
			}
			return !res
		})
		return res
	}
	dirty := map[*types.Func]bool{}
	why := map[*types.Func]*types.Func{}
	for _, fi := range c21SortedFuncs(flow) {
		if mentions(fi) {
			dirty[fi.Obj] = true
		}
	}
	refs := map[*types.Func][]*types.Func{}
	methodsByName := map[string][]*types.Func{}
	for _, fi := range c21SortedFuncs(flow) {
		if fi.Decl.Recv != nil {
			methodsByName[fi.Obj.Name()] = append(methodsByName[fi.Obj.Name()], fi.Obj)
		}
	}
	for _, fi := range c21SortedFuncs(flow) {
		ast.Inspect(fi.Decl.Body, func(n ast.Node) bool {
			var id *ast.Ident
			switch v := n.(type) {
			case *ast.Ident:
				id = v
			case *ast.SelectorExpr:
				id = v.Sel
			}
			if id != nil {
				if fn, ok := info.Uses[id].(*types.Func); ok {
					fn = fn.Origin()
					if sig := fn.Type().(*types.Signature); sig.Recv() != nil && c03IsIface(sig.Recv().Type()) {
						it, _ := sig.Recv().Type().Underlying().(*types.Interface)
						for _, cand := range methodsByName[fn.Name()] {
							rt := cand.Type().(*types.Signature).Recv().Type()
							if it == nil || types.Implements(rt, it) || types.Implements(types.NewPointer(rt), it) {
								refs[fi.Obj] = append(refs[fi.Obj], cand)
							}
						}
					} else if flow.decls[fn] != nil {
						refs[fi.Obj] = append(refs[fi.Obj], fn)
					}
				}
			}
			return true
		})
	}
	for changed := true; changed; {
		changed = false
		for _, fi := range c21SortedFuncs(flow) {
			if dirty[fi.Obj] {
				continue
			}
			for _, g := range refs[fi.Obj] {
				if dirty[g] {
					dirty[fi.Obj] = true
					why[fi.Obj] = g
					changed = true
					break
				}
			}
		}
	}
	r.Stats["functions_possibly_yielding_SyntaxError"] = len(dirty)

	// classify a call by what its error result can be
	classify := func(c *ast.CallExpr) (string, *types.Func) {
		if tv, ok := info.Types[c.Fun]; ok && tv.IsType() {
			return "conversion", nil
		}
		fn := callee(info, c)
		if fn == nil {
			return "embedder", nil
		}
		fn = fn.Origin()
		if sig := fn.Type().(*types.Signature); sig.Recv() != nil && c03IsIface(sig.Recv().Type()) {
			if it, ok := sig.Recv().Type().Underlying().(*types.Interface); ok && len(implementers(flow.pk, it)) > 0 {
				return "unknown", fn
			}
			return "embedder", fn
		}
		if flow.decls[fn] == nil {
			return "external", fn
		}
		if dirty[fn] {
			return "dirty", fn
		}
		return "clean", fn
	}

	// ---- per-function analysis. A source of a possibly path-less *SyntaxError inside F is
	//   intrinsic: F builds it (literal without path) or stores a recovered/asserted *SyntaxError value — F is a
	//              producer, it cannot know the file name; whoever calls it must assign the path;
	//   callee:    F receives it from a callee g that does not guarantee the path.
	// A source is harmless when every path from it to an error return of F assigns the path (or leaves over the edge
	// on which the value is not a *SyntaxError / already has a path).
	type item struct {
		cons    string // construct suffix
		pos     token.Pos
		kind    string // trivial | fixed | intrinsic | callee | unknown
		callee  *types.Func
		fact    string
		retPos  token.Pos
		nFixes  int
		viaName string
	}
	type summary struct {
		items []*item
	}
	errType := types.Universe.Lookup("error").Type()
	var analyze func(fi *FuncInfo) *summary
	memo := map[*types.Func]*summary{}
	visiting := map[*types.Func]bool{}
	// guarantees: F never returns a path-less *SyntaxError
	var guarantees func(fn *types.Func) bool
	unfixed := func(s *summary) (intr, pass []*item) {
		for _, it := range s.items {
			switch it.kind {
			case "intrinsic":
				intr = append(intr, it)
			case "callee", "unknown":
				pass = append(pass, it)
			}
		}
		return
	}
	guarantees = func(fn *types.Func) bool {
		if !dirty[fn] {
			return true
		}
		fi := flow.decls[fn]
		if fi == nil || c03ErrIdx(fn) < 0 {
			// a function without error result hands a *SyntaxError over only by panic or by its typed result
			sig := fn.Type().(*types.Signature)
			for i := 0; i < sig.Results().Len(); i++ {
				if c21Named(sig.Results().At(i).Type()) == synT {
					return false
				}
			}
			return true
		}
		if visiting[fn] {
			return true // coinductive: a recursive call is assumed to satisfy what is being shown
		}
		i, p := unfixed(analyze(fi))
		return len(i) == 0 && len(p) == 0
	}
	analyze = func(fi *FuncInfo) *summary {
		if s, ok := memo[fi.Obj]; ok {
			return s
		}
		visiting[fi.Obj] = true
		defer func() { visiting[fi.Obj] = false }()
		s := &summary{}
		c := r.P.CFGOf(fi)
		par := r.P.Parents(fi.File)
		inLit := func(n ast.Node) bool {
			for p := par[n]; p != nil; p = par[p] {
				if _, ok := p.(*ast.FuncLit); ok {
					return true
				}
			}
			return false
		}
		asserts := c03Asserts(info, fi.Decl.Body)
		ei := c03ErrIdx(fi.Obj)
		sig := fi.Obj.Type().(*types.Signature)
		var namedRes types.Object
		if nr := sig.Results().At(ei); nr.Name() != "" && nr.Name() != "_" {
			namedRes = nr
		}
		add := func(it *item) *item { s.items = append(s.items, it); return it }
		litHasPath := func(e ast.Expr) (isLit, has bool) {
			u, ok := ast.Unparen(e).(*ast.UnaryExpr)
			var cl *ast.CompositeLit
			if ok && u.Op == token.AND {
				cl, _ = ast.Unparen(u.X).(*ast.CompositeLit)
			}
			if cl == nil {
				return false, false
			}
			v := c21LitField(info, cl, synT.Underlying().(*types.Struct), pathFld)
			return true, v != nil && !c21IsEmptyConst(info, v)
		}
		// forward check from a definition of v
		fixedFrom := func(d ast.Node, v types.Object) (rets []*ast.ReturnStmt, fixes int, ok bool) {
			var oks, vals []types.Object
			// the value may be examined through v itself (interface) — or, when v has type *SyntaxError, directly
			for _, a := range asserts {
				if c03ObjOf(info, a.X) == v && types.Identical(a.T, synPtr) {
					oks = append(oks, a.Ok)
					vals = append(vals, a.Val)
				}
			}
			direct := types.Identical(v.Type(), synPtr)
			if direct {
				vals = append(vals, v)
			}
			has := func(set []types.Object, ob types.Object) bool {
				for _, k := range set {
					if ob != nil && k == ob {
						return true
					}
				}
				return false
			}
			atomOK := func(e ast.Expr) bool {
				if has(oks, c03ObjOf(info, e)) {
					return true
				}
				be, ok := ast.Unparen(e).(*ast.BinaryExpr)
				if !ok || be.Op != token.EQL {
					return false
				}
				isPathOf := func(a, b ast.Expr) bool {
					sel, ok := ast.Unparen(a).(*ast.SelectorExpr)
					return ok && info.Uses[sel.Sel] == pathFld && has(vals, c03ObjOf(info, sel.X)) && c21IsEmptyConst(info, b)
				}
				return isPathOf(be.X, be.Y) || isPathOf(be.Y, be.X)
			}
			stop := func(n ast.Node) bool {
				as, ok := n.(*ast.AssignStmt)
				if !ok {
					return false
				}
				if x, val := isPathAssign(as); x != nil && has(vals, c03ObjOf(info, x)) && !c21IsEmptyConst(info, val) {
					if direct && c03ObjOf(info, x) == v {
						fixes++
						return true
					}
					if c.GuardedBy(as, func(l Lit) bool { return l.Truth && l.Tag == nil && has(oks, c03ObjOf(info, l.Expr)) }) {
						fixes++
						return true
					}
				}
				if n != d {
					for _, l := range as.Lhs {
						if c03ObjOf(info, l) == v {
							return true
						}
					}
				}
				return false
			}
			bypass := func(b *cfg.Block, i int) bool { return c03EdgeAllAtoms(c, b, i, atomOK) }
			isRet := func(ret *ast.ReturnStmt) bool {
				if len(ret.Results) == 0 {
					return namedRes == v
				}
				return c03ObjOf(info, ret.Results[len(ret.Results)-1]) == v
			}
			rets, ok = c03ForwardReturns(c, d, stop, bypass, isRet)
			return rets, fixes, ok
		}

		// (a) returns whose operand is not a local variable
		for _, ret := range c03OwnReturns(fi.Decl.Body) {
			if len(ret.Results) == 0 {
				continue
			}
			var e ast.Expr
			if len(ret.Results) == 1 && sig.Results().Len() > 1 {
				e = ret.Results[0]
			} else {
				e = ret.Results[ei]
			}
			e = ast.Unparen(e)
			if tv, ok := info.Types[e]; ok && tv.IsNil() {
				continue
			}
			if _, ok := e.(*ast.Ident); ok {
				if v, ok := c03ObjOf(info, e).(*types.Var); ok && !(v.Pkg() != nil && v.Parent() == v.Pkg().Scope()) {
					continue // handled through its definitions
				}
				add(&item{cons: "#return:pkgvar", pos: ret.Pos(), kind: "trivial", fact: "returns the package-level error value " + exprStr(e) + ", not a *SyntaxError"})
				continue
			}
			if sel, ok := e.(*ast.SelectorExpr); ok {
				if v, ok := info.Uses[sel.Sel].(*types.Var); ok && !v.IsField() && v.Pkg() != nil && v.Parent() == v.Pkg().Scope() && v.Pkg() != flow.pk.Types {
					add(&item{cons: "#return:pkgvar", pos: ret.Pos(), kind: "trivial", fact: "returns the error variable " + exprStr(e) + " of another package, not a *SyntaxError"})
					continue
				}
			}
			if call, ok := e.(*ast.CallExpr); ok {
				kind, fn := classify(call)
				switch kind {
				case "dirty":
					if guarantees(fn) {
						add(&item{cons: "#return:direct", pos: ret.Pos(), kind: "fixed", callee: fn, fact: "returns the result of " + funcKey(fn) + ", whose errors carry a path (decided by this rule)"})
					} else {
						add(&item{cons: "#return:direct", pos: ret.Pos(), kind: "callee", callee: fn, retPos: ret.Pos(), viaName: funcKey(fn)})
					}
				case "unknown", "conversion":
					add(&item{cons: "#return:direct", pos: ret.Pos(), kind: "unknown", fact: "returned call not classified"})
				default:
					add(&item{cons: "#return:direct", pos: ret.Pos(), kind: "trivial", fact: "returns the result of a " + kind + " callee, which cannot be a *SyntaxError"})
				}
				continue
			}
			t := info.TypeOf(e)
			if nt := c21Named(t); nt != nil && !c03IsIface(t) {
				if nt != synT {
					add(&item{cons: "#return:direct", pos: ret.Pos(), kind: "trivial", fact: "returns a value of type " + typeStr(t)})
					continue
				}
				isLit, has := litHasPath(e)
				switch {
				case isLit && has:
					add(&item{cons: "#return:direct", pos: ret.Pos(), kind: "fixed", fact: "returns a *SyntaxError literal whose path is set"})
				case isLit:
					add(&item{cons: "#return:direct", pos: ret.Pos(), kind: "intrinsic", retPos: ret.Pos(), fact: "returns a *SyntaxError literal without path"})
				default:
					add(&item{cons: "#return:direct", pos: ret.Pos(), kind: "unknown", fact: "returns a *SyntaxError expression that is not a literal: shape not understood"})
				}
				continue
			}
			add(&item{cons: "#return:direct", pos: ret.Pos(), kind: "unknown", fact: "returned error expression of type " + typeStr(t) + " not understood"})
		}

		// (b) definitions of error variables
		ast.Inspect(fi.Decl.Body, func(n ast.Node) bool {
			d, ok := n.(*ast.AssignStmt)
			if !ok {
				return true
			}
			for i, l := range d.Lhs {
				v, ok := c03ObjOf(info, l).(*types.Var)
				if !ok || !types.Identical(v.Type(), errType) || v.IsField() {
					continue
				}
				if _, isSel := ast.Unparen(l).(*ast.SelectorExpr); isSel {
					continue
				}
				var rhs ast.Expr
				if len(d.Rhs) == len(d.Lhs) {
					rhs = ast.Unparen(d.Rhs[i])
				} else {
					rhs = ast.Unparen(d.Rhs[0])
				}
				if tv, ok := info.Types[rhs]; ok && tv.IsNil() {
					continue
				}
				name := "expr"
				kind := "unknown"
				var fn *types.Func
				switch x := rhs.(type) {
				case *ast.CallExpr:
					kind, fn = classify(x)
					if fn != nil {
						name = funcKey(fn)
					} else {
						name = "dynamic"
					}
				case *ast.TypeAssertExpr:
					kind = "assert"
				default:
					if t := info.TypeOf(rhs); t != nil && !c03IsIface(t) {
						if c21Named(t) != synT {
							kind = "clean"
							name = typeStr(t)
						} else if isLit, has := litHasPath(rhs); isLit && has {
							kind = "clean"
							name = "SyntaxError-literal-with-path"
						} else {
							kind = "value"
							name = "*SyntaxError-value"
						}
					}
				}
				if kind == "assert" {
					continue
				}
				it := add(&item{cons: "#err<-" + name, pos: d.Pos(), callee: fn, viaName: name})
				if inLit(d) && kind != "value" {
					it.kind, it.fact = "unknown", "error variable defined inside a function literal: shape not understood"
					continue
				}
				switch kind {
				case "clean", "external", "embedder":
					it.kind, it.fact = "trivial", "a "+kind+" source cannot be a path-less *SyntaxError"
					continue
				case "unknown", "conversion":
					it.kind, it.fact = "unknown", "definition of "+v.Name()+" not classified"
					continue
				}
				// dirty callee or a *SyntaxError value stored into the error variable
				var rets []*ast.ReturnStmt
				var fixes int
				located := true
				if inLit(d) {
					// stored inside a deferred literal (a recover handler): it becomes the result unconditionally
					if namedRes == v {
						rets = []*ast.ReturnStmt{nil}
					}
				} else {
					rets, fixes, located = fixedFrom(d, v)
				}
				it.nFixes = fixes
				switch {
				case !located:
					it.kind, it.fact = "unknown", "definition not located in the control-flow graph"
				case len(rets) == 0 && fixes == 0:
					it.kind, it.fact = "trivial", "the error of "+name+" never reaches an error return of "+fi.Name()
				case len(rets) == 0:
					it.kind = "fixed"
					it.fact = fmt.Sprintf("every path from %s to a return of %s assigns %s under the assertion to *SyntaxError, or leaves over the edge on which the assertion failed / the path was non-empty (%d assignment sites)", name, v.Name(), pathFld.Name(), fixes)
				case kind == "value":
					it.kind = "intrinsic"
					it.fact = "stores a *SyntaxError value whose path it cannot know into its error result"
				case guarantees(fn):
					it.kind, it.fact = "fixed", name+" guarantees the path of its errors (decided by this rule)"
				default:
					it.kind = "callee"
					if rets[0] != nil {
						it.retPos = rets[0].Pos()
					}
				}
			}
			return true
		})
		memo[fi.Obj] = s
		return s
	}

	// ---- report, starting from the functions of package compiler called by the API boundary
	x3 := &c03{r: r, flow: flow}
	roots := x3.boundaryCallees()
	if !r.Anchor(R, "functions of package compiler with an error result called by the exported functions of the root package", len(roots) >= 2) {
		return
	}
	reported := map[*types.Func]bool{}
	var queue []*FuncInfo
	for _, fi := range roots {
		queue = append(queue, fi)
	}
	// the functions whose role is to assign the path are examined on their own: each must assign it on all its paths
	queue = append(queue, assigners...)
	chainOf := func(fn *types.Func) string {
		s := funcKey(fn)
		for g, n := why[fn], 0; g != nil && n < 8; g, n = why[g], n+1 {
			s += " -> " + funcKey(g)
		}
		return s
	}
	nT := 0
	for len(queue) > 0 {
		fi := queue[0]
		queue = queue[1:]
		if reported[fi.Obj] {
			continue
		}
		reported[fi.Obj] = true
		nT++
		s := analyze(fi)
		for _, it := range s.items {
			o := r.Ob(R, fi.Name()+it.cons, it.pos)
			switch it.kind {
			case "trivial":
				o.Trivial("%s", it.fact)
			case "fixed":
				o.OK("%s", it.fact)
				if it.callee != nil && dirty[it.callee] && it.nFixes == 0 {
					if d := flow.decls[it.callee]; d != nil && c03ErrIdx(it.callee) >= 0 {
						queue = append(queue, d) // its own obligations are listed too
					}
				}
			case "unknown":
				o.Unknown("%s", it.fact)
			case "intrinsic":
				o.Bad("%s %s: no caller can be relied upon because %s is called from the API boundary chain without a path assignment in between", fi.Name(), it.fact, fi.Name())
			case "callee":
				g := flow.decls[it.callee]
				var gi, gp []*item
				if g != nil && c03ErrIdx(it.callee) >= 0 {
					gi, gp = unfixed(analyze(g))
				}
				where := "its error return"
				if it.retPos != token.NoPos {
					where = "`return` at " + r.P.Pos(it.retPos)
				}
				// g is a producer when it builds or recovers path-less errors itself: it cannot know the file name
				// and nothing is reported inside it. Otherwise, when g lets the error of its own callee through,
				// the missing assignment is reported there — unless this function is one whose role is to assign paths.
				if len(gp) > 0 && len(gi) == 0 && !isAssigner[fi.Obj] {
					queue = append(queue, g)
					o.Trivial("deferred: %s does not assign the path itself and relies on %s, which is examined on its own (see its obligations)", fi.Name(), it.viaName)
					continue
				}
				o.Bad("the error of %s (possibly a path-less *SyntaxError: %s) reaches %s on a path that neither assigns %s nor is the edge on which the assertion to *SyntaxError failed or the path was already set, and %s cannot know the file name", it.viaName, chainOf(it.callee), where, pathFld.Name(), it.viaName)
			}
		}
	}
	r.Stats["functions_examined"] = nT
	r.Require(R, 20)
}

func c21SortedFuncs(flow *c03Flow) []*FuncInfo {
	var fis []*FuncInfo
	for _, fi := range flow.decls {
		fis = append(fis, fi)
	}
	sort.Slice(fis, func(i, j int) bool {
		if fis[i].Name() != fis[j].Name() {
			return fis[i].Name() < fis[j].Name()
		}
		return fis[i].Decl.Pos() < fis[j].Decl.Pos()
	})
	return fis
}

// ---------------------------------------------------------------------------
// R-2

var c21Unit = map[string]string{"Line": "line", "Column": "column", "Start": "offset", "End": "offset"}

func c21Positions(r *Run) {
	const R = "R-2"
	posT := []*types.Named{r.P.Named("ast", "Position"), r.P.Named("internal/runtime", "Position"), r.P.Named("", "Position")}
	names := []string{"ast.Position", "runtime.Position", "scriggo.Position"}
	for i, t := range posT {
		if !r.Anchor(R, names[i], t != nil) {
			return
		}
	}
	isPos := func(t types.Type) *types.Named {
		if t == nil {
			return nil
		}
		if p, ok := t.Underlying().(*types.Pointer); ok {
			t = p.Elem()
		}
		if p, ok := t.(*types.Pointer); ok {
			t = p.Elem()
		}
		for _, pt := range posT {
			if types.Identical(t, pt) {
				return pt
			}
		}
		return nil
	}
	// struct shape
	var ref []string
	for i, t := range posT {
		st, ok := t.Underlying().(*types.Struct)
		o := r.Ob(R, names[i]+"#shape", t.Obj().Pos())
		if !ok {
			o.Unknown("not a struct")
			continue
		}
		var fs []string
		for j := 0; j < st.NumFields(); j++ {
			fs = append(fs, st.Field(j).Name()+" "+typeStr(st.Field(j).Type()))
		}
		if i == 0 {
			ref = fs
		}
		want := []string{"Line int", "Column int", "Start int", "End int"}
		if strings.Join(fs, ",") == strings.Join(ref, ",") && strings.Join(fs, ",") == strings.Join(want, ",") {
			o.OK("fields %s: identical sequence in the three position types (positional literals and conversions T(x) are faithful)", strings.Join(fs, ", "))
		} else {
			o.Bad("field sequence %v differs from %v: positional literals and struct conversions between the position types would permute fields", fs, want)
		}
	}

	// source of a value: selector src.F with src of a position type
	type srcSel struct {
		base  ast.Expr
		field string
		typ   *types.Named
	}
	selOf := func(info *types.Info, e ast.Expr) *srcSel {
		sel, ok := ast.Unparen(e).(*ast.SelectorExpr)
		if !ok {
			return nil
		}
		v, ok := info.Uses[sel.Sel].(*types.Var)
		if !ok || !v.IsField() {
			return nil
		}
		pt := isPos(info.TypeOf(sel.X))
		if pt == nil {
			return nil
		}
		if _, ok := c21Unit[v.Name()]; !ok {
			return nil
		}
		return &srcSel{base: sel.X, field: v.Name(), typ: pt}
	}

	nLit, nCopy, nUnit := 0, 0, 0
	for _, pk := range r.P.Pkgs {
		if pk.Types == nil || strings.HasSuffix(pk.PkgPath, "_test") {
			continue
		}
		info := pk.TypesInfo
		rel := strings.TrimPrefix(strings.TrimPrefix(pk.PkgPath, modulePath), "/")
		if r.P.Pkg(rel) != pk {
			continue
		}
		for _, fi := range r.P.Funcs(rel) {
			if r.P.isTestFile(fi.File) {
				continue
			}
			// field assignments grouped per (target base expression text is not used: group by object of the root identifier and target type)
			type asg struct {
				st    *ast.AssignStmt
				field string
				src   *srcSel
				dst   *types.Named
				dstX  ast.Expr
			}
			var asgs []asg
			ast.Inspect(fi.Decl.Body, func(n ast.Node) bool {
				switch x := n.(type) {
				case *ast.CompositeLit:
					lt := info.TypeOf(x)
					pt := isPos(lt)
					if pt == nil {
						return true
					}
					if _, isStruct := lt.Underlying().(*types.Struct); !isStruct {
						return true
					}
					st := pt.Underlying().(*types.Struct)
					given := map[string]ast.Expr{}
					for i, el := range x.Elts {
						if kv, ok := el.(*ast.KeyValueExpr); ok {
							if id, ok := kv.Key.(*ast.Ident); ok {
								given[id.Name] = kv.Value
							}
						} else if i < st.NumFields() {
							given[st.Field(i).Name()] = el
						}
					}
					var srcs []*srcSel
					bases := map[string]bool{}
					cross := false
					for _, f := range []string{"Line", "Column", "Start", "End"} {
						if v, ok := given[f]; ok {
							if s := selOf(info, v); s != nil {
								srcs = append(srcs, s)
								bases[exprStr(s.base)] = true
								if s.typ != pt {
									cross = true
								}
							}
						}
					}
					if len(srcs) == 0 {
						return true // not a conversion: built from scalars
					}
					nLit++
					o := r.Ob(R, fi.Name()+"#literal:"+typeStr(pt), x.Pos())
					var bad []string
					for _, f := range []string{"Line", "Column", "Start", "End"} {
						v, ok := given[f]
						if !ok {
							continue
						}
						s := selOf(info, v)
						if s == nil {
							continue
						}
						if c21Unit[s.field] != c21Unit[f] {
							bad = append(bad, fmt.Sprintf("%s is set from %s (a %s in a %s field)", f, s.field, c21Unit[s.field], c21Unit[f]))
						} else if s.field != f && (cross || len(bases) == 1) {
							bad = append(bad, fmt.Sprintf("%s is set from %s", f, s.field))
						}
					}
					// a copy (all selectors from one source) or a conversion between types must not drop a field
					if cross || (len(bases) == 1 && len(srcs) >= 2) {
						for _, f := range []string{"Line", "Column", "Start", "End"} {
							if _, ok := given[f]; !ok && !c21AssignedLater(r, info, fi, x, f) {
								bad = append(bad, fmt.Sprintf("%s is not copied", f))
							}
						}
					}
					if len(bad) > 0 {
						o.Bad("position literal in %s: %s", fi.Name(), strings.Join(bad, "; "))
					} else {
						o.OK("%d fields copied from %s, each to the field of the same name", len(srcs), strings.Join(sortedKeys(bases), ","))
					}
				case *ast.AssignStmt:
					if len(x.Lhs) != len(x.Rhs) {
						return true
					}
					for i, l := range x.Lhs {
						ds := selOf(info, l)
						if ds == nil {
							continue
						}
						ss := selOf(info, x.Rhs[i])
						if ss == nil {
							continue
						}
						asgs = append(asgs, asg{st: x, field: ds.field, src: ss, dst: ds.typ, dstX: ds.base})
					}
				}
				return true
			})
			// cross-type field-by-field copies: group by destination expression
			groups := map[string][]asg{}
			var order []string
			for _, a := range asgs {
				if a.src.typ != a.dst {
					k := exprStr(a.dstX) + "<-" + exprStr(a.src.base)
					if _, ok := groups[k]; !ok {
						order = append(order, k)
					}
					groups[k] = append(groups[k], a)
				} else {
					nUnit++
					o := r.Ob(R, fi.Name()+"#copy:"+a.field, a.st.Pos())
					switch {
					case c21Unit[a.src.field] != c21Unit[a.field]:
						o.Bad("%s (a %s) is assigned from %s (a %s)", a.field, c21Unit[a.field], a.src.field, c21Unit[a.src.field])
					case a.field != a.src.field && c21Unit[a.field] != "offset":
						o.Bad("%s is assigned from %s", a.field, a.src.field)
					default:
						o.Trivial("%s assigned from %s of the same type: same unit", a.field, a.src.field)
					}
				}
			}
			for _, k := range order {
				g := groups[k]
				nCopy++
				o := r.Ob(R, fi.Name()+"#fieldcopy:"+typeStr(g[0].dst)+"<-"+typeStr(g[0].src.typ), g[0].st.Pos())
				got := map[string]bool{}
				var bad []string
				for _, a := range g {
					got[a.field] = true
					if a.field != a.src.field {
						bad = append(bad, fmt.Sprintf("%s is assigned from %s", a.field, a.src.field))
					}
				}
				for _, f := range []string{"Line", "Column", "Start", "End"} {
					if !got[f] {
						bad = append(bad, f+" is not copied")
					}
				}
				if len(bad) > 0 {
					o.Bad("field-by-field conversion in %s: %s", fi.Name(), strings.Join(bad, "; "))
				} else {
					o.OK("the four fields are copied, each to the field of the same name")
				}
			}
		}
	}
	r.Stats["conversion_literals"] = nLit
	r.Stats["field_by_field_conversions"] = nCopy
	r.Stats["same_type_field_copies"] = nUnit
	r.Require(R, 3+9)
}

// c21AssignedLater: the literal is bound to a variable whose field f is assigned in the same function.
func c21AssignedLater(r *Run, info *types.Info, fi *FuncInfo, cl *ast.CompositeLit, f string) bool {
	par := r.P.Parents(fi.File)
	var n ast.Node = cl
	if u, ok := par[n].(*ast.UnaryExpr); ok {
		n = u
	}
	as, ok := par[n].(*ast.AssignStmt)
	if !ok || len(as.Lhs) != len(as.Rhs) {
		return false
	}
	var v types.Object
	for i, rh := range as.Rhs {
		if ast.Node(rh) == n {
			v = c03ObjOf(info, as.Lhs[i])
		}
	}
	if v == nil {
		return false
	}
	found := false
	ast.Inspect(fi.Decl.Body, func(m ast.Node) bool {
		a, ok := m.(*ast.AssignStmt)
		if !ok {
			return true
		}
		for _, l := range a.Lhs {
			if sel, ok := ast.Unparen(l).(*ast.SelectorExpr); ok && sel.Sel.Name == f && c03ObjOf(info, sel.X) == v {
				found = true
			}
		}
		return true
	})
	return found
}

// c21ReturnsType: some result of fi has type *T.
func c21ReturnsType(fi *FuncInfo, t *types.Named) bool {
	sig := fi.Obj.Type().(*types.Signature)
	for i := 0; i < sig.Results().Len(); i++ {
		if c21Named(sig.Results().At(i).Type()) == t && !c03IsIface(sig.Results().At(i).Type()) {
			return true
		}
	}
	return false
}
