package main

// C05 R-10, R-11, R-12 (added after defects reported on the unmodified tree).
//
// R-10  indirection through a pointer register checks for nil. A register of the general class used with
//       a negative index holds a pointer; `*p = v` with p == nil must be the interpreted program's nil
//       dereference (errNilPointer, a *PanicError), not reflect's "call of reflect.Value.Set on zero
//       Value" (a *reflect.ValueError is not classified: host panic). Every call of Elem on a value
//       taken from vm.regs.general in package runtime is guarded by an IsNil check of that value on every
//       path. (Found: the five set*Indirect methods lacked the check their get siblings have.)
//
// R-11  a call frame that can be resumed remembers the renderer. nextCall restores vm.renderer from the
//       frame it resumes; a frame built without the renderer field leaves vm.renderer nil after a
//       recovered panic or a deferred call, and the next Text/Show dereferences nil in the host. Every
//       composite literal of callFrame sets `renderer`, except frames with status `tailed` (nextCall skips
//       them). (Found: the frames of OpCallFunc and OpCallIndirect.)
//
// R-12  reflect.ValueOf of an interface value may be the zero Value. When the argument of
//       reflect.ValueOf has an interface type (so it can be nil), the methods called on the result that
//       panic for the zero Value (all but IsValid, Kind, String, CanSet, CanAddr, CanInterface) are guarded
//       by IsValid / a Kind test / a nil test of the argument / a type-switch clause that excludes nil.
//       (Found: showInCSSString calls Type() on reflect.ValueOf(value) in the default clause of a type
//       switch with no nil clause: {{ n }} with a nil interface in a CSS string panics in the host.)

import (
	"go/ast"
	"go/token"
	"go/types"
	"strings"
)

func init() {
	p := registry["C05"]
	if p == nil {
		return
	}
	run := p.run
	p.run = func(r *Run) { run(r); c05IndirectNil(r); c05FrameRenderer(r); c05ValueOfInterface(r) }
	p.explain += " R-10: every Elem() on a value taken from the general registers is guarded by its IsNil check (nil indirection is the program's fault, not reflect's). R-11: every resumable callFrame literal sets the renderer. R-12: methods that panic on the zero reflect.Value are not called on reflect.ValueOf(<interface value>) without a validity guard."
}

// ---- R-10

func c05IndirectNil(r *Run) {
	const R = "R-10"
	n := 0
	for _, fi := range r.P.Funcs("internal/runtime") {
		if r.P.isTestFile(fi.File) {
			continue
		}
		info := fi.Pkg.TypesInfo
		isGeneralReg := func(e ast.Expr) bool {
			ix, ok := ast.Unparen(e).(*ast.IndexExpr)
			if !ok {
				return false
			}
			sel, ok := ast.Unparen(ix.X).(*ast.SelectorExpr)
			if !ok || sel.Sel.Name != "general" {
				return false
			}
			s, ok := info.Selections[sel]
			if !ok {
				return false
			}
			f, ok := s.Obj().(*types.Var)
			if !ok || !f.IsField() {
				return false
			}
			// the field of the registers struct holding []reflect.Value
			sl, ok := f.Type().Underlying().(*types.Slice)
			return ok && typeStr(sl.Elem()) == "reflect.Value"
		}
		// locals whose only definition is a general register
		regLocal := map[types.Object]bool{}
		defs := map[types.Object]int{}
		ast.Inspect(fi.Decl.Body, func(m ast.Node) bool {
			if as, ok := m.(*ast.AssignStmt); ok {
				for i, l := range as.Lhs {
					o := objOfIdent(info, l)
					if o == nil {
						continue
					}
					defs[o]++
					if len(as.Lhs) == len(as.Rhs) && isGeneralReg(as.Rhs[i]) {
						regLocal[o] = true
					}
				}
			}
			return true
		})
		var g *CFGInfo
		for _, c := range calls(fi.Decl.Body, false) {
			sel, ok := c.Fun.(*ast.SelectorExpr)
			if !ok || sel.Sel.Name != "Elem" || typeStr(info.TypeOf(sel.X)) != "reflect.Value" {
				continue
			}
			var subject string
			if isGeneralReg(sel.X) {
				subject = exprStr(sel.X)
			} else if o := objOfIdent(info, sel.X); o != nil && regLocal[o] && defs[o] == 1 {
				subject = o.Name()
			} else {
				continue
			}
			n++
			if g == nil {
				g = r.P.CFGOf(fi)
			}
			o := r.Ob(R, fi.Name()+"#"+subject+".Elem()", c.Pos())
			guarded := g.GuardedBy(c, func(l Lit) bool {
				ce, ok := ast.Unparen(l.Expr).(*ast.CallExpr)
				if !ok || l.Tag != nil || l.Truth {
					return false
				}
				s2, ok := ce.Fun.(*ast.SelectorExpr)
				return ok && s2.Sel.Name == "IsNil" && exprStr(s2.X) == exprStr(sel.X)
			})
			if guarded {
				o.OK("dominated by the false edge of %s.IsNil()", subject)
			} else {
				o.Bad("%s is a pointer taken from the general registers and Elem() is called on it with no IsNil check on every path: for a nil pointer the following Set/Int/… panics with a *reflect.ValueError, an unclassified (host) panic, instead of the nil-dereference run-time error of the interpreted program", subject)
			}
		}
	}
	r.Require(R, 8)
}

// ---- R-11

func c05FrameRenderer(r *Run) {
	const R = "R-11"
	frameT := r.P.Named("internal/runtime", "callFrame")
	if !r.Anchor(R, "runtime.callFrame", frameT != nil) {
		return
	}
	st, ok := frameT.Underlying().(*types.Struct)
	hasRenderer := false
	if ok {
		for i := 0; i < st.NumFields(); i++ {
			if st.Field(i).Name() == "renderer" {
				hasRenderer = true
			}
		}
	}
	if !r.Anchor(R, "field renderer of runtime.callFrame", hasRenderer) {
		return
	}
	for _, fi := range r.P.Funcs("internal/runtime") {
		if r.P.isTestFile(fi.File) {
			continue
		}
		info := fi.Pkg.TypesInfo
		k := 0
		ast.Inspect(fi.Decl.Body, func(m ast.Node) bool {
			cl, ok := m.(*ast.CompositeLit)
			if !ok || !types.Identical(info.TypeOf(cl), frameT) {
				return true
			}
			k++
			fields := map[string]ast.Expr{}
			for _, e := range cl.Elts {
				if kv, ok := e.(*ast.KeyValueExpr); ok {
					if id, ok := kv.Key.(*ast.Ident); ok {
						fields[id.Name] = kv.Value
					}
				}
			}
			key := fi.Name() + "#callFrame{" + strings.Join(sortedKeys(fields), ",") + "}"
			o := r.Ob(R, key, cl.Pos())
			if len(cl.Elts) > 0 && len(fields) == 0 {
				o.Unknown("positional callFrame literal: cannot tell whether the renderer is set")
				return true
			}
			if _, ok := fields["renderer"]; ok {
				o.OK("sets renderer")
				return true
			}
			if s, ok := fields["status"]; ok {
				if c := constOf(info, s); c != nil && c.Name() == "tailed" {
					o.OK("status tailed: nextCall skips the frame, its renderer is never restored")
					return true
				}
			}
			o.Bad("the frame does not record the renderer: when nextCall resumes it (after a deferred call or a recovered panic) vm.renderer becomes nil and the next Text or Show instruction dereferences nil in the host")
			return true
		})
	}
	r.Require(R, 5)
}

// ---- R-12

var zeroValueSafe = map[string]bool{"IsValid": true, "Kind": true, "String": true, "CanSet": true, "CanAddr": true, "CanInterface": true}

func c05ValueOfInterface(r *Run) {
	const R = "R-12"
	n := 0
	for _, rel := range []string{"internal/runtime", ""} {
		for _, fi := range r.P.Funcs(rel) {
			if r.P.isTestFile(fi.File) {
				continue
			}
			info := fi.Pkg.TypesInfo
			par := r.P.Parents(fi.File)
			isValueOfIface := func(e ast.Expr) (ast.Expr, bool) {
				c, ok := ast.Unparen(e).(*ast.CallExpr)
				if !ok || len(c.Args) != 1 {
					return nil, false
				}
				f := callee(info, c)
				if f == nil || !isPkgFunc(f, "reflect", "", "ValueOf") {
					return nil, false
				}
				at := info.TypeOf(c.Args[0])
				if at == nil {
					return nil, false
				}
				if _, isIface := at.Underlying().(*types.Interface); !isIface {
					return nil, false
				}
				if tv, ok := info.Types[c.Args[0]]; ok && tv.IsNil() {
					return nil, false
				}
				return c.Args[0], true
			}
			// locals defined once as reflect.ValueOf(<interface>)
			src := map[types.Object]ast.Expr{}
			defs := map[types.Object]int{}
			ast.Inspect(fi.Decl.Body, func(m ast.Node) bool {
				if as, ok := m.(*ast.AssignStmt); ok {
					for i, l := range as.Lhs {
						o := objOfIdent(info, l)
						if o == nil {
							continue
						}
						defs[o]++
						if len(as.Lhs) == len(as.Rhs) {
							if arg, ok := isValueOfIface(as.Rhs[i]); ok {
								src[o] = arg
							}
						}
					}
				}
				return true
			})
			var g *CFGInfo
			for _, c := range calls(fi.Decl.Body, true) {
				sel, ok := c.Fun.(*ast.SelectorExpr)
				if !ok || zeroValueSafe[sel.Sel.Name] || typeStr(info.TypeOf(sel.X)) != "reflect.Value" {
					continue
				}
				var arg ast.Expr
				var recv string
				if a, ok := isValueOfIface(sel.X); ok {
					arg, recv = a, exprStr(sel.X)
				} else if o := objOfIdent(info, sel.X); o != nil && src[o] != nil && defs[o] == 1 {
					arg, recv = src[o], o.Name()
				} else {
					continue
				}
				if enclosingFuncLit(par, c) != nil {
					continue // closures: the flow graph of the outer function does not order them
				}
				n++
				if g == nil {
					g = r.P.CFGOf(fi)
				}
				o := r.Ob(R, fi.Name()+"#"+recv+"."+sel.Sel.Name+"()", c.Pos())
				argS := exprStr(arg)
				isNilIdent := func(e ast.Expr) bool {
					tv, ok := info.Types[e]
					return ok && tv.IsNil()
				}
				guarded := g.GuardedBy(c, func(l Lit) bool {
					e := ast.Unparen(l.Expr)
					if l.Tag != nil {
						// switch recv.Kind() { case reflect.X: } with X != Invalid
						if tc, ok := ast.Unparen(l.Tag).(*ast.CallExpr); ok && l.Truth {
							if ts, ok := tc.Fun.(*ast.SelectorExpr); ok && ts.Sel.Name == "Kind" && exprStr(ts.X) == exprStr(sel.X) {
								if k := constOf(info, e); k != nil && k.Name() != "Invalid" {
									return true
								}
							}
						}
						return false
					}
					switch x := e.(type) {
					case *ast.CallExpr:
						if s2, ok := x.Fun.(*ast.SelectorExpr); ok && s2.Sel.Name == "IsValid" && exprStr(s2.X) == exprStr(sel.X) {
							return l.Truth
						}
					case *ast.BinaryExpr:
						if x.Op != token.EQL && x.Op != token.NEQ {
							return false
						}
						nonNil := (x.Op == token.NEQ) == l.Truth // the literal says "operands differ"
						a, b := ast.Unparen(x.X), ast.Unparen(x.Y)
						if isNilIdent(b) && exprStr(a) == argS || isNilIdent(a) && exprStr(b) == argS {
							return nonNil
						}
						// recv.Kind() == reflect.X / != reflect.Invalid
						for _, pr := range [][2]ast.Expr{{a, b}, {b, a}} {
							if kc, ok := pr[0].(*ast.CallExpr); ok {
								if ks, ok := kc.Fun.(*ast.SelectorExpr); ok && ks.Sel.Name == "Kind" && exprStr(ks.X) == exprStr(sel.X) {
									if k := constOf(info, pr[1]); k != nil {
										if k.Name() == "Invalid" {
											return nonNil
										}
										return !nonNil // equal to a valid kind
									}
								}
							}
						}
					}
					return false
				})
				if !guarded {
					guarded = typeSwitchExcludesNil(info, par, c, arg)
				}
				if guarded {
					o.OK("guarded: %s is not nil / %s is valid on every path to the call", argS, recv)
				} else {
					o.Bad("%s is reflect.ValueOf(%s) and %s has an interface type: when it is nil the result is the zero Value and %s() panics with a *reflect.ValueError (an unclassified host panic); no IsValid, Kind or nil test guards the call", recv, argS, argS, sel.Sel.Name)
				}
			}
		}
	}
	r.Require(R, 3)
}

func enclosingFuncLit(par map[ast.Node]ast.Node, n ast.Node) *ast.FuncLit {
	for p := par[n]; p != nil; p = par[p] {
		if fl, ok := p.(*ast.FuncLit); ok {
			return fl
		}
	}
	return nil
}

// typeSwitchExcludesNil reports whether site lies in a clause of a type switch on arg (or binding arg)
// that cannot be entered with a nil interface: a clause listing types but not nil, or the default clause
// of a switch that has a `case nil` clause.
func typeSwitchExcludesNil(info *types.Info, par map[ast.Node]ast.Node, site ast.Node, arg ast.Expr) bool {
	argObj := objOfIdent(info, arg)
	for p := par[site]; p != nil; p = par[p] {
		cc, ok := p.(*ast.CaseClause)
		if !ok {
			continue
		}
		body, ok := par[cc].(*ast.BlockStmt)
		if !ok {
			continue
		}
		ts, ok := par[body].(*ast.TypeSwitchStmt)
		if !ok {
			continue
		}
		var subj ast.Expr
		bound := false
		switch a := ts.Assign.(type) {
		case *ast.ExprStmt:
			if ta, ok := a.X.(*ast.TypeAssertExpr); ok {
				subj = ta.X
			}
		case *ast.AssignStmt:
			if len(a.Rhs) == 1 {
				if ta, ok := a.Rhs[0].(*ast.TypeAssertExpr); ok {
					subj = ta.X
				}
			}
			// the symbol bound in this clause
			if argObj != nil && info.Implicits[cc] == argObj {
				bound = true
			}
		}
		if subj == nil || !(bound || exprStr(subj) == exprStr(arg)) {
			continue
		}
		isNil := func(e ast.Expr) bool { tv, ok := info.Types[e]; return ok && tv.IsNil() }
		if cc.List != nil {
			for _, e := range cc.List {
				if isNil(e) {
					return false
				}
			}
			return true
		}
		for _, s := range ts.Body.List {
			if oc, ok := s.(*ast.CaseClause); ok {
				for _, e := range oc.List {
					if isNil(e) {
						return true
					}
				}
			}
		}
		return false
	}
	return false
}
