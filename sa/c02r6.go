package main

// C02 R-6 (added after seeded change C02-2): a constant changes representation without changing value.
//
// The constant implementations hand their value from one representation to another in three kinds of
// places, all found by role through go/types:
//   (a) the function that brings two constants to the same implementation before an operation or a
//       comparison (two parameters and two results of the constant interface type);
//   (b) the converter methods: a method without parameters of one implementation whose result is another
//       implementation;
//   (c) inside the binary / unary / equality methods, the receiver and the constant arguments of every
//       call of an operation method (the operands handed to another representation).
// In each of them, and in every function of the package reached from them by static calls, the value
// must not pass through a step that cannot hold every value of its source:
//   - a Go conversion of a non-constant machine number to a narrower machine type (integer -> float with
//     more magnitude bits than the mantissa, float -> integer, float64 -> float32, integer -> narrower or
//     differently signed integer, complex128 -> complex64);
//   - a truncating accessor of math/big ((*Int).Int64/Uint64/Float64, (*Float).Int64/Uint64/Float64/
//     Float32/Int, (*Rat).Float64/Float32/Num) unless it is guarded by the matching IsInt64 / IsUint64 /
//     IsInt test of the same value;
//   - the machine accessors of the constant interface (int64(), uint64(), float64(), complex128())
//     invoked on a value whose representation is not known statically.
// An integer constant above 2^53 that meets a floating-point constant is otherwise rounded to 53 bits
// before the exact 512-bit operation: 9007199254740993 + 0.0 folds to 9007199254740992.

import (
	"fmt"
	"go/ast"
	"go/token"
	"go/types"
	"sort"
	"strings"
)

func init() {
	p := registry["C02"]
	if p == nil {
		return
	}
	run := p.run
	p.run = func(r *Run) {
		run(r)
		if r.P.Arch != "" {
			return
		}
		if x := c02Context(r); x != nil {
			c02ExactHandOver(x)
		}
	}
	p.explain += " R-6: the function bringing two constants to the same implementation, the parameterless converter methods from one implementation to another, and the receiver and constant arguments of every operation-method call inside the binary / unary / equality methods — together with every function of the package they reach by static calls — contain no value-losing step: no Go conversion of a non-constant machine number to a type that cannot hold every value of the source type, no truncating math/big accessor that is not guarded by the matching IsInt64 / IsUint64 / IsInt test of the same value, no machine accessor of the constant interface on a value of statically unknown representation."
	p.notCov = append(p.notCov, "R-6: that the exact setters of math/big used by a hand-over receive the right operand; hand-overs outside the three roles (representedBy rounds to the target type by specification)")
}

type c02Lossy struct {
	x       *c02
	byObj   map[*types.Func]*FuncInfo
	roots   map[*FuncInfo]bool // functions reported on their own: not entered from another root
	acc     map[string]bool    // names of the interface's machine accessors
	funcs   map[*FuncInfo][]c02Loss
	onStack map[*FuncInfo]bool
}

type c02Loss struct {
	pos     token.Pos
	what    string
	unknown bool
}

// accessorNames: the methods of the constant interface without parameters whose single result is a
// machine number.
func (x *c02) accessorNames() map[string]bool {
	out := map[string]bool{}
	it := x.iface.Underlying().(*types.Interface)
	for i := 0; i < it.NumMethods(); i++ {
		m := it.Method(i)
		sig := m.Type().(*types.Signature)
		if sig.Params().Len() != 0 || sig.Results().Len() != 1 {
			continue
		}
		if b, ok := sig.Results().At(0).Type().(*types.Basic); ok && b.Info()&types.IsNumeric != 0 {
			out[m.Name()] = true
		}
	}
	return out
}

func c02NewLossy(x *c02) *c02Lossy {
	l := &c02Lossy{x: x, byObj: map[*types.Func]*FuncInfo{}, roots: map[*FuncInfo]bool{}, funcs: map[*FuncInfo][]c02Loss{}, onStack: map[*FuncInfo]bool{}}
	for _, fi := range x.r.P.Funcs("internal/compiler") {
		if !x.r.P.isTestFile(fi.File) && fi.Obj != nil {
			l.byObj[fi.Obj] = fi
		}
	}
	l.acc = x.accessorNames()
	return l
}

// magnitude bits a machine type can hold exactly (integers: value bits; floats: mantissa).
func (l *c02Lossy) convLoss(from, to *types.Basic) string {
	if from == nil || to == nil || from.Info()&types.IsUntyped != 0 {
		return ""
	}
	size := func(b *types.Basic) int { return int(l.x.sizes.Sizeof(b)) * 8 }
	mant := func(b *types.Basic) int {
		if b.Kind() == types.Float32 {
			return 24
		}
		return 53
	}
	fi, ff := from.Info()&types.IsInteger != 0, from.Info()&types.IsFloat != 0
	ti, tf := to.Info()&types.IsInteger != 0, to.Info()&types.IsFloat != 0
	switch {
	case fi && tf:
		bits := size(from)
		if from.Info()&types.IsUnsigned == 0 {
			bits--
		}
		if bits > mant(to) {
			return fmt.Sprintf("%s -> %s keeps only %d of the %d value bits", from.Name(), to.Name(), mant(to), bits)
		}
	case ff && ti:
		return fmt.Sprintf("%s -> %s truncates the fraction and is implementation-defined outside the integer range", from.Name(), to.Name())
	case ff && tf:
		if mant(from) > mant(to) {
			return fmt.Sprintf("%s -> %s rounds to %d bits", from.Name(), to.Name(), mant(to))
		}
	case fi && ti:
		fu, tu := from.Info()&types.IsUnsigned != 0, to.Info()&types.IsUnsigned != 0
		fb, tb := size(from), size(to)
		switch {
		case fu == tu && tb >= fb:
		case fu && !tu && tb > fb:
		default:
			return fmt.Sprintf("%s -> %s wraps around values outside %s", from.Name(), to.Name(), to.Name())
		}
	case from.Info()&types.IsComplex != 0 && to.Info()&types.IsComplex != 0:
		if size(to) < size(from) {
			return fmt.Sprintf("%s -> %s rounds both parts", from.Name(), to.Name())
		}
	}
	return ""
}

var c02BigLossy = map[string]string{ // "Recv.Method" -> guard method ("" = none exists)
	"Int.Int64": "IsInt64", "Int.Uint64": "IsUint64", "Int.Float64": "", "Int.Float32": "",
	"Float.Int64": "", "Float.Uint64": "", "Float.Float64": "", "Float.Float32": "", "Float.Int": "IsInt",
	"Rat.Float64": "", "Rat.Float32": "", "Rat.Num": "IsInt",
}

// pathKey identifies an access path (a variable followed by field selections) by its objects.
func (l *c02Lossy) pathKey(e ast.Expr) (string, bool) {
	info := l.x.info
	switch t := ast.Unparen(e).(type) {
	case *ast.Ident:
		if o := info.Uses[t]; o != nil {
			return fmt.Sprintf("%p", o), true
		}
	case *ast.SelectorExpr:
		if s := info.Selections[t]; s != nil && s.Kind() == types.FieldVal {
			if k, ok := l.pathKey(t.X); ok {
				return k + fmt.Sprintf(".%p", s.Obj()), true
			}
		}
	case *ast.StarExpr:
		return l.pathKey(t.X)
	}
	return "", false
}

// guarded reports whether node n lies in the body of an if whose condition requires guard() of the
// same access path to be true (the condition is the call, or a conjunction containing it).
func (l *c02Lossy) guarded(fi *FuncInfo, n ast.Node, recv ast.Expr, guard string) bool {
	key, ok := l.pathKey(recv)
	if !ok {
		return false
	}
	info := l.x.info
	parents := l.x.r.P.Parents(fi.File)
	var child ast.Node = n
	for p := parents[n]; p != nil; child, p = p, parents[p] {
		is, ok := p.(*ast.IfStmt)
		if !ok || child != ast.Node(is.Body) {
			continue
		}
		for _, c := range splitAnd(is.Cond) {
			call, ok := ast.Unparen(c).(*ast.CallExpr)
			if !ok {
				continue
			}
			f := callee(info, call)
			sel, isSel := ast.Unparen(call.Fun).(*ast.SelectorExpr)
			if f == nil || !isSel || f.Name() != guard || f.Pkg() == nil || f.Pkg().Path() != "math/big" {
				continue
			}
			if k, ok := l.pathKey(sel.X); ok && k == key {
				return true
			}
		}
	}
	return false
}

// scanFunc lists the value-losing steps in the body of fi and in the functions it calls statically.
func (l *c02Lossy) scanFunc(fi *FuncInfo) []c02Loss {
	if res, done := l.funcs[fi]; done {
		return res
	}
	if l.onStack[fi] {
		return nil
	}
	l.onStack[fi] = true
	res := l.scanNode(fi, fi.Decl.Body, map[types.Object]bool{}, false)
	delete(l.onStack, fi)
	l.funcs[fi] = res
	return res
}

// scanNode scans the expressions under n (a node of fi). With follow set, local variables mentioned in n
// are followed to the right-hand sides that define them in fi.
func (l *c02Lossy) scanNode(fi *FuncInfo, n ast.Node, seen map[types.Object]bool, follow bool) []c02Loss {
	info := l.x.info
	var out []c02Loss
	ast.Inspect(n, func(m ast.Node) bool {
		switch t := m.(type) {
		case *ast.FuncLit:
			return false
		case *ast.Ident:
			if !follow {
				return true
			}
			v, ok := info.Uses[t].(*types.Var)
			if !ok || v.IsField() || v.Pkg() == nil || v.Parent() == v.Pkg().Scope() || seen[v] {
				return true
			}
			seen[v] = true
			for _, rhs := range l.defsOf(fi, v) {
				out = append(out, l.scanNode(fi, rhs, seen, true)...)
			}
		case *ast.CallExpr:
			// conversion
			if ft, ok := info.Types[t.Fun]; ok && ft.IsType() && len(t.Args) == 1 {
				if av, ok := info.Types[t.Args[0]]; ok && av.Value == nil {
					if why := l.convLoss(c02Basic(av.Type), c02Basic(ft.Type)); why != "" {
						out = append(out, c02Loss{pos: t.Pos(), what: "the conversion " + exprStr(t) + ": " + why})
					}
				}
				return true
			}
			f := callee(info, t)
			if f == nil {
				return true
			}
			sig := f.Type().(*types.Signature)
			sel, isSel := ast.Unparen(t.Fun).(*ast.SelectorExpr)
			// math/big accessors
			if f.Pkg() != nil && f.Pkg().Path() == "math/big" && sig.Recv() != nil && isSel {
				rt := sig.Recv().Type()
				if p, ok := rt.(*types.Pointer); ok {
					rt = p.Elem()
				}
				if nt, ok := rt.(*types.Named); ok {
					if guard, lossy := c02BigLossy[nt.Obj().Name()+"."+f.Name()]; lossy {
						if guard != "" && l.guarded(fi, t, sel.X, guard) {
							return true
						}
						ls := c02Loss{pos: t.Pos(), what: fmt.Sprintf("(*big.%s).%s on %s yields a truncated or rounded value", nt.Obj().Name(), f.Name(), exprStr(sel.X))}
						if guard != "" {
							ls.what += " and is not inside `if " + exprStr(sel.X) + "." + guard + "()`"
						}
						if l.secondResultUsed(fi, t) {
							ls.unknown = true
							ls.what += " (its accuracy result is consulted: not decided)"
						}
						out = append(out, ls)
					}
				}
				return true
			}
			// machine accessors of the constant interface
			if sig.Recv() != nil && isSel && l.acc[f.Name()] && sig.Params().Len() == 0 {
				rt := sig.Recv().Type()
				if types.Identical(rt, l.x.iface) {
					out = append(out, c02Loss{pos: t.Pos(), what: fmt.Sprintf("%s invokes the machine accessor %s() on a constant of statically unknown representation (truncated for an integer beyond 64 bits, rounded for a 512-bit float)", exprStr(t), f.Name())})
					return true
				}
			}
			// static callee of the package: its body belongs to the hand-over
			if callee := l.byObj[f]; callee != nil && !l.roots[callee] {
				for _, ls := range l.scanFunc(callee) {
					ls.what = "through " + callee.Name() + ": " + ls.what
					out = append(out, ls)
				}
			}
		}
		return true
	})
	return out
}

// secondResultUsed: the call is the right-hand side of `v, acc := call` with acc not blank.
func (l *c02Lossy) secondResultUsed(fi *FuncInfo, c *ast.CallExpr) bool {
	as, ok := l.x.r.P.Parents(fi.File)[c].(*ast.AssignStmt)
	if !ok || len(as.Lhs) != 2 || len(as.Rhs) != 1 {
		return false
	}
	id, ok := as.Lhs[1].(*ast.Ident)
	return ok && id.Name != "_"
}

// defsOf lists the expressions assigned to local variable v in fi.
func (l *c02Lossy) defsOf(fi *FuncInfo, v *types.Var) []ast.Expr {
	info := l.x.info
	var out []ast.Expr
	ast.Inspect(fi.Decl.Body, func(m ast.Node) bool {
		switch s := m.(type) {
		case *ast.AssignStmt:
			for i, lh := range s.Lhs {
				id, ok := lh.(*ast.Ident)
				if !ok {
					continue
				}
				if info.Defs[id] != types.Object(v) && info.Uses[id] != types.Object(v) {
					continue
				}
				if len(s.Rhs) == len(s.Lhs) {
					out = append(out, s.Rhs[i])
				} else if len(s.Rhs) == 1 {
					out = append(out, s.Rhs[0])
				}
			}
		case *ast.ValueSpec:
			for i, id := range s.Names {
				if info.Defs[id] != types.Object(v) {
					continue
				}
				if len(s.Values) == len(s.Names) {
					out = append(out, s.Values[i])
				} else if len(s.Values) == 1 {
					out = append(out, s.Values[0])
				}
			}
		}
		return true
	})
	return out
}

func c02ExactHandOver(x *c02) {
	const R = "R-6"
	l := c02NewLossy(x)
	report := func(o *Obl, what string, losses []c02Loss) {
		if len(losses) == 0 {
			o.OK("%s: no value-losing conversion, truncating math/big accessor or machine accessor of a constant on the way", what)
			return
		}
		uniq := map[string]bool{}
		var ls2 []c02Loss
		for _, ls := range losses {
			k := fmt.Sprintf("%d %s", ls.pos, ls.what)
			if !uniq[k] {
				uniq[k] = true
				ls2 = append(ls2, ls)
			}
		}
		losses = ls2
		sort.SliceStable(losses, func(i, j int) bool { return !losses[i].unknown && losses[j].unknown })
		first := losses[0]
		o.Pos = x.r.P.Pos(first.pos)
		var all []string
		for _, ls := range losses {
			all = append(all, ls.what)
		}
		if first.unknown {
			o.Unknown("%s: %s", what, strings.Join(all, "; "))
		} else {
			o.Bad("%s changes the represented value: %s", what, strings.Join(all, "; "))
		}
	}
	isImpl := func(t types.Type) *c02Impl {
		if t == nil {
			return nil
		}
		return x.implOf(t)
	}
	var fis []*FuncInfo
	for _, fi := range l.byObj {
		fis = append(fis, fi)
	}
	sort.Slice(fis, func(i, j int) bool { return fis[i].Decl.Pos() < fis[j].Decl.Pos() })
	nSame, nConv, nOps := 0, 0, 0
	errT := types.Universe.Lookup("error").Type()
	boolT := types.Typ[types.Bool]
	isSame := func(sig *types.Signature) bool {
		p, res := sig.Params(), sig.Results()
		return sig.Recv() == nil && p.Len() == 2 && res.Len() == 2 &&
			types.Identical(p.At(0).Type(), x.iface) && types.Identical(p.At(1).Type(), x.iface) &&
			types.Identical(res.At(0).Type(), x.iface) && types.Identical(res.At(1).Type(), x.iface)
	}
	isConv := func(sig *types.Signature) (from, to *c02Impl) {
		if sig.Recv() == nil || sig.Params().Len() != 0 || sig.Results().Len() != 1 {
			return nil, nil
		}
		from, to = isImpl(sig.Recv().Type()), isImpl(sig.Results().At(0).Type())
		if from == nil || to == nil || from == to {
			return nil, nil
		}
		return from, to
	}
	for _, fi := range fis {
		sig := fi.Obj.Type().(*types.Signature)
		if f, _ := isConv(sig); isSame(sig) || f != nil {
			l.roots[fi] = true
		}
	}
	for _, fi := range fis {
		sig := fi.Obj.Type().(*types.Signature)
		p, res := sig.Params(), sig.Results()
		// (a) two constants in, two constants out
		if isSame(sig) {
			nSame++
			report(x.r.Ob(R, fi.Name()+"#same-implementation", fi.Decl.Pos()), fi.Name()+" (brings two constants to the same implementation)", l.scanFunc(fi))
			continue
		}
		if sig.Recv() == nil {
			continue
		}
		rim := isImpl(sig.Recv().Type())
		if rim == nil {
			continue
		}
		// (b) converter methods
		if _, to := isConv(sig); to != nil {
			nConv++
			report(x.r.Ob(R, fi.Name()+"#converter", fi.Decl.Pos()), fmt.Sprintf("%s (converts a %s into a %s)", fi.Name(), rim.typ.Obj().Name(), to.typ.Obj().Name()), l.scanFunc(fi))
			continue
		}
		// (c) operands handed over inside the operation methods
		role := x.role(sig, x.iface, errT)
		isEq := p.Len() == 1 && res.Len() == 1 && types.Identical(p.At(0).Type(), x.iface) && types.Identical(res.At(0).Type(), boolT)
		if role != "binary" && role != "unary" && !isEq {
			continue
		}
		var losses []c02Loss
		calls := 0
		ast.Inspect(fi.Decl.Body, func(m ast.Node) bool {
			c, ok := m.(*ast.CallExpr)
			if !ok {
				return true
			}
			sel, ok := ast.Unparen(c.Fun).(*ast.SelectorExpr)
			if !ok {
				return true
			}
			f := callee(x.info, c)
			if f == nil {
				if s := x.info.Selections[sel]; s != nil {
					f, _ = s.Obj().(*types.Func)
				}
			}
			if f == nil {
				return true
			}
			fs := f.Type().(*types.Signature)
			if fs.Recv() == nil {
				return true
			}
			rt := fs.Recv().Type()
			if !types.Identical(rt, x.iface) && isImpl(rt) == nil {
				return true
			}
			cr := x.role(fs, x.iface, errT)
			ceq := fs.Params().Len() == 1 && fs.Results().Len() == 1 && types.Identical(fs.Params().At(0).Type(), x.iface) && types.Identical(fs.Results().At(0).Type(), boolT)
			if cr != "binary" && cr != "unary" && !ceq {
				return true
			}
			calls++
			seen := map[types.Object]bool{}
			losses = append(losses, l.scanNode(fi, sel.X, seen, true)...)
			for _, a := range c.Args {
				if t := x.info.TypeOf(a); t != nil && (types.Identical(t, x.iface) || isImpl(t) != nil) {
					losses = append(losses, l.scanNode(fi, a, seen, true)...)
				}
			}
			return true
		})
		if calls == 0 {
			continue
		}
		nOps++
		report(x.r.Ob(R, fi.Name()+"#operands-handed-over", fi.Decl.Pos()), fmt.Sprintf("%s (the operands of its %d calls of operation methods)", fi.Name(), calls), losses)
	}
	x.r.Anchor(R, "function with two parameters and two results of the constant interface type", nSame > 0)
	x.r.Anchor(R, "converter method from one constant implementation to another", nConv > 0)
	// confirmed by reading: toSameConstImpl; int64Const.asInt, float64Const.asFloat; binaryOp of the six numeric
	// implementations, int64Const.unaryOp, complexConst.unaryOp, equals of the six numeric implementations
	x.r.Require(R, 17)
	x.r.Stats["R-6 operation methods"] = nOps
}
