package main

// C05 R-19, R-20 and C04 R-9 (added after repairs suggested by the repair authors' notes).
//
// R-19  nothing reachable from renderer.Show / renderer.Text panics on the VALUE being shown. Those
//       functions run inside the Show and Text instructions; a panic whose value is not a runtimeError or
//       an outError is a fatal error, i.e. a host panic (found: showTimeInJS panicked for a year above
//       999999). In the functions of package runtime statically reachable from the renderer's Show and Text
//       methods every call of the builtin panic is the default clause of a switch on the context (an
//       internal invariant), or raises one of the runtime's own signal types.
// R-20 / C04 R-9  a function-typed field filled from an OPTIONAL option of the embedder (zero value nil: the
//       Markdown converter, the print hook) is called only on the non-nil edge of a test of it. (Found:
//       checkExplicitConversion called tc.mdConverter for a constant conversion built without converter.)
//       The fields are found by role: struct fields of function type, of packages compiler and runtime,
//       that some call site tests against nil — an optional field is one the code itself treats as
//       optional somewhere; every other call of the same field must then be guarded too.

import (
	"go/ast"
	"go/token"
	"go/types"
)

func init() {
	if p := registry["C05"]; p != nil {
		run := p.run
		p.run = func(r *Run) { run(r); c05RendererPanics(r); optionalFuncFields(r, "R-20", "internal/runtime") }
		p.explain += " R-19: no function reachable from renderer.Show / Text panics on the value shown (only on an unknown context, or with a runtime signal type). R-20: a function-typed field the code treats as optional somewhere is called only on the non-nil edge of a test of it."
	}
	if p := registry["C04"]; p != nil {
		run := p.run
		p.run = func(r *Run) { run(r); optionalFuncFields(r, "R-9", "internal/compiler") }
		p.explain += " R-9: a function-typed field of the compiler that the code treats as optional somewhere (the Markdown converter) is called only on the non-nil edge of a test of it."
	}
}

func c05RendererPanics(r *Run) {
	const R = "R-19"
	const rel = "internal/runtime"
	byObj := map[*types.Func]*FuncInfo{}
	var roots []*FuncInfo
	for _, fi := range r.P.Funcs(rel) {
		if r.P.isTestFile(fi.File) || fi.Obj == nil {
			continue
		}
		byObj[fi.Obj] = fi
		if fi.Decl.Recv != nil && (fi.Decl.Name.Name == "Show" || fi.Decl.Name.Name == "Text") {
			if sig := fi.Obj.Type().(*types.Signature); sig.Recv() != nil && typeStr(sig.Recv().Type()) == "*runtime.renderer" {
				roots = append(roots, fi)
			}
		}
	}
	if !r.Anchor(R, "renderer.Show and renderer.Text", len(roots) == 2) {
		return
	}
	reach := map[*types.Func]bool{}
	var visit func(fi *FuncInfo)
	visit = func(fi *FuncInfo) {
		if reach[fi.Obj] {
			return
		}
		reach[fi.Obj] = true
		for _, c := range calls(fi.Decl.Body, true) {
			if g := callee(fi.Pkg.TypesInfo, c); g != nil && byObj[g] != nil {
				visit(byObj[g])
			}
		}
	}
	for _, f := range roots {
		visit(f)
	}
	ctxT := r.P.Named("ast", "Context")
	npanics := 0
	for f := range reach {
		fi := byObj[f]
		info := fi.Pkg.TypesInfo
		par := r.P.Parents(fi.File)
		k := 0
		for _, c := range calls(fi.Decl.Body, true) {
			if !isBuiltinCall(info, c, "panic") {
				continue
			}
			npanics++
			k++
			key := fi.Name() + "#panic"
			if k > 1 {
				key += "~" + itoa(k)
			}
			o := r.Ob(R, key, c.Pos())
			// (a) default clause of a switch on ast.Context
			inDefault := false
			for p := par[ast.Node(c)]; p != nil; p = par[p] {
				if cc, ok := p.(*ast.CaseClause); ok && cc.List == nil {
					if sw, ok := par[par[cc]].(*ast.SwitchStmt); ok && sw.Tag != nil && ctxT != nil && types.Identical(info.TypeOf(sw.Tag), ctxT) {
						inDefault = true
					}
				}
			}
			if inDefault {
				o.OK("default clause of a switch on the context: an internal invariant, not the value")
				continue
			}
			// (b) a runtime signal type
			if len(c.Args) == 1 {
				ts := typeStr(info.TypeOf(c.Args[0]))
				if ts == "runtime.runtimeError" || ts == "runtime.outError" || ts == "*runtime.fatalError" && false {
					o.OK("raises %s, which the panic classifier returns as an error", ts)
					continue
				}
			}
			o.Bad("%s, reachable from renderer.Show / Text, panics with a value that is neither a runtimeError nor an outError on a condition of the shown value: the classifier turns it into a fatal error and Run panics in the host", fi.Name())
		}
	}
	r.Ob(R, "runtime#renderer-reach", 0).OK("%d functions reachable from renderer.Show / Text, %d panic calls examined", len(reach), npanics)
	r.Require(R, 2)
}

func optionalFuncFields(r *Run, R, rel string) {
	var fns []*FuncInfo
	for _, fi := range r.P.Funcs(rel) {
		if !r.P.isTestFile(fi.File) {
			fns = append(fns, fi)
		}
	}
	fieldOf := func(info *types.Info, e ast.Expr) *types.Var {
		sel, ok := ast.Unparen(e).(*ast.SelectorExpr)
		if !ok {
			return nil
		}
		s, ok := info.Selections[sel]
		if !ok {
			return nil
		}
		v, ok := s.Obj().(*types.Var)
		if !ok || !v.IsField() {
			return nil
		}
		if _, isFn := v.Type().Underlying().(*types.Signature); !isFn {
			return nil
		}
		return v
	}
	isNil := func(info *types.Info, e ast.Expr) bool { tv, ok := info.Types[e]; return ok && tv.IsNil() }
	// optional = compared with nil somewhere in the package
	optional := map[*types.Var]bool{}
	for _, fi := range fns {
		info := fi.Pkg.TypesInfo
		ast.Inspect(fi.Decl.Body, func(m ast.Node) bool {
			if be, ok := m.(*ast.BinaryExpr); ok && (be.Op == token.EQL || be.Op == token.NEQ) {
				if isNil(info, be.Y) {
					if v := fieldOf(info, be.X); v != nil {
						optional[v] = true
					}
				}
				if isNil(info, be.X) {
					if v := fieldOf(info, be.Y); v != nil {
						optional[v] = true
					}
				}
			}
			return true
		})
	}
	n := 0
	for _, fi := range fns {
		info := fi.Pkg.TypesInfo
		var g *CFGInfo
		k := map[string]int{}
		for _, c := range calls(fi.Decl.Body, false) {
			v := fieldOf(info, c.Fun)
			if v == nil || !optional[v] {
				continue
			}
			n++
			if g == nil {
				g = r.P.CFGOf(fi)
			}
			key := fi.Name() + "#call:" + v.Name()
			k[key]++
			if k[key] > 1 {
				key += "~" + itoa(k[key])
			}
			o := r.Ob(R, key, c.Pos())
			fs := exprStr(c.Fun)
			guarded := g.GuardedBy(c, func(l Lit) bool {
				be, ok := ast.Unparen(l.Expr).(*ast.BinaryExpr)
				if !ok || l.Tag != nil || (be.Op != token.EQL && be.Op != token.NEQ) {
					return false
				}
				var other ast.Expr
				switch {
				case isNil(info, be.Y):
					other = be.X
				case isNil(info, be.X):
					other = be.Y
				default:
					return false
				}
				if fieldOf(info, other) != v || exprStr(other) != fs {
					return false
				}
				return (be.Op == token.NEQ) == l.Truth
			})
			if guarded {
				o.OK("called only where %s != nil", fs)
			} else {
				o.Bad("%s is a function-typed field the code treats as optional (it is compared with nil elsewhere) and it is called here with no nil test on the way: with the option left unset the call dereferences nil — a panic of Build / Run in the host", fs)
			}
		}
	}
	if n == 0 {
		r.Ob(R, rel+"#optional-func-fields", 0).OK("no call of an optional function-typed field in the package")
	}
	r.Require(R, 1)
}
