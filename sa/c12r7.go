package main

// C12 R-7 (added after seeded change C12-4): a case of a type switch on a recovered value or an error
// names the signal type in the form it is actually created with. The control signals of the runtime
// (stopError, outError: values; *fatalError, *PanicError: pointers) are matched by type switches in the
// classifier, in VM.Run and in the callback adaptor; `case *stopError` never matches a stopError value, the
// switch falls to its default and Stop is reported as a fatal error (Run panics). For every struct or
// defined type of package runtime that implements error and is created in the module only as a value
// (T{…}, T(x)) or only as a pointer (&T{…}, new(T)), every type-switch case and type assertion in the
// runtime and root packages names it in that form.

import (
	"go/ast"
	"go/token"
	"go/types"
)

func init() {
	p := registry["C12"]
	if p == nil {
		return
	}
	run := p.run
	p.run = func(r *Run) { run(r); c12CaseForms(r) }
	p.explain += " R-7: every type-switch case or assertion on a control-signal type of package runtime names it in the form (value or pointer) the module creates it with."
}

func c12CaseForms(r *Run) {
	const R = "R-7"
	const rt = "internal/runtime"
	pk := r.P.Pkg(rt)
	if !r.Anchor(R, "package runtime", pk != nil) {
		return
	}
	errT := types.Universe.Lookup("error").Type().Underlying().(*types.Interface)
	// candidate types: named types of runtime such that T or *T implements error
	cand := map[*types.TypeName]*[2]int{} // [0] created as value, [1] created as pointer
	for _, name := range pk.Types.Scope().Names() {
		tn, ok := pk.Types.Scope().Lookup(name).(*types.TypeName)
		if !ok || tn.IsAlias() {
			continue
		}
		if _, isIface := tn.Type().Underlying().(*types.Interface); isIface {
			continue
		}
		if types.Implements(tn.Type(), errT) || types.Implements(types.NewPointer(tn.Type()), errT) {
			cand[tn] = &[2]int{}
		}
	}
	named := func(t types.Type) (*types.TypeName, bool) {
		ptr := false
		if p, ok := t.(*types.Pointer); ok {
			t, ptr = p.Elem(), true
		}
		if n, ok := t.(*types.Named); ok {
			if _, in := cand[n.Obj()]; in {
				return n.Obj(), ptr
			}
		}
		return nil, false
	}
	// creations across the module
	for _, p := range r.P.Pkgs {
		for _, f := range p.Syntax {
			if r.P.isTestFile(f) {
				continue
			}
			par := r.P.Parents(f)
			ast.Inspect(f, func(m ast.Node) bool {
				switch x := m.(type) {
				case *ast.CompositeLit:
					if t := p.TypesInfo.TypeOf(x); t != nil {
						if tn, _ := named(t); tn != nil {
							if u, ok := par[x].(*ast.UnaryExpr); ok && u.Op == token.AND {
								cand[tn][1]++
							} else {
								cand[tn][0]++
							}
						}
					}
				case *ast.CallExpr:
					if tv, ok := p.TypesInfo.Types[x.Fun]; ok && tv.IsType() {
						if tn, ptr := named(tv.Type); tn != nil && !ptr {
							cand[tn][0]++ // conversion T(x)
						}
					}
					if isBuiltinCall(p.TypesInfo, x, "new") && len(x.Args) == 1 {
						if t := p.TypesInfo.TypeOf(x.Args[0]); t != nil {
							if tn, _ := named(t); tn != nil {
								cand[tn][1]++
							}
						}
					}
				}
				return true
			})
		}
	}
	n := 0
	for _, rel := range []string{rt, ""} {
		for _, fi := range r.P.Funcs(rel) {
			if r.P.isTestFile(fi.File) {
				continue
			}
			info := fi.Pkg.TypesInfo
			check := func(e ast.Expr, what string) {
				t := info.TypeOf(e)
				if t == nil {
					return
				}
				tn, ptr := named(t)
				if tn == nil {
					return
				}
				c := cand[tn]
				if c[0] == 0 && c[1] == 0 {
					return // never created in the module: nothing to compare with
				}
				n++
				o := r.Ob(R, fi.Name()+"#"+what+":"+exprStr(e), e.Pos())
				switch {
				case ptr && c[1] == 0:
					o.Bad("%s names the pointer form, but %s is only ever created as a value (%d sites): the case can never match and the value falls to the default of the switch", exprStr(e), tn.Name(), c[0])
				case !ptr && c[0] == 0:
					o.Bad("%s names the value form, but %s is only ever created as a pointer (%d sites): the case can never match", exprStr(e), tn.Name(), c[1])
				default:
					o.OK("matches the form %s is created with (value %d, pointer %d sites)", tn.Name(), c[0], c[1])
				}
			}
			ast.Inspect(fi.Decl.Body, func(m ast.Node) bool {
				switch x := m.(type) {
				case *ast.TypeSwitchStmt:
					for _, st := range x.Body.List {
						for _, e := range st.(*ast.CaseClause).List {
							check(e, "case")
						}
					}
				case *ast.TypeAssertExpr:
					if x.Type != nil {
						check(x.Type, "assert")
					}
				}
				return true
			})
		}
	}
	r.Require(R, 8)
}
