package main

// C12 R-8 (added after seeded change C12-3): recover finds the frame of the panicking function by a
// search that passes over the frames a running function pushes on top of it.
//
// While a function body runs, some instructions push a frame on vm.calls and execution goes on in the
// SAME function (the handler does not change vm.fn): today the defer instruction, which pushes a frame
// in `deferred` status for the call to run later. A deferred function that runs because of a panic and
// executes `defer f()` before `recover()` therefore has such frames between the top of the call stack
// and the `panicked` frame of its caller. The recover instruction hands out vm.panic.message and marks a
// frame as recovered; the frame it marks must be reached by a loop that moves the frame index on
// whenever the status of the frame is one of those statuses. If the marked frame is taken at a fixed
// index (the top), `defer cleanup(); r := recover()` returns nil, the panic is not recovered and Run
// reports a *PanicError (or a chain with wrong recovered flags) for a program that recovered.
// Conversely the loop moves on ONLY over those statuses: a frame in any other status (started, tailed,
// returned, recovered) between the top and the panicking frame means that recover was not called by the
// deferred function the panic runs, and Go's recover returns nil there; passing over it stops a panic that
// must reach Run. Which statuses make the loop go on is decided from syntax on the finite domain of the
// status constants (every comparison of the frame's status with a constant evaluated for one K, the update
// of the index on a cycle). The marking may be in the handler, or in a function of the package whose true
// result guards the read of the message (`if vm.recoverFrame(last) { msg = … }`), also through a pointer
// to the frame; the index may come from a helper that does the search.
//
// Everything is resolved by role: the call stack is the VM field the run driver appends a frame literal
// to; the status field is the field that literal fills with a constant; the statuses to pass over are
// read from the handlers of the interpreter loop that append a frame and never assign the running
// function (neither directly nor through a function of the package); the recover code is the code that reads vm.panic.message.

import (
	"go/ast"
	"go/token"
	"go/types"
	"sort"
	"strings"

	"golang.org/x/tools/go/cfg"
)

func init() {
	p := registry["C12"]
	if p == nil {
		return
	}
	run := p.run
	p.run = func(r *Run) { run(r); c12FrameSearch(r) }
	p.explain += " R-8: the frame that the recover instruction marks as recovered (in the code that reads vm.panic.message, or in a function of the package whose true result guards that read) is indexed by a variable that a loop moves on exactly while the frame's status is one the interpreter pushes without leaving the running function (the defer instruction's `deferred`), the statuses being decided on the finite domain of the status constants: a frame taken at a fixed index misses the panicking frame as soon as the deferred function has executed a defer statement of its own, and a search that also passes over frames in another status lets recover succeed when it was not called by the deferred function the panic runs."
}

type c12fs struct {
	r       *Run
	a       *c11Anchors
	info    *types.Info
	fCalls  *types.Var   // VM field: the call stack
	frameT  *types.Named // element type of the call stack
	fStatus *types.Var   // field of the frame holding its status
	fFn     *types.Var   // VM field: the running function
}

func c12FrameSearch(r *Run) {
	const R = "R-8"
	a := c11Resolve(r.P)
	if !c11Need(r, R, a) {
		return
	}
	x := &c12fs{r: r, a: a, info: a.info}
	if !x.resolve(R) {
		return
	}
	skip := x.pushedWhileRunning(R)
	if skip == nil {
		return
	}
	// the code that hands the message of the current panic to the program
	fMessage := c12MessageField(r, a)
	if !r.Anchor(R, "field of the panic record initialised with the constructor's parameter (message)", fMessage != nil) {
		return
	}
	nread := 0
	for _, fi := range r.P.Funcs(c11RT) {
		if r.P.isTestFile(fi.File) || fi.Obj == nil {
			continue
		}
		var reads []*ast.SelectorExpr
		ast.Inspect(fi.Decl.Body, func(n ast.Node) bool {
			if se, ok := n.(*ast.SelectorExpr); ok && c11FieldOf(x.info, se) == fMessage && c11FieldOf(x.info, se.X) == a.fPanic {
				reads = append(reads, se)
			}
			return true
		})
		for _, se := range reads {
			nread++
			x.checkRecover(R, fi, se, skip)
		}
	}
	if nread == 0 {
		r.Ob(R, "runtime#recover", token.NoPos).Unknown("no code of package runtime reads vm.%s.%s: recover not found", a.fPanic.Name(), fMessage.Name())
	}
	r.Require(R, 1)
}

// c12MessageField: the field of the panic record filled with the parameter of its constructor.
func c12MessageField(r *Run, a *c11Anchors) *types.Var {
	panicT := c11NamedOf(a.fPanic.Type())
	var out *types.Var
	for _, fi := range r.P.Funcs(c11RT) {
		if r.P.isTestFile(fi.File) || fi.Obj == nil {
			continue
		}
		s := fi.Obj.Type().(*types.Signature)
		if s.Results().Len() != 1 || c11NamedOf(s.Results().At(0).Type()) != panicT || s.Params().Len() != 1 {
			continue
		}
		par := s.Params().At(0)
		ast.Inspect(fi.Decl.Body, func(n ast.Node) bool {
			if cl, ok := n.(*ast.CompositeLit); ok && c11NamedOf(a.info.TypeOf(cl)) == panicT {
				for _, el := range cl.Elts {
					if kv, ok := el.(*ast.KeyValueExpr); ok && c11ObjOf(a.info, kv.Value) == types.Object(par) {
						if id, ok := kv.Key.(*ast.Ident); ok {
							if f, ok := a.info.Uses[id].(*types.Var); ok {
								out = f
							}
						}
					}
				}
			}
			return true
		})
	}
	return out
}

// frameLit returns the frame literal appended to the call stack by statement n (nil if n is not such an
// append). The literal may be given directly or through a local variable defined once by a literal.
func (x *c12fs) frameLit(body ast.Node, n ast.Node) (*ast.CompositeLit, *types.Var) {
	as, ok := n.(*ast.AssignStmt)
	if !ok || len(as.Lhs) != 1 || len(as.Rhs) != 1 {
		return nil, nil
	}
	f := c11FieldOf(x.info, as.Lhs[0])
	if f == nil {
		return nil, nil
	}
	isVMField := false
	for _, vf := range c11StructFields(x.a.vmT) {
		if vf == f {
			isVMField = true
		}
	}
	c, ok := ast.Unparen(as.Rhs[0]).(*ast.CallExpr)
	if !isVMField || !ok || !isBuiltinCall(x.info, c, "append") || len(c.Args) < 2 || c11FieldOf(x.info, c.Args[0]) != f {
		return nil, nil
	}
	for _, arg := range c.Args[1:] {
		e := ast.Unparen(arg)
		if obj := c11ObjOf(x.info, e); obj != nil {
			if rhs, clean := c11Defs(x.info, body, obj); clean && len(rhs) == 1 {
				e = ast.Unparen(rhs[0])
			}
		}
		if cl, ok := e.(*ast.CompositeLit); ok {
			if n := c11NamedOf(x.info.TypeOf(cl)); n != nil && n.Obj().Pkg() == x.a.pk.Types {
				if _, isStruct := n.Underlying().(*types.Struct); isStruct {
					return cl, f
				}
			}
		}
	}
	return nil, nil
}

func (x *c12fs) resolve(R string) bool {
	r, a := x.r, x.a
	// call stack and status field: a function of the package appends to a VM field a frame literal one of
	// whose fields is a constant (the run driver pushes the panicked frame, the handlers of the loop the
	// deferred and tail-call frames)
	for _, fi := range r.P.Funcs(c11RT) {
		if r.P.isTestFile(fi.File) || fi.Obj == nil || x.fCalls != nil {
			continue
		}
		ast.Inspect(fi.Decl.Body, func(n ast.Node) bool {
			cl, f := x.frameLit(fi.Decl.Body, n)
			if cl == nil || x.fCalls != nil {
				return true
			}
			for _, el := range cl.Elts {
				kv, ok := el.(*ast.KeyValueExpr)
				if !ok {
					continue
				}
				if k := constOf(x.info, kv.Value); k != nil {
					if id, ok := kv.Key.(*ast.Ident); ok {
						if sf, ok := x.info.Uses[id].(*types.Var); ok && types.Identical(sf.Type(), k.Type()) {
							if _, named := k.Type().(*types.Named); named {
								x.fCalls, x.frameT, x.fStatus = f, c11NamedOf(x.info.TypeOf(cl)), sf
							}
						}
					}
				}
			}
			return true
		})
	}
	if !r.Anchor(R, "call stack: the VM field to which package runtime appends a frame literal with a constant status", x.fCalls != nil) {
		return false
	}
	// running function: the VM field of the type of the driver's first parameter
	sig := a.driver.Obj.Type().(*types.Signature)
	if sig.Params().Len() > 0 {
		pt := sig.Params().At(0).Type()
		x.fFn = c11UniqueField(a.vmT, func(w *types.Var) bool { return types.Identical(w.Type(), pt) })
	}
	return r.Anchor(R, "running function: the VM field of the type of the run driver's first parameter", x.fFn != nil)
}

// pushedWhileRunning: statuses of the frames that a handler of the interpreter loop appends to the call
// stack without ever assigning the running function: execution goes on in the same function with the
// frame on top of the stack.
func (x *c12fs) pushedWhileRunning(R string) []*types.Const {
	r, a := x.r, x.a
	var out []*types.Const
	seen := map[*types.Const]bool{}
	unknown := ""
	// functions of the package that assign the running function, directly or through one call
	setsFn := map[*types.Func]bool{}
	direct := func(fi *FuncInfo) bool {
		found := false
		ast.Inspect(fi.Decl.Body, func(n ast.Node) bool {
			if as, ok := n.(*ast.AssignStmt); ok {
				for _, l := range as.Lhs {
					if c11FieldOf(x.info, l) == x.fFn {
						found = true
					}
				}
			}
			return true
		})
		return found
	}
	var rtf []*FuncInfo
	for _, fi := range r.P.Funcs(c11RT) {
		if !r.P.isTestFile(fi.File) && fi.Obj != nil && fi.Obj != a.loop.Obj {
			rtf = append(rtf, fi)
			if direct(fi) {
				setsFn[fi.Obj] = true
			}
		}
	}
	var second []*types.Func
	for _, fi := range rtf {
		if setsFn[fi.Obj] {
			continue
		}
		for _, call := range calls(fi.Decl.Body, false) {
			if fn := callee(x.info, call); fn != nil && setsFn[fn] {
				second = append(second, fi.Obj)
				break
			}
		}
	}
	for _, fn := range second {
		setsFn[fn] = true
	}
	for _, st := range a.dispatch.Body.List {
		cc := st.(*ast.CaseClause)
		var lits []*ast.CompositeLit
		changesFn := false
		ast.Inspect(cc, func(n ast.Node) bool {
			if cl, f := x.frameLit(cc, n); cl != nil && f == x.fCalls {
				lits = append(lits, cl)
			}
			if as, ok := n.(*ast.AssignStmt); ok {
				for _, l := range as.Lhs {
					if c11FieldOf(x.info, l) == x.fFn {
						changesFn = true
					}
				}
			}
			// … or through a function of the package that assigns it (vm.enter(fn, vars))
			if call, ok := n.(*ast.CallExpr); ok {
				if fn := callee(x.info, call); fn != nil && setsFn[fn] {
					changesFn = true
				}
			}
			return true
		})
		if changesFn {
			continue
		}
		for _, cl := range lits {
			var k *types.Const
			explicit := false
			for _, el := range cl.Elts {
				kv, ok := el.(*ast.KeyValueExpr)
				if !ok {
					unknown = "positional frame literal in clause " + c11ClauseLabel(x.info, cc)
					continue
				}
				if id, ok := kv.Key.(*ast.Ident); ok && x.info.Uses[id] == types.Object(x.fStatus) {
					explicit = true
					k = constOf(x.info, kv.Value)
				}
			}
			if !explicit {
				// zero value of the status type
				if nt, ok := x.fStatus.Type().(*types.Named); ok {
					for _, c := range EnumConsts(nt) {
						if v, ok := constantInt64(c); ok && v == 0 {
							k = c
							break
						}
					}
				}
			}
			if k == nil {
				unknown = "the status of the frame pushed in clause " + c11ClauseLabel(x.info, cc) + " is not a constant"
				continue
			}
			if !seen[k] {
				seen[k] = true
				out = append(out, k)
			}
		}
	}
	if unknown != "" {
		r.Ob(R, a.loop.Name()+"#frames-pushed-while-running", a.dispatch.Pos()).Unknown("%s", unknown)
		return nil
	}
	if !r.Anchor(R, "a handler of the interpreter loop that pushes a frame on the call stack and stays in the running function (the defer instruction)", len(out) > 0) {
		return nil
	}
	return out
}

// statusOf: if e denotes the status of the frame vm.calls[v], v a variable, it returns v. e may be
// vm.calls[v].status, f.status with f defined once as vm.calls[v] or &vm.calls[v], or a local defined
// once as one of those.
func (x *c12fs) statusOf(body ast.Node, e ast.Expr, depth int) types.Object {
	e = ast.Unparen(e)
	if depth > 3 {
		return nil
	}
	if se, ok := e.(*ast.SelectorExpr); ok && c11FieldOf(x.info, se) == x.fStatus {
		return x.frameIndex(body, se.X, depth)
	}
	if obj := c11ObjOf(x.info, e); obj != nil {
		if v, ok := obj.(*types.Var); ok && !v.IsField() {
			if rhs, clean := c11Defs(x.info, body, obj); clean && len(rhs) == 1 {
				return x.statusOf(body, rhs[0], depth+1)
			}
		}
	}
	return nil
}

// frameIndex: e denotes the frame vm.calls[v]; returns v.
func (x *c12fs) frameIndex(body ast.Node, e ast.Expr, depth int) types.Object {
	e = ast.Unparen(e)
	if u, ok := e.(*ast.UnaryExpr); ok && u.Op == token.AND {
		e = ast.Unparen(u.X)
	}
	if st, ok := e.(*ast.StarExpr); ok {
		e = ast.Unparen(st.X)
	}
	if ix, ok := e.(*ast.IndexExpr); ok && c11FieldOf(x.info, ix.X) == x.fCalls {
		if v, ok := c11ObjOf(x.info, ix.Index).(*types.Var); ok {
			return v
		}
		return nil
	}
	if obj := c11ObjOf(x.info, e); obj != nil && depth < 3 {
		if v, ok := obj.(*types.Var); ok && !v.IsField() {
			if rhs, clean := c12DefsAddrOK(x.info, body, obj); clean && len(rhs) == 1 {
				return x.frameIndex(body, rhs[0], depth+1)
			}
		}
	}
	return nil
}

// c12DefsAddrOK is c11Defs for a local that may be a pointer (taking ITS address is not expected).
func c12DefsAddrOK(info *types.Info, body ast.Node, obj types.Object) ([]ast.Expr, bool) {
	return c11Defs(info, body, obj)
}

// statusLit decomposes an edge literal about the status of a frame vm.calls[w]: it returns w, the constant
// the status is compared with, and whether the literal states equality (false: inequality).
func (x *c12fs) statusLit(body ast.Node, l Lit) (w types.Object, k *types.Const, eq bool, ok bool) {
	if l.Tag != nil {
		k = constOf(x.info, l.Expr)
		w = x.statusOf(body, l.Tag, 0)
		return w, k, l.Truth, w != nil && k != nil
	}
	be, isBin := ast.Unparen(l.Expr).(*ast.BinaryExpr)
	if !isBin || (be.Op != token.EQL && be.Op != token.NEQ) {
		return nil, nil, false, false
	}
	for _, p := range [][2]ast.Expr{{be.X, be.Y}, {be.Y, be.X}} {
		if k = constOf(x.info, p[1]); k != nil {
			if w = x.statusOf(body, p[0], 0); w != nil {
				return w, k, (be.Op == token.EQL) == l.Truth, true
			}
		}
	}
	return nil, nil, false, false
}

func c12Updates(info *types.Info, n ast.Node, v types.Object) bool {
	found := false
	ast.Inspect(n, func(m ast.Node) bool {
		switch s := m.(type) {
		case *ast.FuncLit:
			return false
		case *ast.IncDecStmt:
			if c11ObjOf(info, s.X) == v {
				found = true
			}
		case *ast.AssignStmt:
			for _, l := range s.Lhs {
				if c11ObjOf(info, l) == v {
					found = true
				}
			}
		}
		return true
	})
	return found
}

// eval3 evaluates a condition as if the status of the frame vm.calls[w] were K: 1 true, -1 false, 0 when the
// condition depends on anything else.
func (x *c12fs) eval3(body ast.Node, e ast.Expr, w types.Object, K *types.Const) int {
	e = ast.Unparen(e)
	switch v := e.(type) {
	case *ast.UnaryExpr:
		if v.Op == token.NOT {
			return -x.eval3(body, v.X, w, K)
		}
	case *ast.BinaryExpr:
		switch v.Op {
		case token.LAND, token.LOR:
			l, r := x.eval3(body, v.X, w, K), x.eval3(body, v.Y, w, K)
			if v.Op == token.LOR {
				l, r = -l, -r
			}
			// conjunction of l and r
			res := 0
			switch {
			case l == -1 || r == -1:
				res = -1
			case l == 1 && r == 1:
				res = 1
			}
			if v.Op == token.LOR {
				res = -res
			}
			return res
		case token.EQL, token.NEQ:
			if lw, k, eq, ok := x.statusLit(body, Lit{Expr: v, Truth: true}); ok && lw == w {
				if (k == K) == eq {
					return 1
				}
				return -1
			}
		}
	default:
		// a bool local defined once by a condition
		if obj := c11ObjOf(x.info, e); obj != nil {
			if vv, ok := obj.(*types.Var); ok && !vv.IsField() {
				if rhs, clean := c11Defs(x.info, body, obj); clean && len(rhs) == 1 {
					if _, isIdent := ast.Unparen(rhs[0]).(*ast.Ident); !isIdent {
						return x.eval3(body, rhs[0], w, K)
					}
				}
			}
		}
	}
	return 0
}

// continues computes, on the finite domain of the status constants, the statuses under which a loop of
// fi moves the index variable v on to the next frame: K belongs to the result when, every comparison of
// the status of vm.calls[v] with a constant being decided as if the status were K, an update of v lies on a
// cycle that stays inside region and does not execute the node `mark`. All the status tests between two
// updates of v look at the same frame, so deciding them with one K is exact; tests the rule cannot read
// are left undecided (both edges kept). v == nil: every variable that indexes a frame whose status is
// tested in region is tried and the results are united.
func (x *c12fs) continues(fi *FuncInfo, region ast.Node, mark ast.Node, v types.Object) map[*types.Const]bool {
	out := map[*types.Const]bool{}
	nt, _ := x.fStatus.Type().(*types.Named)
	if nt == nil {
		return out
	}
	c := x.r.P.CFGOf(fi)
	body := ast.Node(fi.Decl.Body)
	var markBlk *cfg.Block
	if mark != nil {
		markBlk, _ = c.Locate(mark)
	}
	outside := func(b *cfg.Block) bool {
		if b == markBlk {
			return true
		}
		for _, n := range b.Nodes {
			if !containsNode(region, n) {
				return true
			}
		}
		return false
	}
	vars := []types.Object{v}
	if v == nil {
		vars = nil
		seen := map[types.Object]bool{}
		for _, b := range c.G.Blocks {
			if !b.Live || outside(b) {
				continue
			}
			for i := range b.Succs {
				for _, l := range c.edgeLits(b, i) {
					if w, _, _, ok := x.statusLit(body, l); ok && !seen[w] {
						seen[w] = true
						vars = append(vars, w)
					}
				}
			}
		}
	}
	for _, w := range vars {
		for _, K := range EnumConsts(nt) {
			cut := func(b *cfg.Block, i int) bool {
				cd := c.CondOf(b)
				if cd == nil {
					return false
				}
				var val int // 1 true, -1 false, 0 not decided
				if cd.Tag != nil {
					if lw, k, _, ok := x.statusLit(body, Lit{Expr: cd.Expr, Tag: cd.Tag, Truth: true}); ok && lw == w {
						val = -1
						if k == K {
							val = 1
						}
					}
				} else {
					val = x.eval3(body, cd.Expr, w, K)
				}
				return (i == 0 && val == -1) || (i == 1 && val == 1)
			}
			for _, u := range c.G.Blocks {
				if out[K] || !u.Live || outside(u) {
					continue
				}
				upd := false
				for _, n := range u.Nodes {
					if c12Updates(x.info, n, w) {
						upd = true
					}
				}
				if !upd {
					continue
				}
				for i, sc := range u.Succs {
					if cut(u, i) {
						continue
					}
					if sc == u || (!outside(sc) && c.reachable(sc, u, cut, outside)) {
						out[K] = true
					}
				}
			}
		}
	}
	return out
}

// guardingHelpers lists the functions of the package whose call, being true, guards the node `site` of fi
// (directly as a condition, or through a bool local defined once by the call).
func (x *c12fs) guardingHelpers(fi *FuncInfo, region ast.Node, site ast.Node) []*FuncInfo {
	var out []*FuncInfo
	c := x.r.P.CFGOf(fi)
	for _, call := range calls(region, false) {
		fn := callee(x.info, call)
		if fn == nil || fn.Pkg() != x.a.pk.Types {
			continue
		}
		isCall := func(e ast.Expr) bool {
			e = ast.Unparen(e)
			if e == ast.Expr(call) {
				return true
			}
			if obj := c11ObjOf(x.info, e); obj != nil {
				if rhs, clean := c11Defs(x.info, fi.Decl.Body, obj); clean && len(rhs) == 1 && ast.Unparen(rhs[0]) == ast.Expr(call) {
					return true
				}
			}
			return false
		}
		if !c.GuardedBy(site, func(l Lit) bool { return l.Tag == nil && l.Truth && isCall(l.Expr) }) {
			continue
		}
		for _, h := range x.r.P.Funcs(c11RT) {
			if h.Obj == fn {
				out = append(out, h)
			}
		}
	}
	return out
}

type c12Mark struct {
	fi     *FuncInfo
	region ast.Node
	as     *ast.AssignStmt
	sel    *ast.SelectorExpr
}

func (x *c12fs) marksIn(fi *FuncInfo, region ast.Node) []c12Mark {
	var marks []c12Mark
	ast.Inspect(region, func(n ast.Node) bool {
		if as, ok := n.(*ast.AssignStmt); ok {
			for _, l := range as.Lhs {
				if se, ok := ast.Unparen(l).(*ast.SelectorExpr); ok && c11FieldOf(x.info, se) == x.fStatus {
					marks = append(marks, c12Mark{fi, region, as, se})
				}
			}
		}
		return true
	})
	return marks
}

func (x *c12fs) checkRecover(R string, fi *FuncInfo, read *ast.SelectorExpr, skip []*types.Const) {
	r, a := x.r, x.a
	// region: the handler of the instruction when the code is in the interpreter loop, else the function
	region := ast.Node(fi.Decl.Body)
	label := ""
	if fi.Obj == a.loop.Obj {
		for _, st := range a.dispatch.Body.List {
			if containsNode(st, read) {
				region = st
				label = c11ClauseLabel(x.info, st.(*ast.CaseClause)) + ":"
			}
		}
	}
	key := fi.Name() + "#" + label + "recovered-frame-is-searched"
	// the frames whose status the region assigns; when there is none, those assigned by a function of the
	// package whose true result guards the read (`if vm.recoverFrame(last) { msg = … vm.panic.message }`)
	marks := x.marksIn(fi, region)
	if len(marks) == 0 {
		for _, h := range x.guardingHelpers(fi, region, read) {
			marks = append(marks, x.marksIn(h, h.Decl.Body)...)
		}
	}
	if len(marks) == 0 {
		r.Ob(R, key, read.Pos()).Unknown("neither the code that reads vm.%s.%s nor a function of the package whose result guards the read assigns the status of a frame of vm.%s: the rule cannot see which frame recover marks", a.fPanic.Name(), read.Sel.Name, x.fCalls.Name())
		return
	}
	inSkip := map[*types.Const]bool{}
	var names []string
	for _, k := range skip {
		inSkip[k] = true
		names = append(names, k.Name())
	}
	for _, m := range marks {
		o := r.Ob(R, key, m.as.Pos())
		where := ""
		if m.fi.Obj != fi.Obj {
			where = " (in " + m.fi.Name() + ", whose result guards the read of the message)"
		}
		v := x.frameIndex(m.fi.Decl.Body, m.sel.X, 0)
		if v == nil {
			// a frame at an index that is not a variable
			if ix, ok := ast.Unparen(m.sel.X).(*ast.IndexExpr); ok && c11FieldOf(x.info, ix.X) == x.fCalls {
				o.Bad("recover marks the frame vm.%s[%s]%s, an index that no search produced: frames in status %s, pushed on top of the panicking frame by a deferred function that executes a defer statement before calling recover, are not passed over; recover returns nil there and the panic is reported as not recovered", x.fCalls.Name(), exprStr(ix.Index), where, strings.Join(names, ", "))
			} else {
				o.Unknown("the frame whose status is assigned (%s)%s is not an element of vm.%s indexed by a variable", exprStr(m.sel.X), where, x.fCalls.Name())
			}
			continue
		}
		cont := x.continues(m.fi, m.region, m.as, v)
		// the index may come from a helper of the package that does the search
		if rhs, clean := c11Defs(x.info, m.fi.Decl.Body, v); clean {
			for _, e := range rhs {
				if call, ok := ast.Unparen(e).(*ast.CallExpr); ok {
					if fn := callee(x.info, call); fn != nil && fn.Pkg() == a.pk.Types {
						for _, h := range r.P.Funcs(c11RT) {
							if h.Obj == fn {
								for k := range x.continues(h, h.Decl.Body, nil, nil) {
									cont[k] = true
								}
							}
						}
					}
				}
			}
		}
		var missing, extra []string
		for _, k := range skip {
			if !cont[k] {
				missing = append(missing, k.Name())
			}
		}
		for k := range cont {
			if !inSkip[k] {
				extra = append(extra, k.Name())
			}
		}
		sort.Strings(extra)
		switch {
		case len(missing) > 0:
			o.Bad("recover marks the frame vm.%s[%s]%s, but no loop moves %s on while the status of that frame is %s. The interpreter pushes frames in that status on the call stack while the function keeps running (the defer instruction), so a deferred function that executes `defer f()` before `recover()` has them between the top of the stack and the panicking frame: recover returns nil, the frame is not marked and vm.%s.recovered stays false — Run returns a *PanicError for a panic the program recovered, or a chain with wrong recovered flags",
				x.fCalls.Name(), v.Name(), where, v.Name(), strings.Join(missing, ", "), a.fPanic.Name())
		case len(extra) > 0:
			o.Bad("the search for the frame that recover marks (vm.%s[%s]%s) also moves on over frames in status %s. Only the statuses pushed while the function keeps running (%s) lie between a deferred function called by the panic and the panicking frame; a frame in another status means that recover was not called by that deferred function (it was called by a function it calls, or by a call it deferred that runs after it returned). Passing over it, recover finds the panicking frame and stops a panic that must go on: Run returns nil, or a chain with a wrong recovered flag, instead of the *PanicError of the unrecovered panic",
				x.fCalls.Name(), v.Name(), where, strings.Join(extra, ", "), strings.Join(names, ", "))
		default:
			o.OK("the frame marked is vm.%s[%s]%s; a loop moves %s on exactly while the frame's status is %s (the statuses pushed by handlers that stay in the running function)", x.fCalls.Name(), v.Name(), where, v.Name(), strings.Join(names, ", "))
		}
	}
}
