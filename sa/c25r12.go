package main

// C25 R-12 (added after seeded change C25-3): the length-limiting builtin returns a string as it is only
// where that very string is known to fit.
//
// "Abbreviate never exceeds the requested length": Abbreviate(s, n) has at most n runes. The function has
// exits that return a string variable unchanged ("nothing to abbreviate"). Such an exit is within the
// bound only if, on every path to it, a comparison bounds a MEASURE OF THE RETURNED VARIABLE by n, and the
// variable is not assigned between the comparison and the return. Measures of a string variable X:
//   len(X)                       (bytes ≥ runes)
//   utf8.RuneCountInString(X), len([]rune(X))
//   a counter c of a `for … range X` loop: c is 0 before the loop, incremented exactly once per iteration
//   (a top-level c++ of the body, no continue before it), every break out of the loop happens where
//   c > n, X and n are not assigned in the loop; then, after the loop, c ≤ n implies the loop ran to the
//   end and c is the number of runes of X.
// Comparisons are read as linear facts M - n ≤ k over the literals of the edge conditions (if, switch,
// negation, &&/||, boolean locals with one definition; `M <= n`, `n >= M`, `M < n+1`, `!(M > n)` are the
// same fact). k ≤ 0 is required. A return of a variable whose bound is on ANOTHER variable (the trimmed
// copy was tested, the original is returned) or is n+1 violates the rule.
//
// Returns of other forms (constants, concatenations with the ellipsis) are not covered: their bound is
// arithmetic on rune positions.

import (
	"go/ast"
	"go/token"
	"go/types"

	"golang.org/x/tools/go/cfg"
)

func init() {
	p := registry["C25"]
	if p == nil {
		return
	}
	run := p.run
	p.run = func(r *Run) { run(r); c25BoundedPassThrough(r) }
	p.explain += " R-12: every `return X` of a string variable in Abbreviate(s, n) is reached only across a comparison that bounds len(X), the rune count of X or a rune counter of a range loop over X by n, with X unassigned in between: the string returned unabbreviated is the one that was measured."
	for i, s := range p.notCov {
		if len(s) > 10 && s[:10] == "Abbreviate" {
			p.notCov[i] = "Abbreviate's length bound on the abbreviated result s+\"...\" (arithmetic on rune positions; the unabbreviated exits are R-12), case/search helpers other than the word-boundary predicate versus their Unicode definitions"
		}
	}
}

// c25Lin is mCoef*M + nCoef*n + c.
type c25Lin struct {
	m, n, c int64
	ok      bool
}

type c25Bound struct {
	fi      *FuncInfo
	info    *types.Info
	g       *CFGInfo
	nPar    *types.Var
	counter map[types.Object]string // validated range counters of X ("" = valid, else reason)
	loopOf  map[types.Object]*ast.RangeStmt
	leaves  []*ast.BinaryExpr // comparisons read by the last calls of facts
}

// measure reports whether e measures string variable X (or, when X is nil, is the raw variable cnt).
func (b *c25Bound) measure(e ast.Expr, X types.Object, cnt types.Object) bool {
	e = ast.Unparen(e)
	if cnt != nil {
		return objOfIdent(b.info, e) == cnt
	}
	switch x := e.(type) {
	case *ast.CallExpr:
		if len(x.Args) != 1 {
			return false
		}
		if isBuiltinCall(b.info, x, "len") {
			a := ast.Unparen(x.Args[0])
			if objOfIdent(b.info, a) == X {
				return true
			}
			// len([]rune(X))
			if cv, ok := a.(*ast.CallExpr); ok && len(cv.Args) == 1 {
				if tv, ok := b.info.Types[cv.Fun]; ok && tv.IsType() && typeStr(tv.Type) == "[]rune" || ok && tv.IsType() && typeStr(tv.Type) == "[]int32" {
					return objOfIdent(b.info, cv.Args[0]) == X
				}
			}
			return false
		}
		if fn := callee(b.info, x); fn != nil && fn.Pkg() != nil && fn.Pkg().Path() == "unicode/utf8" && fn.Name() == "RuneCountInString" {
			return objOfIdent(b.info, x.Args[0]) == X
		}
	case *ast.Ident:
		o := objOfIdent(b.info, x)
		if v, ok := o.(*types.Var); ok && v != X {
			if bt, ok := v.Type().Underlying().(*types.Basic); ok && bt.Info()&types.IsInteger != 0 {
				return b.rangeCounter(v, X) == ""
			}
		}
	}
	return false
}

func (b *c25Bound) lin(e ast.Expr, X, cnt types.Object) c25Lin {
	e = ast.Unparen(e)
	if v, ok := intValue(b.info, e); ok {
		return c25Lin{c: v, ok: true}
	}
	if objOfIdent(b.info, e) == types.Object(b.nPar) {
		return c25Lin{n: 1, ok: true}
	}
	if b.measure(e, X, cnt) {
		return c25Lin{m: 1, ok: true}
	}
	if be, ok := e.(*ast.BinaryExpr); ok && (be.Op == token.ADD || be.Op == token.SUB) {
		l, r := b.lin(be.X, X, cnt), b.lin(be.Y, X, cnt)
		if l.ok && r.ok {
			if be.Op == token.SUB {
				r.m, r.n, r.c = -r.m, -r.n, -r.c
			}
			return c25Lin{m: l.m + r.m, n: l.n + r.n, c: l.c + r.c, ok: true}
		}
	}
	return c25Lin{}
}

// bounds reads literal l as facts about t = M - n: t ≤ up and/or t ≥ lo.
func (b *c25Bound) bounds(l Lit, X, cnt types.Object) (up int64, hasUp bool, lo int64, hasLo bool) {
	if l.Tag != nil {
		return
	}
	return b.facts(l.Expr, l.Truth, X, cnt, 0)
}

// facts: the bounds on t = M - n implied by "e evaluates to truth". Negation, && and || (a conjunction
// gives the tighter of the two bounds, a disjunction the looser and only if both sides give one), boolean
// locals with a single definition, and comparisons of linear terms.
func (b *c25Bound) facts(e ast.Expr, truth bool, X, cnt types.Object, depth int) (up int64, hasUp bool, lo int64, hasLo bool) {
	e = ast.Unparen(e)
	if depth > 8 {
		return
	}
	switch x := e.(type) {
	case *ast.UnaryExpr:
		if x.Op == token.NOT {
			return b.facts(x.X, !truth, X, cnt, depth+1)
		}
		return
	case *ast.Ident:
		if v, ok := b.info.Uses[x].(*types.Var); ok && v.Pkg() != nil && v.Parent() != v.Pkg().Scope() {
			if rhs := c25SingleDef(b.info, b.fi.Decl.Body, v); rhs != nil {
				return b.facts(rhs, truth, X, cnt, depth+1)
			}
		}
		return
	}
	be, ok := e.(*ast.BinaryExpr)
	if !ok {
		return
	}
	if be.Op == token.LAND || be.Op == token.LOR {
		u1, hu1, l1, hl1 := b.facts(be.X, truth, X, cnt, depth+1)
		u2, hu2, l2, hl2 := b.facts(be.Y, truth, X, cnt, depth+1)
		if (be.Op == token.LAND) == truth { // both hold
			switch {
			case hu1 && hu2:
				up, hasUp = min(u1, u2), true
			case hu1:
				up, hasUp = u1, true
			case hu2:
				up, hasUp = u2, true
			}
			switch {
			case hl1 && hl2:
				lo, hasLo = max(l1, l2), true
			case hl1:
				lo, hasLo = l1, true
			case hl2:
				lo, hasLo = l2, true
			}
			return
		}
		// one of them holds
		if hu1 && hu2 {
			up, hasUp = max(u1, u2), true
		}
		if hl1 && hl2 {
			lo, hasLo = min(l1, l2), true
		}
		return
	}
	op := be.Op
	switch op {
	case token.LSS, token.LEQ, token.GTR, token.GEQ, token.EQL, token.NEQ:
	default:
		return
	}
	L, R := b.lin(be.X, X, cnt), b.lin(be.Y, X, cnt)
	if !L.ok || !R.ok {
		return
	}
	m, n, c := L.m-R.m, L.n-R.n, L.c-R.c // (m*M + n*N + c) op 0
	flip := map[token.Token]token.Token{token.LSS: token.GTR, token.GTR: token.LSS, token.LEQ: token.GEQ, token.GEQ: token.LEQ, token.EQL: token.EQL, token.NEQ: token.NEQ}
	neg := map[token.Token]token.Token{token.LSS: token.GEQ, token.GEQ: token.LSS, token.LEQ: token.GTR, token.GTR: token.LEQ, token.EQL: token.NEQ, token.NEQ: token.EQL}
	switch {
	case m == 1 && n == -1:
	case m == -1 && n == 1:
		c, op = -c, flip[op]
	default:
		return
	}
	if !truth {
		op = neg[op]
	}
	b.leaves = append(b.leaves, be)
	// t + c op 0
	switch op {
	case token.LEQ:
		return -c, true, 0, false
	case token.LSS:
		return -c - 1, true, 0, false
	case token.EQL:
		return -c, true, -c, true
	case token.GEQ:
		return 0, false, -c, true
	case token.GTR:
		return 0, false, 1 - c, true
	}
	return
}

// rangeCounter validates c as the rune counter of a range loop over X; "" when valid.
func (b *c25Bound) rangeCounter(c *types.Var, X types.Object) string {
	if why, ok := b.counter[c]; ok {
		return why
	}
	b.counter[c] = "recursive" // a counter is never defined through itself
	why := b.rangeCounter1(c, X)
	b.counter[c] = why
	return why
}

func (b *c25Bound) rangeCounter1(c *types.Var, X types.Object) string {
	info := b.info
	body := b.fi.Decl.Body
	self := map[types.Object]bool{c: true}
	// the loops in whose body c is written
	var loops []*ast.RangeStmt
	ast.Inspect(body, func(m ast.Node) bool {
		if rs, ok := m.(*ast.RangeStmt); ok && c25Writes(info, rs.Body, self, false) {
			loops = append(loops, rs)
		}
		if fs, ok := m.(*ast.ForStmt); ok && c25Writes(info, fs, self, false) {
			loops = append(loops, nil)
		}
		return true
	})
	if len(loops) != 1 || loops[0] == nil {
		return "not written in exactly one range loop"
	}
	L := loops[0]
	if objOfIdent(info, L.X) != X {
		return "the loop does not range over the returned variable"
	}
	if objOfIdent(info, L.Key) == types.Object(c) || objOfIdent(info, L.Value) == types.Object(c) {
		return "is the key or value of the loop"
	}
	// X and n unassigned in the loop; n unassigned anywhere
	if c25Writes(info, L.Body, map[types.Object]bool{X: true}, false) {
		return "the ranged variable is assigned in the loop"
	}
	if c25Writes(info, body, map[types.Object]bool{b.nPar: true}, false) {
		return "the bound parameter is assigned"
	}
	// exactly one write in the body: a top-level increment by one
	var inc ast.Stmt
	for _, s := range L.Body.List {
		if !c25Writes(info, s, self, false) {
			continue
		}
		if inc != nil {
			return "written more than once in the loop"
		}
		switch x := s.(type) {
		case *ast.IncDecStmt:
			if x.Tok != token.INC || objOfIdent(info, x.X) != types.Object(c) {
				return "not incremented by one"
			}
		case *ast.AssignStmt:
			one := false
			if len(x.Lhs) == 1 && len(x.Rhs) == 1 && objOfIdent(info, x.Lhs[0]) == types.Object(c) {
				if v, ok := intValue(info, x.Rhs[0]); ok && v == 1 && x.Tok == token.ADD_ASSIGN {
					one = true
				}
			}
			if !one {
				return "not incremented by one"
			}
		default:
			return "incremented under a condition"
		}
		inc = s
	}
	if inc == nil {
		return "not incremented at the top level of the loop body"
	}
	// no continue / goto before the increment, breaks out of the loop only where c > n
	why := ""
	par := b.g.P.Parents(b.fi.File)
	ast.Inspect(L.Body, func(m ast.Node) bool {
		if _, ok := m.(*ast.FuncLit); ok {
			return false
		}
		br, ok := m.(*ast.BranchStmt)
		if !ok || why != "" {
			return true
		}
		switch br.Tok {
		case token.GOTO:
			why = "goto in the loop"
		case token.CONTINUE:
			// a continue of an inner loop does not skip the increment
			inner := false
			for p := par[br]; p != nil && p != ast.Node(L); p = par[p] {
				switch p.(type) {
				case *ast.ForStmt, *ast.RangeStmt:
					inner = br.Label == nil
				}
			}
			if !inner && br.Pos() < inc.Pos() {
				why = "a continue skips the increment"
			}
		case token.BREAK:
			inner := false
			for p := par[br]; p != nil && p != ast.Node(L); p = par[p] {
				switch p.(type) {
				case *ast.ForStmt, *ast.RangeStmt, *ast.SwitchStmt, *ast.TypeSwitchStmt, *ast.SelectStmt:
					inner = br.Label == nil
				}
			}
			if inner {
				return true
			}
			// go/cfg has no node for a break: the conditions of the enclosing if / case clauses hold at
			// the break (the counter only grows in the loop and n is never assigned, so c > n stays true)
			exceeds := false
			var child ast.Node = br
			for p := par[br]; p != nil && p != ast.Node(L) && !exceeds; child, p = p, par[p] {
				var lits []Lit
				switch x := p.(type) {
				case *ast.IfStmt:
					if child == ast.Node(x.Body) {
						lits = litsOf(x.Cond, nil, true)
					} else if x.Else != nil && child == ast.Node(x.Else) {
						lits = litsOf(x.Cond, nil, false)
					}
				case *ast.CaseClause:
					if sw, ok := par[par[x]].(*ast.SwitchStmt); ok && sw.Tag == nil && len(x.List) == 1 {
						lits = litsOf(x.List[0], nil, true)
					}
				}
				for _, l := range lits {
					if _, _, lo, hasLo := b.bounds(l, nil, c); hasLo && lo >= 1 {
						exceeds = true
					}
				}
			}
			if !exceeds {
				why = "a break leaves the loop where the counter is not known to exceed n"
			}
		}
		return true
	})
	if why != "" {
		return why
	}
	// outside the loop, every write from which the loop is reachable sets c to the constant 0
	lb, _ := b.g.Locate(L.X)
	if lb == nil {
		return "loop not found in the control-flow graph"
	}
	zeroInit := false
	for _, blk := range b.g.G.Blocks {
		for _, nd := range blk.Nodes {
			if _, isLoop := nd.(*ast.RangeStmt); isLoop || containsNode(L.Body, nd) || !c25Writes(info, nd, self, false) {
				continue // the RangeStmt node stands for the loop header; its body has its own nodes
			}
			if blk != lb && !b.g.reachable(blk, lb, nil, nil) {
				continue // after the loop: the variable is reused
			}
			isZero := false
			switch x := nd.(type) {
			case *ast.AssignStmt:
				for i, l := range x.Lhs {
					if objOfIdent(info, l) == types.Object(c) && len(x.Lhs) == len(x.Rhs) && (x.Tok == token.DEFINE || x.Tok == token.ASSIGN) {
						if v, ok := intValue(info, x.Rhs[i]); ok && v == 0 {
							isZero = true
						}
					}
				}
			case *ast.DeclStmt:
				isZero = true
				ast.Inspect(x, func(m ast.Node) bool {
					if vs, ok := m.(*ast.ValueSpec); ok {
						for i, id := range vs.Names {
							if info.Defs[id] == types.Object(c) && len(vs.Values) > 0 {
								v, ok := int64(0), false
								if len(vs.Values) == len(vs.Names) {
									v, ok = intValue(info, vs.Values[i])
								}
								if !ok || v != 0 {
									isZero = false
								}
							}
						}
					}
					return true
				})
			}
			if !isZero {
				return "assigned something else than 0 before the loop"
			}
			zeroInit = true
		}
	}
	if !zeroInit {
		return "not initialised before the loop"
	}
	b.loopOf[c] = L
	return ""
}

// c25ReachFrom reports whether (tb,ti) can be reached from just after (fb,fi) without crossing a cut edge.
func c25ReachFrom(g *CFGInfo, fb *cfg.Block, fi int, tb *cfg.Block, ti int, cut func(b *cfg.Block, i int) bool) bool {
	if fb == tb && fi < ti {
		return true
	}
	for i, s := range fb.Succs {
		if cut != nil && cut(fb, i) {
			continue
		}
		if s == tb || g.reachable(s, tb, cut, nil) {
			return true
		}
	}
	return false
}

func c25BoundedPassThrough(r *Run) {
	const R = "R-12"
	// the length-limiting builtin: exported func(string, int) string
	var cands []*FuncInfo
	for _, fi := range r.P.Funcs("builtin") {
		if r.P.isTestFile(fi.File) || fi.Obj == nil || !fi.Obj.Exported() || fi.Decl.Recv != nil {
			continue
		}
		sig := fi.Obj.Type().(*types.Signature)
		if sig.Params().Len() == 2 && sig.Results().Len() == 1 && typeStr(sig.Params().At(0).Type()) == "string" && typeStr(sig.Params().At(1).Type()) == "int" && typeStr(sig.Results().At(0).Type()) == "string" {
			cands = append(cands, fi)
		}
	}
	if len(cands) > 1 {
		var named []*FuncInfo
		for _, fi := range cands {
			if fi.Decl.Name.Name == "Abbreviate" {
				named = append(named, fi)
			}
		}
		cands = named
	}
	if !r.Anchor(R, "the length-limiting builtin func(s string, n int) string (Abbreviate)", len(cands) == 1) {
		return
	}
	fi := cands[0]
	info := fi.Pkg.TypesInfo
	sig := fi.Obj.Type().(*types.Signature)
	g := r.P.CFGOf(fi)
	b := &c25Bound{fi: fi, info: info, g: g, nPar: sig.Params().At(1), counter: map[types.Object]string{}, loopOf: map[types.Object]*ast.RangeStmt{}}
	var rets []*ast.ReturnStmt
	ast.Inspect(fi.Decl.Body, func(m ast.Node) bool {
		switch x := m.(type) {
		case *ast.FuncLit:
			return false
		case *ast.ReturnStmt:
			rets = append(rets, x)
		}
		return true
	})
	for _, ret := range rets {
		if len(ret.Results) != 1 {
			continue
		}
		X, ok := objOfIdent(info, ret.Results[0]).(*types.Var)
		if !ok || X.Pkg() == nil || X.Parent() == X.Pkg().Scope() {
			continue
		}
		o := r.Ob(R, fi.Name()+"#return:"+X.Name(), ret.Pos())
		rb, ri := g.Locate(ret)
		if rb == nil {
			o.Unknown("return not found in the control-flow graph")
			continue
		}
		fits := func(l Lit) bool {
			b.leaves = nil
			up, hasUp, _, _ := b.bounds(l, X, nil)
			if !hasUp || up > 0 {
				return false
			}
			// a counter bound holds for the whole string only once the loop is over: the comparison is
			// evaluated outside the loop, after it (the loop dominates it), and so is the return
			ok := true
			for _, ex := range b.leaves {
				ast.Inspect(ex, func(m ast.Node) bool {
					id, isId := m.(*ast.Ident)
					if !isId {
						return true
					}
					L := b.loopOf[objOfIdent(info, id)]
					if L == nil {
						return true
					}
					lb, _ := g.Locate(L.X)
					eb, _ := g.Locate(ex)
					if containsNode(L, ex) || containsNode(L, ret) || lb == nil || eb == nil || !g.Dominates(lb, eb) {
						ok = false
					}
					return true
				})
			}
			return ok
		}
		cut := func(blk *cfg.Block, i int) bool {
			for _, l := range g.edgeLits(blk, i) {
				if fits(l) {
					return true
				}
			}
			return false
		}
		guarded := g.GuardedBy(ret, fits)
		// no assignment of X may reach the return without crossing such an edge again; a counter's loop
		// must not be followed by an assignment of X that reaches the return at all
		stale := ""
		self := map[types.Object]bool{X: true}
		var writers []ast.Node
		for _, blk := range g.G.Blocks {
			for k, nd := range blk.Nodes {
				if !c25Writes(info, nd, self, false) {
					continue
				}
				if _, isRange := nd.(*ast.RangeStmt); isRange {
					continue
				}
				if c25ReachFrom(g, blk, k, rb, ri, nil) {
					writers = append(writers, nd)
				}
				if guarded && c25ReachFrom(g, blk, k, rb, ri, cut) {
					stale = "it is assigned at " + r.P.Pos(nd.Pos()) + " after the comparison"
				}
			}
		}
		if guarded && stale == "" {
			for c, L := range b.loopOf {
				_ = c
				lb, li := g.Locate(L.X)
				for _, w := range writers {
					wb, wi := g.Locate(w)
					if lb != nil && wb != nil && !containsNode(L, w) && c25ReachFrom(g, lb, li, wb, wi+1, nil) {
						stale = "it is assigned at " + r.P.Pos(w.Pos()) + " after the loop that counted its runes"
					}
				}
			}
		}
		if guarded && stale == "" {
			o.OK("`return %s` is reached only across a comparison bounding a measure of %s (len, rune count or range counter) by %s, and %s is not assigned in between", X.Name(), X.Name(), b.nPar.Name(), X.Name())
			continue
		}
		// classify
		weaker := int64(0)
		hasWeaker := g.GuardedBy(ret, func(l Lit) bool {
			up, hasUp, _, _ := b.bounds(l, X, nil)
			if hasUp && up > 0 {
				weaker = up
			}
			return hasUp
		})
		isParam := c25ParamIndex(fi, X) >= 0
		switch {
		case stale != "":
			o.Unknown("`return %s`: a comparison bounds %s by %s, but %s: the value returned is not the value measured", X.Name(), X.Name(), b.nPar.Name(), stale)
		case hasWeaker && weaker > 0:
			o.Bad("`return %s` is reached where %s is only known to measure at most %s+%d: %s returns a string of more than %s runes", X.Name(), X.Name(), b.nPar.Name(), weaker, fi.Name(), b.nPar.Name())
		case isParam && len(writers) == 0:
			o.Bad("`return %s` returns the caller's string as it is on a path where no comparison bounds len(%s) or its rune count by %s (a comparison on another variable, e.g. a trimmed copy, says nothing about %s): %s(%s, %s) can return more than %s runes", X.Name(), X.Name(), b.nPar.Name(), X.Name(), fi.Name(), X.Name(), b.nPar.Name(), b.nPar.Name())
		default:
			why := ""
			for c, w := range b.counter {
				if w != "" {
					why += "; " + c.Name() + " is not a rune counter: " + w
				}
			}
			o.Unknown("`return %s`: no comparison on every path bounds len(%s), its rune count or a range counter over it by %s; that the result has at most %s runes cannot be read from the source%s", X.Name(), X.Name(), b.nPar.Name(), b.nPar.Name(), why)
		}
	}
	r.Require(R, 1)
}
