package main

// SSA and call-graph access (engines E3, E5 of DESIGN.md §4). Built lazily, once per Prog.

import (
	"go/types"

	"golang.org/x/tools/go/callgraph"
	"golang.org/x/tools/go/callgraph/cha"
	"golang.org/x/tools/go/callgraph/vta"
	"golang.org/x/tools/go/ssa"
	"golang.org/x/tools/go/ssa/ssautil"
)

type ssaState struct {
	prog *ssa.Program
	pkgs []*ssa.Package
	cha  *callgraph.Graph
	vta  *callgraph.Graph
}

// SSA builds the SSA form of the whole program (module packages and dependencies).
func (p *Prog) SSA() *ssaState {
	if p.ssa != nil {
		return p.ssa
	}
	prog, pkgs := ssautil.AllPackages(p.Pkgs, ssa.InstantiateGenerics)
	prog.Build()
	p.ssa = &ssaState{prog: prog, pkgs: pkgs}
	return p.ssa
}

// SSAFunc returns the SSA function of a declared function.
func (p *Prog) SSAFunc(fi *FuncInfo) *ssa.Function {
	if fi == nil || fi.Obj == nil {
		return nil
	}
	return p.SSA().prog.FuncValue(fi.Obj)
}

func (p *Prog) SSAFuncOf(fn *types.Func) *ssa.Function { return p.SSA().prog.FuncValue(fn) }

// CHA returns the class-hierarchy call graph (an upper bound on callers).
func (p *Prog) CHA() *callgraph.Graph {
	s := p.SSA()
	if s.cha == nil {
		s.cha = cha.CallGraph(s.prog)
	}
	return s.cha
}

// VTA returns the variable-type-analysis call graph seeded with CHA (the most precise available here).
func (p *Prog) VTA() *callgraph.Graph {
	s := p.SSA()
	if s.vta == nil {
		s.vta = vta.CallGraph(ssautil.AllFunctions(s.prog), p.CHA())
	}
	return s.vta
}

// Graph picks the call graph for the tier.
func (r *Run) Graph() *callgraph.Graph {
	if r.Tier == "thorough" {
		return r.P.VTA()
	}
	return r.P.CHA()
}

// reachableFrom returns the functions reachable from roots in g.
func reachableFrom(g *callgraph.Graph, roots ...*ssa.Function) map[*ssa.Function]bool {
	seen := map[*ssa.Function]bool{}
	var stack []*ssa.Function
	for _, r := range roots {
		if r != nil && !seen[r] {
			seen[r] = true
			stack = append(stack, r)
		}
	}
	for len(stack) > 0 {
		f := stack[len(stack)-1]
		stack = stack[:len(stack)-1]
		n := g.Nodes[f]
		if n == nil {
			continue
		}
		for _, e := range n.Out {
			c := e.Callee.Func
			if !seen[c] {
				seen[c] = true
				stack = append(stack, c)
			}
		}
	}
	return seen
}

// callersOf lists the call-graph edges into fn.
func callersOf(g *callgraph.Graph, fn *ssa.Function) []*callgraph.Edge {
	n := g.Nodes[fn]
	if n == nil {
		return nil
	}
	return n.In
}

// inModule reports whether an SSA function belongs to the scriggo module.
func inModule(f *ssa.Function) bool {
	if f == nil {
		return false
	}
	pk := f.Package()
	if pk == nil && f.Parent() != nil {
		return inModule(f.Parent())
	}
	if pk == nil && f.Origin() != nil {
		pk = f.Origin().Package()
	}
	return pk != nil && pk.Pkg != nil && len(pk.Pkg.Path()) >= len(modulePath) && pk.Pkg.Path()[:len(modulePath)] == modulePath
}

func ssaFuncName(f *ssa.Function) string {
	if f == nil {
		return "?"
	}
	if f.Object() != nil {
		if fn, ok := f.Object().(*types.Func); ok {
			return funcKey(fn)
		}
	}
	if f.Parent() != nil {
		return ssaFuncName(f.Parent()) + "$" + f.Name()
	}
	return f.String()
}
