package main

// C05 R-14, R-15 (added after defects reported on the unmodified tree).
//
// R-14  the frame pointer survives a panic of foreign code. A function of package runtime that changes
//       vm.fp and then calls code that is not the interpreter's (reflect.Value.Call / CallSlice, or a
//       function value obtained from a type switch on the native function) restores vm.fp in a deferred
//       function: a native function can panic, the panic is recovered by the run loop, and both the
//       classification of the panic (convertPanic reads the callee register of OpCallIndirect) and the
//       finalization of the caller's named results use vm.fp. (Found: callNative restored vm.fp only on
//       return; `f := h.Panic; f("x")` made Run panic in the host.)
//
// R-15  every opcode from whose handler a native function can be called is classified as such. From the
//       clause `case OpX` of the interpreter loop, follow static calls inside package runtime (depth ≤ 4);
//       if the function of R-14 (the one calling foreign code) is reachable, OpX must be listed in the
//       panic classifier's switch — otherwise whatever a native function panics with there is a fatal
//       error, i.e. a host panic, while the same function called directly gives a recoverable panic.

import (
	"go/ast"
	"go/types"
	"sort"
)

func init() {
	p := registry["C05"]
	if p == nil {
		return
	}
	run := p.run
	p.run = func(r *Run) { run(r); c05ForeignCalls(r) }
	p.explain += " R-14: a function that shifts vm.fp and calls foreign code restores vm.fp in a deferred function. R-15: every opcode whose handler can reach the native-call function is listed in the panic classifier."
}

func c05ForeignCalls(r *Run) {
	const R14, R15 = "R-14", "R-15"
	const rel = "internal/runtime"
	byObj := map[*types.Func]*FuncInfo{}
	var fns []*FuncInfo
	for _, fi := range r.P.Funcs(rel) {
		if r.P.isTestFile(fi.File) || fi.Obj == nil {
			continue
		}
		byObj[fi.Obj] = fi
		fns = append(fns, fi)
	}
	// functions calling foreign code
	foreign := map[*types.Func]bool{}
	for _, fi := range fns {
		info := fi.Pkg.TypesInfo
		callsForeign := false
		for _, c := range calls(fi.Decl.Body, false) {
			if f := callee(info, c); f != nil && (isPkgFunc(f, "reflect", "Value", "Call") || isPkgFunc(f, "reflect", "Value", "CallSlice")) {
				callsForeign = true
			}
		}
		if !callsForeign {
			continue
		}
		// does it assign vm.fp (whole or an element) ?
		assignsFP := false
		isFP := func(e ast.Expr) bool {
			e = ast.Unparen(e)
			if ix, ok := e.(*ast.IndexExpr); ok {
				e = ast.Unparen(ix.X)
			}
			sel, ok := e.(*ast.SelectorExpr)
			if !ok || sel.Sel.Name != "fp" {
				return false
			}
			s, ok := info.Selections[sel]
			return ok && s.Obj().(*types.Var).IsField()
		}
		var deferRestores bool
		ast.Inspect(fi.Decl.Body, func(m ast.Node) bool {
			switch s := m.(type) {
			case *ast.DeferStmt:
				if fl, ok := s.Call.Fun.(*ast.FuncLit); ok {
					ast.Inspect(fl.Body, func(q ast.Node) bool {
						if as, ok := q.(*ast.AssignStmt); ok {
							for _, l := range as.Lhs {
								if isFP(l) {
									if _, isIx := ast.Unparen(l).(*ast.IndexExpr); !isIx {
										deferRestores = true
									}
								}
							}
						}
						return true
					})
				}
				return false
			case *ast.AssignStmt:
				for _, l := range s.Lhs {
					if isFP(l) {
						assignsFP = true
					}
				}
			case *ast.IncDecStmt:
				if isFP(s.X) {
					assignsFP = true
				}
			}
			return true
		})
		foreign[fi.Obj] = true
		if !assignsFP {
			continue
		}
		o := r.Ob(R14, fi.Name()+"#fp-restored-on-panic", fi.Decl.Pos())
		if deferRestores {
			o.OK("vm.fp is assigned in a deferred function: restored also when the foreign code panics")
		} else {
			o.Bad("%s shifts vm.fp and calls foreign code (reflect.Value.Call) but restores vm.fp only on the normal path: if the native function panics, the run loop recovers with a shifted frame pointer — the panic is misclassified (fatal error, a host panic) and named results are finalized from the wrong frame", fi.Name())
		}
	}
	r.Require(R14, 1)

	// ---- R-15
	sub := NewRun("C01", r.Tier, r.P)
	x := &c01{r: sub, rt: rel, opName: map[int64]string{}, kinds: map[string]int64{}, kindName: map[int64]string{}}
	x.opT = r.P.Named(rel, "Operation")
	if !r.Anchor(R15, "runtime.Operation", x.opT != nil) {
		return
	}
	x.ops = EnumConsts(x.opT)
	for _, c := range x.ops {
		v, _ := constantInt64(c)
		x.opName[v] = c.Name()
	}
	x.findLoop()
	if !r.Anchor(R15, "interpreter loop", x.run != nil) {
		return
	}
	cls, csw := x.findClassifier()
	if !r.Anchor(R15, "panic classifier", cls != nil) {
		return
	}
	listed := coverOfSwitch(cls.Pkg.TypesInfo, csw).Vals
	if !r.Anchor(R15, "a function of package runtime calling reflect.Value.Call (the native call)", len(foreign) > 0) {
		return
	}
	// static reachability inside the package
	reach := map[*types.Func]int{} // 0 unknown, 1 reaches, 2 does not
	var reaches func(f *types.Func, depth int) bool
	reaches = func(f *types.Func, depth int) bool {
		if foreign[f] {
			return true
		}
		if depth == 0 {
			return false
		}
		if v := reach[f]; v != 0 && depth >= 4 {
			return v == 1
		}
		fi := byObj[f]
		if fi == nil || fi.Obj == x.run.Obj {
			return false
		}
		res := false
		for _, c := range calls(fi.Decl.Body, false) {
			if g := callee(fi.Pkg.TypesInfo, c); g != nil && g != f && byObj[g] != nil && reaches(g, depth-1) {
				res = true
				break
			}
		}
		if depth >= 4 {
			if res {
				reach[f] = 1
			} else {
				reach[f] = 2
			}
		}
		return res
	}
	info := x.run.Pkg.TypesInfo
	n := 0
	for _, h := range x.handlers() {
		via := ""
		for _, st := range h.clause.Body {
			for _, c := range calls(st, false) {
				if g := callee(info, c); g != nil && byObj[g] != nil && g != x.run.Obj && reaches(g, 4) {
					via = funcKey(g)
				}
			}
			// `go` statements run in another goroutine: not recovered by this loop
		}
		if via == "" {
			continue
		}
		var labels []int64
		labels = append(labels, h.labels...)
		sort.Slice(labels, func(i, j int) bool { return labels[i] < labels[j] })
		for _, v := range labels {
			n++
			o := r.Ob(R15, x.key(x.label(v)+":native-call"), h.clause.Pos())
			if listed[v] != nil {
				o.OK("the handler can call a native function (through %s) and %s has a case for the opcode", via, funcKey(cls.Obj))
			} else {
				o.Bad("the handler of %s can call a native function (through %s) but %s has no case for %s: whatever the native function panics with is a fatal error — Run panics in the host — while the same function called by OpCallNative gives a recoverable panic (e.g. `defer panic(1)` in a function that returns normally)", x.label(v), via, funcKey(cls.Obj), x.label(v))
			}
		}
	}
	if n == 0 {
		r.Ob(R15, x.key("native-call-handlers"), x.run.Decl.Pos()).Unknown("no handler reaching the native call was found: the call graph changed shape")
	}
	r.Require(R15, 2)
}
